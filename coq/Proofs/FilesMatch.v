(** C15, the matchers: whenever the declarative semantics of the manual ([sem_fm] / [sem_fsm],
    Spec/C15.v) gives a verdict, the model of the code gives exactly that verdict - for EVERY
    order in which the OS may list directories.  Consequently: verdicts do not depend on that
    order; -selection composes as a conjunction, -with-pruned as a disjunction. *)
From Coq Require Import NArith ZArith List Bool Arith Lia Permutation.
From Exactly Require Import Lib.Tree Model.Files Spec.C15 Proofs.FilesGen.
Import ListNotations.

(* ------------------------------------------------------------------------------------------ *)
(** * Lists of files: strict (declarative) operations vs the lazy loops of the code *)

Lemma mem_path_In : forall p l, mem_path p l = true <-> In p l.
Proof.
  intros p l. unfold mem_path. rewrite existsb_exists. split.
  - intros [x [Hx E]]. apply path_eqb_eq in E. subst x. exact Hx.
  - intros H. exists p. split; [exact H | apply path_eqb_refl].
Qed.

Lemma mem_path_false : forall p l, mem_path p l = false <-> ~ In p l.
Proof.
  intros p l. split.
  - intros E H. apply mem_path_In in H. congruence.
  - intros H. destruct (mem_path p l) eqn:E; [|reflexivity]. apply mem_path_In in E. contradiction.
Qed.

Lemma has_rel_In : forall k l, has_rel k l = true <-> In k (map e_rel l).
Proof.
  intros k l. unfold has_rel. rewrite existsb_exists, in_map_iff. split.
  - intros [e [He E]]. apply path_eqb_eq in E. eauto.
  - intros [e [E He]]. exists e. split; [exact He | apply path_eqb_eq; exact E].
Qed.

Lemma distinct_paths_NoDup : forall l, distinct_paths l = true <-> NoDup l.
Proof.
  induction l as [|p l IH]; cbn.
  - split; [constructor | reflexivity].
  - rewrite andb_true_iff, negb_true_iff, mem_path_false, IH. split; [intros [H1 H2]; constructor; assumption | intros H; inversion H; auto].
Qed.

Lemma dedup_NoDup : forall l, NoDup (dedup l).
Proof.
  induction l as [|p l IH]; cbn; [constructor|].
  destruct (mem_path p l) eqn:E; [exact IH|]. constructor; [|exact IH].
  apply mem_path_false in E. intros H. apply E. clear E IH.
  induction l as [|q l IHl]; cbn in H; [contradiction|].
  destruct (mem_path q l) eqn:Eq; [right; apply IHl; exact H|]. destruct H as [->|H]; [left; reflexivity | right; apply IHl; exact H].
Qed.

Section Lists.
  Variable sf : elem -> option bool.
  Variable fi : elem -> res bool.
  Hypothesis Hagree : agree sf fi.

  Lemma strict_filter_perm : forall L L', Permutation L L' -> forall F,
    strict_filter sf L = Some F -> exists F', strict_filter sf L' = Some F' /\ Permutation F F'.
  Proof.
    induction 1 as [|e L L' HP IH|e1 e2 L|L1 L2 L3 H1 IH1 H2 IH2]; intros F H.
    - exists F. split; [exact H | apply Permutation_refl].
    - cbn [strict_filter] in *. destruct (sf e) as [b|]; [|discriminate].
      destruct (strict_filter sf L) as [r|] eqn:Er; [|discriminate]. injection H as <-.
      destruct (IH r eq_refl) as [r' [-> P]]. eexists. split; [reflexivity|]. destruct b; [constructor|]; exact P.
    - cbn [strict_filter] in *. destruct (sf e1) as [b1|]; destruct (sf e2) as [b2|]; try discriminate;
        destruct (strict_filter sf L) as [r|]; try discriminate. injection H as <-.
      eexists. split; [reflexivity|]. destruct b1, b2; try apply Permutation_refl. apply perm_swap.
    - destruct (IH1 F H) as [F2 [E2 P2]]. destruct (IH2 F2 E2) as [F3 [E3 P3]]. exists F3. split; [exact E3 | eapply Permutation_trans; eassumption].
  Qed.

  Lemma filter_stream_strict : forall L F, strict_filter sf L = Some F -> filter_stream fi L None = (F, None).
  Proof.
    induction L as [|e L IH]; intros F H; cbn [strict_filter filter_stream] in *; [injection H as <-; reflexivity|].
    destruct (sf e) as [b|] eqn:Eb; [|discriminate]. destruct (strict_filter sf L) as [r|]; [|discriminate].
    injection H as <-. rewrite (Hagree _ _ Eb). rewrite (IH r eq_refl). destruct b; reflexivity.
  Qed.

  Lemma strict_forall_perm : forall L L', Permutation L L' -> forall b,
    strict_forall sf L = Some b -> strict_forall sf L' = Some b.
  Proof.
    induction 1 as [|e L L' HP IH|e1 e2 L|L1 L2 L3 H1 IH1 H2 IH2]; intros b H; [exact H| | |auto].
    - cbn [strict_forall] in *. destruct (sf e) as [b1|]; [|discriminate].
      destruct (strict_forall sf L) as [r|]; [|discriminate]. rewrite (IH r eq_refl). exact H.
    - cbn [strict_forall] in *. destruct (sf e1) as [b1|]; destruct (sf e2) as [b2|]; try discriminate;
        destruct (strict_forall sf L) as [r|]; try discriminate. injection H as <-. f_equal. destruct b1, b2, r; reflexivity.
  Qed.

  Lemma strict_exists_perm : forall L L', Permutation L L' -> forall b,
    strict_exists sf L = Some b -> strict_exists sf L' = Some b.
  Proof.
    induction 1 as [|e L L' HP IH|e1 e2 L|L1 L2 L3 H1 IH1 H2 IH2]; intros b H; [exact H| | |auto].
    - cbn [strict_exists] in *. destruct (sf e) as [b1|]; [|discriminate].
      destruct (strict_exists sf L) as [r|]; [|discriminate]. rewrite (IH r eq_refl). exact H.
    - cbn [strict_exists] in *. destruct (sf e1) as [b1|]; destruct (sf e2) as [b2|]; try discriminate;
        destruct (strict_exists sf L) as [r|]; try discriminate. injection H as <-. f_equal. destruct b1, b2, r; reflexivity.
  Qed.

  Lemma every_loop_strict : forall L b, strict_forall sf L = Some b -> every_loop fi L None = Ok b.
  Proof.
    induction L as [|e L IH]; intros b H; cbn [strict_forall every_loop] in *; [injection H as <-; reflexivity|].
    destruct (sf e) as [b1|] eqn:Eb; [|discriminate]. destruct (strict_forall sf L) as [r|]; [|discriminate].
    injection H as <-. rewrite (Hagree _ _ Eb). destruct b1; [apply IH; reflexivity | reflexivity].
  Qed.

  Lemma any_loop_strict : forall L b, strict_exists sf L = Some b -> any_loop fi L None = Ok b.
  Proof.
    induction L as [|e L IH]; intros b H; cbn [strict_exists any_loop] in *; [injection H as <-; reflexivity|].
    destruct (sf e) as [b1|] eqn:Eb; [|discriminate]. destruct (strict_exists sf L) as [r|]; [|discriminate].
    injection H as <-. rewrite (Hagree _ _ Eb). destruct b1; [reflexivity | apply IH; reflexivity].
  Qed.
End Lists.

Lemma strict_forall_ext_in : forall (f g : elem -> option bool) L,
  (forall e, In e L -> f e = g e) -> strict_forall f L = strict_forall g L.
Proof.
  induction L as [|e L IH]; intros H; cbn [strict_forall]; [reflexivity|].
  rewrite (H e (or_introl eq_refl)), IH; [reflexivity|]. intros e' He'. apply H. right. exact He'.
Qed.

Lemma strict_forall_true : forall (f : elem -> option bool) L, (forall e, In e L -> f e = Some true) -> strict_forall f L = Some true.
Proof.
  induction L as [|e L IH]; intros H; cbn [strict_forall]; [reflexivity|].
  rewrite (H e (or_introl eq_refl)), IH; [reflexivity|]. intros e' He'. apply H. right. exact He'.
Qed.

Lemma filter_stream_true : forall L er, filter_stream (fun _ => Ok true) L er = (L, er).
Proof. induction L as [|e L IH]; intros er; cbn [filter_stream]; [reflexivity | rewrite IH; reflexivity]. Qed.

Lemma forallb_perm : forall A (f : A -> bool) l l', Permutation l l' -> forallb f l = forallb f l'.
Proof.
  induction 1 as [|x l l' HP IH|x y l|l1 l2 l3 H1 IH1 H2 IH2]; cbn; [reflexivity | rewrite IH; reflexivity | | congruence].
  destruct (f x), (f y); reflexivity.
Qed.

Lemma forallb_ext_in : forall A (f g : A -> bool) l, (forall x, In x l -> f x = g x) -> forallb f l = forallb g l.
Proof.
  induction l as [|x l IH]; intros H; cbn; [reflexivity|].
  rewrite (H x (or_introl eq_refl)), IH; [reflexivity|]. intros y Hy. apply H. right. exact Hy.
Qed.

Lemma has_rel_perm : forall k l l', Permutation l l' -> has_rel k l = has_rel k l'.
Proof.
  intros k l l' HP. destruct (has_rel k l) eqn:E1, (has_rel k l') eqn:E2; try reflexivity.
  - apply has_rel_In in E1. assert (In k (map e_rel l')) as H by (eapply Permutation_in; [apply Permutation_map; exact HP | exact E1]).
    apply has_rel_In in H. congruence.
  - apply has_rel_In in E2. assert (In k (map e_rel l)) as H by (eapply Permutation_in; [apply Permutation_map, Permutation_sym; exact HP | exact E2]).
    apply has_rel_In in H. congruence.
Qed.

Lemma distinct_rels_perm : forall l l', Permutation l l' -> distinct_rels l = true -> distinct_rels l' = true.
Proof.
  intros l l' HP H. unfold distinct_rels in *. apply distinct_paths_NoDup in H. apply distinct_paths_NoDup.
  eapply Permutation_NoDup; [apply Permutation_map; exact HP | exact H].
Qed.

(** matches -full: the count-then-names test of the code = "the same set of names" *)
Lemma full_count : forall keys l, NoDup keys -> NoDup (map e_rel l) ->
  forallb (fun k => has_rel k l) keys && forallb (fun e => mem_path (e_rel e) keys) l
  = Nat.eqb (length l) (length keys) && names_ok keys l.
Proof.
  intros keys l Nk Nl. unfold names_ok.
  destruct (forallb (fun e => mem_path (e_rel e) keys) l) eqn:EB; [|rewrite !andb_false_r; reflexivity].
  rewrite !andb_true_r.
  assert (incl (map e_rel l) keys) as I1.
  { intros k Hk. apply in_map_iff in Hk as [e [<- He]]. rewrite forallb_forall in EB. apply mem_path_In. apply EB. exact He. }
  destruct (forallb (fun k => has_rel k l) keys) eqn:EA.
  - assert (incl keys (map e_rel l)) as I2.
    { intros k Hk. rewrite forallb_forall in EA. apply has_rel_In. apply EA. exact Hk. }
    pose proof (NoDup_incl_length Nk I2) as L1. pose proof (NoDup_incl_length Nl I1) as L2. rewrite map_length in *.
    symmetry. apply Nat.eqb_eq. lia.
  - symmetry. apply Nat.eqb_neq. intros El.
    assert (incl keys (map e_rel l)) as I2.
    { apply (NoDup_length_incl Nl); [rewrite map_length; lia | exact I1]. }
    assert (forallb (fun k => has_rel k l) keys = true) as C; [|congruence].
    apply forallb_forall. intros k Hk. apply has_rel_In. apply I2. exact Hk.
Qed.

Lemma remove_path_spec : forall p l, NoDup l -> In p l ->
  (forall q, In q (remove_path p l) <-> In q l /\ q <> p) /\ NoDup (remove_path p l).
Proof.
  induction l as [|x l IH]; intros N H; [contradiction|]. inversion N as [|? ? Nx Nl]; subst. cbn [remove_path].
  destruct (path_eqb p x) eqn:E.
  - apply path_eqb_eq in E. subst x. split; [|exact Nl]. intros q. split.
    + intros Hq. split; [right; exact Hq | intros ->; contradiction].
    + intros [[<-|Hq] Hne]; [contradiction | exact Hq].
  - assert (p <> x) as Hpx by (intros ->; rewrite path_eqb_refl in E; discriminate).
    destruct H as [->|H]; [contradiction|]. destruct (IH Nl H) as [I1 I2]. split.
    + intros q. cbn [In]. rewrite I1. split.
      * intros [<-|[Hq Hne]]; [split; [left; reflexivity | intros ->; contradiction] | split; [right; exact Hq | exact Hne]].
      * intros [[<-|Hq] Hne]; [left; reflexivity | right; split; assumption].
    + constructor; [|exact I2]. rewrite I1. intros [Hx _]. contradiction.
Qed.

(** matches (not -full): the loop of the code that strikes found names off the list *)
Lemma non_full_loop_spec : forall (sfc : path -> elem -> option bool) (fic : path -> elem -> res bool),
  (forall k, agree (sfc k) (fic k)) ->
  forall L remaining b,
    NoDup (map e_rel L) -> NoDup remaining -> remaining <> [] ->
    strict_forall (fun e => if mem_path (e_rel e) remaining then sfc (e_rel e) e else Some true) L = Some b ->
    non_full_loop fic remaining L None = Ok (b && forallb (fun k => has_rel k L) remaining).
Proof.
  intros sfc fic Hag. induction L as [|e L IH]; intros remaining b NL NR Hne H.
  - cbn in *. injection H as <-. destruct remaining as [|k r]; [contradiction | reflexivity].
  - cbn [strict_forall non_full_loop] in *. cbn [map] in NL. inversion NL as [|? ? Ne NL']; subst.
    destruct (mem_path (e_rel e) remaining) eqn:Em.
    + destruct (sfc (e_rel e) e) as [be|] eqn:Es; [|discriminate]. rewrite (Hag _ _ _ Es).
      match type of H with context [strict_forall ?g L] => destruct (strict_forall g L) as [r|] eqn:Er; [|discriminate] end.
      injection H as <-. destruct be; [|reflexivity]. cbn [andb].
      apply mem_path_In in Em. destruct (remove_path_spec _ _ NR Em) as [Rin Rnd].
      assert (forall e', In e' L -> mem_path (e_rel e') remaining = mem_path (e_rel e') (remove_path (e_rel e) remaining)) as Hsame.
      { intros e' He'. assert (e_rel e' <> e_rel e) as Hd by (intros E; apply Ne; rewrite <- E; apply in_map; exact He').
        destruct (mem_path (e_rel e') (remove_path (e_rel e) remaining)) eqn:E2.
        - apply mem_path_In in E2. apply Rin in E2 as [E2 _]. apply mem_path_In. exact E2.
        - apply mem_path_false in E2. apply mem_path_false. intros Hin. apply E2. apply Rin. split; assumption. }
      assert (forallb (fun k => has_rel k (e :: L)) remaining = forallb (fun k => has_rel k L) (remove_path (e_rel e) remaining)) as Hfa.
      { destruct (forallb (fun k => has_rel k L) (remove_path (e_rel e) remaining)) eqn:E2.
        - apply forallb_forall. intros k Hk. unfold has_rel. cbn [existsb]. destruct (path_eqb (e_rel e) k) eqn:Ek; [reflexivity|].
          cbn [orb]. rewrite forallb_forall in E2. apply E2. apply Rin. split; [exact Hk|]. intros ->. rewrite path_eqb_refl in Ek. discriminate.
        - destruct (forallb (fun k => has_rel k (e :: L)) remaining) eqn:E3; [|reflexivity].
          assert (forallb (fun k => has_rel k L) (remove_path (e_rel e) remaining) = true) as C; [|congruence].
          apply forallb_forall. intros k Hk. apply Rin in Hk as [Hk Hd]. rewrite forallb_forall in E3. specialize (E3 k Hk).
          unfold has_rel in E3. cbn [existsb] in E3. destruct (path_eqb (e_rel e) k) eqn:Ek; [apply path_eqb_eq in Ek; congruence | exact E3]. }
      destruct (remove_path (e_rel e) remaining) as [|k0 r0] eqn:Erem.
      * (* every name has been found *)
        rewrite Hfa. cbn [forallb]. rewrite andb_true_r. f_equal.
        assert (strict_forall (fun e0 => if mem_path (e_rel e0) remaining then sfc (e_rel e0) e0 else Some true) L = Some true) as Ht; [|congruence].
        apply strict_forall_true. intros e' He'. rewrite (Hsame e' He'). reflexivity.
      * rewrite Hfa. apply IH; [exact NL' | exact Rnd | discriminate|].
        rewrite <- Er. apply strict_forall_ext_in. intros e' He'. rewrite (Hsame e' He'). reflexivity.
    + match type of H with context [strict_forall ?g L] => destruct (strict_forall g L) as [r|] eqn:Er; [|discriminate] end.
      injection H as <-. cbn [andb]. rewrite (IH remaining r NL' NR Hne Er). f_equal. f_equal.
      apply forallb_ext_in. intros k Hk. unfold has_rel. cbn [existsb].
      destruct (path_eqb (e_rel e) k) eqn:Ek; [|reflexivity].
      apply path_eqb_eq in Ek. subst k. apply mem_path_false in Em. contradiction.
Qed.

(* ------------------------------------------------------------------------------------------ *)
(** * The matchers *)

Scheme fmatcher_mind := Induction for fmatcher Sort Prop
  with fsmatcher_mind := Induction for fsmatcher Sort Prop
  with fcond_mind := Induction for fcond Sort Prop.
Combined Scheme matcher_mutind from fmatcher_mind, fsmatcher_mind, fcond_mind.

Section Matchers.
  Variable scandir : path -> dirc -> dirc.
  Hypothesis scandir_perm : forall p l, Permutation (scandir p l) l.
  Variable O : oracles.

  Definition sel_of (M : fsmodel) : elem -> res bool :=
    match m_sel M with None => fun _ => Ok true | Some f => f end.
  Definition prune_of (M : fsmodel) : elem -> res bool :=
    match m_prune M with None => no_prune | Some f => f end.

  (** The model of the code and the declarative model describe the same directory, and the
      selection / prune matchers of the code give the declarative answers wherever those exist. *)
  Record models_agree (M : fsmodel) (SM : smodel) : Prop := {
    ma_dir : m_dir M = sm_dir SM;
    ma_abs : m_abs M = sm_abs SM;
    ma_cfg : m_cfg M = sm_cfg SM;
    ma_sel : agree (sm_sel SM) (sel_of M);
    ma_prune : agree (sm_prune SM) (prune_of M) }.

  (** The files of the model of the code are, in some order, the declarative set. *)
  Lemma files_spec : forall M SM L, models_agree M SM -> spec_files O SM = Some L ->
    exists L', files scandir O M = (L', None) /\ Permutation L' L.
  Proof.
    intros [dir abs cfg sel prune] [sdir sabs scfg ssel sprune] L [Hd Ha Hc Hs Hp] H.
    cbn [m_dir m_abs m_cfg sm_dir sm_abs sm_cfg sm_sel sm_prune] in *. subst sdir sabs scfg.
    unfold spec_files in H. cbn [sm_cfg sm_dir sm_abs sm_prune sm_sel] in H.
    assert (exists G G', generate scandir O cfg prune dir abs = (G', None) /\ Permutation G' G /\ strict_filter ssel G = Some L) as (G & G' & EG & PG & EF).
    { destruct cfg as [|mn mx].
      - eexists. eexists. split; [reflexivity|]. split; [|exact H]. apply Permutation_map. apply scandir_perm.
      - destruct (walk O sprune mn mx dir [] abs 0) as [G|] eqn:EW; [|discriminate].
        destruct (gen_recursive_spec scandir scandir_perm O sprune (prune_of (FsModel dir abs (Rec mn mx) sel prune)) Hp mn mx dir abs G EW) as [G' [E P]].
        exists G, G'. split; [|split; [exact P | exact H]]. unfold generate. unfold prune_of in E. cbn [m_prune] in E. exact E. }
    destruct (strict_filter_perm ssel G G' (Permutation_sym PG) L EF) as [L' [EF' PL]].
    exists L'. split; [|apply Permutation_sym; exact PL].
    unfold files. cbn [m_cfg m_prune m_dir m_abs m_sel]. rewrite EG.
    pose proof (filter_stream_strict ssel _ Hs G' L' EF') as FS. unfold sel_of in FS. cbn [m_sel] in FS.
    destruct sel as [f|]; [exact FS | rewrite filter_stream_true in FS; exact FS].
  Qed.

  Lemma and_then_some : forall a f b, and_then a f = Some b -> (a = Some true /\ f tt = Some b) \/ (a = Some false /\ b = false).
  Proof. intros [[|]|] f b H; cbn in H; [left; auto | right; injection H as <-; auto | discriminate]. Qed.

  Lemma or_else_some : forall a f b, or_else a f = Some b -> (a = Some false /\ f tt = Some b) \/ (a = Some true /\ b = true).
  Proof. intros [[|]|] f b H; cbn in H; [right; injection H as <-; auto | left; auto | discriminate]. Qed.

  Definition Pf (m : fmatcher) : Prop :=
    forall e b, sem_fm O m e = Some b -> eval_fm scandir O m e = Ok b.
  Definition Ps (m : fsmatcher) : Prop :=
    forall M SM b, models_agree M SM -> sem_fsm O m SM = Some b -> eval_fsm scandir O m M = Ok b.
  Definition Pc (fc : fcond) : Prop :=
    forall key e b, sem_fc O fc key e = Some b -> eval_fc scandir O fc key e = Ok b.

  Lemma eval_fc_NameM : forall nm f rest key e,
    eval_fc scandir O (FCNameM nm f rest) key e =
    if path_eqb (posix_parts nm) key
    then match eval_fm scandir O f e with Ok true => eval_fc scandir O rest key e | r => r end
    else eval_fc scandir O rest key e.
  Proof. reflexivity. Qed.

  Lemma sem_fc_NameM : forall nm f rest key e,
    sem_fc O (FCNameM nm f rest) key e =
    if path_eqb (posix_parts nm) key
    then and_then (sem_fm O f e) (fun _ => sem_fc O rest key e)
    else sem_fc O rest key e.
  Proof. reflexivity. Qed.

  Lemma tm_sound : forall m c b, sem_tm O m c = Some b -> eval_tm O m c = Ok b.
  Proof.
    induction m as [|c'|k|m IH]; intros c b H; cbn [sem_tm eval_tm] in *.
    - congruence.
    - congruence.
    - destruct (text_matches O k c) as [[x|]|]; cbn in *; congruence.
    - destruct (sem_tm O m c) as [bm|] eqn:E; [|discriminate]. rewrite (IH _ _ E). cbn in H. congruence.
  Qed.

  Lemma matchers_sound : (forall m, Pf m) /\ (forall m, Ps m) /\ (forall fc, Pc fc).
  Proof.
    apply matcher_mutind; unfold Pf, Ps, Pc.
    - (* FConst *) intros b e b' H. cbn in *. congruence.
    - (* FType *) intros t e b H. destruct t; cbn in *; congruence.
    - (* FName *) intros part pat e b H. cbn in *. rewrite H. reflexivity.
    - (* FPath *) intros pat e b H. cbn in *. rewrite H. reflexivity.
    - (* FNameRe *) intros part pat e b H. cbn in *. rewrite H. reflexivity.
    - (* FPathRe *) intros pat e b H. cbn in *. rewrite H. reflexivity.
    - (* FContents *) intros tm e b H. cbn [sem_fm eval_fm] in *. destruct (resolve (e_node e)) as [[c|?|?]|]; try discriminate.
      apply tm_sound. exact H.
    - (* FRun *) intros prog e b H. cbn in *. destruct (run_exit0 O prog (e_abs e)) as [[x|]|]; cbn in *; congruence.
    - (* FDirContents *) intros cfg sm IH e b H. cbn [sem_fm eval_fm] in *. destruct (is_dir (e_node e)); [|discriminate].
      eapply IH; [|exact H]. constructor; cbn; try reflexivity; intros x b' E; injection E as <-; reflexivity.
    - (* FNot *) intros a IH e b H. cbn [sem_fm eval_fm] in *. destruct (sem_fm O a e) as [ba|] eqn:Ea; [|discriminate].
      rewrite (IH _ _ Ea). cbn in H. congruence.
    - (* FAnd *) intros a IHa c IHc e b H. cbn [sem_fm eval_fm] in *.
      apply and_then_some in H as [[Ha Hc]|[Ha ->]]; rewrite (IHa _ _ Ha); [apply IHc; exact Hc | reflexivity].
    - (* FOr *) intros a IHa c IHc e b H. cbn [sem_fm eval_fm] in *.
      apply or_else_some in H as [[Ha Hc]|[Ha ->]]; rewrite (IHa _ _ Ha); [apply IHc; exact Hc | reflexivity].
    - (* SConst *) intros b M SM b' _ H. cbn in *. congruence.
    - (* SEmpty *) intros M SM b MA H. cbn [sem_fsm eval_fsm] in *. destruct (spec_files O SM) as [L|] eqn:EL; [|discriminate].
      destruct (files_spec M SM L MA EL) as [L' [EF P]]. rewrite EF. cbn [consume_all fst snd]. cbn in H. injection H as <-.
      f_equal. destruct L' as [|x L']; destruct L as [|y L]; try reflexivity;
        [apply Permutation_nil in P; discriminate | apply Permutation_sym, Permutation_nil in P; discriminate].
    - (* SNumFiles *) intros op n M SM b MA H. cbn [sem_fsm eval_fsm] in *. destruct (spec_files O SM) as [L|] eqn:EL; [|discriminate].
      destruct (files_spec M SM L MA EL) as [L' [EF P]]. rewrite EF. cbn [consume_all fst snd]. cbn in H. injection H as <-.
      rewrite (Permutation_length P). reflexivity.
    - (* SEvery *) intros f IH M SM b MA H. cbn [sem_fsm eval_fsm] in *. destruct (spec_files O SM) as [L|] eqn:EL; [|discriminate].
      destruct (files_spec M SM L MA EL) as [L' [EF P]]. rewrite EF.
      apply (every_loop_strict (sem_fm O f) _ IH). eapply strict_forall_perm; [apply Permutation_sym; exact P | exact H].
    - (* SAny *) intros f IH M SM b MA H. cbn [sem_fsm eval_fsm] in *. destruct (spec_files O SM) as [L|] eqn:EL; [|discriminate].
      destruct (files_spec M SM L MA EL) as [L' [EF P]]. rewrite EF.
      apply (any_loop_strict (sem_fm O f) _ IH). eapply strict_exists_perm; [apply Permutation_sym; exact P | exact H].
    - (* SMatches *) intros full fc IH M SM b MA H. cbn [sem_fsm] in H.
      destruct (spec_files O SM) as [L|] eqn:EL; [|discriminate].
      destruct (distinct_rels L) eqn:ED; cbn [negb] in H; [|discriminate].
      destruct (files_spec M SM L MA EL) as [L' [EF P]].
      pose proof (distinct_rels_perm _ _ (Permutation_sym P) ED) as ED'.
      assert (NoDup (map e_rel L')) as NL' by (apply distinct_paths_NoDup; exact ED').
      pose proof (dedup_NoDup (fc_names fc)) as NK.
      destruct full.
      + (* -full *)
        cbn [eval_fsm]. rewrite EF.
        rewrite (forallb_perm _ _ _ _ (Permutation_sym P)) in H.
        rewrite (forallb_ext_in _ (fun k => has_rel k L) (fun k => has_rel k L') (dedup (fc_names fc))) in H
          by (intros k _; apply has_rel_perm, Permutation_sym; exact P).
        rewrite (full_count _ _ NK NL') in H.
        destruct (Nat.eqb (length L') (length (dedup (fc_names fc)))) eqn:El.
        * apply Nat.eqb_eq in El. rewrite ?El, ?Nat.leb_refl, ?Nat.eqb_refl. cbn [andb] in H.
          destruct (names_ok (dedup (fc_names fc)) L'); [|congruence].
          apply (every_loop_strict (fun e => sem_fc O fc (e_rel e) e)); [intros e' b' E; apply IH; exact E|].
          eapply strict_forall_perm; [apply Permutation_sym; exact P | exact H].
        * cbn [andb] in H. injection H as <-.
          destruct (Nat.leb (length L') (length (dedup (fc_names fc)))); [reflexivity|].
          destruct (Nat.eqb (length L') (S (length (dedup (fc_names fc))))); reflexivity.
      + (* not -full *)
        cbn [eval_fsm].
        match type of H with context [strict_forall ?g L] => destruct (strict_forall g L) as [b1|] eqn:Es; [|discriminate] end.
        injection H as <-.
        destruct (dedup (fc_names fc)) as [|k0 ks] eqn:EK.
        * cbn [forallb]. rewrite andb_true_r. f_equal.
          rewrite strict_forall_true in Es by (intros; reflexivity). congruence.
        * rewrite EF.
          rewrite (forallb_ext_in _ (fun k => has_rel k L) (fun k => has_rel k L') (k0 :: ks))
            by (intros k _; apply has_rel_perm, Permutation_sym; exact P).
          apply (non_full_loop_spec (sem_fc O fc) (eval_fc scandir O fc)); [intros k e' b' E; apply IH; exact E | exact NL' | exact NK | discriminate|].
          eapply strict_forall_perm; [apply Permutation_sym; exact P | exact Es].
    - (* SSelection *) intros f IHf sm IHs M SM b MA H. cbn [sem_fsm eval_fsm] in *.
      eapply IHs; [|exact H]. destruct MA as [Hd Ha Hc Hs Hp]. constructor; cbn; try assumption.
      intros x bx E. apply and_then_some in E as [[E1 E2]|[E1 ->]]; unfold sel_of in *; cbn [m_sel sub_set];
        destruct (m_sel M) as [g|]; unfold conj2; try rewrite (Hs _ _ E1); try (apply IHf; exact E2); try reflexivity.
      specialize (Hs _ _ E1). discriminate.
    - (* SPrune *) intros f IHf sm IHs M SM b MA H. cbn [sem_fsm eval_fsm] in *.
      eapply IHs; [|exact H]. destruct MA as [Hd Ha Hc Hs Hp]. constructor; cbn; try assumption.
      intros x bx E. apply or_else_some in E as [[E1 E2]|[E1 ->]]; unfold prune_of in *; cbn [m_prune prune_model];
        destruct (m_prune M) as [g|]; unfold disj2; try rewrite (Hp _ _ E1); try (apply IHf; exact E2); try reflexivity.
      specialize (Hp _ _ E1). discriminate.
    - (* SNot *) intros a IH M SM b MA H. cbn [sem_fsm eval_fsm] in *. destruct (sem_fsm O a SM) as [ba|] eqn:Ea; [|discriminate].
      rewrite (IH _ _ _ MA Ea). cbn in H. congruence.
    - (* SAnd *) intros a IHa c IHc M SM b MA H. cbn [sem_fsm eval_fsm] in *.
      apply and_then_some in H as [[Ha Hc]|[Ha ->]]; rewrite (IHa _ _ _ MA Ha); [eapply IHc; eassumption | reflexivity].
    - (* SOr *) intros a IHa c IHc M SM b MA H. cbn [sem_fsm eval_fsm] in *.
      apply or_else_some in H as [[Ha Hc]|[Ha ->]]; rewrite (IHa _ _ _ MA Ha); [eapply IHc; eassumption | reflexivity].
    - (* FCNil *) intros key e b H. cbn in *. congruence.
    - (* FCName *) intros nm rest IH key e b H. cbn [sem_fc eval_fc] in *. apply IH. exact H.
    - (* FCNameM *) intros nm f IHf rest IHr key e b H. rewrite eval_fc_NameM. rewrite sem_fc_NameM in H.
      destruct (path_eqb (posix_parts nm) key); [|apply IHr; exact H].
      apply and_then_some in H as [[Ha Hc]|[Ha ->]]; rewrite (IHf _ _ Ha); [apply IHr; exact Hc | reflexivity].
  Qed.
End Matchers.
