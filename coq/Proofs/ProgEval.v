(** Proofs about the evaluation part of Model/Prog.v (argument values, executables, stdin assembly, exit code
    verdicts, captured outcome) and the refinement of the specification at the level of whole cases, C10. *)
From Coq Require Import NArith List Bool Lia.
From Exactly Require Import Model.Prog Spec.C10 Proofs.ProgResolve.
Import ListNotations.
Local Open Scope N_scope.

(** ** argument lists *)
Lemma args_values_app tbl l1 l2 :
  args_values tbl (l1 ++ l2) =
  rbind (args_values tbl l1) (fun v1 => rbind (args_values tbl l2) (fun v2 => Ok (v1 ++ v2))).
Proof.
  induction l1 as [|a l1 IH]; cbn.
  - destruct (args_values tbl l2); reflexivity.
  - destruct (arg_values tbl a) as [v|e]; cbn; [|reflexivity].
    rewrite IH. destruct (args_values tbl l1) as [v1|e]; cbn; [|reflexivity].
    destruct (args_values tbl l2) as [v2|e]; cbn; [|reflexivity].
    now rewrite app_assoc.
Qed.

Lemma args_values_ok_app tbl l1 l2 v1 v2 :
  args_values tbl l1 = Ok v1 -> args_values tbl l2 = Ok v2 -> args_values tbl (l1 ++ l2) = Ok (v1 ++ v2).
Proof. intros H1 H2. rewrite args_values_app, H1, H2. reflexivity. Qed.

(** a string is ONE argument, whatever its value (empty, with spaces, ...) *)
Lemma arg_values_string tbl fs t : frags_text tbl fs = Ok t -> arg_values tbl (AStr fs) = Ok [t].
Proof. intros H. cbn. now rewrite H. Qed.

Lemma arg_values_list_symbol tbl n l : lookup tbl n = Some (VData (DList l)) -> arg_values tbl (ASym n) = Ok l.
Proof. intros H. cbn. now rewrite H. Qed.

Lemma arg_values_string_symbol tbl n t : lookup tbl n = Some (VData (DStr t)) -> arg_values tbl (ASym n) = Ok [t].
Proof. intros H. cbn. now rewrite H. Qed.

Lemma arg_values_path_symbol tbl n t : lookup tbl n = Some (VData (DPath t)) -> arg_values tbl (ASym n) = Ok [t].
Proof. intros H. cbn. now rewrite H. Qed.

(** a list symbol inside a string is rendered with single spaces: still one argument *)
Lemma frag_text_list_symbol tbl n l : lookup tbl n = Some (VData (DList l)) -> frag_text tbl (FSym n) = Ok (join_sp l).
Proof. intros H. cbn. now rewrite H. Qed.

(** ** executables *)
Lemma shell_is_one_string line args : to_executable (DVShell line) args = ExShell (join_sp (line :: args)).
Proof. reflexivity. Qed.

Lemma shell_verbatim line : to_executable (DVShell line) [] = ExShell line.
Proof. reflexivity. Qed.

Lemma non_shell_is_argv d args :
  (forall line, d <> DVShell line) ->
  exists p, to_executable d args = ExArgv (p :: args) /\ (d = DVExe p \/ d = DVSys p).
Proof.
  intros H. destruct d as [p|nm|line].
  - exists p. split; [reflexivity | now left].
  - exists nm. split; [reflexivity | now right].
  - exfalso. now apply (H line).
Qed.

(** ** transformations: first accumulated, first applied *)
Lemma apply_trs_app ts1 ts2 x : apply_trs (ts1 ++ ts2) x = apply_trs ts2 (apply_trs ts1 x).
Proof. unfold apply_trs. now rewrite fold_left_app. Qed.

Lemma apply_trs_cons t ts x : apply_trs (t :: ts) x = apply_trs ts (apply_tr t x).
Proof. reflexivity. Qed.

(** ** stdin assembly *)
Lemma assemble_in_order_app ps1 ps2 :
  ps1 ++ ps2 <> [] ->
  assemble_in_order (ps1 ++ ps2) = Some (concat (map snd ps1) ++ concat (map snd ps2)).
Proof.
  intros H. unfold assemble_in_order.
  destruct (ps1 ++ ps2) eqn:E; [contradiction|].
  rewrite <- E, map_app, concat_app. reflexivity.
Qed.

Lemma assemble_in_order_none ps : assemble_in_order ps = None <-> ps = [].
Proof. destruct ps; cbn; split; intros H; try reflexivity; discriminate. Qed.

(** the order produced before the repair differs *)
Lemma assemble_buffered_differs :
  assemble_buffered [(false, [1]); (true, [2])] <> assemble_in_order [(false, [1]); (true, [2])].
Proof. cbn. discriminate. Qed.

(** ... except when no buffered part precedes a part written through the descriptor *)
Fixpoint direct_first (ps : list part) : bool :=
  match ps with
  | [] => true
  | (true, _) :: ps' => direct_first ps'
  | (false, _) :: ps' => forallb (fun p => negb (fst p)) ps'
  end.

Lemma filter_all_false {A} (f : A -> bool) l : forallb (fun x => negb (f x)) l = true -> filter f l = [].
Proof.
  induction l as [|x l IH]; cbn; [reflexivity|]. intros H. apply andb_true_iff in H as [H1 H2].
  destruct (f x); [discriminate | auto].
Qed.

Lemma filter_all_true {A} (f : A -> bool) l : forallb f l = true -> filter f l = l.
Proof.
  induction l as [|x l IH]; cbn; [reflexivity|]. intros H. apply andb_true_iff in H as [H1 H2].
  rewrite H1. now rewrite IH.
Qed.

Lemma direct_first_split ps :
  direct_first ps = true ->
  concat (map snd (filter fst ps)) ++ concat (map snd (filter (fun p => negb (fst p)) ps)) = concat (map snd ps).
Proof.
  induction ps as [|[b t] ps IH]; cbn; [reflexivity|]. destruct b; cbn; intros H.
  - rewrite <- app_assoc. now rewrite IH.
  - rewrite (filter_all_false fst ps H), (filter_all_true (fun p => negb (fst p)) ps H). reflexivity.
Qed.

Lemma assemble_buffered_in_order ps : direct_first ps = true -> assemble_buffered ps = assemble_in_order ps.
Proof.
  intros H. destruct ps as [|p [|q ps]]; cbn.
  - reflexivity.
  - now rewrite app_nil_r.
  - change (Some (concat (map snd (filter fst (p :: q :: ps))) ++
                  concat (map snd (filter (fun p0 => negb (fst p0)) (p :: q :: ps))))
            = Some (concat (map snd (p :: q :: ps)))).
    now rewrite direct_first_split.
Qed.

(** ** exit code verdicts *)
Lemma exit_code_verdict_spec ph ign c :
  exit_code_verdict ph ign c = spec_verdict (match ph with PhAssert => true | _ => false end) ign c.
Proof. unfold exit_code_verdict, spec_verdict. destruct ign, (c =? 0), ph; reflexivity. Qed.

Lemma exit_code_decision ph ign c :
  exit_code_verdict ph ign c =
  if ign then StPass else if c =? 0 then StPass else match ph with PhAssert => StFail | _ => StHard end.
Proof. reflexivity. Qed.

Lemma nonzero_exit_fails ph c :
  c <> 0 -> exit_code_verdict ph false c = match ph with PhAssert => StFail | _ => StHard end.
Proof. intros H. unfold exit_code_verdict. apply N.eqb_neq in H. now rewrite H. Qed.

(** ** unfolding equations of the evaluator (mutual fixpoint on fuel) *)
Section Unfold.
  Variable r : table -> program -> res rprog.
  Variable asm : list part -> option text.

  Lemma eval_src_S f tbl cwd s w :
    eval_src r asm (S f) tbl cwd s w =
    match s with
    | SStr fs => elift (frags_text tbl fs) w
    | SFile t => EOk t w
    | STrans s' t => ebind (eval_src r asm f tbl cwd s' w) (fun x w' => EOk (apply_tr t x) w')
    | SProg ch ign p =>
        ebind (run_program r asm f tbl cwd p [] w) (fun otr w' =>
          if (o_code (fst otr) =? 0) || ign
          then EOk (apply_trs (snd otr) (select ch (fst otr))) w'
          else EHard w')
    | SRunT s' ign p =>
        ebind (run_program r asm f tbl cwd p [s'] w) (fun otr w' =>
          if (o_code (fst otr) =? 0) || ign
          then EOk (apply_trs (snd otr) (o_out (fst otr))) w'
          else EHard w')
    end.
  Proof. reflexivity. Qed.

  Lemma eval_parts_S f tbl cwd l w :
    eval_parts r asm (S f) tbl cwd l w =
    match l with
    | [] => EOk [] w
    | s :: l' => ebind (eval_src r asm f tbl cwd s w) (fun t w' =>
                 ebind (eval_parts r asm f tbl cwd l' w') (fun ts w'' => EOk ((src_is_direct r tbl s, t) :: ts) w''))
    end.
  Proof. reflexivity. Qed.

  Lemma run_program_S f tbl cwd p extra w :
    run_program r asm (S f) tbl cwd p extra w =
    match r tbl p with
    | Err e => EErr e
    | Ok rp =>
        match driver_value tbl (r_driver rp), args_values tbl (r_args rp) with
        | Err e, _ => EErr e
        | _, Err e => EErr e
        | Ok d, Ok args =>
            ebind (eval_parts r asm f tbl cwd (r_stdin rp ++ extra) w) (fun parts w' =>
            ebind (start_process (to_executable d args) (asm parts) cwd w') (fun o w'' =>
            EOk (o, r_tr rp) w''))
        end
    end.
  Proof. reflexivity. Qed.
End Unfold.

(** ** extensionality of the evaluator in the resolver, for a fixed table *)
Section Ext.
  Variables r1 r2 : table -> program -> res rprog.
  Variable asm : list part -> option text.
  Variable tbl : table.
  Hypothesis Hr : forall p, r1 tbl p = r2 tbl p.

  Lemma src_is_direct_ext s : src_is_direct r1 tbl s = src_is_direct r2 tbl s.
  Proof. destruct s; cbn; try reflexivity. now rewrite Hr. Qed.

  Lemma eval_ext fuel cwd :
    (forall s w, eval_src r1 asm fuel tbl cwd s w = eval_src r2 asm fuel tbl cwd s w) /\
    (forall l w, eval_parts r1 asm fuel tbl cwd l w = eval_parts r2 asm fuel tbl cwd l w) /\
    (forall p extra w, run_program r1 asm fuel tbl cwd p extra w = run_program r2 asm fuel tbl cwd p extra w).
  Proof.
    induction fuel as [|fuel [IHs [IHl IHp]]]; [repeat split; reflexivity|].
    repeat split.
    - intros s w. rewrite !eval_src_S. destruct s as [fs|t|ch ign p|s' t|s' ign p]; try reflexivity.
      + now rewrite IHp.
      + now rewrite IHs.
      + now rewrite IHp.
    - intros l w. rewrite !eval_parts_S. destruct l as [|s l]; [reflexivity|].
      rewrite IHs. destruct (eval_src r2 asm fuel tbl cwd s w) as [t w'| |]; cbn [ebind]; try reflexivity.
      now rewrite IHl, src_is_direct_ext.
    - intros p extra w. rewrite !run_program_S, Hr. destruct (r2 tbl p) as [rp|e]; [|reflexivity].
      destruct (driver_value tbl (r_driver rp)) as [d|e]; [|reflexivity].
      destruct (args_values tbl (r_args rp)) as [args|e]; [|reflexivity].
      now rewrite IHl.
  Qed.

  Lemma eval_src_ext fuel cwd s w : eval_src r1 asm fuel tbl cwd s w = eval_src r2 asm fuel tbl cwd s w.
  Proof. apply (eval_ext fuel cwd). Qed.
  Lemma eval_parts_ext fuel cwd l w : eval_parts r1 asm fuel tbl cwd l w = eval_parts r2 asm fuel tbl cwd l w.
  Proof. apply (eval_ext fuel cwd). Qed.
  Lemma run_program_ext fuel cwd p extra w :
    run_program r1 asm fuel tbl cwd p extra w = run_program r2 asm fuel tbl cwd p extra w.
  Proof. apply (eval_ext fuel cwd). Qed.

  Lemma run_command_ext fuel cwd d args stdin w :
    run_command r1 asm fuel tbl cwd d args stdin w = run_command r2 asm fuel tbl cwd d args stdin w.
  Proof. unfold run_command. destruct (driver_value tbl d); [|reflexivity]. now rewrite eval_parts_ext. Qed.
End Ext.

(** ** whole cases: definitions may be made anywhere; every table that is reached is well formed *)
Lemma def_ok_wf tbl n v : wf_table tbl -> def_ok tbl n v = true -> wf_table ((n, v) :: tbl).
Proof.
  intros Hwf H. unfold def_ok in H. apply andb_true_iff in H as [H1 H2]. cbn. repeat split.
  - destruct (lookup tbl n); [discriminate | reflexivity].
  - destruct v as [d|[c a|n' a]]; trivial. destruct (lookup tbl n'); [discriminate | discriminate H2].
  - exact Hwf.
Qed.

Section ExtCase.
  Variables r1 r2 : table -> program -> res rprog.
  Variable asm : list part -> option text.
  Hypothesis Hr : forall tbl, wf_table tbl -> forall p, r1 tbl p = r2 tbl p.

  Lemma exec_instr_wf r fuel ph i st s st' :
    wf_table (st_tbl st) -> exec_instr r asm fuel ph i st = Ok (s, st') -> wf_table (st_tbl st').
  Proof.
    intros Hwf H. destruct i; cbn in H.
    - destruct (def_ok (st_tbl st) n v) eqn:E; [|discriminate]. injection H as _ <-. cbn. now apply def_ok_wf.
    - injection H as _ <-. exact Hwf.
    - destruct (run_program r asm fuel (st_tbl st) (st_cwd st) p [] (st_world st)); inversion H; exact Hwf.
    - destruct (eval_src r asm fuel (st_tbl st) (st_cwd st) s0 (st_world st)); inversion H; exact Hwf.
    - injection H as _ <-. exact Hwf.
    - destruct (st_act st); inversion H; subst; exact Hwf.
    - destruct (st_act st); inversion H; subst; exact Hwf.
    - destruct (st_act st); inversion H; subst; exact Hwf.
    - destruct (run_program r asm fuel (st_tbl st) (st_cwd st) p [] (st_world st)); inversion H; exact Hwf.
    - destruct (run_program r asm fuel (st_tbl st) (st_cwd st) p [] (st_world st)); inversion H; exact Hwf.
    - destruct (st_act st) as [a|]; [|discriminate].
      destruct (run_program r asm fuel (st_tbl st) (st_cwd st) p [SFile (select ch a)] (st_world st));
        inversion H; exact Hwf.
    - destruct (run_program r asm fuel (st_tbl st) (st_cwd st) _ [] (st_world st)); inversion H; exact Hwf.
  Qed.

  Lemma exec_instr_ext fuel ph i st :
    wf_table (st_tbl st) -> exec_instr r1 asm fuel ph i st = exec_instr r2 asm fuel ph i st.
  Proof.
    intros Hwf. pose proof (Hr _ Hwf) as H. destruct i; cbn; try reflexivity.
    - now rewrite (run_program_ext r1 r2 asm _ H).
    - now rewrite (eval_src_ext r1 r2 asm _ H).
    - now rewrite (run_program_ext r1 r2 asm _ H).
    - now rewrite (run_program_ext r1 r2 asm _ H).
    - destruct (st_act st); [|reflexivity]. now rewrite (run_program_ext r1 r2 asm _ H).
    - now rewrite (run_program_ext r1 r2 asm _ H).
  Qed.

  Lemma exec_phase_ext fuel ph l st :
    wf_table (st_tbl st) -> exec_phase r1 asm fuel ph l st = exec_phase r2 asm fuel ph l st.
  Proof.
    revert st. induction l as [|i l IH]; intros st Hwf; [reflexivity|].
    cbn. rewrite (exec_instr_ext fuel ph i st Hwf).
    destruct (exec_instr r2 asm fuel ph i st) as [[s st']|e] eqn:E; [|reflexivity].
    destruct s; try reflexivity.
    apply IH. exact (exec_instr_wf r2 fuel ph i st _ _ Hwf E).
  Qed.

  Lemma exec_phase_wf r fuel ph l st s st' :
    wf_table (st_tbl st) -> exec_phase r asm fuel ph l st = Ok (s, st') -> wf_table (st_tbl st').
  Proof.
    revert st. induction l as [|i l IH]; intros st Hwf H.
    - cbn in H. injection H as _ <-. exact Hwf.
    - cbn in H. destruct (exec_instr r asm fuel ph i st) as [[s0 st0]|e] eqn:E; [|discriminate].
      pose proof (exec_instr_wf r fuel ph i st _ _ Hwf E) as Hwf0.
      destruct s0.
      + now apply (IH st0).
      + injection H as _ <-. exact Hwf0.
      + injection H as _ <-. exact Hwf0.
  Qed.

  Lemma exec_act_ext fuel a st :
    wf_table (st_tbl st) -> exec_act r1 asm fuel a st = exec_act r2 asm fuel a st.
  Proof.
    intros Hwf. pose proof (Hr _ Hwf) as H.
    destruct a as [p|interp file args|interp source|]; unfold exec_act; try reflexivity.
    - now rewrite (run_program_ext r1 r2 asm _ H).
    - destruct (negb (interpreter_ok interp)); [reflexivity|].
      destruct (args_values (st_tbl st) (c_args interp)); [|reflexivity].
      destruct (args_values (st_tbl st) args); [|reflexivity].
      now rewrite (run_command_ext r1 r2 asm _ H).
    - destruct (negb (interpreter_ok interp)); [reflexivity|].
      destruct (frags_text (st_tbl st) source); [|reflexivity].
      destruct (args_values (st_tbl st) (c_args interp)); [|reflexivity].
      now rewrite (run_command_ext r1 r2 asm _ H).
  Qed.

  Lemma exec_act_tbl r fuel a st s st' : exec_act r asm fuel a st = Ok (s, st') -> st_tbl st' = st_tbl st.
  Proof.
    intros H. destruct a as [p|interp file args|interp source|]; unfold exec_act in H.
    - destruct (run_program r asm fuel (st_tbl st) (st_cwd st) p (opt_list (st_stdin st)) (st_world st));
        inversion H; reflexivity.
    - destruct (negb (interpreter_ok interp)); [discriminate|].
      destruct (args_values (st_tbl st) (c_args interp)); [|discriminate].
      destruct (args_values (st_tbl st) args); [|discriminate].
      destruct (run_command r asm fuel (st_tbl st) (st_cwd st) (c_driver interp) _ _ _); inversion H; reflexivity.
    - destruct (negb (interpreter_ok interp)); [discriminate|].
      destruct (frags_text (st_tbl st) source); [|discriminate].
      destruct (args_values (st_tbl st) (c_args interp)); [|discriminate].
      destruct (run_command r asm fuel (st_tbl st) (st_cwd st) (c_driver interp) _ _ _); inversion H; reflexivity.
    - injection H as _ <-. reflexivity.
  Qed.

  Lemma cleanup_ext fuel swallow earlier eph c st :
    wf_table (st_tbl st) ->
    cleanup_and_finish r1 asm fuel swallow earlier eph c st = cleanup_and_finish r2 asm fuel swallow earlier eph c st.
  Proof. intros Hwf. unfold cleanup_and_finish. now rewrite (exec_phase_ext fuel PhCleanup _ st Hwf). Qed.

  Theorem run_case_ext fuel cwd tbl c oracle :
    wf_table tbl ->
    run_case_with r1 asm fuel cwd tbl c oracle = run_case_with r2 asm fuel cwd tbl c oracle.
  Proof.
    intros Hwf. unfold run_case_with.
    assert (W0 : wf_table (st_tbl (initial_state tbl cwd oracle))) by exact Hwf.
    rewrite (exec_phase_ext fuel PhSetup (tc_setup c) _ W0).
    destruct (exec_phase r2 asm fuel PhSetup (tc_setup c) (initial_state tbl cwd oracle)) as [[s1 st1]|e] eqn:E1;
      [|reflexivity].
    pose proof (exec_phase_wf r2 fuel PhSetup _ _ _ _ W0 E1) as W1.
    destruct s1; try (now apply cleanup_ext).
    rewrite (exec_act_ext fuel (tc_act c) st1 W1).
    destruct (exec_act r2 asm fuel (tc_act c) st1) as [[s2 st2]|e] eqn:E2; [|reflexivity].
    assert (W2 : wf_table (st_tbl st2)) by (rewrite (exec_act_tbl r2 fuel _ _ _ _ E2); exact W1).
    destruct s2; try (now apply cleanup_ext).
    rewrite (exec_phase_ext fuel PhBefore (tc_before c) st2 W2).
    destruct (exec_phase r2 asm fuel PhBefore (tc_before c) st2) as [[s3 st3]|e] eqn:E3; [|reflexivity].
    pose proof (exec_phase_wf r2 fuel PhBefore _ _ _ _ W2 E3) as W3.
    destruct s3; try (now apply cleanup_ext).
    rewrite (exec_phase_ext fuel PhAssert (tc_assert c) st3 W3).
    destruct (exec_phase r2 asm fuel PhAssert (tc_assert c) st3) as [[s4 st4]|e] eqn:E4; [|reflexivity].
    pose proof (exec_phase_wf r2 fuel PhAssert _ _ _ _ W3 E4) as W4.
    destruct s4; now apply cleanup_ext.
  Qed.
End ExtCase.

(** The model (resolution as the code does it) gives, for EVERY case - definitions of strings, lists, paths and
    programs may be made by instructions anywhere in any phase, interleaved with their uses; execution order
    decides what is visible -, every well-formed initial symbol table, every fuel, current directory and oracle,
    exactly what the specification gives. *)
Theorem model_refines_spec :
  forall tbl, wf_table tbl ->
  forall c fuel cwd oracle, run_case fuel cwd tbl c oracle = spec_run_case fuel cwd tbl c oracle.
Proof.
  intros tbl Hwf c fuel cwd oracle. unfold run_case, spec_run_case.
  apply run_case_ext; [|exact Hwf]. intros t Ht p. now apply resolve_refines_denote.
Qed.

(** every symbol table reached while a case runs is well formed, so [resolve] never runs out of fuel in it *)
Theorem reached_tables_well_formed :
  forall r asm fuel ph l st s st',
    wf_table (st_tbl st) -> exec_phase r asm fuel ph l st = Ok (s, st') -> wf_table (st_tbl st').
Proof. intros r asm fuel ph l st s st'. apply exec_phase_wf. Qed.

(** ** the process started for a program, and its outcome *)
Section Outcome.
  Variable r : table -> program -> res rprog.
  Variable asm : list part -> option text.

  (** A successful run of a program started exactly one more process AFTER materialising the stdin parts: with
      the executable of the resolved program, the assembled stdin parts (the program's, then [extra]), in the
      current directory; and its outcome is the next outcome of the oracle. *)
  Lemma run_program_ok f tbl cwd p extra w o trs w' :
    run_program r asm (S f) tbl cwd p extra w = EOk (o, trs) w' ->
    exists rp d args parts w1,
      r tbl p = Ok rp /\ driver_value tbl (r_driver rp) = Ok d /\ args_values tbl (r_args rp) = Ok args /\
      eval_parts r asm f tbl cwd (r_stdin rp ++ extra) w = EOk parts w1 /\
      w_oracle w1 = o :: w_oracle w' /\
      w_starts w' = PS (to_executable d args) (asm parts) cwd :: w_starts w1 /\
      trs = r_tr rp.
  Proof.
    rewrite run_program_S. intros H.
    destruct (r tbl p) as [rp|e] eqn:E1; [|discriminate].
    destruct (driver_value tbl (r_driver rp)) as [d|e] eqn:E2; [|discriminate].
    destruct (args_values tbl (r_args rp)) as [args|e] eqn:E3; [|discriminate].
    destruct (eval_parts r asm f tbl cwd (r_stdin rp ++ extra) w) as [parts w1| |] eqn:E4; cbn [ebind] in H;
      try discriminate.
    unfold start_process in H. destruct (w_oracle w1) as [|o1 rest] eqn:Eo; cbn [ebind] in H; [discriminate|].
    injection H as <- <- <-.
    exists rp, d, args, parts, w1. cbn. repeat split; assumption || reflexivity.
  Qed.

  (** run / $ / % : the verdict is decided by the exit code the process returned, the phase and -ignore-exit-code *)
  (** exit-code / stdout / stderr -from PROGRAM: the exit code the process returned; the chosen channel after the
      program's transformations (the exit code is not looked at) *)
  Lemma from_program_assertions fuel ph p st o trs w' :
    run_program r asm fuel (st_tbl st) (st_cwd st) p [] (st_world st) = EOk (o, trs) w' ->
    (forall k, exec_instr r asm fuel ph (IExitCodeFrom p k) st
               = Ok (if o_code o =? k then StPass else StFail, set_world st w')) /\
    (forall ch t, exec_instr r asm fuel ph (IOutFrom ch p t) st
                  = Ok (if text_eqb t (apply_trs trs (select ch o)) then StPass else StFail, set_world st w')).
  Proof. intros H. split; intros; cbn; rewrite H; reflexivity. Qed.

  Lemma run_instruction_verdict fuel ph ign p st o trs w' :
    run_program r asm fuel (st_tbl st) (st_cwd st) p [] (st_world st) = EOk (o, trs) w' ->
    exec_instr r asm fuel ph (IRun ign p) st = Ok (exit_code_verdict ph ign (o_code o), set_world st w').
  Proof. intros H. cbn. now rewrite H. Qed.

  (** the action to check (command line actor): stdin = program parts then the [setup] stdin (by
      [run_program_ok] with [extra] = the setup stdin); what is stored is the exit code the process returned, its
      stdout after the program's transformations, its stderr; and this is what the assertions see *)
  Lemma act_outcome_captured fuel p st o trs w' :
    run_program r asm fuel (st_tbl st) (st_cwd st) p (opt_list (st_stdin st)) (st_world st) = EOk (o, trs) w' ->
    exists st',
      exec_act r asm fuel (ActCommand p) st = Ok (StPass, st') /\
      st_act st' = Some (Out (o_code o) (apply_trs trs (o_out o)) (o_err o)) /\
      (forall ph k, exec_instr r asm fuel ph (IExitCode k) st' = Ok (if o_code o =? k then StPass else StFail, st')) /\
      (forall ph t, exec_instr r asm fuel ph (IStdout t) st'
                    = Ok (if text_eqb t (apply_trs trs (o_out o)) then StPass else StFail, st')) /\
      (forall ph t, exec_instr r asm fuel ph (IStderr t) st' = Ok (if text_eqb t (o_err o) then StPass else StFail, st')).
  Proof.
    intros H. eexists. split; [cbn; rewrite H; reflexivity|].
    cbn. repeat split.
  Qed.
End Outcome.

Lemma text_eqb_eq a b : text_eqb a b = true <-> a = b.
Proof.
  revert b. induction a as [|x a IH]; destruct b as [|y b]; cbn; split; intros H; try reflexivity; try discriminate.
  - apply andb_true_iff in H as [H1 H2]. apply N.eqb_eq in H1. apply IH in H2. congruence.
  - injection H as -> ->. apply andb_true_iff. split; [apply N.eqb_refl | now apply IH].
Qed.

(** ** the headline: the process started for a reference to the end of a chain of program definitions *)
Theorem chain_process :
  forall tbl n0 c a0 links extra act_stdin f cwd w o trs w',
    wf_table tbl ->
    lookup tbl n0 = Some (VProg (PCmd c a0)) -> chain_in tbl n0 links ->
    run_program resolve_tbl assemble_in_order (S f) tbl cwd (PRef (last_name n0 links) extra) act_stdin w
      = EOk (o, trs) w' ->
    exists d args parts w1,
      driver_value tbl (c_driver c) = Ok d /\
      args_values tbl (c_args c ++ a_args a0 ++ flat_map a_args (map snd links) ++ a_args extra) = Ok args /\
      eval_parts resolve_tbl assemble_in_order f tbl cwd
                 ((a_stdin a0 ++ flat_map a_stdin (map snd links) ++ a_stdin extra) ++ act_stdin) w = EOk parts w1 /\
      w_oracle w1 = o :: w_oracle w' /\
      w_starts w' = PS (to_executable d args) (assemble_in_order parts) cwd :: w_starts w1 /\
      trs = a_tr a0 ++ flat_map a_tr (map snd links) ++ a_tr extra.
Proof.
  intros tbl n0 c a0 links extra act_stdin f cwd w o trs w' Hwf H0 Hchain Hrun.
  destruct (chain_components tbl n0 c a0 links extra Hwf H0 Hchain) as [rp [Hres [Hd [Ha [Hs Ht]]]]].
  destruct (run_program_ok _ _ _ _ _ _ _ _ _ _ _ Hrun) as [rp' [d [args [parts [w1 [E1 [E2 [E3 [E4 [E5 [E6 E7]]]]]]]]]]].
  rewrite Hres in E1. injection E1 as <-.
  exists d, args, parts, w1. rewrite <- Hd, <- Ha, <- Hs, <- Ht. repeat split; assumption.
Qed.

(** ** the other actors *)
Section Actors.
  Variable r : table -> program -> res rprog.
  Variable asm : list part -> option text.

  Lemma run_command_ok fuel tbl cwd d args stdin w o w' :
    run_command r asm fuel tbl cwd d args stdin w = EOk o w' ->
    exists dv parts w1,
      driver_value tbl d = Ok dv /\ eval_parts r asm fuel tbl cwd stdin w = EOk parts w1 /\
      w_oracle w1 = o :: w_oracle w' /\
      w_starts w' = PS (to_executable dv args) (asm parts) cwd :: w_starts w1.
  Proof.
    unfold run_command. intros H. destruct (driver_value tbl d) as [dv|e] eqn:E1; [|discriminate].
    destruct (eval_parts r asm fuel tbl cwd stdin w) as [parts w1| |] eqn:E2; cbn [ebind] in H; try discriminate.
    unfold start_process in H. destruct (w_oracle w1) as [|o1 rest] eqn:Eo; [discriminate|].
    injection H as <- <-. exists dv, parts, w1. cbn. repeat split; assumption || reflexivity.
  Qed.

  (** file interpreter: interpreter, its arguments, the source file, the arguments of the act phase; stdin = the
      [setup] stdin only; the outcome is stored untransformed *)
  Lemma act_file_process fuel interp file args st st' :
    exec_act r asm fuel (ActFile interp file args) st = Ok (StPass, st') ->
    exists dv iargs fargs parts w1 o,
      driver_value (st_tbl st) (c_driver interp) = Ok dv /\
      args_values (st_tbl st) (c_args interp) = Ok iargs /\ args_values (st_tbl st) args = Ok fargs /\
      eval_parts r asm fuel (st_tbl st) (st_cwd st) (opt_list (st_stdin st)) (st_world st) = EOk parts w1 /\
      w_oracle w1 = o :: w_oracle (st_world st') /\
      w_starts (st_world st')
        = PS (to_executable dv (iargs ++ [file] ++ fargs)) (asm parts) (st_cwd st) :: w_starts w1 /\
      st_act st' = Some o.
  Proof.
    unfold exec_act. intros H. destruct (negb (interpreter_ok interp)); [discriminate|].
    destruct (args_values (st_tbl st) (c_args interp)) as [iargs|e] eqn:E1; [|discriminate].
    destruct (args_values (st_tbl st) args) as [fargs|e] eqn:E2; [|discriminate].
    destruct (run_command r asm fuel (st_tbl st) (st_cwd st) (c_driver interp) (iargs ++ [file] ++ fargs)
                          (opt_list (st_stdin st)) (st_world st)) as [o w'| |] eqn:E3; try discriminate.
    injection H as <-.
    destruct (run_command_ok _ _ _ _ _ _ _ _ _ E3) as [dv [parts [w1 [D1 [D2 [D3 D4]]]]]].
    exists dv, iargs, fargs, parts, w1, o. cbn. repeat split; assumption || reflexivity.
  Qed.

  (** source interpreter: interpreter, its arguments, the file holding the source code (its contents are the text
      of the act phase, symbols substituted) *)
  Lemma act_source_process fuel interp source st st' :
    exec_act r asm fuel (ActSource interp source) st = Ok (StPass, st') ->
    exists dv iargs code parts w1 o,
      driver_value (st_tbl st) (c_driver interp) = Ok dv /\
      args_values (st_tbl st) (c_args interp) = Ok iargs /\ frags_text (st_tbl st) source = Ok code /\
      eval_parts r asm fuel (st_tbl st) (st_cwd st) (opt_list (st_stdin st)) (st_world st) = EOk parts w1 /\
      w_oracle w1 = o :: w_oracle (st_world st') /\
      w_starts (st_world st')
        = PS (to_executable dv (iargs ++ [[123; 83; 82; 67; 125]])) (asm parts) (st_cwd st) :: w_starts w1 /\
      st_act st' = Some o /\ st_source st' = Some code.
  Proof.
    unfold exec_act. intros H. destruct (negb (interpreter_ok interp)); [discriminate|].
    destruct (frags_text (st_tbl st) source) as [code|e] eqn:E0; [|discriminate].
    destruct (args_values (st_tbl st) (c_args interp)) as [iargs|e] eqn:E1; [|discriminate].
    destruct (run_command r asm fuel (st_tbl st) (st_cwd st) (c_driver interp) (iargs ++ [[123; 83; 82; 67; 125]])
                          (opt_list (st_stdin st)) (st_world st)) as [o w'| |] eqn:E3; try discriminate.
    injection H as <-.
    destruct (run_command_ok _ _ _ _ _ _ _ _ _ E3) as [dv [parts [w1 [D1 [D2 [D3 D4]]]]]].
    exists dv, iargs, code, parts, w1, o. cbn. repeat split; assumption || reflexivity.
  Qed.

  (** null actor: no process; exit code 0, empty output *)
  Lemma act_null fuel st :
    exists st', exec_act r asm fuel ActNull st = Ok (StPass, st') /\
                st_world st' = st_world st /\ st_act st' = Some (Out 0 [] []).
  Proof. eexists. cbn. repeat split. Qed.
End Actors.

(** ** a program used as a text source *)
Lemma program_as_text_source r asm f tbl cwd ch ign p w o trs w' :
  run_program r asm f tbl cwd p [] w = EOk (o, trs) w' ->
  eval_src r asm (S f) tbl cwd (SProg ch ign p) w =
  if (o_code o =? 0) || ign then EOk (apply_trs trs (select ch o)) w' else EHard w'.
Proof. intros H. rewrite eval_src_S, H. reflexivity. Qed.

(** ** programs as transformer and as matcher ([run]) *)
Lemma run_as_transformer r asm f tbl cwd s ign p w o trs w' :
  run_program r asm f tbl cwd p [s] w = EOk (o, trs) w' ->
  eval_src r asm (S f) tbl cwd (SRunT s ign p) w =
  if (o_code o =? 0) || ign then EOk (apply_trs trs (o_out o)) w' else EHard w'.
Proof. intros H. rewrite eval_src_S, H. reflexivity. Qed.

Lemma run_as_text_matcher r asm fuel ph ch neg p st a o trs w' :
  st_act st = Some a ->
  run_program r asm fuel (st_tbl st) (st_cwd st) p [SFile (select ch a)] (st_world st) = EOk (o, trs) w' ->
  exec_instr r asm fuel ph (IOutRun ch neg p) st
  = Ok (if xorb (o_code o =? 0) neg then StPass else StFail, set_world st w').
Proof. intros Ha H. cbn. rewrite Ha, H. reflexivity. Qed.

Lemma run_as_file_matcher r asm fuel ph neg path p st o trs w' :
  run_program r asm fuel (st_tbl st) (st_cwd st) (new_accumulated p (Acc [] [AStr [FConst path]] [])) [] (st_world st)
    = EOk (o, trs) w' ->
  exec_instr r asm fuel ph (IFileRun neg path p) st
  = Ok (if xorb (o_code o =? 0) neg then StPass else StFail, set_world st w').
Proof. intros H. cbn. rewrite H. reflexivity. Qed.

(** accumulating the path onto a program puts it after all arguments, whatever chain the program goes through *)
Lemma resolve_new_accumulated fuel tbl p a rp :
  resolve fuel tbl p = Ok rp -> resolve fuel tbl (new_accumulated p a) = Ok (extend rp a).
Proof.
  revert p a rp. induction fuel as [|fuel IH]; intros p a rp H; [discriminate|].
  destruct p as [c a0|n a0]; cbn in *.
  - injection H as <-. unfold extend; cbn. now rewrite <- app_assoc.
  - destruct (lookup tbl n) as [[d|q]|]; try discriminate.
    destruct q as [c1 a1|n1 a1]; cbn [new_accumulated] in *.
    + rewrite <- acc_app_assoc. change (PCmd c1 (acc_app (acc_app a1 a0) a)) with (new_accumulated (PCmd c1 (acc_app a1 a0)) a).
      now apply IH.
    + rewrite <- acc_app_assoc. change (PRef n1 (acc_app (acc_app a1 a0) a)) with (new_accumulated (PRef n1 (acc_app a1 a0)) a).
      now apply IH.
Qed.

(** ** which failure is reported when [cleanup] fails too (executor.py) *)
Lemma cleanup_reported r asm fuel swallow earlier eph c st res :
  cleanup_and_finish r asm fuel swallow earlier eph c st = Ok res ->
  exists sc stc, exec_phase r asm fuel PhCleanup (tc_cleanup c) st = Ok (sc, stc) /\
    (rs_verdict res, rs_phase res) =
    match sc with
    | StPass => (earlier, eph)
    | _ => if swallow then (earlier, eph) else (sc, phase_code PhCleanup)
    end.
Proof.
  unfold cleanup_and_finish. destruct (exec_phase r asm fuel PhCleanup (tc_cleanup c) st) as [[sc stc]|e]; [|discriminate].
  intros H. exists sc, stc. split; [reflexivity|]. destruct sc, swallow; injection H as <-; reflexivity.
Qed.
