(** C13 part 2: the multi-segment walker [_TransformMethodOfSegments] (one shared line iterator,
    one running line number) yields exactly the lines of head / body / tail, provided the
    segments are "positive and increasing" in the sense of [walk_ok]. *)
From Coq Require Import ZArith List Bool Lia ZifyBool.
From Exactly Require Import Model.LineNums Spec.C13b Proofs.LineNumsLists.
Import ListNotations.
Local Open Scope Z_scope.

Definition in_rest (body : list from_to) (tail : option Z) (k : Z) : bool :=
  existsb (in_seg k) body || match tail with Some t => t <=? k | None => false end.

Lemma chain_below : forall body tail n k, chain n body tail -> k <= n + 1 -> in_rest body tail k = false.
Proof.
  induction body as [|[a b] body IH]; intros tail n k Hc Hk; unfold in_rest; cbn [existsb chain fst snd] in *.
  - destruct tail; [lia|reflexivity].
  - destruct Hc as (H1 & H2 & H3). unfold in_seg at 1. cbn [fst snd].
    replace (a <=? k) with false by lia. cbn [andb orb].
    apply (IH tail b k H3). lia.
Qed.

Section W.
  Context {A : Type}.
  Implicit Types ls : list A.

  Notation sel P s ls := (map snd (filter (fun q : Z * A => P (fst q)) (enum_from s ls))).

  Lemma sel_false : forall (P : Z -> bool) ls s,
      (forall k, s <= k -> P k = false) -> sel P s ls = [].
  Proof.
    intros P ls. induction ls as [|l ls IH]; intros s H; cbn; [reflexivity|].
    rewrite H by lia. apply IH. intros; apply H; lia.
  Qed.

  Lemma sel_true : forall (P : Z -> bool) ls s,
      (forall k, s <= k -> P k = true) -> sel P s ls = ls.
  Proof.
    intros P ls. induction ls as [|l ls IH]; intros s H; cbn; [reflexivity|].
    rewrite H by lia. cbn. f_equal. apply IH. intros; apply H; lia.
  Qed.

  Lemma sel_ext : forall (P Q : Z -> bool) ls s,
      (forall k, s <= k -> P k = Q k) -> sel P s ls = sel Q s ls.
  Proof.
    intros P Q ls s H. f_equal. apply (filter_enum_ext P Q). intros k Hk. apply H. lia.
  Qed.

  (** [for _ in lines: line_num += 1; if line_num == start_m1: break] passes only unselected lines *)
  Lemma skip_until_spec : forall (P : Z -> bool) ls s n n' r,
      n < s -> (forall k, n < k <= s -> P k = false) ->
      skip_until s n ls = (n', r) ->
      sel P (n + 1) ls = sel P (n' + 1) r /\ (r = [] \/ n' = s).
  Proof.
    intros P. induction ls as [|l ls IH]; intros s n n' r Hn HP E; cbn [skip_until] in E.
    - injection E as <- <-. split; [reflexivity|now left].
    - cbn [enum_from filter fst]. rewrite HP by lia.
      destruct (n + 1 =? s) eqn:Es.
      + injection E as <- <-. split; [reflexivity|right; lia].
      + apply IH in E; [exact E|lia|]. intros; apply HP; lia.
  Qed.

  (** [for line in lines: line_num += 1; yield line; if line_num == end: break] yields only selected lines *)
  Lemma yield_until_spec : forall (P : Z -> bool) ls e n out n' r,
      n < e -> (forall k, n < k <= e -> P k = true) ->
      yield_until e n ls = (out, n', r) ->
      sel P (n + 1) ls = out ++ sel P (n' + 1) r /\ (r = [] \/ n' = e).
  Proof.
    intros P. induction ls as [|l ls IH]; intros e n out n' r Hn HP E; cbn [yield_until] in E.
    - injection E as <- <- <-. split; [reflexivity|now left].
    - cbn [enum_from filter fst]. rewrite HP by lia. cbn [map snd].
      destruct (n + 1 =? e) eqn:Ee.
      + injection E as <- <- <-. split; [reflexivity|right; lia].
      + destruct (yield_until e (n + 1) ls) as [[o n2] r2] eqn:E2. injection E as <- <- <-.
        apply IH in E2; [|lia|intros; apply HP; lia]. destruct E2 as [E2 Hr].
        split; [|exact Hr]. cbn. now rewrite E2.
  Qed.

  Lemma walk_body_nil : forall body n, walk_body body n (@nil A) = ([], n, []).
  Proof.
    induction body as [|seg body IH]; intros n; cbn [walk_body skip_until yield_until]; [reflexivity|].
    now rewrite IH.
  Qed.

  Lemma walk_body_spec : forall body tail n ls out n' r,
      chain n body tail ->
      walk_body body n ls = (out, n', r) ->
      sel (in_rest body tail) (n + 1) ls = out ++ sel (in_rest [] tail) (n' + 1) r
      /\ (r = [] \/ chain n' [] tail).
  Proof.
    induction body as [|[a b] body IH]; intros tail n ls out n' r Hc E; cbn [walk_body] in E.
    - injection E as <- <- <-. split; [reflexivity|now right].
    - cbn [chain fst snd] in Hc. destruct Hc as (H1 & H2 & H3). cbn [fst snd] in E.
      destruct (skip_until (a - 1) n ls) as [n1 r1] eqn:E1.
      destruct (yield_until b n1 r1) as [[o n2] r2] eqn:E2.
      destruct (walk_body body n2 r2) as [[o' n3] r3] eqn:E3.
      injection E as <- <- <-.
      apply (skip_until_spec (in_rest (((a, b) : from_to) :: body) tail)) in E1; [|lia|].
      2:{ intros k Hk. apply (chain_below _ _ (a - 2)); [|lia]. cbn [chain fst snd]. repeat split; try lia. exact H3. }
      destruct E1 as [E1 [-> | ->]].
      { (* the text ended while skipping *)
        cbn in E2. injection E2 as <- <- <-. rewrite walk_body_nil in E3. injection E3 as <- <- <-.
        rewrite E1. split; [reflexivity|now left]. }
      apply (yield_until_spec (in_rest (((a, b) : from_to) :: body) tail)) in E2; [|lia|].
      2:{ intros k Hk. unfold in_rest. cbn [existsb]. unfold in_seg at 1. cbn [fst snd].
          replace (a <=? k) with true by lia. replace (k <=? b) with true by lia. reflexivity. }
      destruct E2 as [E2 [-> | ->]].
      { rewrite walk_body_nil in E3. injection E3 as <- <- <-.
        rewrite E1, E2. cbn. split; [now rewrite !app_nil_r|now left]. }
      apply (IH tail) in E3; [|exact H3]. destruct E3 as [E3 Hr].
      split; [|exact Hr].
      rewrite E1, E2, <- app_assoc. f_equal. rewrite <- E3.
      apply sel_ext. intros k Hk. unfold in_rest. cbn [existsb]. unfold in_seg at 1. cbn [fst snd].
      replace (k <=? b) with false by lia. now rewrite andb_false_r.
  Qed.

  Lemma walk_tail_spec : forall tail n r,
      r = [] \/ chain n [] tail ->
      match tail with Some t => snd (skip_until (t - 1) n r) | None => [] end
      = sel (in_rest [] tail) (n + 1) r.
  Proof.
    intros [t|] n r H.
    - destruct H as [->|Hc]; [reflexivity|]. cbn [chain] in Hc.
      destruct (skip_until (t - 1) n r) as [n' r'] eqn:E. cbn [snd].
      apply (skip_until_spec (in_rest [] (Some t))) in E; [|lia|].
      2:{ intros k Hk. unfold in_rest. cbn. lia. }
      destruct E as [E [-> | ->]]; rewrite E; [reflexivity|].
      symmetry. apply sel_true. intros k Hk. unfold in_rest. cbn. lia.
    - symmetry. apply sel_false. intros; reflexivity.
  Qed.

  (** *** the walker is correct on "positive increasing" segments *)
  Theorem segments_walk_correct : forall head body tail ls,
      walk_ok head body tail ->
      walk_segments head body tail ls
      = map snd (filter (fun nl => in_segments head body tail (fst nl)) (enum_from 1 ls)).
  Proof.
    intros head body tail ls Hok. unfold walk_segments.
    destruct head as [h|]; cbn [walk_ok] in Hok.
    - destruct Hok as [Hh Hc].
      destruct (yield_until h 0 ls) as [[oh n0] r0] eqn:E0.
      destruct (walk_body body n0 r0) as [[ob n1] r1] eqn:E1.
      apply (yield_until_spec (in_segments (Some h) body tail)) in E0; [|lia|].
      2:{ intros k Hk. unfold in_segments. replace (k <=? h) with true by lia. reflexivity. }
      cbn [Z.add] in E0. destruct E0 as [E0 [-> | ->]].
      + rewrite walk_body_nil in E1. injection E1 as <- <- <-.
        rewrite E0. cbn. destruct tail; reflexivity.
      + rewrite E0. f_equal.
        apply (walk_body_spec body tail) in E1; [|exact Hc]. destruct E1 as [E1 Hr].
        rewrite (walk_tail_spec tail n1 r1 Hr). rewrite <- E1.
        apply sel_ext. intros k Hk. unfold in_segments, in_rest.
        replace (k <=? h) with false by lia. reflexivity.
    - destruct (walk_body body 0 ls) as [[ob n1] r1] eqn:E1.
      apply (walk_body_spec body tail) in E1; [|exact Hok]. destruct E1 as [E1 Hr].
      rewrite (walk_tail_spec tail n1 r1 Hr). cbn [app Z.add] in *. rewrite <- E1.
      reflexivity.
  Qed.
End W.
