(** C08: the statements exported to Props/C08.v. *)
From Coq Require Import List Bool Arith NArith Lia.
From Exactly Require Import Lib.Harness Model.Exec Model.Symbols Spec.C08
  Proofs.SymbolsLazy Proofs.SymbolsReach Proofs.SymbolsSound Proofs.SymbolsAccept Proofs.SymbolsRun.
Import ListNotations.

Definition no_stop_main (tc : tcase) : bool := negb (existsb is_stop (main_instrs tc)).
Definition in_cleanup {A} (x : phase * nat * A) : Prop := fst (fst x) = Cleanup.

Section Main.
  Variable roots : rel -> text.
  Notation Inv := (Inv roots).

  Lemma exec_order_main tc : exec_order tc = main_instrs tc ++ t_cleanup tc.
  Proof. unfold exec_order, main_instrs, main_phases. cbn [flat_map t_instrs]. rewrite app_nil_r, <- !app_assoc. reflexivity. Qed.

  Theorem accept_iff_validate b tc :
    builtins_ok b = true -> wf_tcase tc = true ->
    ((exists t, validate_all roots b tc = inl t) <-> spec_accept roots b tc = true).
  Proof.
    intros Hb Hwf. assert (H := accept_iff roots b tc Hb Hwf). destruct (spec_accept roots b tc).
    - destruct H as (t & Ht & _). split; [reflexivity|]. intros _. exists t. exact Ht.
    - destruct H as (p & i & err & Hv & _). split; [|discriminate]. intros (t & Ht). congruence.
  Qed.

  Theorem rejected_is_validation_error b tc :
    builtins_ok b = true -> wf_tcase tc = true -> spec_accept roots b tc = false ->
    exists p i, sym_execute roots b tc = Outcome VdValidation (Some (p, i)) false [].
  Proof.
    intros Hb Hwf Hacc. assert (H := accept_iff roots b tc Hb Hwf). rewrite Hacc in H.
    destruct H as (p & i & err & Hv & Hne). exists p, i. unfold sym_execute, sym_execute_gen. rewrite Hv.
    destruct err; try reflexivity. exfalso. apply Hne. exact I.
  Qed.

  Lemma expect_phase_obs_phase p is_ : forall e idx st e' st' o,
    expect_phase roots p e idx st is_ = (e', st', o) -> Forall (fun x => fst (fst x) = p) o.
  Proof.
    induction is_ as [|i is_ IH]; intros e idx st e' st' o H; cbn [expect_phase] in H.
    - injection H as <- <- <-. constructor.
    - destruct (expect_phase roots p (env_after roots e i) (S idx) _ is_) as [[e1 s1] o1] eqn:E.
      injection H as <- <- <-. specialize (IH _ _ _ _ _ _ E).
      destruct i as [|refs [|v vs]|]; try exact IH. destruct st; [exact IH|]. constructor; [reflexivity|exact IH].
  Qed.

  (** An accepted test case: execution begins, never ends in a validation error; the values resolved by
      the phases before cleanup are the specified ones; an internal error can only be attributed to a
      cleanup instruction; and when no instruction of the earlier phases fails by itself - so that
      every main step scheduled before cleanup has run - cleanup too resolves every reference to the
      specified value and there is no internal error. *)
  Theorem accepted_execution b tc :
    builtins_ok b = true -> wf_tcase tc = true -> spec_accept roots b tc = true ->
    let o := sym_execute roots b tc in
    o_sandbox o = true /\ o_verdict o <> VdValidation /\
    exists main cl ecl,
      o_values o = main ++ cl /\ spec_expected roots b tc = map some_obs main ++ ecl /\
      Forall (fun x => fst (fst x) <> Cleanup) main /\ Forall in_cleanup cl /\ Forall in_cleanup ecl /\
      (o_verdict o = VdInternal -> exists j, o_failing o = Some (Cleanup, j)) /\
      (no_stop_main tc = true -> map some_obs cl = ecl /\ o_verdict o <> VdInternal).
  Proof.
    intros Hb Hwf Hacc o. subst o.
    assert (HA := accept_iff roots b tc Hb Hwf). rewrite Hacc in HA. destruct HA as (tv & Hval & _ & _).
    rewrite sym_execute_seq, Hval, spec_expected_seq.
    unfold spec_accept in Hacc. rewrite exec_order_main, accept_from_app in Hacc.
    apply andb_true_iff in Hacc as [Hacc1 Hacc2].
    assert (Hwfm : forall p, In p main_phases -> forallb wf_instr (t_instrs tc p) = true).
    { intros p Hp. apply wf_tcase_phase; [exact Hwf|]. unfold main_phases, validation_order in *. cbn in *. tauto. }
    assert (Hwfc : forallb wf_instr (t_cleanup tc) = true).
    { apply (wf_tcase_phase tc Cleanup Hwf). unfold validation_order. cbn. tauto. }
    destruct (run_seq_ok roots tc main_phases b (env_of_table roots b) (builtins_inv roots b Hb) Hwfm Hacc1)
      as (rt & f & om & Hseq & Hexs & Hns & Hs & Hphs).
    fold (main_instrs tc) in *. rewrite Hseq, Hexs.
    destruct (run_main roots Cleanup rt 0 (t_cleanup tc)) as [[rtc fc] oc] eqn:Hcl.
    destruct (expect_phase roots Cleanup (env_afters roots (env_of_table roots b) (main_instrs tc)) 0 false (t_cleanup tc))
      as [[e5 s5] o5] eqn:He5.
    cbn [o_sandbox o_verdict o_values o_failing].
    assert (Hmain : Forall (fun x : observation => fst (fst x) <> Cleanup) om).
    { eapply Forall_impl; [|exact Hphs]. intros x Hx E. cbn beta in Hx, E. rewrite E in Hx. unfold main_phases in Hx. cbn in Hx.
      destruct Hx as [Hx|[Hx|[Hx|[Hx|[]]]]]; discriminate. }
    split; [reflexivity|].
    unfold no_stop_main. destruct (existsb is_stop (main_instrs tc)) eqn:Est.
    - (* some instruction before cleanup fails by itself *)
      destruct (Hs eq_refl) as (p & j & h & Hp & ->).
      assert (Hpne : p <> Cleanup) by (intros ->; unfold main_phases in Hp; cbn in Hp; intuition discriminate).
      split.
      + destruct p, fc as [[jc xc]|], h; cbn; try discriminate; try (destruct xc; discriminate); contradiction.
      + exists om, oc, o5. split; [reflexivity|]. split; [reflexivity|]. split; [exact Hmain|].
        split; [exact (run_main_obs_phase roots Cleanup _ _ _ _ _ _ Hcl)|].
        split; [exact (expect_phase_obs_phase Cleanup _ _ _ _ _ _ _ He5)|].
        split; [|discriminate].
        destruct p, fc as [[jc xc]|], h; cbn; intros E; try discriminate; try (exists jc; reflexivity); contradiction.
    - (* every main step before cleanup has run: cleanup starts from the validated table *)
      destruct (Hns eq_refl) as [-> ->].
      assert (Hv := validate_phase_ok roots (main_instrs tc) b (env_of_table roots b) 0 (builtins_inv roots b Hb)).
      rewrite Hacc1 in Hv. destruct Hv as [_ HI4].
      { unfold main_instrs. rewrite flat_map_concat_map, forallb_forall. intros i Hi.
        apply in_concat in Hi as (l & Hl & Hi). apply in_map_iff in Hl as (p & <- & Hp).
        specialize (Hwfm p Hp). rewrite forallb_forall in Hwfm. apply Hwfm. exact Hi. }
      destruct (run_main_ok roots Cleanup (t_cleanup tc) _ _ 0 HI4 Hwfc Hacc2) as (rt' & f' & o' & Hrun & Hexp & Hns' & Hs').
      rewrite Hrun in Hcl. injection Hcl as <- <- <-. rewrite Hexp in He5. injection He5 as <- <- <-.
      assert (Hfc : forall x, f' <> Some x \/ exists j (h : bool), f' = Some (j, if h then MHard else MFail)).
      { intros x. destruct (existsb is_stop (t_cleanup tc)).
        - right. apply Hs'. reflexivity.
        - left. destruct (Hns' eq_refl) as [-> _]. discriminate. }
      split.
      + cbn [finish]. destruct f' as [[jc xc]|]; cbn; [|discriminate].
        destruct (Hfc (jc, xc)) as [H|(j & h & H)]; [contradiction|]. injection H as -> ->. destruct h; discriminate.
      + exists om, o', (map some_obs o'). split; [reflexivity|]. split; [reflexivity|]. split; [exact Hmain|].
        split; [exact (run_main_obs_phase roots Cleanup _ _ _ _ _ _ Hrun)|].
        split; [exact (expect_phase_obs_phase Cleanup _ _ _ _ _ _ _ Hexp)|].
        assert (Hni : fst (finish None f') <> VdInternal).
        { cbn [finish]. destruct f' as [[jc xc]|]; cbn; [|discriminate].
          destruct (Hfc (jc, xc)) as [H|(j & h & H)]; [contradiction|]. injection H as -> ->. destruct h; discriminate. }
        split; [intros E; contradiction|]. intros _. split; [reflexivity|exact Hni].
  Qed.

  (** The repaired executor (cleanup sees every definition of the earlier phases) satisfies the whole
      clause, without proviso. *)
  Theorem repaired_execution b tc :
    builtins_ok b = true -> wf_tcase tc = true -> spec_accept roots b tc = true ->
    let o := sym_execute_gen true roots b tc in
    o_sandbox o = true /\ o_verdict o <> VdValidation /\ o_verdict o <> VdInternal /\
    map some_obs (o_values o) = spec_expected roots b tc.
  Proof.
    intros Hb Hwf Hacc o. subst o.
    assert (HA := accept_iff roots b tc Hb Hwf). rewrite Hacc in HA. destruct HA as (tv & Hval & _ & _).
    rewrite sym_execute_gen_seq, Hval, spec_expected_seq.
    unfold spec_accept in Hacc. rewrite exec_order_main, accept_from_app in Hacc.
    apply andb_true_iff in Hacc as [Hacc1 Hacc2].
    assert (Hwfm : forall p, In p main_phases -> forallb wf_instr (t_instrs tc p) = true).
    { intros p Hp. apply wf_tcase_phase; [exact Hwf|]. unfold main_phases, validation_order in *. cbn in *. tauto. }
    assert (Hwfc : forallb wf_instr (t_cleanup tc) = true).
    { apply (wf_tcase_phase tc Cleanup Hwf). unfold validation_order. cbn. tauto. }
    destruct (run_seq_ok roots tc main_phases b (env_of_table roots b) (builtins_inv roots b Hb) Hwfm Hacc1)
      as (rt & f & om & Hseq & Hexs & Hns & Hs & Hphs).
    fold (main_instrs tc) in *. rewrite Hseq, Hexs.
    assert (Hv := validate_phase_ok roots (main_instrs tc) b (env_of_table roots b) 0 (builtins_inv roots b Hb)).
    rewrite Hacc1 in Hv. destruct Hv as [_ HI4].
    { unfold main_instrs. rewrite flat_map_concat_map, forallb_forall. intros i Hi.
      apply in_concat in Hi as (l & Hl & Hi). apply in_map_iff in Hl as (p & <- & Hp).
      specialize (Hwfm p Hp). rewrite forallb_forall in Hwfm. apply Hwfm. exact Hi. }
    destruct (run_main_ok roots Cleanup (t_cleanup tc) _ _ 0 HI4 Hwfc Hacc2) as (rt' & f' & o' & Hrun & Hexp & Hns' & Hs').
    rewrite Hrun, Hexp. cbn [o_sandbox o_verdict o_values]. rewrite map_app.
    assert (Hf : f = None \/ exists p j (h : bool), f = Some (p, j, if h then MHard else MFail)).
    { destruct (existsb is_stop (main_instrs tc)).
      - right. destruct (Hs eq_refl) as (p & j & h & _ & E). eauto.
      - left. apply (Hns eq_refl). }
    assert (Hf' : f' = None \/ exists j (h : bool), f' = Some (j, if h then MHard else MFail)).
    { destruct (existsb is_stop (t_cleanup tc)).
      - right. apply Hs'. reflexivity.
      - left. apply (Hns' eq_refl). }
    split; [reflexivity|].
    assert (Hfin : fst (finish f f') <> VdValidation /\ fst (finish f f') <> VdInternal).
    { destruct Hf as [->|(p & j & h & ->)], Hf' as [->|(j' & h' & ->)]; cbn [finish];
        try (destruct p); try (destruct h); try (destruct h'); cbn; split; discriminate. }
    destruct Hfin as [H1 H2]. split; [exact H1|]. split; [exact H2|reflexivity].
  Qed.

  (** *** the execution-time table *)
  Lemma puts_lookup_stable is_ : forall t e n c,
    Inv t e -> forallb wf_instr is_ = true -> accept_from roots e is_ = true ->
    lookup t n = Some c -> lookup (puts t is_) n = Some c.
  Proof.
    induction is_ as [|i is_ IH]; intros t e n c HI Hwf Hacc Hl; [exact Hl|].
    cbn [forallb] in Hwf. apply andb_true_iff in Hwf as [Hwi Hwf].
    cbn [accept_from] in Hacc. apply andb_true_iff in Hacc as [Hoki Hacc].
    assert (Hvi := validate_instr_ok roots t e i HI Hwi). rewrite Hoki in Hvi.
    destruct Hvi as (t' & _ & HI' & Ht'). subst t'.
    destruct i as [n0 c0|refs vals|hard]; cbn [puts]; try (apply (IH _ _ _ _ HI' Hwf Hacc Hl)).
    apply (IH _ _ _ _ HI' Hwf Hacc). cbn [put lookup].
    destruct (N.eqb n0 n) eqn:E; [|exact Hl]. exfalso. apply N.eqb_eq in E. subst n0.
    cbn [instr_ok] in Hoki. apply andb_true_iff in Hoki as [Hnew _].
    rewrite <- (contains_find roots t e n HI) in Hnew. unfold contains in Hnew. rewrite Hl in Hnew. discriminate.
  Qed.

  Definition instr_refs (i : instr) : list ref :=
    match i with IDef _ c => sdv_refs (c_sdv c) | IUse refs _ => refs | IStop _ => [] end.

  (** When every main step scheduled before an instruction has run, the execution-time table is
      builtins + the definitions before it, and it holds every symbol the instruction references,
      with the container validation saw; resolving the references succeeds. *)
  Theorem runtime_table_sound_partial b tc tv pre i post :
    builtins_ok b = true -> wf_tcase tc = true -> validate_all roots b tc = inl tv ->
    exec_order tc = pre ++ i :: post ->
    let rt := puts b pre in
    forall r, In r (instr_refs i) ->
      exists c, lookup rt (r_name r) = Some c /\ lookup tv (r_name r) = Some c /\
                exists v, resolve roots (fuel_of rt) rt false (c_sdv c) = Ok v.
  Proof.
    intros Hb Hwf Hval Hsplit rt r Hr.
    assert (HA := accept_iff roots b tc Hb Hwf).
    destruct (spec_accept roots b tc) eqn:Hacc; [|destruct HA as (p & j & err & Hv & _); congruence].
    destruct HA as (tv' & Hval' & Htv & _). rewrite Hval in Hval'. injection Hval' as <-.
    unfold spec_accept in Hacc. rewrite Hsplit, accept_from_app in Hacc. apply andb_true_iff in Hacc as [Hacc1 Hacc2].
    assert (Hwf' : forallb wf_instr pre = true /\ forallb wf_instr (i :: post) = true).
    { unfold wf_tcase in Hwf. rewrite Hsplit, forallb_app in Hwf. apply andb_true_iff in Hwf. exact Hwf. }
    destruct Hwf' as [Hwpre Hwpost].
    assert (Hv := validate_phase_ok roots pre b (env_of_table roots b) 0 (builtins_inv roots b Hb) Hwpre).
    rewrite Hacc1 in Hv. destruct Hv as [_ HI]. fold rt in HI.
    assert (Hacc2' := Hacc2). cbn [accept_from] in Hacc2. apply andb_true_iff in Hacc2 as [Hoki _].
    assert (Hrok : ref_ok (env_afters roots (env_of_table roots b) pre) r = true).
    { destruct i as [n c|refs vals|hard]; cbn [instr_ok instr_refs] in *.
      - apply andb_true_iff in Hoki as [_ H]. rewrite forallb_forall in H. apply H. exact Hr.
      - rewrite forallb_forall in Hoki. apply Hoki. exact Hr.
      - destruct Hr. }
    assert (Hbd := ref_ok_bound _ _ Hrok).
    destruct (lookup rt (r_name r)) as [c|] eqn:Hl;
      [|exfalso; exact (inv_lookup_of_find roots rt _ _ HI Hbd Hl)].
    exists c. split; [reflexivity|]. split.
    - rewrite Htv, Hsplit, <- puts_app. apply (puts_lookup_stable (i :: post) rt _ _ c HI Hwpost Hacc2' Hl).
    - destruct (aligned_find_some roots rt _ _ c (inv_aligned roots rt _ HI) Hl) as (d & Hf & _).
      destruct (inv_good roots rt _ HI _ d Hf) as [(v & _ & _ & Ha & _) _]. exists v.
      assert (Hre := resolve_entry_eager roots rt (inv_closed roots rt _ HI) [] (r_name r) c (fuel_of rt) false
                       (fun _ _ => eq_refl) Hl ltac:(unfold fuel_of; lia)).
      cbn [app] in Hre. rewrite Hre. exact Ha.
  Qed.

  (** *** termination: on a validated table the bound of the model is never reached *)
  Theorem indirect_terminates b tc tv :
    builtins_ok b = true -> wf_tcase tc = true -> validate_all roots b tc = inl tv ->
    forall f, length tv < f ->
      (forall m s, resolve roots f tv m s = resolve roots (fuel_of tv) tv m s) /\
      (forall v n c, lookup tv n = Some c ->
         check_indirect roots f tv v (sdv_refs (c_sdv c)) = check_indirect roots (fuel_of tv) tv v (sdv_refs (c_sdv c)) /\
         check_indirect roots f tv v (sdv_refs (c_sdv c)) <> SatExn XFuel).
  Proof.
    intros Hb Hwf Hval f Hf.
    assert (HA := accept_iff roots b tc Hb Hwf).
    destruct (spec_accept roots b tc) eqn:Hacc; [|destruct HA as (p & j & err & Hv & _); congruence].
    destruct HA as (tv' & Hval' & _ & HI). rewrite Hval in Hval'. injection Hval' as <-.
    set (e := env_afters roots (env_of_table roots b) (exec_order tc)) in *.
    split.
    - intros m s. apply resolve_fuel_irrelevant; [exact (inv_closed roots tv e HI)|exact Hf].
    - intros v n c Hl. destruct (inv_entry roots tv e n c HI Hl) as (_ & d & Hd & _ & Hreach & Hbd).
      assert (Hscan : forall g, length tv <= g ->
                check_indirect roots (S g) tv v (sdv_refs (c_sdv c)) = scan roots tv v (reach_of e (sdv_refs (c_sdv c)))).
      { intros g Hg. apply (check_indirect_scan roots tv v tv (inv_closed roots tv e HI) e [] (inv_aligned roots tv e HI) eq_refl);
          [reflexivity| |exact Hg].
        intros r Hr. apply (inv_lookup_of_find roots tv e _ HI). apply Hbd. exact Hr. }
      destruct f as [|g]; [lia|]. rewrite (Hscan g) by lia. unfold fuel_of. rewrite (Hscan (S (length tv))) by lia.
      split; [reflexivity|]. rewrite <- Hreach, (scan_ok roots tv e v (d_reach d) HI).
      + destruct (forallb _ _); discriminate.
      + destruct (inv_good roots tv e HI n d Hd) as [_ Hbound]. exact Hbound.
  Qed.
End Main.
