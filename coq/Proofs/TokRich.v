(** C09: the rich-string parser on a plain STRING and on  :> TEXT-UNTIL-END-OF-LINE. *)
From Coq Require Import NArith List Bool Arith Lia.
From Exactly Require Import Lib.Harness Model.Tok Spec.C09 Proofs.TokLex Proofs.TokStream Proofs.TokTotal
     Proofs.TokSplit Proofs.TokHere Proofs.TokParse.
Import ListNotations.
Local Open Scope N_scope.

Arguments py_isspace : simpl never.
Arguments is_sep : simpl never.
Arguments is_shlex_ws : simpl never.
Arguments naked_char : simpl never.

Section Rich.
  Variable alnum : N -> bool.

  (** when the head token is neither a here-document start nor the :> marker, a rich string is
      parsed exactly like a string *)
  Lemma rich_is_string : forall ts tk,
    ts_head ts = Some tk ->
    starts_with_here_doc_prefix (t_source tk) = false ->
    is_quoted tk || negb (text_eqb [58; 62] (t_string tk)) = true ->
    rich_string_parse alnum ts = parse_string alnum ts.
  Proof.
    intros ts tk Hh Hhd Heol. unfold rich_string_parse, tp_require_has_valid_head_token, look_ahead_state.
    rewrite Hh. cbn [bind]. rewrite Hhd.
    assert (Hm : tp_has_valid_head_unquoted_equals [58; 62] ts = false).
    { unfold tp_has_valid_head_unquoted_equals. rewrite Hh. apply orb_true_iff in Heol as [Hq | Hn].
      - rewrite Hq. apply andb_false_r.
      - destruct (is_quoted tk); [apply andb_false_r|]. apply negb_true_iff in Hn. rewrite Hn. apply andb_false_r. }
    rewrite Hm. unfold parse_symref_or_string, parse_string.
    destruct (parse_fragments_w_is_plain alnum ts) as [[[pl frs] ts']|e]; cbn [bind fst snd]; [|reflexivity].
    destruct frs as [|[s|name] [|f frs]]; try reflexivity. destruct pl; reflexivity.
  Qed.

  (** [rich_string_parse] is [SymbolNameOrStringRichStringParser] followed by the reduction of a bare
      symbol name to a one-symbol string *)
  Lemma rich_string_parse_reduces : forall ts,
    rich_string_parse alnum ts =
    do r <- rich_symref_or_string alnum ts;
    Ok (match fst r with inl n => [FSym n] | inr f => f end, snd r).
  Proof.
    intros ts. unfold rich_string_parse, rich_symref_or_string.
    destruct (tp_require_has_valid_head_token ts); cbn [bind]; [|reflexivity].
    destruct (ts_head ts) as [hd|]; [|reflexivity].
    destruct (starts_with_here_doc_prefix (t_source hd)).
    - destruct (heredoc_parse alnum ts) as [[frs0 ts0]|e]; reflexivity.
    - destruct (tp_has_valid_head_unquoted_equals [58; 62] ts).
      + destruct (ts_consume ts) as [r|e]; cbn [bind]; [|reflexivity].
        destruct (ts_consume_line false (snd r)) as [r2|e]; reflexivity.
      + destruct (parse_symref_or_string alnum ts) as [[[n0|f0] ts0]|e]; reflexivity.
  Qed.

  Theorem rich_string_token : forall lead t rest,
    forallb is_sep lead = true -> wf_tok t = true -> rest_ok rest -> is_reserved_word t = false ->
    plain_for_rich t = true ->
    exists ts ts',
      ts_init (lead ++ render_tok t ++ rest) = Ok ts /\
      rich_string_parse alnum ts = Ok (fragments_of alnum t, ts') /\
      ts_position ts' = (length lead + length (render_tok t) + adv rest)%nat.
  Proof.
    intros lead t rest Hlead Hwf Hr Hres Hpl.
    destruct (parse_string_token alnum lead t rest Hlead Hwf Hr Hres) as (ts & ts' & Hi & Hp & Hpos & _).
    exists ts, ts'. split; [assumption|]. split; [|assumption].
    rewrite <- Hp.
    (* the head of ts is the token *)
    pose proof (consume_token [] lead t rest 0%nat None Hlead Hwf Hr) as H0. cbn [app length] in H0.
    unfold ts_init in Hi. rewrite H0 in Hi. cbn [bind snd] in Hi. injection Hi as <-.
    unfold plain_for_rich in Hpl. apply andb_true_iff in Hpl as [P1 P2]. apply negb_true_iff in P1.
    eapply rich_is_string; [reflexivity | exact P1 |].
    unfold is_quoted, is_plain, spec_token, tok_type. cbn [t_type t_string].
    destruct (tok_quoted t); [reflexivity | exact P2].
  Qed.

  (** * :> TEXT-UNTIL-END-OF-LINE *)
  Lemma strip_py_lead_spaces : forall s x, forallb py_isspace s = true -> strip_py (s ++ x) = strip_py x.
  Proof. intros s x H. unfold strip_py, strip_by. rewrite lstrip_spaces by assumption. reflexivity. Qed.

  Theorem text_until_eol : forall lead gap txt after,
    forallb is_sep lead = true -> wf_rich (REol gap txt after) = true ->
    exists ts ts',
      ts_init (lead ++ render_rich (REol gap txt after)) = Ok ts /\
      rich_string_parse alnum ts = Ok (split alnum (strip_py txt), ts') /\
      ts_position ts' = length (lead ++ [58; 62] ++ gap ++ txt).
  Proof.
    intros lead gap txt after Hlead Hwf.
    cbn [wf_rich] in Hwf. rewrite !andb_true_iff in Hwf. destruct Hwf as [[Hgap Htxt] Hge].
    destruct (sep_no_nl_facts _ Hgap) as (Hg1 & Hg2 & Hg3).
    cbn [render_rich].
    set (t := [Naked [58; 62]] : stoken).
    assert (Hwf : wf_tok t = true) by reflexivity.
    assert (Et : render_tok t = [58; 62]) by reflexivity.
    remember (gap ++ txt ++ render_after after) as rest eqn:Erest.
    assert (Hr : rest_ok rest).
    { subst rest. destruct gap as [|c g].
      - cbn [nonempty orb negb] in Hge. destruct txt; [|discriminate]. cbn [app].
        destruct after as [a|]; [right; exists NL, a; auto | left; reflexivity].
      - right. cbn in Hg1. apply andb_true_iff in Hg1 as [Hc _]. exists c. eexists. split; [reflexivity | assumption]. }
    pose proof (consume_token [] lead t rest 0%nat None Hlead Hwf Hr) as H0. rewrite Et in H0.
    change ([] ++ lead ++ [58; 62] ++ rest) with (lead ++ [58; 62] ++ rest) in H0. cbn [length] in H0.
    unfold ts_init. rewrite H0. cbn [bind snd]. eexists.
    set (src := lead ++ [58; 62] ++ rest) in *.
    set (io0 := (0 + length lead + 2 + adv rest)%nat) in *.
    set (ts0 := TS src io0 0 (Some (spec_token t)) false (hits_eof rest)).
    destruct (consume_total ts0 eq_refl) as (ts1 & Hc1 & Hsrc1 & Hst1). cbn [ts_src ts_io ts0] in Hsrc1, Hst1.
    destruct ts1 as [src1 io1 start1 head1 err1 eof1]. cbn [ts_src ts_start] in Hsrc1, Hst1. subst src1 start1.
    destruct (consume_line_spec false (TS src io1 io0 head1 err1 eof1)) as (ts2 & Hc2 & Hsrc2 & Hst2).
    cbn [ts_src ts_start] in Hsrc2, Hst2.
    (* the rest of the line from io0 *)
    assert (Hline : exists pre1 l1, io0 = length pre1 /\ src = pre1 ++ l1 ++ render_after after /\ no_nl l1 = true /\
                                    strip_py l1 = strip_py txt /\ (length pre1 + length l1)%nat = length (lead ++ [58; 62] ++ gap ++ txt)).
    { unfold io0, src. rewrite Erest. clear Erest. destruct gap as [|c g].
      - cbn [nonempty orb negb] in Hge. destruct txt; [|discriminate]. cbn [app].
        exists (lead ++ [58; 62]), []. split; [|split; [|split; [|split]]].
        + destruct after as [a|]; cbn [render_after adv]; [rewrite N.eqb_refl|]; rewrite app_length; cbn [length]; lia.
        + cbn [app]. rewrite <- app_assoc. reflexivity.
        + reflexivity.
        + reflexivity.
        + len.
      - assert (Hc : (c =? NL) = false).
        { unfold no_nl in Hg2. cbn [existsb] in Hg2. rewrite negb_orb in Hg2. apply andb_true_iff in Hg2 as [Hc _].
          apply negb_true_iff in Hc. rewrite N.eqb_sym. exact Hc. }
        cbn [app adv]. rewrite Hc.
        exists (lead ++ [58; 62] ++ [c]), (g ++ txt). split; [|split; [|split; [|split]]].
        + len.
        + cbn [app]. rewrite <- !app_assoc. reflexivity.
        + unfold no_nl in *. cbn [existsb] in Hg2. rewrite negb_orb in Hg2. apply andb_true_iff in Hg2 as [_ Hg2'].
          rewrite existsb_app, negb_orb. rewrite Hg2'. exact Htxt.
        + apply strip_py_lead_spaces. cbn in Hg3. apply andb_true_iff in Hg3 as [_ H]. exact H.
        + len. }
    destruct Hline as (pre1 & l1 & Eio & Esrc & Hl1 & Hstrip & Elen).
    assert (Hrem : ts_remaining_part_of_current_line (TS src io1 io0 head1 err1 eof1) = l1 /\
                   next_start false src io0 = (length pre1 + length l1)%nat).
    { rewrite Eio, Esrc. destruct after as [a|]; cbn [render_after].
      - destruct (line_with_nl pre1 l1 a false Hl1) as [H1 H2]. split; [apply H1 | rewrite H2; lia].
      - rewrite app_nil_r. destruct (line_last pre1 l1 false Hl1) as [H1 H2]. split; [apply H1 | rewrite H2, app_length; reflexivity]. }
    destruct Hrem as [Hrem Hnext]. rewrite Hrem in Hc2. rewrite Hnext in Hst2.
    exists ts2. split; [reflexivity|]. split.
    - assert (Hm : tp_has_valid_head_unquoted_equals [58; 62] ts0 = true) by reflexivity.
      assert (Hhd : starts_with_here_doc_prefix (t_source (spec_token t)) = false) by reflexivity.
      fold src io0 ts0.
      unfold rich_string_parse, tp_require_has_valid_head_token, look_ahead_state.
      change (ts_head ts0) with (Some (spec_token t)). cbn [bind]. rewrite Hhd, Hm.
      rewrite Hc1. cbn [bind snd]. rewrite Hc2. cbn [bind fst snd]. rewrite Hstrip. reflexivity.
    - unfold ts_position. rewrite Hst2. exact Elen.
  Qed.
End Rich.
