(** No backward effect, in its strong form: the whole list of observations made before a point
    (which processes ran, in which order, and what each of them saw) is a function of the
    instructions before that point.  Proved directly on the model of the implementation. *)
From Coq Require Import NArith List Bool Arith Lia ZifyBool.
From Exactly Require Import Lib.Harness Model.Settings Spec.C11.
Import ListNotations.

Definition tr (x : list (point * obs) * state * status) : list (point * obs) := fst (fst x).

(** ** filters *)
Lemma filter_nil_forall : forall {A} (f : A -> bool) l, Forall (fun x => f x = false) l -> filter f l = [].
Proof.
  intros A f l H. induction H as [|x l Hx _ IH]; cbn [filter]; [reflexivity|]. rewrite Hx. exact IH.
Qed.

Lemma filter_id_forall : forall {A} (f : A -> bool) l, Forall (fun x => f x = true) l -> filter f l = l.
Proof.
  intros A f l H. induction H as [|x l Hx _ IH]; cbn [filter]; [reflexivity|]. rewrite Hx, IH. reflexivity.
Qed.

Lemma filter_ext_forall : forall {A} (f g : A -> bool) l, Forall (fun x => f x = g x) l -> filter f l = filter g l.
Proof.
  intros A f g l H. induction H as [|x l Hx _ IH]; cbn [filter]; [reflexivity|]. rewrite Hx, IH. reflexivity.
Qed.

(** ** one phase *)
Definition in_phase (p : phase_id) (lo : nat) (po : point * obs) : Prop :=
  exists k, fst po = PtInstr p k /\ (lo <= k)%nat.

Lemma run_ops_points : forall d dirs p ops idx s,
  Forall (in_phase p idx) (tr (run_ops d dirs p idx ops s)).
Proof.
  intros d dirs p ops. induction ops as [|o ops IH]; intros idx s.
  - constructor.
  - cbn [run_ops].
    assert (Hhere : Forall (in_phase p idx) (processes_of d p idx o s)).
    { destruct o; try (constructor; fail); cbn [processes_of].
      - apply Forall_map. apply Forall_forall. intros ob _. exists idx. split; [reflexivity|lia].
      - constructor; [|constructor]. exists idx. split; [reflexivity|lia]. }
    destruct (step d dirs (match p with PSetup => true | _ => false end) o s) as [s1 | s1 | ].
    + pose proof (IH (S idx) s1) as Hrec.
      destruct (run_ops d dirs p (S idx) ops s1) as [[t s''] r]. unfold tr in *. cbn [fst] in *.
      apply Forall_app. split; [exact Hhere|].
      eapply Forall_impl; [|exact Hrec]. intros po (k & H1 & H2). exists k. split; [exact H1|lia].
    + exact Hhere.
    + exact Hhere.
Qed.

Definition idx_below (n : nat) (po : point * obs) : bool :=
  match fst po with PtInstr _ k => (k <? n)%nat | PtAct => false end.

Lemma run_ops_prefix : forall d dirs p i ops ops' idx s,
  firstn i ops = firstn i ops' ->
  filter (idx_below (idx + i)) (tr (run_ops d dirs p idx ops s)) =
  filter (idx_below (idx + i)) (tr (run_ops d dirs p idx ops' s)).
Proof.
  intros d dirs p i. induction i as [|i IH]; intros ops ops' idx s H.
  - rewrite !filter_nil_forall; [reflexivity| |].
    + eapply Forall_impl; [|apply run_ops_points]. intros po (k & H1 & H2). unfold idx_below. rewrite H1.
      apply Nat.ltb_ge. lia.
    + eapply Forall_impl; [|apply run_ops_points]. intros po (k & H1 & H2). unfold idx_below. rewrite H1.
      apply Nat.ltb_ge. lia.
  - destruct ops as [|o ops], ops' as [|o' ops']; cbn [firstn] in H; try discriminate; [reflexivity|].
    injection H as <- H. cbn [run_ops].
    destruct (step d dirs (match p with PSetup => true | _ => false end) o s) as [s1 | s1 | ]; [|reflexivity|reflexivity].
    pose proof (IH ops ops' (S idx) s1 H) as Hrec.
    destruct (run_ops d dirs p (S idx) ops s1) as [[t s''] r].
    destruct (run_ops d dirs p (S idx) ops' s1) as [[t' s'''] r']. unfold tr in *. cbn [fst] in *.
    rewrite !filter_app. f_equal. replace (idx + S i)%nat with (S idx + i)%nat by lia. exact Hrec.
Qed.

(** ** the timeout in force at step k (interface used by C19) *)
Lemma apply_all_keeps : forall d m aps s s',
  apply_all d m aps s = Some s' -> st_timeout s' = st_timeout s /\ st_cwd s' = st_cwd s.
Proof.
  intros d m aps. induction aps as [|a aps IH]; intros s s' H; cbn [apply_all] in H.
  - injection H as <-. split; reflexivity.
  - destruct a; unfold apply_act, apply_non_act in H.
    + destruct (modify m (populated d (st_act s))) as [e'|]; [|discriminate].
      apply IH in H. cbn in H. exact H.
    + destruct (modify m (populated d (st_nonact s))) as [e'|]; [|discriminate].
      apply IH in H. cbn in H. exact H.
Qed.

Lemma step_timeout : forall d dirs b o s s1,
  step d dirs b o s = SOk s1 ->
  st_timeout s1 = match op_timeout o with Some t => t | None => st_timeout s end.
Proof.
  intros d dirs b o s s1 H. destruct o as [t md | t n v | cb suffix | t | cb suffix | ]; cbn [step op_timeout] in *.
  - destruct (apply_all d md (appliers b t) s) as [s'|] eqn:E; [|discriminate]. injection H as <-.
    apply apply_all_keeps in E. apply E.
  - destruct (apply_all d (MSet n v) (appliers b t) s) as [s'|] eqn:E; [|discriminate]. injection H as <-.
    apply apply_all_keeps in E. apply E.
  - destruct (walk (base_dir (st_cwd s) cb) suffix) as [dd|]; [|discriminate].
    destruct (existsb (path_eqb dd) dirs); [|discriminate]. injection H as <-. reflexivity.
  - injection H as <-. reflexivity.
  - injection H as <-. reflexivity.
  - injection H as <-. reflexivity.
Qed.

Lemma obs_value_timeout : forall d aps k s ob, In ob (obs_value d k aps s) -> o_timeout ob = st_timeout s.
Proof.
  intros d aps. induction aps as [|a aps IH]; intros k s ob H; cbn [obs_value] in H.
  - contradiction.
  - destruct H as [<-|H]; [reflexivity|]. apply (IH _ _ _ H).
Qed.

Lemma run_ops_timeout : forall d dirs p ops idx s k o,
  In (PtInstr p (idx + k), o) (tr (run_ops d dirs p idx ops s)) ->
  o_timeout o = timeout_in_force (map op_timeout ops) (st_timeout s) k.
Proof.
  intros d dirs p ops. induction ops as [|o0 ops IH]; intros idx s k o Hin.
  - contradiction.
  - cbn [run_ops] in Hin.
    assert (Hhere : In (PtInstr p (idx + k), o) (processes_of d p idx o0 s) ->
                    o_timeout o = timeout_in_force (map op_timeout (o0 :: ops)) (st_timeout s) k).
    { intros H. destruct o0; try contradiction; cbn [processes_of] in H.
      - apply in_map_iff in H as (ob & H & Hob). injection H as H1 <-.
        assert (k = 0)%nat by lia. subst k. cbn [timeout_in_force]. apply (obs_value_timeout d _ _ _ _ Hob).
      - destruct H as [H|[]]. injection H as H1 <-. assert (k = 0)%nat by lia. subst k. reflexivity. }
    pose proof (step_timeout d dirs (match p with PSetup => true | _ => false end) o0 s) as Hst.
    destruct (step d dirs (match p with PSetup => true | _ => false end) o0 s) as [s1 | s1 | ];
      [|apply Hhere; exact Hin|apply Hhere; exact Hin].
    pose proof (run_ops_points d dirs p ops (S idx) s1) as Hpts.
    pose proof (IH (S idx) s1) as Hrec.
    destruct (run_ops d dirs p (S idx) ops s1) as [[t s''] r]. unfold tr in *. cbn [fst] in *.
    apply in_app_or in Hin as [Hin|Hin]; [apply Hhere; exact Hin|].
    rewrite Forall_forall in Hpts. destruct (Hpts _ Hin) as (k' & H1 & H2). cbn [fst] in H1. injection H1 as H1.
    destruct k as [|k]; [lia|]. cbn [map timeout_in_force]. rewrite <- (Hst s1 eq_refl).
    apply (Hrec k o). replace (S idx + k)%nat with (idx + S k)%nat by lia. exact Hin.
Qed.

(** ** the trace of a whole execution, as nested segments *)
Definition seg (c : config) (p : phase_id) (ops : list op) (s : state) :=
  run_ops (c_default c) (c_dirs c) p 0 ops s.

Definition cl (c : config) (cleanup : list op) (s : state) : list (point * obs) := tr (seg c PCleanup cleanup s).

Definition trace_from_assert (c : config) (asrt cleanup : list op) (s2 : state) : list (point * obs) :=
  let '(t3, s3, r3) := seg c PAssert asrt s2 in
  t3 ++ match r3 with OutOfFuel => [] | _ => cl c cleanup s3 end.

Definition trace_from_ba (c : config) (ba asrt cleanup : list op) (s1 : state) : list (point * obs) :=
  let '(t2, s2, r2) := seg c PBeforeAssert ba s1 in
  t2 ++ match r2 with
        | OutOfFuel => []
        | Halted => cl c cleanup s2
        | Done => trace_from_assert c asrt cleanup s2
        end.

Definition trace_all (c : config) (setup ba asrt cleanup : list op) : list (point * obs) :=
  let '(t1, s1, r1) := seg c PSetup setup (initial c) in
  t1 ++ match r1 with
        | OutOfFuel => []
        | Halted => cl c cleanup s1
        | Done => (PtAct, obs_act (c_default c) s1) :: trace_from_ba c ba asrt cleanup s1
        end.

Lemma run_trace : forall c h,
  fst (run c h) = trace_all c (h_setup h) (h_before_assert h) (h_assert h) (h_cleanup h).
Proof.
  intros c h. unfold run, trace_all, trace_from_ba, trace_from_assert, cl, seg, tr. cbv zeta.
  destruct (run_ops (c_default c) (c_dirs c) PSetup 0 (h_setup h) (initial c)) as [[t1 s1] r1].
  destruct r1; cbn [fst snd].
  - destruct (run_ops (c_default c) (c_dirs c) PBeforeAssert 0 (h_before_assert h) s1) as [[t2 s2] r2].
    destruct r2; cbn [fst snd].
    + destruct (run_ops (c_default c) (c_dirs c) PAssert 0 (h_assert h) s2) as [[t3 s3] r3].
      destruct r3; cbn [fst snd];
        try (destruct (run_ops (c_default c) (c_dirs c) PCleanup 0 (h_cleanup h) s3) as [[tc sc] rc]; cbn [fst snd]);
        repeat (progress (rewrite <- ?app_assoc; cbn [app])); rewrite ?app_nil_r; reflexivity.
    + destruct (run_ops (c_default c) (c_dirs c) PCleanup 0 (h_cleanup h) s2) as [[tc sc] rc]; cbn [fst snd].
      repeat (progress (rewrite <- ?app_assoc; cbn [app])); rewrite ?app_nil_r; reflexivity.
    + repeat (progress (rewrite <- ?app_assoc; cbn [app])); rewrite ?app_nil_r; reflexivity.
  - destruct (run_ops (c_default c) (c_dirs c) PCleanup 0 (h_cleanup h) s1) as [[tc sc] rc]; cbn [fst snd]. reflexivity.
  - rewrite app_nil_r. reflexivity.
Qed.

(** ** which segments lie before a point *)
Definition before (pt : point) (po : point * obs) : bool := pt_ltb (fst po) pt.

Lemma before_phase : forall pt p lo t,
  Forall (in_phase p lo) t ->
  (pt_rank (PtInstr p 0) < pt_rank pt)%nat -> filter (before pt) t = t.
Proof.
  intros pt p lo t H Hr. apply filter_id_forall. eapply Forall_impl; [|exact H].
  intros po (k & H1 & _). unfold before, pt_ltb. rewrite H1.
  replace (pt_rank (PtInstr p k)) with (pt_rank (PtInstr p 0)) by (destruct p; reflexivity).
  apply orb_true_iff. left. apply Nat.ltb_lt. exact Hr.
Qed.

Lemma after_phase : forall pt p lo t,
  Forall (in_phase p lo) t ->
  (pt_rank pt < pt_rank (PtInstr p 0))%nat -> filter (before pt) t = [].
Proof.
  intros pt p lo t H Hr. apply filter_nil_forall. eapply Forall_impl; [|exact H].
  intros po (k & H1 & _). unfold before, pt_ltb. rewrite H1.
  replace (pt_rank (PtInstr p k)) with (pt_rank (PtInstr p 0)) by (destruct p; reflexivity).
  apply orb_false_iff. split; [apply Nat.ltb_ge; lia|]. apply andb_false_iff. left. apply Nat.eqb_neq. lia.
Qed.

Lemma same_phase : forall p i lo t,
  Forall (in_phase p lo) t -> filter (before (PtInstr p i)) t = filter (idx_below (0 + i)) t.
Proof.
  intros p i lo t H. apply filter_ext_forall. eapply Forall_impl; [|exact H].
  intros po (k & H1 & _). unfold before, idx_below, pt_ltb. rewrite H1. cbn [pt_index Nat.add].
  replace (pt_rank (PtInstr p k)) with (pt_rank (PtInstr p i)) by (destruct p; reflexivity).
  rewrite Nat.ltb_irrefl, Nat.eqb_refl. reflexivity.
Qed.

Lemma seg_prefix : forall c p i ops ops' s,
  firstn i ops = firstn i ops' ->
  filter (before (PtInstr p i)) (tr (seg c p ops s)) = filter (before (PtInstr p i)) (tr (seg c p ops' s)).
Proof.
  intros c p i ops ops' s H. unfold seg.
  rewrite (same_phase p i 0) by apply run_ops_points. rewrite (same_phase p i 0) by apply run_ops_points.
  apply run_ops_prefix. exact H.
Qed.

Lemma cl_after : forall c cleanup s pt, (pt_rank pt < 4)%nat -> filter (before pt) (cl c cleanup s) = [].
Proof. intros c cleanup s pt H. unfold cl, seg. eapply after_phase; [apply run_ops_points|exact H]. Qed.

Lemma from_assert_after : forall c asrt cleanup s pt,
  (pt_rank pt < 3)%nat -> filter (before pt) (trace_from_assert c asrt cleanup s) = [].
Proof.
  intros c asrt cleanup s pt H. unfold trace_from_assert.
  pose proof (run_ops_points (c_default c) (c_dirs c) PAssert asrt 0 s) as Hp. unfold seg.
  destruct (run_ops (c_default c) (c_dirs c) PAssert 0 asrt s) as [[t3 s3] r3]. unfold tr in Hp. cbn [fst] in Hp.
  rewrite filter_app. rewrite (after_phase pt PAssert 0 t3 Hp) by (cbn; lia).
  destruct r3; cbn [app]; try reflexivity; apply cl_after; lia.
Qed.

Lemma from_ba_after : forall c ba asrt cleanup s pt,
  (pt_rank pt < 2)%nat -> filter (before pt) (trace_from_ba c ba asrt cleanup s) = [].
Proof.
  intros c ba asrt cleanup s pt H. unfold trace_from_ba.
  pose proof (run_ops_points (c_default c) (c_dirs c) PBeforeAssert ba 0 s) as Hp. unfold seg.
  destruct (run_ops (c_default c) (c_dirs c) PBeforeAssert 0 ba s) as [[t2 s2] r2]. unfold tr in Hp. cbn [fst] in Hp.
  rewrite filter_app. rewrite (after_phase pt PBeforeAssert 0 t2 Hp) by (cbn; lia).
  destruct r2; cbn [app]; try reflexivity; [apply from_assert_after; lia | apply cl_after; lia].
Qed.

(** ** the theorem, phase by phase *)
Lemma cl_prefix : forall c i cleanup cleanup' s,
  firstn i cleanup = firstn i cleanup' ->
  filter (before (PtInstr PCleanup i)) (cl c cleanup s) = filter (before (PtInstr PCleanup i)) (cl c cleanup' s).
Proof. intros. unfold cl. apply seg_prefix. assumption. Qed.

Lemma from_assert_cleanup_prefix : forall c i asrt cleanup cleanup' s,
  firstn i cleanup = firstn i cleanup' ->
  filter (before (PtInstr PCleanup i)) (trace_from_assert c asrt cleanup s) =
  filter (before (PtInstr PCleanup i)) (trace_from_assert c asrt cleanup' s).
Proof.
  intros c i asrt cleanup cleanup' s H. unfold trace_from_assert.
  destruct (seg c PAssert asrt s) as [[t3 s3] r3]. rewrite !filter_app. f_equal.
  destruct r3; try reflexivity; apply cl_prefix; exact H.
Qed.

Lemma from_ba_cleanup_prefix : forall c i ba asrt cleanup cleanup' s,
  firstn i cleanup = firstn i cleanup' ->
  filter (before (PtInstr PCleanup i)) (trace_from_ba c ba asrt cleanup s) =
  filter (before (PtInstr PCleanup i)) (trace_from_ba c ba asrt cleanup' s).
Proof.
  intros c i ba asrt cleanup cleanup' s H. unfold trace_from_ba.
  destruct (seg c PBeforeAssert ba s) as [[t2 s2] r2]. rewrite !filter_app. f_equal.
  destruct r2; try reflexivity; [apply from_assert_cleanup_prefix | apply cl_prefix]; exact H.
Qed.

Lemma from_assert_prefix : forall c i asrt asrt' cleanup cleanup' s,
  firstn i asrt = firstn i asrt' ->
  filter (before (PtInstr PAssert i)) (trace_from_assert c asrt cleanup s) =
  filter (before (PtInstr PAssert i)) (trace_from_assert c asrt' cleanup' s).
Proof.
  intros c i asrt asrt' cleanup cleanup' s H. unfold trace_from_assert.
  pose proof (seg_prefix c PAssert i asrt asrt' s H) as Hp.
  destruct (seg c PAssert asrt s) as [[t3 s3] r3]. destruct (seg c PAssert asrt' s) as [[t3' s3'] r3'].
  unfold tr in Hp. cbn [fst] in Hp. rewrite !filter_app, Hp. f_equal.
  transitivity (@nil (point * obs)).
  - destruct r3; try reflexivity; apply cl_after; cbn; lia.
  - symmetry. destruct r3'; try reflexivity; apply cl_after; cbn; lia.
Qed.

Lemma from_ba_prefix : forall c i ba ba' asrt asrt' cleanup cleanup' s,
  firstn i ba = firstn i ba' ->
  filter (before (PtInstr PBeforeAssert i)) (trace_from_ba c ba asrt cleanup s) =
  filter (before (PtInstr PBeforeAssert i)) (trace_from_ba c ba' asrt' cleanup' s).
Proof.
  intros c i ba ba' asrt asrt' cleanup cleanup' s H. unfold trace_from_ba.
  pose proof (seg_prefix c PBeforeAssert i ba ba' s H) as Hp.
  destruct (seg c PBeforeAssert ba s) as [[t2 s2] r2]. destruct (seg c PBeforeAssert ba' s) as [[t2' s2'] r2'].
  unfold tr in Hp. cbn [fst] in Hp. rewrite !filter_app, Hp. f_equal.
  transitivity (@nil (point * obs)).
  - destruct r2; try reflexivity; [apply from_assert_after | apply cl_after]; cbn; lia.
  - symmetry. destruct r2'; try reflexivity; [apply from_assert_after | apply cl_after]; cbn; lia.
Qed.

Theorem no_backward_effect_trace : forall c h h' pt,
  agree_before pt h h' ->
  filter (fun po => pt_ltb (fst po) pt) (fst (run c h)) = filter (fun po => pt_ltb (fst po) pt) (fst (run c h')).
Proof.
  intros c h h' pt H. rewrite !run_trace. change (fun po : point * obs => pt_ltb (fst po) pt) with (before pt).
  unfold trace_all. destruct pt as [[| | |] i|]; cbn [agree_before] in H.
  - (* a setup instruction *)
    pose proof (seg_prefix c PSetup i (h_setup h) (h_setup h') (initial c) H) as Hp.
    destruct (seg c PSetup (h_setup h) (initial c)) as [[t1 s1] r1].
    destruct (seg c PSetup (h_setup h') (initial c)) as [[t1' s1'] r1'].
    unfold tr in Hp. cbn [fst] in Hp. rewrite !filter_app, Hp. f_equal.
    transitivity (@nil (point * obs)).
    + destruct r1; try reflexivity; [|apply cl_after; cbn; lia].
      cbn [filter before fst]. replace (pt_ltb PtAct (PtInstr PSetup i)) with false by reflexivity.
      apply from_ba_after; cbn; lia.
    + symmetry. destruct r1'; try reflexivity; [|apply cl_after; cbn; lia].
      cbn [filter before fst]. replace (pt_ltb PtAct (PtInstr PSetup i)) with false by reflexivity.
      apply from_ba_after; cbn; lia.
  - (* a before-assert instruction *)
    destruct H as (<- & H).
    destruct (seg c PSetup (h_setup h) (initial c)) as [[t1 s1] r1]. rewrite !filter_app. f_equal.
    destruct r1; try reflexivity; [|rewrite !cl_after by (cbn; lia); reflexivity].
    cbn [filter]. f_equal. destruct (before (PtInstr PBeforeAssert i) (PtAct, obs_act (c_default c) s1));
      [f_equal|]; apply from_ba_prefix; exact H.
  - (* an assert instruction *)
    destruct H as (<- & <- & H).
    destruct (seg c PSetup (h_setup h) (initial c)) as [[t1 s1] r1]. rewrite !filter_app. f_equal.
    destruct r1; try reflexivity; [|rewrite !cl_after by (cbn; lia); reflexivity].
    cbn [filter]. assert (Hrest : filter (before (PtInstr PAssert i)) (trace_from_ba c (h_before_assert h) (h_assert h) (h_cleanup h) s1) =
                                  filter (before (PtInstr PAssert i)) (trace_from_ba c (h_before_assert h) (h_assert h') (h_cleanup h') s1)).
    { unfold trace_from_ba. destruct (seg c PBeforeAssert (h_before_assert h) s1) as [[t2 s2] r2].
      rewrite !filter_app. f_equal. destruct r2; try reflexivity; [apply from_assert_prefix; exact H|].
      rewrite !cl_after by (cbn; lia). reflexivity. }
    rewrite Hrest. reflexivity.
  - (* a cleanup instruction *)
    destruct H as (<- & <- & <- & H).
    destruct (seg c PSetup (h_setup h) (initial c)) as [[t1 s1] r1]. rewrite !filter_app. f_equal.
    destruct r1; try reflexivity; [|apply cl_prefix; exact H].
    cbn [filter]. rewrite (from_ba_cleanup_prefix c i _ _ _ _ s1 H). reflexivity.
  - (* the act process *)
    rewrite <- H.
    destruct (seg c PSetup (h_setup h) (initial c)) as [[t1 s1] r1]. rewrite !filter_app. f_equal.
    destruct r1; try reflexivity; [|rewrite !cl_after by (cbn; lia); reflexivity].
    cbn [filter before fst]. replace (pt_ltb PtAct PtAct) with false by reflexivity.
    rewrite !from_ba_after by (cbn; lia). reflexivity.
Qed.
