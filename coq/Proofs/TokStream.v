(** C09: TokenStream (model) on sources written from the documented structure: every token is
    delivered with exactly its characters and its source text; an unterminated quote gives the
    SYNTAX_ERROR look-ahead state after exactly the preceding tokens. *)
From Coq Require Import NArith List Bool Arith Lia.
From Exactly Require Import Lib.Harness Model.Tok Spec.C09 Proofs.TokLex.
Import ListNotations.
Local Open Scope N_scope.

Arguments py_isspace : simpl never.
Arguments is_sep : simpl never.
Arguments is_shlex_ws : simpl never.
Arguments is_quote : simpl never.
Arguments naked_char : simpl never.

(** * Lists *)
Lemma skipn_app_len {A} : forall (a b : list A), skipn (length a) (a ++ b) = b.
Proof. induction a; intros; cbn; auto. Qed.

Lemma firstn_app_len {A} : forall (a b : list A), firstn (length a) (a ++ b) = a.
Proof. induction a; intros; cbn; f_equal; auto. Qed.

Lemma slice_mid {A} : forall (a m r : list A) (e : nat),
  e = (length a + length m)%nat -> slice (a ++ m ++ r) (length a) e = m.
Proof.
  intros a m r e ->. unfold slice. rewrite skipn_app_len.
  replace (length a + length m - length a)%nat with (length m) by lia. apply firstn_app_len.
Qed.

(** * strip *)
Section Strip.
  Variable p : N -> bool.

  Lemma lstrip_spaces : forall s x, forallb p s = true -> lstrip_by p (s ++ x) = lstrip_by p x.
  Proof.
    induction s as [|c s IH]; intros x H; [reflexivity|].
    cbn in H. apply andb_true_iff in H as [Hc Hs]. cbn [app lstrip_by]. rewrite Hc. auto.
  Qed.

  Lemma lstrip_nonspace : forall c x, p c = false -> lstrip_by p (c :: x) = c :: x.
  Proof. intros c x H. cbn. rewrite H. reflexivity. Qed.

  Lemma forallb_rev {A} (f : A -> bool) : forall l, forallb f (rev l) = forallb f l.
  Proof.
    induction l as [|a l IH]; [reflexivity|]. cbn. rewrite forallb_app, IH. cbn. rewrite andb_true_r. apply andb_comm.
  Qed.

  Lemma rstrip_app_spaces : forall x s2, forallb p s2 = true -> rstrip_by p (x ++ s2) = rstrip_by p x.
  Proof.
    intros x s2 H. unfold rstrip_by. rewrite rev_app_distr.
    rewrite lstrip_spaces by (rewrite forallb_rev; assumption). reflexivity.
  Qed.

  Lemma rstrip_last_nonspace : forall b c, p c = false -> rstrip_by p (b ++ [c]) = b ++ [c].
  Proof.
    intros b c H. unfold rstrip_by. rewrite rev_app_distr. cbn [rev app].
    rewrite lstrip_nonspace by assumption. change (c :: rev b) with ([c] ++ rev b).
    rewrite rev_app_distr, rev_involutive. reflexivity.
  Qed.

  (** a text whose first and last characters do not satisfy [p] *)
  Definition solid (s : text) : Prop :=
    (exists c r, s = c :: r /\ p c = false) /\ (exists b d, s = b ++ [d] /\ p d = false).

  Lemma strip_solid : forall s1 s s2,
    forallb p s1 = true -> forallb p s2 = true -> solid s -> strip_by p (s1 ++ s ++ s2) = s.
  Proof.
    intros s1 s s2 H1 H2 [(c & r & E1 & Hc) (b & d & E2 & Hd)]. unfold strip_by.
    rewrite lstrip_spaces by assumption. rewrite E1 at 1. cbn [app]. rewrite lstrip_nonspace by assumption.
    change (c :: r ++ s2) with ((c :: r) ++ s2). rewrite <- E1.
    rewrite rstrip_app_spaces by assumption. rewrite E2. apply rstrip_last_nonspace. assumption.
  Qed.

  Lemma solid_first : forall s, solid s -> exists c r, s = c :: r /\ p c = false.
  Proof. intros s [H _]. exact H. Qed.

  Lemma solid_last : forall s, solid s -> exists b c, s = b ++ [c] /\ p c = false.
  Proof. intros s [_ H]. exact H. Qed.

  Lemma solid_app : forall a b, solid a -> solid b -> solid (a ++ b).
  Proof.
    intros a b [(c & r & -> & Hc) _] [_ (b' & d & -> & Hd)]. split.
    - exists c. eexists. split; [reflexivity | assumption].
    - exists ((c :: r) ++ b'), d. rewrite <- app_assoc. auto.
  Qed.
End Strip.

Lemma solid_weaken : forall (p q : N -> bool) s, (forall c, q c = true -> p c = true) -> solid p s -> solid q s.
Proof.
  intros p q s H [(c & r & E1 & Hc) (b & d & E2 & Hd)]. split.
  - exists c, r. split; [assumption|]. destruct (q c) eqn:Q; [apply H in Q; congruence | reflexivity].
  - exists b, d. split; [assumption|]. destruct (q d) eqn:Q; [apply H in Q; congruence | reflexivity].
Qed.

Lemma frag_solid : forall f, wf_frag f = true -> solid py_isspace (render_frag f).
Proof.
  intros [cs|cs|cs] H; cbn [render_frag wf_frag] in *.
  - apply andb_true_iff in H as [Hne H]. destruct cs as [|c cs]; [discriminate|].
    destruct (exists_last (l := c :: cs)) as (b & d & E); [discriminate|].
    assert (Hd : naked_char d = true).
    { rewrite E in H. rewrite forallb_app in H. apply andb_true_iff in H as [_ H]. cbn in H.
      apply andb_true_iff in H as [H _]. exact H. }
    cbn in H. apply andb_true_iff in H as [Hc _]. split.
    + exists c, cs. split; [reflexivity | apply naked_not_space; assumption].
    + exists b, d. split; [assumption | apply naked_not_space; assumption].
  - split; [exists DQ; eexists; split; reflexivity | exists (DQ :: cs), DQ; split; reflexivity].
  - split; [exists SQ; eexists; split; reflexivity | exists (SQ :: cs), SQ; split; reflexivity].
Qed.

Lemma tok_solid : forall t, wf_tok t = true -> solid py_isspace (render_tok t).
Proof.
  intros t H. unfold wf_tok in H. apply andb_true_iff in H as [Hne H].
  induction t as [|f fs IH]; [discriminate|].
  cbn in H. apply andb_true_iff in H as [Hf Hfs].
  destruct fs as [|f' fs'].
  - unfold render_tok. cbn. rewrite app_nil_r. apply frag_solid; assumption.
  - change (render_tok (f :: f' :: fs')) with (render_frag f ++ render_tok (f' :: fs')).
    apply solid_app; [apply frag_solid; assumption | apply IH; [reflexivity | assumption]].
Qed.

Lemma tok_first_char : forall t, wf_tok t = true ->
  exists c r, render_tok t = c :: r /\ is_quote c = tok_quoted t.
Proof.
  intros [|f fs] H; [discriminate|].
  unfold wf_tok in H. cbn in H. apply andb_true_iff in H as [Hf _].
  destruct f as [cs|cs|cs]; unfold render_tok; cbn [map concat render_frag tok_quoted app].
  - cbn in Hf. apply andb_true_iff in Hf as [Hne Hf]. destruct cs as [|c cs]; [discriminate|].
    cbn in Hf. apply andb_true_iff in Hf as [Hc _]. exists c. eexists. split; [reflexivity|].
    apply naked_not_quote; assumption.
  - eexists. eexists. split; reflexivity.
  - eexists. eexists. split; reflexivity.
Qed.

Lemma tok_solid_ws : forall t, wf_tok t = true -> solid is_shlex_ws (render_tok t).
Proof. intros t H. eapply solid_weaken; [apply shlex_ws_py_space | apply tok_solid; assumption]. Qed.

Lemma seps_spaces : forall s, forallb is_sep s = true -> forallb is_shlex_ws s = true.
Proof. intros s H. exact H. Qed.

(** * consume *)

(** how much of the separator after a token is read with it: one character, unless it is a
    new-line (which is pushed back) *)
Definition adv (rest : text) : nat :=
  match rest with [] => 0%nat | c :: _ => if c =? NL then 0%nat else 1%nat end.

Lemma revert_newline_at : forall a c r,
  revert_newline (a ++ c :: r) (S (length a)) = if c =? NL then length a else S (length a).
Proof. intros. unfold revert_newline. rewrite nth_middle. destruct (c =? NL); reflexivity. Qed.

Definition tok_type (t : stoken) : ttype := if tok_quoted t then QUOTED else PLAIN.
Definition spec_token (t : stoken) : token := Tok (tok_type t) (chars_tok t) (render_tok t).

Lemma firstn_adv_spaces : forall rest, rest_ok rest -> forallb is_shlex_ws (firstn (adv rest) rest) = true.
Proof.
  intros rest [-> | (c & r & -> & Hc)]; [reflexivity|].
  cbn [adv]. destruct (c =? NL); [reflexivity|]. cbn. rewrite is_sep_shlex in Hc.
  rewrite Hc. reflexivity.
Qed.

(** The step: the stream is positioned (tell) at the end of [pre]; separators, a token written
    from well-formed fragments and the rest follow. *)
Lemma consume_token : forall pre seps t rest start0 head,
  forallb is_sep seps = true -> wf_tok t = true -> rest_ok rest ->
  ts_consume (TS (pre ++ seps ++ render_tok t ++ rest) (length pre) start0 head false false) =
  Ok (head, TS (pre ++ seps ++ render_tok t ++ rest)
               (length pre + length seps + length (render_tok t) + adv rest)%nat
               (length pre) (Some (spec_token t)) false (hits_eof rest)).
Proof.
  intros pre seps t rest start0 head Hs Ht Hr.
  unfold ts_consume, ts_consume_with. cbn [ts_err ts_src ts_head ts_io ts_eof].
  rewrite skipn_app_len. rewrite lex_token by assumption.
  set (src := pre ++ seps ++ render_tok t ++ rest).
  assert (Hstrip : forall e, e = (length pre + (length seps + length (render_tok t) + adv rest))%nat ->
                     strip_ws (slice src (length pre) e) = render_tok t).
  { intros e ->. unfold src.
    rewrite <- (firstn_skipn (adv rest) rest) at 1.
    replace (pre ++ seps ++ render_tok t ++ firstn (adv rest) rest ++ skipn (adv rest) rest)
      with (pre ++ (seps ++ render_tok t ++ firstn (adv rest) rest) ++ skipn (adv rest) rest)
      by (rewrite <- !app_assoc; reflexivity).
    rewrite slice_mid.
    - apply strip_solid; [apply seps_spaces; assumption | apply firstn_adv_spaces; assumption | apply tok_solid_ws; assumption].
    - rewrite !app_length, firstn_length.
      assert (adv rest <= length rest)%nat by (destruct rest as [|c r]; cbn; [lia | destruct (c =? NL); lia]).
      lia. }
  destruct (tok_first_char t Ht) as (c0 & r0 & E0 & Q0).
  assert (Hio : revert_newline src (length pre + (0 + length seps + length (render_tok t) + delim_len rest))
                = (length pre + (length seps + length (render_tok t) + adv rest))%nat).
  { destruct Hr as [-> | (c & r & -> & Hc)].
    - (* end of input: the character before is the last of the token, not a new-line *)
      destruct (solid_last _ _ (tok_solid t Ht)) as (b & d & Eb & Hd).
      unfold src. rewrite Eb. cbn [delim_len adv]. rewrite app_nil_r.
      replace (pre ++ seps ++ b ++ [d]) with ((pre ++ seps ++ b) ++ d :: []) by (rewrite <- !app_assoc; reflexivity).
      replace (length pre + (0 + length seps + length (b ++ [d]) + 0))%nat with (S (length (pre ++ seps ++ b))) by len.
      rewrite revert_newline_at.
      destruct (d =? NL) eqn:En; [apply N.eqb_eq in En; subst d; discriminate|]. len.
    - unfold src. cbn [delim_len adv].
      replace (pre ++ seps ++ render_tok t ++ c :: r) with ((pre ++ seps ++ render_tok t) ++ c :: r)
        by (rewrite <- !app_assoc; reflexivity).
      replace (length pre + (0 + length seps + length (render_tok t) + 1))%nat
        with (S (length (pre ++ seps ++ render_tok t))) by len.
      rewrite revert_newline_at. destruct (c =? NL); len. }
  rewrite Hio. rewrite Hstrip by reflexivity. rewrite E0.
  unfold spec_token, tok_type. rewrite <- Q0, <- E0.
  replace (length pre + length seps + length (render_tok t) + adv rest)%nat
    with (length pre + (length seps + length (render_tok t) + adv rest))%nat by lia. reflexivity.
Qed.

(** only separators (or nothing) remain: the head becomes null *)
Lemma consume_seps : forall pre seps start0 head,
  forallb is_sep seps = true ->
  ts_consume (TS (pre ++ seps) (length pre) start0 head false false) =
  Ok (head, TS (pre ++ seps) (length pre + length seps)%nat (length pre) None false true).
Proof.
  intros. unfold ts_consume, ts_consume_with. cbn [ts_err ts_src ts_head ts_io ts_eof].
  rewrite skipn_app_len, lex_only_seps by assumption. reflexivity.
Qed.

Lemma consume_at_eof : forall src start0 head,
  ts_consume (TS src (length src) start0 head false true) =
  Ok (head, TS src (length src) (length src) None false true).
Proof.
  intros. unfold ts_consume, ts_consume_with. cbn [ts_err ts_src ts_head ts_io ts_eof].
  rewrite skipn_all. cbn. rewrite Nat.add_0_r. reflexivity.
Qed.

(** an unterminated quote: SYNTAX_ERROR look-ahead state *)
Lemma consume_unterminated : forall pre seps u start0 head,
  forallb is_sep seps = true -> wf_unterm u = true ->
  ts_consume (TS (pre ++ seps ++ render_unterm u) (length pre) start0 head false false) =
  Ok (head, TS (pre ++ seps ++ render_unterm u) (length pre + length seps + length (render_unterm u))%nat
               (length pre) None true false).
Proof.
  intros. unfold ts_consume, ts_consume_with. cbn [ts_err ts_src ts_head ts_io ts_eof].
  rewrite skipn_app_len, lex_unterminated by assumption. do 3 f_equal. lia.
Qed.

(** * The whole stream *)

Notation core := obs_core.

Lemma core_spec_token : forall t p q,
  core (TokObs (t_type (spec_token t)) (t_string (spec_token t)) (t_source (spec_token t)) p q) =
  (tok_quoted t, chars_tok t, render_tok t).
Proof. intros. unfold obs_core, spec_token, tok_type. cbn. destruct (tok_quoted t); reflexivity. Qed.

Lemma items_rest_ok : forall s (l : sitems),
  forallb is_sep s = true -> (l <> [] -> nonempty s = true) -> wf_items l = true ->
  rest_ok (s ++ render_items l).
Proof.
  intros s l Hs Hne Hl. destruct s as [|c s].
  - destruct l as [|x l]; [left; reflexivity|]. specialize (Hne ltac:(discriminate)). discriminate.
  - right. cbn in Hs. apply andb_true_iff in Hs as [Hc _]. exists c. eexists. split; [reflexivity | assumption].
Qed.

Lemma wf_items_cons : forall t s l, wf_items ((t, s) :: l) = true ->
  wf_tok t = true /\ forallb is_sep s = true /\ (l <> [] -> nonempty s = true) /\ wf_items l = true.
Proof.
  intros t s l H. destruct l as [|x l].
  - cbn in H. apply andb_true_iff in H as [H1 H2]. repeat split; auto.
  - cbn [wf_items] in H. rewrite !andb_true_iff in H. destruct H as [[[H1 H2] H3] H4]. repeat split; auto.
Qed.

Lemma adv_app : forall s x, s <> [] -> adv (s ++ x) = adv s.
Proof. intros [|c s] x H; [contradiction|reflexivity]. Qed.

Lemma hits_eof_app : forall s x, hits_eof (s ++ x) = hits_eof s && hits_eof x.
Proof. intros [|c s] x; reflexivity. Qed.

(** how the source ends after the items: nothing more, or an unterminated quote *)
Inductive ending := EndsPlain | EndsUnterminated (u : unterminated).
Definition render_ending (e : ending) : text := match e with EndsPlain => [] | EndsUnterminated u => render_unterm u end.
Definition wf_ending (e : ending) : bool := match e with EndsPlain => true | EndsUnterminated u => wf_unterm u end.
(** the final look-ahead state: null, or SYNTAX_ERROR at a position not before [lo] and not after [hi] *)
Definition final_ok (e : ending) (lo hi : nat) (f : ts_end) : Prop :=
  match e, f with
  | EndsPlain, EndNull _ _ => True
  | EndsUnterminated _, EndSyntaxError p _ => (lo <= p <= hi)%nat
  | _, _ => False
  end.

Lemma render_unterm_nonempty : forall u, render_unterm u <> [].
Proof. intros [pre q cs] H. unfold render_unterm in H. cbn [u_pre u_q u_cs] in H. apply app_eq_nil in H as [_ H]. discriminate. Qed.

Lemma last_sep_nonempty_cons : forall t s (l : sitems),
  last_sep_nonempty ((t, s) :: l) = true -> (l = [] -> nonempty s = true) /\ (l <> [] -> last_sep_nonempty l = true).
Proof.
  intros t s l H. unfold last_sep_nonempty in *. cbn [rev] in H. split.
  - intros ->. exact H.
  - intros Hl. destruct (rev l) as [|[t' s'] r] eqn:E.
    + apply (f_equal (@rev _)) in E. rewrite rev_involutive in E. cbn in E. contradiction.
    + cbn in H. exact H.
Qed.

Lemma tail_rest_ok : forall s (l : sitems) e,
  forallb is_sep s = true -> (l <> [] -> nonempty s = true) -> wf_items l = true ->
  (e <> EndsPlain -> l = [] -> nonempty s = true) ->
  rest_ok (s ++ render_items l ++ render_ending e).
Proof.
  intros s l e Hs Hne Hl He. destruct s as [|c s].
  - destruct l as [|x l]; [|specialize (Hne ltac:(discriminate)); discriminate].
    destruct e as [|u]; [left; reflexivity|]. specialize (He ltac:(discriminate) eq_refl). discriminate.
  - right. cbn in Hs. apply andb_true_iff in Hs as [Hc _]. exists c. eexists. split; [reflexivity | assumption].
Qed.

(** the loop of [ts_run], started with a head token already read; [seps ++ items ++ ending]
    follow the tell position *)
Lemma run_loop_items : forall (l : sitems) e fuel pre seps tk start eof,
  wf_items l = true -> forallb is_sep seps = true -> wf_ending e = true ->
  (e <> EndsPlain -> l <> [] -> last_sep_nonempty l = true) ->
  (eof = true -> seps = [] /\ l = [] /\ e = EndsPlain) ->
  (S (length l) < fuel)%nat ->
  exists obs f,
    ts_run_loop fuel (TS (pre ++ seps ++ render_items l ++ render_ending e) (length pre) start (Some tk) false eof) =
      (TokObs (t_type tk) (t_string tk) (t_source tk) start (length pre) :: obs, f) /\
    map core obs = spec_tokens l /\
    final_ok e (length pre) (length (pre ++ seps ++ render_items l)) f.
Proof.
  induction l as [|[t s] l IH]; intros e fuel pre seps tk start eof Hl Hs He Hlast Heof Hfuel.
  - destruct fuel as [|fuel]; [cbn in Hfuel; lia|].
    cbn [render_items map concat app].
    cbn [ts_run_loop ts_head].
    destruct eof.
    + destruct (Heof eq_refl) as (-> & _ & ->). cbn [render_ending]. rewrite !app_nil_r.
      rewrite consume_at_eof. destruct fuel as [|fuel]; [cbn in Hfuel; lia|].
      cbn. eexists. eexists. split; [reflexivity|]. split; [reflexivity|]. exact I.
    + destruct e as [|u]; cbn [render_ending].
      * rewrite app_nil_r. rewrite consume_seps by assumption. destruct fuel as [|fuel]; [cbn in Hfuel; lia|].
        cbn. eexists. eexists. split; [reflexivity|]. split; [reflexivity|]. exact I.
      * rewrite consume_unterminated by assumption. destruct fuel as [|fuel]; [cbn in Hfuel; lia|].
        cbn. eexists. eexists. split; [reflexivity|]. split; [reflexivity|]. rewrite !app_length. cbn. lia.
  - destruct fuel as [|fuel]; [cbn in Hfuel; lia|].
    apply wf_items_cons in Hl as (Ht & Hsep & Hne & Hl').
    destruct eof; [destruct (Heof eq_refl) as (_ & C & _); discriminate|].
    change (render_items ((t, s) :: l)) with ((render_tok t ++ s) ++ render_items l).
    rewrite <- !app_assoc.
    cbn [ts_run_loop ts_head].
    assert (Hs_last : e <> EndsPlain -> l = [] -> nonempty s = true).
    { intros Hne_e ->. specialize (Hlast Hne_e ltac:(discriminate)).
      apply last_sep_nonempty_cons in Hlast as [Hl0 _]. auto. }
    assert (Hr : rest_ok (s ++ render_items l ++ render_ending e)) by (apply tail_rest_ok; assumption).
    rewrite consume_token by assumption.
    set (tl := render_items l ++ render_ending e) in *.
    set (k := adv (s ++ tl)).
    assert (Hk : (k <= length s)%nat /\ forallb is_sep (skipn k s) = true /\
                 (hits_eof (s ++ tl) = true -> skipn k s = [] /\ l = [] /\ e = EndsPlain)).
    { unfold k. destruct s as [|c s'].
      - destruct l as [|x l0]; [|specialize (Hne ltac:(discriminate)); discriminate].
        destruct e as [|u]; [|specialize (Hs_last ltac:(discriminate) eq_refl); discriminate].
        cbn. repeat split; auto.
      - cbn [app adv]. destruct (c =? NL); cbn; repeat split; auto; try lia; try discriminate.
        cbn in Hsep. apply andb_true_iff in Hsep as [_ Hsep]. exact Hsep. }
    destruct Hk as (Hk1 & Hk2 & Hk4).
    pose (pre' := pre ++ seps ++ render_tok t ++ firstn k s).
    assert (Esrc : pre ++ seps ++ render_tok t ++ s ++ tl = pre' ++ skipn k s ++ tl).
    { unfold pre'. rewrite <- !app_assoc. rewrite (app_assoc (firstn k s)). rewrite firstn_skipn. reflexivity. }
    assert (Elen : (length pre + length seps + length (render_tok t) + k)%nat = length pre').
    { unfold pre'. rewrite !app_length, firstn_length. lia. }
    rewrite Elen. rewrite Esrc. unfold tl.
    destruct (IH e fuel pre' (skipn k s) (spec_token t) (length pre) (hits_eof (s ++ render_items l ++ render_ending e)))
      as (obs & f & Hrun & Hcore & Hfin); auto.
    { intros Hne_e Hl_ne. specialize (Hlast Hne_e ltac:(discriminate)).
      apply last_sep_nonempty_cons in Hlast as [_ Hl1]. auto. }
    { cbn in Hfuel. lia. }
    rewrite Hrun. eexists. exists f. split; [reflexivity|]. split.
    + cbn [map spec_tokens]. rewrite core_spec_token. cbn [fst]. f_equal. exact Hcore.
    + destruct e as [|u]; destruct f; cbn [final_ok] in *; auto.
      clear - Hfin Hk1. unfold pre' in Hfin. rewrite !app_length in *. rewrite skipn_length, firstn_length in Hfin. lia.
Qed.

Lemma items_length : forall (m : sitems), wf_items m = true -> (length m <= length (render_items m))%nat.
Proof.
  induction m as [|[t1 s1] m IHm]; intros Hm; [cbn; lia|].
  apply wf_items_cons in Hm as (Ht1 & _ & _ & Hm').
  change (render_items ((t1, s1) :: m)) with ((render_tok t1 ++ s1) ++ render_items m).
  specialize (IHm Hm'). destruct (tok_first_char t1 Ht1) as (c & r & E & _).
  rewrite !app_length, E. cbn [length]. lia.
Qed.

(** the whole stream, either ending *)
Lemma stream_run : forall lead (l : sitems) e,
  forallb is_sep lead = true -> wf_items l = true -> wf_ending e = true ->
  (e <> EndsPlain -> l <> [] -> last_sep_nonempty l = true) ->
  exists obs f,
    ts_run (lead ++ render_items l ++ render_ending e) = (obs, f) /\ map core obs = spec_tokens l /\
    final_ok e 0 (length (lead ++ render_items l)) f.
Proof.
  intros lead l e Hlead Hl He Hlast. unfold ts_run, ts_init.
  destruct l as [|[t s] l].
  - cbn [render_items map concat app].
    destruct e as [|u]; cbn [render_ending].
    + rewrite app_nil_r.
      pose proof (consume_seps [] lead 0%nat None Hlead) as H. cbn [app length] in H. rewrite H.
      cbn. eexists. eexists. split; [reflexivity|]. split; [reflexivity|]. exact I.
    + pose proof (consume_unterminated [] lead u 0%nat None Hlead He) as H. cbn [app length] in H. rewrite H.
      cbn. eexists. eexists. split; [reflexivity|]. split; [reflexivity|]. lia.
  - pose proof (wf_items_cons _ _ _ Hl) as (Ht & Hsep & Hne & Hl').
    change (render_items ((t, s) :: l)) with ((render_tok t ++ s) ++ render_items l).
    rewrite <- !app_assoc.
    assert (Hs_last : e <> EndsPlain -> l = [] -> nonempty s = true).
    { intros Hne_e ->. specialize (Hlast Hne_e ltac:(discriminate)).
      apply last_sep_nonempty_cons in Hlast as [Hl0 _]. auto. }
    assert (Hr : rest_ok (s ++ render_items l ++ render_ending e)) by (apply tail_rest_ok; assumption).
    set (tl := render_items l ++ render_ending e) in *.
    pose proof (consume_token [] lead t (s ++ tl) 0%nat None Hlead Ht Hr) as H.
    cbn [app length] in H. rewrite H. cbn [bind snd].
    set (k := adv (s ++ tl)).
    assert (Hk : (k <= length s)%nat /\ forallb is_sep (skipn k s) = true /\
                 (hits_eof (s ++ tl) = true -> skipn k s = [] /\ l = [] /\ e = EndsPlain)).
    { unfold k. destruct s as [|c s'].
      - destruct l as [|x l0]; [|specialize (Hne ltac:(discriminate)); discriminate].
        destruct e as [|u]; [|specialize (Hs_last ltac:(discriminate) eq_refl); discriminate].
        cbn. repeat split; auto.
      - cbn [app adv]. destruct (c =? NL); cbn; repeat split; auto; try lia; try discriminate.
        cbn in Hsep. apply andb_true_iff in Hsep as [_ Hsep]. exact Hsep. }
    destruct Hk as (Hk1 & Hk2 & Hk4).
    pose (pre' := lead ++ render_tok t ++ firstn k s).
    assert (Esrc : lead ++ render_tok t ++ s ++ tl = pre' ++ skipn k s ++ tl).
    { unfold pre'. rewrite <- !app_assoc. rewrite (app_assoc (firstn k s)). rewrite firstn_skipn. reflexivity. }
    assert (Elen : (0 + length lead + length (render_tok t) + k)%nat = length pre').
    { unfold pre'. rewrite !app_length, firstn_length. lia. }
    rewrite Elen. rewrite Esrc. unfold tl.
    destruct (run_loop_items l e (S (length (pre' ++ skipn k s ++ render_items l ++ render_ending e))) pre' (skipn k s)
                (spec_token t) 0%nat (hits_eof (s ++ render_items l ++ render_ending e))) as (obs & f & Hrun & Hcore & Hfin); auto.
    { intros Hne_e Hl_ne. specialize (Hlast Hne_e ltac:(discriminate)).
      apply last_sep_nonempty_cons in Hlast as [_ Hl1]. auto. }
    { pose proof (items_length l Hl') as Hlen. destruct (tok_first_char t Ht) as (c & r & E & _).
      unfold pre'. rewrite !app_length, E. cbn [length]. lia. }
    rewrite Hrun. eexists. exists f. split; [reflexivity|]. split.
    + cbn [map spec_tokens]. rewrite core_spec_token. cbn [fst]. f_equal. exact Hcore.
    + destruct e as [|u]; destruct f; cbn [final_ok] in *; auto.
      clear - Hfin Hk1. unfold pre' in Hfin. rewrite !app_length in *. rewrite skipn_length, firstn_length in Hfin. lia.
Qed.

(** C09_token_boundaries on the whole stream: a source written as [lead t1 s1 t2 s2 ... tn sn]
    from well-formed tokens and separators yields exactly the tokens t1 ... tn, each with the
    characters of its fragments and its own source text, and then the null state. *)
Theorem token_boundaries : forall lead (l : sitems),
  forallb is_sep lead = true -> wf_items l = true ->
  exists obs p q,
    ts_run (lead ++ render_items l) = (obs, EndNull p q) /\ map core obs = spec_tokens l.
Proof.
  intros lead l Hlead Hl.
  destruct (stream_run lead l EndsPlain Hlead Hl eq_refl) as (obs & f & Hrun & Hcore & Hfin).
  { intros C; contradiction. }
  cbn [render_ending] in Hrun. rewrite app_nil_r in Hrun.
  destruct f as [p q| |]; cbn in Hfin; try contradiction. eauto.
Qed.

(** an unterminated quote after the items: exactly the items are delivered, then the look-ahead
    state is SYNTAX_ERROR, at a position not after the beginning of the offending token *)
Theorem unterminated_quote : forall lead (l : sitems) u,
  forallb is_sep lead = true -> wf_items l = true -> wf_unterm u = true -> last_sep_nonempty l = true ->
  exists obs p q,
    ts_run (lead ++ render_items l ++ render_unterm u) = (obs, EndSyntaxError p q) /\
    map core obs = spec_tokens l /\ (p <= length (lead ++ render_items l))%nat.
Proof.
  intros lead l u Hlead Hl Hu Hlast.
  destruct (stream_run lead l (EndsUnterminated u) Hlead Hl Hu) as (obs & f & Hrun & Hcore & Hfin); auto.
  cbn [render_ending] in Hrun.
  destruct f as [|p q|]; cbn in Hfin; try contradiction. exists obs, p, q. repeat split; auto. lia.
Qed.
