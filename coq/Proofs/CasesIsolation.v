(** Proofs about what is shared between cases (C17, part B): a case changes no object of the store
    that existed before it (given the copies), the world is restored, hence every case of a run
    behaves like the reference semantics [spec_case] applied to what the program was started with. *)
From Coq Require Import ZArith NArith List Bool Arith Lia.
From Exactly Require Import Lib.Harness Model.Outcome Model.Exec Model.World Model.Suite Model.Cases Spec.C17.
Import ListNotations.

(** ** lists and the store *)
Lemma length_upd {A} (l : list A) : forall r x, length (upd l r x) = length l.
Proof. induction l as [|y l IH]; intros [|r] x; cbn; auto. Qed.

Lemma nth_upd_same {A} (l : list A) : forall r x d, r < length l -> nth r (upd l r x) d = x.
Proof. induction l as [|y l IH]; intros [|r] x d H; cbn in *; try lia; auto. apply IH. lia. Qed.

Lemma nth_upd_other {A} (l : list A) : forall r r' x d, r <> r' -> nth r' (upd l r x) d = nth r' l d.
Proof. induction l as [|y l IH]; intros [|r] [|r'] x d H; cbn; try reflexivity; try lia. apply IH. lia. Qed.

Lemma get_env_alloc_old st e r : r < length (s_envs st) -> get_env (fst (alloc_env st e)) r = get_env st r.
Proof. intros H. unfold get_env, alloc_env. cbn. apply app_nth1. exact H. Qed.
Lemma get_env_alloc_new st e : get_env (fst (alloc_env st e)) (snd (alloc_env st e)) = e.
Proof. unfold get_env, alloc_env. cbn. rewrite app_nth2 by lia. rewrite Nat.sub_diag. reflexivity. Qed.
Lemma get_sym_alloc_old st e r : r < length (s_syms st) -> get_sym (fst (alloc_sym st e)) r = get_sym st r.
Proof. intros H. unfold get_sym, alloc_sym. cbn. apply app_nth1. exact H. Qed.
Lemma get_sym_alloc_new st e : get_sym (fst (alloc_sym st e)) (snd (alloc_sym st e)) = e.
Proof. unfold get_sym, alloc_sym. cbn. rewrite app_nth2 by lia. rewrite Nat.sub_diag. reflexivity. Qed.

(** ** objects below a bound are not touched *)
Definition cell_above (n : nat) (c : option env_ref) : Prop :=
  match c with Some (ERStore r) => n <= r | _ => True end.
Definition handles_above (ne ns : nat) (h : handles) : Prop :=
  cell_above ne (h_env_instr h) /\ cell_above ne (h_env_setup h) /\ ns <= h_syms h.

Definition store_ext (ne ns : nat) (st st' : store) : Prop :=
  length (s_envs st) <= length (s_envs st') /\ length (s_syms st) <= length (s_syms st') /\
  (forall r, r < ne -> get_env st' r = get_env st r) /\ (forall r, r < ns -> get_sym st' r = get_sym st r).

Lemma store_ext_refl ne ns st : store_ext ne ns st st.
Proof. repeat split; auto. Qed.
Lemma store_ext_trans ne ns a b c : store_ext ne ns a b -> store_ext ne ns b c -> store_ext ne ns a c.
Proof.
  intros (A1 & A2 & A3 & A4) (B1 & B2 & B3 & B4). repeat split; try lia.
  - intros r H. rewrite B3, A3; auto.
  - intros r H. rewrite B4, A4; auto.
Qed.

Lemma alloc_env_ext ne ns st e : ne <= length (s_envs st) -> store_ext ne ns st (fst (alloc_env st e)).
Proof.
  intros H. repeat split; cbn; try rewrite app_length; cbn; try lia.
  - intros r Hr. apply get_env_alloc_old. lia.
Qed.
Lemma alloc_sym_ext ne ns st e : ns <= length (s_syms st) -> store_ext ne ns st (fst (alloc_sym st e)).
Proof.
  intros H. repeat split; cbn; try rewrite app_length; cbn; try lia.
  - intros r Hr. apply get_sym_alloc_old. lia.
Qed.
Lemma set_env_ext ne ns st r e : ne <= r -> store_ext ne ns st (set_env st r e).
Proof.
  intros H. repeat split; cbn; try rewrite length_upd; try lia.
  intros r' Hr. unfold get_env. cbn. apply nth_upd_other. lia.
Qed.
Lemma set_sym_ext ne ns st r e : ns <= r -> store_ext ne ns st (set_sym st r e).
Proof.
  intros H. repeat split; cbn; try rewrite length_upd; try lia.
  intros r' Hr. unfold get_sym. cbn. apply nth_upd_other. lia.
Qed.

Lemma populate_ext pol cw st c ne ns :
  ne <= length (s_envs st) -> cell_above ne c ->
  store_ext ne ns st (fst (populate pol cw st c)) /\ cell_above ne (Some (snd (populate pol cw st c))).
Proof.
  intros Hl Hc. unfold populate. destruct c as [r|].
  - cbn. split; [apply store_ext_refl|exact Hc].
  - destruct (p_getter pol).
    + cbn. split; [apply alloc_env_ext; exact Hl|exact Hl].
    + cbn. split; [apply store_ext_refl|exact I].
Qed.

Lemma modify_env_ext cw st r f ne ns :
  cell_above ne (Some r) -> store_ext ne ns st (snd (modify_env cw st r f)).
Proof.
  intros H. destruct r as [r|]; cbn.
  - apply set_env_ext. exact H.
  - apply store_ext_refl.
Qed.

Lemma env_mutation_ext pol cw st c f ne ns :
  ne <= length (s_envs st) -> cell_above ne c ->
  let p := populate pol cw st c in
  let m := modify_env cw (fst p) (snd p) f in
  store_ext ne ns st (snd m) /\ cell_above ne (Some (snd p)).
Proof.
  intros Hl Hc p m. destruct (populate_ext pol cw st c ne ns Hl Hc) as [E C]. split; [|exact C].
  eapply store_ext_trans; [exact E|]. apply modify_env_ext. exact C.
Qed.

Lemma apply_mutation_ext pol cw st h m ne ns :
  ne <= length (s_envs st) -> handles_above ne ns h ->
  let '(cw', st', h') := apply_mutation pol (cw, st, h) m in
  store_ext ne ns st st' /\ handles_above ne ns h' /\ h_root h' = h_root h.
Proof.
  intros Hl (Hi & Hs & Hy).
  destruct m as [k v|k|k v|k|t|n v|d|d name]; cbn [apply_mutation].
  - pose proof (env_mutation_ext pol cw st (h_env_instr h) (env_set k v) ne ns Hl Hi) as [E C].
    destruct (populate pol cw st (h_env_instr h)) as [st1 r]. cbn [fst snd] in *.
    destruct (modify_env cw st1 r (env_set k v)) as [cw' st2]. cbn [snd] in E.
    split; [exact E|]. split; [|reflexivity]. unfold handles_above; cbn; auto.
  - pose proof (env_mutation_ext pol cw st (h_env_instr h) (env_unset k) ne ns Hl Hi) as [E C].
    destruct (populate pol cw st (h_env_instr h)) as [st1 r]. cbn [fst snd] in *.
    destruct (modify_env cw st1 r (env_unset k)) as [cw' st2]. cbn [snd] in E.
    split; [exact E|]. split; [|reflexivity]. unfold handles_above; cbn; auto.
  - pose proof (env_mutation_ext pol cw st (h_env_setup h) (env_set k v) ne ns Hl Hs) as [E C].
    destruct (populate pol cw st (h_env_setup h)) as [st1 r]. cbn [fst snd] in *.
    destruct (modify_env cw st1 r (env_set k v)) as [cw' st2]. cbn [snd] in E.
    split; [exact E|]. split; [|reflexivity]. unfold handles_above; cbn; auto.
  - pose proof (env_mutation_ext pol cw st (h_env_setup h) (env_unset k) ne ns Hl Hs) as [E C].
    destruct (populate pol cw st (h_env_setup h)) as [st1 r]. cbn [fst snd] in *.
    destruct (modify_env cw st1 r (env_unset k)) as [cw' st2]. cbn [snd] in E.
    split; [exact E|]. split; [|reflexivity]. unfold handles_above; cbn; auto.
  - split; [apply store_ext_refl|]. split; [|reflexivity]. unfold handles_above; cbn; auto.
  - split; [apply set_sym_ext; exact Hy|]. split; [|reflexivity]. unfold handles_above; cbn; auto.
  - split; [apply store_ext_refl|]. split; [|reflexivity]. unfold handles_above; cbn; auto.
  - destruct (h_root h) eqn:Er; (split; [apply store_ext_refl|]; split; [|cbn; congruence]; unfold handles_above; cbn; auto).
Qed.

Lemma apply_mutations_ext pol ms : forall cw st h ne ns,
  ne <= length (s_envs st) -> handles_above ne ns h ->
  let '(cw', st', h') := apply_mutations pol (cw, st, h) ms in
  store_ext ne ns st st' /\ handles_above ne ns h' /\ h_root h' = h_root h.
Proof.
  induction ms as [|m ms IH]; intros cw st h ne ns Hl Hh; cbn [apply_mutations fold_left].
  - split; [apply store_ext_refl|]. split; [exact Hh|reflexivity].
  - pose proof (apply_mutation_ext pol cw st h m ne ns Hl Hh) as H1.
    destruct (apply_mutation pol (cw, st, h) m) as [[cw1 st1] h1]. destruct H1 as (E1 & A1 & R1).
    assert (Hl1 : ne <= length (s_envs st1)) by (destruct E1; lia).
    specialize (IH cw1 st1 h1 ne ns Hl1 A1). unfold apply_mutations in IH.
    destruct (fold_left (apply_mutation pol) ms (cw1, st1, h1)) as [[cw2 st2] h2]. destruct IH as (E2 & A2 & R2).
    split; [eapply store_ext_trans; eauto|]. split; [exact A2|congruence].
Qed.

(** the copies *)
Lemma copy_env_ext flag st r ne ns :
  ne <= length (s_envs st) ->
  store_ext ne ns st (fst (copy_env flag st r)) /\
  s_syms (fst (copy_env flag st r)) = s_syms st /\
  (flag = true \/ cell_above ne (option_map ERStore r) -> cell_above ne (option_map ERStore (snd (copy_env flag st r)))).
Proof.
  intros Hl. destruct r as [r|].
  - destruct flag.
    + change (copy_env true st (Some r)) with (fst (alloc_env st (get_env st r)), Some (snd (alloc_env st (get_env st r)))).
      cbn [fst snd option_map cell_above]. split; [apply alloc_env_ext; exact Hl|]. split; [reflexivity|]. intros _. exact Hl.
    + cbn. split; [apply store_ext_refl|]. split; [reflexivity|]. intros [H|H]; [discriminate|exact H].
  - cbn. split; [apply store_ext_refl|]. split; [reflexivity|]. auto.
Qed.
Lemma copy_sym_ext flag st r ne ns :
  ns <= length (s_syms st) ->
  store_ext ne ns st (fst (copy_sym flag st r)) /\
  s_envs (fst (copy_sym flag st r)) = s_envs st /\
  (flag = true \/ ns <= r -> ns <= snd (copy_sym flag st r)).
Proof.
  intros Hl. destruct flag.
  - change (copy_sym true st r) with (alloc_sym st (get_sym st r)).
    split; [apply alloc_sym_ext; exact Hl|]. split; [reflexivity|]. intros _. exact Hl.
  - cbn. split; [apply store_ext_refl|]. split; [reflexivity|]. intros [H|H]; [discriminate|exact H].
Qed.

Definition env_policy_ok (pol : policy) : bool := p_l1_env pol || (p_l2_env_setup pol && p_l2_env_instr pol).
Definition sym_policy_ok (pol : policy) : bool := p_l1_sym pol || (p_l2_sym_val pol && p_l2_sym_post pol).

(** *** Isolation of the configuration: with a copy on every path from the shared configuration to
    what instructions are handed, a case changes NO object that existed before it started. *)
Theorem config_isolated {R} pol keep ec (sem : case_sem R) cw st :
  env_policy_ok pol = true -> sym_policy_ok pol = true ->
  let '(cw', st', o) := run_case pol keep ec sem (cw, st) in
  store_ext (length (s_envs st)) (length (s_syms st)) st st'.
Proof.
  intros He Hs. unfold env_policy_ok, sym_policy_ok in *.
  set (ne := length (s_envs st)). set (ns := length (s_syms st)).
  unfold run_case, run_from_stage1.
  pose proof (copy_env_ext (p_l1_env pol) st (ec_environ ec) ne ns (le_n _)) as (E1 & S1 & C1).
  destruct (copy_env (p_l1_env pol) st (ec_environ ec)) as [st1 env1]. cbn [fst snd] in *.
  assert (L1 : ne <= length (s_envs st1)) by (destruct E1; lia).
  assert (M1 : ns <= length (s_syms st1)) by (rewrite S1; apply le_n).
  pose proof (copy_sym_ext (p_l1_sym pol) st1 (ec_symbols ec) ne ns M1) as (E2 & S2 & C2).
  destruct (copy_sym (p_l1_sym pol) st1 (ec_symbols ec)) as [st2 sym1]. cbn [fst snd] in *.
  assert (L2 : ne <= length (s_envs st2)) by (rewrite S2; exact L1).
  pose proof (copy_env_ext (p_l2_env_setup pol) st2 env1 ne ns L2) as (E3 & S3 & C3).
  destruct (copy_env (p_l2_env_setup pol) st2 env1) as [st3 env_setup]. cbn [fst snd] in *.
  assert (L3 : ne <= length (s_envs st3)) by (destruct E3; lia).
  pose proof (copy_env_ext (p_l2_env_instr pol) st3 env1 ne ns L3) as (E4 & S4 & C4).
  destruct (copy_env (p_l2_env_instr pol) st3 env1) as [st4 env_instr]. cbn [fst snd] in *.
  assert (L4 : ne <= length (s_envs st4)) by (destruct E4; lia).
  assert (M4 : ns <= length (s_syms st4)) by (destruct E2 as (_ & ? & _); rewrite S4, S3; lia).
  pose proof (copy_sym_ext (p_l2_sym_val pol) st4 sym1 ne ns M4) as (E5 & S5 & C5).
  destruct (copy_sym (p_l2_sym_val pol) st4 sym1) as [st5 sym_val]. cbn [fst snd] in *.
  assert (L5 : ne <= length (s_envs st5)) by (rewrite S5; exact L4).
  assert (E05 : store_ext ne ns st st5) by (repeat (eapply store_ext_trans; [eassumption|]); apply store_ext_refl).
  (* which handles are above the bound *)
  assert (A1 : cell_above ne (option_map ERStore env_setup) /\ cell_above ne (option_map ERStore env_instr)).
  { destruct (p_l1_env pol); [split; [apply C3|apply C4]; right; apply C1; left; reflexivity|].
    cbn [orb] in He. apply andb_true_iff in He as [Ha Hb]. rewrite Ha in C3. rewrite Hb in C4. split; [apply C3|apply C4]; left; reflexivity. }
  assert (A2 : ns <= sym_val /\ (p_l1_sym pol = true -> ns <= sym1) /\ (p_l1_sym pol = false -> p_l2_sym_post pol = true)).
  { destruct (p_l1_sym pol).
    - split; [apply C5; right; apply C2; left; reflexivity|]. split; [intros _; apply C2; left; reflexivity|discriminate].
    - cbn [orb] in Hs. apply andb_true_iff in Hs as [Ha Hb]. rewrite Ha in C5. split; [apply C5; left; reflexivity|]. split; [discriminate|intros _; exact Hb]. }
  destruct A1 as [A1s A1i]. destruct A2 as (A2v & A2a & A2b).
  destruct (cs_stage1 sem _) as [r1 m1].
  match goal with |- context [apply_mutations pol (?a, ?b, ?c) m1] =>
    pose proof (apply_mutations_ext pol m1 a b c ne ns L5 (conj A1i (conj A1s A2v))) as HM1;
    destruct (apply_mutations pol (a, b, c) m1) as [[cw1 st6] h1'] end.
  destruct HM1 as (E6 & (B1 & B2 & B3) & R6).
  assert (E06 : store_ext ne ns st st6) by (eapply store_ext_trans; eassumption).
  destruct r1 as [r|[]]; [exact E06|].
  assert (L6 : ne <= length (s_envs st6)) by (destruct E06; lia).
  assert (M6 : ns <= length (s_syms st6)) by (destruct E06 as (_ & ? & _); lia).
  pose proof (copy_sym_ext (p_l2_sym_post pol) st6 sym1 ne ns M6) as (E7 & S7 & C7).
  destruct (copy_sym (p_l2_sym_post pol) st6 sym1) as [st7 sym_post]. cbn [fst snd] in *.
  assert (L7 : ne <= length (s_envs st7)) by (rewrite S7; exact L6).
  assert (A3 : ns <= sym_post).
  { apply C7. destruct (p_l1_sym pol); [right; apply A2a; reflexivity|left; apply A2b; reflexivity]. }
  destruct (cs_stage2 sem _) as [r2 m2].
  match goal with |- context [apply_mutations pol (?a, ?b, ?c) m2] =>
    pose proof (apply_mutations_ext pol m2 a b c ne ns L7 (conj B1 (conj B2 A3))) as HM2;
    destruct (apply_mutations pol (a, b, c) m2) as [[cw3 st8] h2'] end.
  destruct HM2 as (E8 & _ & _).
  eapply store_ext_trans; [exact E06|]. eapply store_ext_trans; eassumption.
Qed.

(** *** ... and isolation rests on those copies: for EVERY policy that leaves one path from the shared
    configuration to the instructions without a copy, one and the same test case (it sets a variable
    through both environment handles and defines a symbol before and after the sandbox exists)
    changes the shared environment dictionary or the shared predefined symbols. *)
Definition meddling_case : case_sem nat :=
  CS (fun _ => (inr tt, [MSymPut 7 7])) (fun _ => (0, [MEnvSet 7 7; MActEnvSet 7 7; MSymPut 8 8])).
Definition shared_conf : exe_conf := EC (Some 0) (Some 60%Z) 0.
Definition start_world : cworld := CW (W (DOther 0) [] [] 0) [].
Definition start_store : store := ST [[(1, 1)]] [[(2, 2)]].

Theorem isolation_needs_the_copies pol :
  env_policy_ok pol && sym_policy_ok pol = false ->
  let '(_, st', _) := run_case pol false shared_conf meddling_case (start_world, start_store) in
  get_env st' 0 <> get_env start_store 0 \/ get_sym st' 0 <> get_sym start_store 0.
Proof.
  destruct pol as [[] [] [] [] [] [] []]; intros H; try discriminate H; vm_compute;
    first [left; discriminate | right; discriminate].
Qed.

Theorem config_isolated_without_copies_refuted :
  exists (ec : exe_conf) (sem : case_sem nat) cw st,
    let '(_, st', _) := run_case no_copy_policy false ec sem (cw, st) in
    ~ store_ext (length (s_envs st)) (length (s_syms st)) st st'.
Proof.
  exists shared_conf, meddling_case, start_world, start_store. vm_compute. intros (_ & _ & H & _).
  specialize (H 0 (le_n 1)). discriminate H.
Qed.

(** ** the world is restored *)
Definition no_os (h : handles) : Prop :=
  h_env_instr h <> Some EROsEnviron /\ h_env_setup h <> Some EROsEnviron.

Definition world_kept (root : option nat) (cw cw' : cworld) : Prop :=
  w_environ (cw_w cw') = w_environ (cw_w cw) /\ w_roots (cw_w cw') = w_roots (cw_w cw) /\
  w_next (cw_w cw') = w_next (cw_w cw) /\
  exists extra, cw_files cw' = cw_files cw ++ extra /\ forall f, In f extra -> root = Some (fst (fst f)).

Lemma world_kept_refl root cw : world_kept root cw cw.
Proof. repeat split; auto. exists []. rewrite app_nil_r. split; [reflexivity|]. intros f []. Qed.
Lemma world_kept_trans root a b c : world_kept root a b -> world_kept root b c -> world_kept root a c.
Proof.
  intros (A1 & A2 & A3 & x & A4 & A5) (B1 & B2 & B3 & y & B4 & B5). repeat split; try congruence.
  exists (x ++ y). split; [rewrite B4, A4, app_assoc; reflexivity|]. intros f Hf. apply in_app_or in Hf as [Hf|Hf]; auto.
Qed.

Lemma env_mutation_world pol cw st c f :
  p_getter pol = true -> c <> Some EROsEnviron ->
  let p := populate pol cw st c in
  fst (modify_env cw (fst p) (snd p) f) = cw /\ snd p <> EROsEnviron.
Proof.
  intros Hg Hc. unfold populate. destruct c as [[r|]|]; [| congruence |].
  - cbn. split; [reflexivity|discriminate].
  - rewrite Hg. cbn. split; [reflexivity|discriminate].
Qed.

Lemma apply_mutation_world pol cw st h m :
  p_getter pol = true -> no_os h ->
  let '(cw', st', h') := apply_mutation pol (cw, st, h) m in
  world_kept (h_root h) cw cw' /\ no_os h'.
Proof.
  intros Hg [Hi Hs].
  destruct m as [k v|k|k v|k|t|n v|d|d name]; cbn [apply_mutation].
  - pose proof (env_mutation_world pol cw st (h_env_instr h) (env_set k v) Hg Hi) as [E C].
    destruct (populate pol cw st (h_env_instr h)) as [st1 r]. cbn [fst snd] in *.
    destruct (modify_env cw st1 r (env_set k v)) as [cw' st2]. cbn [fst] in E. subst cw'.
    split; [apply world_kept_refl|]. split; cbn; congruence.
  - pose proof (env_mutation_world pol cw st (h_env_instr h) (env_unset k) Hg Hi) as [E C].
    destruct (populate pol cw st (h_env_instr h)) as [st1 r]. cbn [fst snd] in *.
    destruct (modify_env cw st1 r (env_unset k)) as [cw' st2]. cbn [fst] in E. subst cw'.
    split; [apply world_kept_refl|]. split; cbn; congruence.
  - pose proof (env_mutation_world pol cw st (h_env_setup h) (env_set k v) Hg Hs) as [E C].
    destruct (populate pol cw st (h_env_setup h)) as [st1 r]. cbn [fst snd] in *.
    destruct (modify_env cw st1 r (env_set k v)) as [cw' st2]. cbn [fst] in E. subst cw'.
    split; [apply world_kept_refl|]. split; cbn; congruence.
  - pose proof (env_mutation_world pol cw st (h_env_setup h) (env_unset k) Hg Hs) as [E C].
    destruct (populate pol cw st (h_env_setup h)) as [st1 r]. cbn [fst snd] in *.
    destruct (modify_env cw st1 r (env_unset k)) as [cw' st2]. cbn [fst] in E. subst cw'.
    split; [apply world_kept_refl|]. split; cbn; congruence.
  - split; [apply world_kept_refl|]. split; cbn; assumption.
  - split; [apply world_kept_refl|]. split; assumption.
  - split; [|split; assumption]. repeat split; cbn; auto. exists []. rewrite app_nil_r. split; [reflexivity|]. intros f [].
  - destruct (h_root h) as [r|] eqn:Er.
    + split; [|split; assumption]. repeat split; cbn; auto. exists [(r, d, name)]. split; [reflexivity|].
      intros f [<-|[]]. reflexivity.
    + split; [apply world_kept_refl|]. split; assumption.
Qed.

Lemma apply_mutations_world pol ms : forall cw st h,
  p_getter pol = true -> no_os h ->
  let '(cw', st', h') := apply_mutations pol (cw, st, h) ms in
  world_kept (h_root h) cw cw' /\ no_os h'.
Proof.
  induction ms as [|m ms IH]; intros cw st h Hg Hn; cbn [apply_mutations fold_left].
  - split; [apply world_kept_refl|exact Hn].
  - pose proof (apply_mutation_world pol cw st h m Hg Hn) as H1.
    pose proof (apply_mutation_ext pol cw st h m 0 0 (Nat.le_0_l _)) as H0.
    destruct (apply_mutation pol (cw, st, h) m) as [[cw1 st1] h1]. destruct H1 as [K1 N1].
    assert (R1 : h_root h1 = h_root h).
    { apply H0. repeat split; try apply Nat.le_0_l; destruct (h_env_instr h) as [[]|], (h_env_setup h) as [[]|]; cbn; auto using Nat.le_0_l. }
    specialize (IH cw1 st1 h1 Hg N1). unfold apply_mutations in IH.
    destruct (fold_left (apply_mutation pol) ms (cw1, st1, h1)) as [[cw2 st2] h2]. destruct IH as [K2 N2].
    split; [|exact N2]. rewrite R1 in K2. eapply world_kept_trans; eassumption.
Qed.

Definition cw_ok (cw : cworld) : Prop :=
  (forall r, In r (w_roots (cw_w cw)) -> r < w_next (cw_w cw)) /\
  (forall f, In f (cw_files cw) -> fst (fst f) < w_next (cw_w cw)) /\
  match w_cwd (cw_w cw) with DSub r _ | DRoot r => r < w_next (cw_w cw) | DOther _ => True end.

Lemma filter_all {A} (f : A -> bool) l : (forall x, In x l -> f x = true) -> filter f l = l.
Proof. induction l as [|x l IH]; intros H; cbn; [reflexivity|]. rewrite (H x (or_introl eq_refl)). f_equal. apply IH. intros y Hy. apply H. right. exact Hy. Qed.
Lemma filter_none {A} (f : A -> bool) l : (forall x, In x l -> f x = false) -> filter f l = [].
Proof. induction l as [|x l IH]; intros H; cbn; [reflexivity|]. rewrite (H x (or_introl eq_refl)). apply IH. intros y Hy. apply H. right. exact Hy. Qed.

(** After a case (not kept), whatever it did and however it ended: the current directory, the
    environment of the process, the set of existing sandboxes and the files in them are what they
    were; only the supply of fresh names has advanced. *)
Theorem world_restored {R} pol ec (sem : case_sem R) cw st :
  p_getter pol = true -> cw_ok cw ->
  let '(cw', st', o) := run_case pol false ec sem (cw, st) in
  w_cwd (cw_w cw') = w_cwd (cw_w cw) /\ w_environ (cw_w cw') = w_environ (cw_w cw) /\
  w_roots (cw_w cw') = w_roots (cw_w cw) /\ cw_files cw' = cw_files cw /\
  w_next (cw_w cw) <= w_next (cw_w cw') /\ cw_ok cw'.
Proof.
  intros Hg (Ok1 & Ok2 & Ok3). unfold run_case, run_from_stage1.
  destruct (copy_env (p_l1_env pol) st (ec_environ ec)) as [st1 env1].
  destruct (copy_sym (p_l1_sym pol) st1 (ec_symbols ec)) as [st2 sym1].
  destruct (copy_env (p_l2_env_setup pol) st2 env1) as [st3 env_setup].
  destruct (copy_env (p_l2_env_instr pol) st3 env1) as [st4 env_instr].
  destruct (copy_sym (p_l2_sym_val pol) st4 sym1) as [st5 sym_val].
  destruct (cs_stage1 sem _) as [r1 m1].
  match goal with |- context [apply_mutations pol (?a, ?b, ?c) m1] =>
    assert (N0 : no_os c) by (split; cbn; [destruct env_instr|destruct env_setup]; discriminate);
    pose proof (apply_mutations_world pol m1 a b c Hg N0) as HM1;
    destruct (apply_mutations pol (a, b, c) m1) as [[cw1 st6] h1'] end.
  cbn [h_root] in HM1. destruct HM1 as [(K1 & K2 & K3 & x1 & K4 & K5) N1].
  assert (X1 : x1 = []) by (destruct x1 as [|f x1]; [reflexivity|]; specialize (K5 f (or_introl eq_refl)); discriminate).
  subst x1. rewrite app_nil_r in K4.
  destruct r1 as [r|[]].
  - cbn. repeat split; auto; cbn; try rewrite K3; try rewrite K2; try rewrite K4; auto.
  - destruct (copy_sym (p_l2_sym_post pol) st6 sym1) as [st7 sym_post].
    destruct (cs_stage2 sem _) as [r2 m2].
    match goal with |- context [apply_mutations pol (?a, ?b, ?c) m2] =>
      assert (N2 : no_os c) by exact N1;
      pose proof (apply_mutations_world pol m2 a b c Hg N2) as HM2;
      destruct (apply_mutations pol (a, b, c) m2) as [[cw3 st8] h2'] end.
    cbn [h_root cw_w cw_files w_environ w_roots w_next] in HM2. destruct HM2 as [(J1 & J2 & J3 & x2 & J4 & J5) _].
    set (root := w_next (cw_w cw1)) in *.
    assert (Hroot : root = w_next (cw_w cw)) by (unfold root; exact K3).
    assert (Froots : filter (fun x => negb (Nat.eqb x root)) (w_roots (cw_w cw3)) = w_roots (cw_w cw)).
    { rewrite J2. cbn [filter cw_w w_roots]. rewrite Nat.eqb_refl. cbn [negb]. rewrite K2. apply filter_all.
      intros y Hy. apply Ok1 in Hy. apply negb_true_iff, Nat.eqb_neq. lia. }
    assert (Ffiles : filter (fun f => negb (Nat.eqb (fst (fst f)) root)) (cw_files cw3) = cw_files cw).
    { rewrite J4. cbn [cw_files]. rewrite filter_app, K4. rewrite (filter_all _ (cw_files cw)), (filter_none _ x2); [apply app_nil_r| |].
      - intros f Hf. apply J5 in Hf. injection Hf as ->. rewrite Nat.eqb_refl. reflexivity.
      - intros f Hf. apply Ok2 in Hf. apply negb_true_iff, Nat.eqb_neq. lia. }
    set (cwf := set_cwd (remove_root_files root cw3) (w_cwd (cw_w cw))).
    assert (F1 : w_cwd (cw_w cwf) = w_cwd (cw_w cw)) by reflexivity.
    assert (F2 : w_environ (cw_w cwf) = w_environ (cw_w cw)) by (cbn; rewrite J1; cbn; exact K1).
    assert (F3 : w_roots (cw_w cwf) = w_roots (cw_w cw)) by (cbn; exact Froots).
    assert (F4 : cw_files cwf = cw_files cw) by (cbn; exact Ffiles).
    assert (F5 : w_next (cw_w cwf) = S (w_next (cw_w cw))) by (cbn; rewrite J3; cbn; lia).
    split; [exact F1|]. split; [exact F2|]. split; [exact F3|]. split; [exact F4|]. split; [lia|].
    unfold cw_ok. rewrite F1, F3, F4, F5. split; [|split].
    + intros y Hy. apply Ok1 in Hy. lia.
    + intros f Hf. apply Ok2 in Hf. lia.
    + destruct (w_cwd (cw_w cw)); auto; lia.
Qed.

(** ** refinement: with the copies of the code, a case run in the shared store behaves like the
    reference semantics on private values *)
Definition cell_rel (st : store) (c : option env_ref) (e : option env) : Prop :=
  match c, e with
  | None, None => True
  | Some (ERStore r), Some x => r < length (s_envs st) /\ get_env st r = x
  | _, _ => False
  end.

Definition sim (osenv : env) (cw : cworld) (st : store) (h : handles) (l : local) : Prop :=
  cell_rel st (h_env_instr h) (l_env_instr l) /\ cell_rel st (h_env_setup h) (l_env_setup l) /\
  (forall r, h_env_instr h = Some (ERStore r) -> h_env_setup h <> Some (ERStore r)) /\
  h_timeout h = l_timeout l /\
  h_syms h < length (s_syms st) /\ get_sym st (h_syms h) = l_syms l /\
  w_environ (cw_w cw) = osenv /\
  rel_dir (h_root h) (w_cwd (cw_w cw)) = l_cwd l /\
  files_of (h_root h) (cw_files cw) = l_files l /\
  (l_sandbox l = match h_root h with Some _ => true | None => false end).

Lemma deref_sim osenv cw st c e : w_environ (cw_w cw) = osenv -> cell_rel st c e -> deref cw st c = or_os osenv e.
Proof.
  intros Hw Hc. destruct c as [[r|]|], e as [x|]; cbn in *; try contradiction; try (destruct Hc; assumption); assumption.
Qed.

Lemma view_sim osenv cw st h l : sim osenv cw st h l -> view_of cw st h = local_view osenv l.
Proof.
  intros (A & B & _ & C & _ & D & E & F & G & _). unfold view_of, local_view.
  rewrite (deref_sim osenv cw st _ _ E A), (deref_sim osenv cw st _ _ E B), C, D, F, G. reflexivity.
Qed.

Lemma get_env_set_same st r e : r < length (s_envs st) -> get_env (set_env st r e) r = e.
Proof. intros H. unfold get_env, set_env. cbn. apply nth_upd_same. exact H. Qed.
Lemma get_env_set_other st r r' e : r <> r' -> get_env (set_env st r e) r' = get_env st r'.
Proof. intros H. unfold get_env, set_env. cbn. apply nth_upd_other. exact H. Qed.

(** one environment cell is modified: the cell itself follows the reference semantics, the other
    cell (never an alias) keeps its contents *)
Lemma env_cell_step osenv cw st c e other oe f :
  w_environ (cw_w cw) = osenv -> cell_rel st c e -> cell_rel st other oe ->
  (forall r, c = Some (ERStore r) -> other <> Some (ERStore r)) ->
  let p := populate real_policy cw st c in
  let m := modify_env cw (fst p) (snd p) f in
  fst m = cw /\ s_syms (snd m) = s_syms st /\
  cell_rel (snd m) (Some (snd p)) (Some (f (or_os osenv e))) /\ cell_rel (snd m) other oe /\
  (forall r, snd p = ERStore r -> other <> Some (ERStore r)).
Proof.
  intros Hw Hc Ho Hd. destruct c as [[r|]|], e as [x|]; cbn in Hc; try contradiction.
  - destruct Hc as [Hr Hx]. cbn [populate fst snd modify_env or_os].
    assert (Hlen : length (s_envs (set_env st r (f (get_env st r)))) = length (s_envs st)) by (unfold set_env; cbn [s_envs]; apply length_upd).
    split; [reflexivity|]. split; [reflexivity|]. split; [|split].
    + cbn [cell_rel]. rewrite Hlen. split; [exact Hr|]. rewrite get_env_set_same by exact Hr. rewrite Hx. reflexivity.
    + destruct other as [[r'|]|], oe as [y|]; cbn [cell_rel] in Ho |- *; try contradiction; auto.
      destruct Ho as [Hr' Hy]. rewrite Hlen. split; [exact Hr'|].
      rewrite get_env_set_other; [exact Hy|]. intros ->. apply (Hd r' eq_refl). reflexivity.
    + intros r0 E. injection E as <-. apply Hd. reflexivity.
  - cbn [populate real_policy p_getter or_os].
    change (alloc_env st (w_environ (cw_w cw))) with (ST (s_envs st ++ [w_environ (cw_w cw)]) (s_syms st), length (s_envs st)).
    cbn [fst snd modify_env].
    set (st1 := ST (s_envs st ++ [w_environ (cw_w cw)]) (s_syms st)).
    set (n := length (s_envs st)).
    assert (Hn : n < length (s_envs st1)) by (unfold st1, n; cbn [s_envs]; rewrite app_length; cbn; lia).
    assert (Hg : get_env st1 n = osenv).
    { unfold get_env, st1, n. cbn [s_envs]. rewrite app_nth2 by lia. rewrite Nat.sub_diag. cbn. exact Hw. }
    assert (Hlen : length (s_envs (set_env st1 n (f (get_env st1 n)))) = length (s_envs st1)) by (unfold set_env; cbn [s_envs]; apply length_upd).
    split; [reflexivity|]. split; [reflexivity|]. split; [|split].
    + cbn [cell_rel]. rewrite Hlen. split; [exact Hn|]. rewrite get_env_set_same by exact Hn. rewrite Hg. reflexivity.
    + destruct other as [[r'|]|], oe as [y|]; cbn [cell_rel] in Ho |- *; try contradiction; auto.
      destruct Ho as [Hr' Hy]. rewrite Hlen. split; [lia|].
      rewrite get_env_set_other by (unfold n; lia). unfold get_env, st1. cbn [s_envs]. rewrite app_nth1 by exact Hr'. exact Hy.
    + intros r0 E. injection E as <-. destruct other as [[r'|]|], oe as [y|]; cbn [cell_rel] in Ho; try contradiction; try discriminate.
      destruct Ho as [Hr' _]. intros E. injection E as ->. unfold n in Hr'. lia.
Qed.

Lemma files_of_app root a b : files_of root (a ++ b) = files_of root a ++ files_of root b.
Proof. destruct root as [r|]; cbn; [|reflexivity]. rewrite filter_app, map_app. reflexivity. Qed.

Lemma apply_mutation_sim osenv cw st h l m :
  sim osenv cw st h l ->
  let '(cw', st', h') := apply_mutation real_policy (cw, st, h) m in
  sim osenv cw' st' h' (local_step osenv l m).
Proof.
  intros (A & B & N & C & S1 & S2 & E & F & G & K).
  destruct m as [k v|k|k v|k|t|n v|d|d name]; cbn [apply_mutation local_step].
  - pose proof (env_cell_step osenv cw st _ _ _ _ (env_set k v) E A B N) as (X1 & X2 & X3 & X4 & X5).
    destruct (populate real_policy cw st (h_env_instr h)) as [st1 r]. cbn [fst snd] in *.
    destruct (modify_env cw st1 r (env_set k v)) as [cw' st2]. cbn [fst snd] in *. subst cw'.
    unfold sim. cbn. unfold get_sym in *. rewrite X2. destruct r as [r|]; [|cbn in X3; contradiction].
    repeat split; auto; try apply X3. intros r0 E0. injection E0 as <-. apply X5. reflexivity.
  - pose proof (env_cell_step osenv cw st _ _ _ _ (env_unset k) E A B N) as (X1 & X2 & X3 & X4 & X5).
    destruct (populate real_policy cw st (h_env_instr h)) as [st1 r]. cbn [fst snd] in *.
    destruct (modify_env cw st1 r (env_unset k)) as [cw' st2]. cbn [fst snd] in *. subst cw'.
    unfold sim. cbn. unfold get_sym in *. rewrite X2. destruct r as [r|]; [|cbn in X3; contradiction].
    repeat split; auto; try apply X3. intros r0 E0. injection E0 as <-. apply X5. reflexivity.
  - assert (N' : forall r, h_env_setup h = Some (ERStore r) -> h_env_instr h <> Some (ERStore r)).
    { intros r H1 H2. exact (N r H2 H1). }
    pose proof (env_cell_step osenv cw st _ _ _ _ (env_set k v) E B A N') as (X1 & X2 & X3 & X4 & X5).
    destruct (populate real_policy cw st (h_env_setup h)) as [st1 r]. cbn [fst snd] in *.
    destruct (modify_env cw st1 r (env_set k v)) as [cw' st2]. cbn [fst snd] in *. subst cw'.
    unfold sim. cbn. unfold get_sym in *. rewrite X2. destruct r as [r|]; [|cbn in X3; contradiction].
    repeat split; auto; try apply X3. intros r0 E0 E1. injection E1 as <-. exact (X5 r eq_refl E0).
  - assert (N' : forall r, h_env_setup h = Some (ERStore r) -> h_env_instr h <> Some (ERStore r)).
    { intros r H1 H2. exact (N r H2 H1). }
    pose proof (env_cell_step osenv cw st _ _ _ _ (env_unset k) E B A N') as (X1 & X2 & X3 & X4 & X5).
    destruct (populate real_policy cw st (h_env_setup h)) as [st1 r]. cbn [fst snd] in *.
    destruct (modify_env cw st1 r (env_unset k)) as [cw' st2]. cbn [fst snd] in *. subst cw'.
    unfold sim. cbn. unfold get_sym in *. rewrite X2. destruct r as [r|]; [|cbn in X3; contradiction].
    repeat split; auto; try apply X3. intros r0 E0 E1. injection E1 as <-. exact (X5 r eq_refl E0).
  - unfold sim. cbn. repeat split; auto.
  - unfold sim. cbn. rewrite length_upd. repeat split; auto.
    unfold get_sym at 1. cbn. rewrite nth_upd_same by exact S1. unfold get_sym in S2. rewrite <- S2. reflexivity.
  - unfold sim. cbn [h_env_instr h_env_setup h_timeout h_syms h_root l_env_instr l_env_setup l_timeout l_syms l_cwd l_files l_sandbox set_cwd cw_w cw_files w_environ w_cwd].
    repeat split; auto. rewrite K. destruct d as [[x|]|n]; destruct (h_root h) as [r|]; cbn; try rewrite Nat.eqb_refl; auto.
  - unfold sim. destruct (h_root h) as [r|] eqn:Er; cbn [h_env_instr h_env_setup h_timeout h_syms h_root l_env_instr l_env_setup l_timeout l_syms l_cwd l_files l_sandbox cw_w cw_files].
    + rewrite K, Er. repeat split; auto. rewrite files_of_app, G. cbn. rewrite Nat.eqb_refl. reflexivity.
    + rewrite K, Er. repeat split; auto.
Qed.

Lemma apply_mutations_sim osenv ms : forall cw st h l,
  sim osenv cw st h l ->
  let '(cw', st', h') := apply_mutations real_policy (cw, st, h) ms in
  sim osenv cw' st' h' (fold_left (local_step osenv) ms l).
Proof.
  induction ms as [|m ms IH]; intros cw st h l H; cbn [apply_mutations fold_left]; [exact H|].
  pose proof (apply_mutation_sim osenv cw st h l m H) as H1.
  destruct (apply_mutation real_policy (cw, st, h) m) as [[cw1 st1] h1].
  exact (IH cw1 st1 h1 _ H1).
Qed.

Lemma copy_env_true st r :
  copy_env true st (Some r) = (ST (s_envs st ++ [get_env st r]) (s_syms st), Some (length (s_envs st))).
Proof. reflexivity. Qed.
Lemma copy_sym_true st r :
  copy_sym true st r = (ST (s_envs st) (s_syms st ++ [get_sym st r]), length (s_syms st)).
Proof. reflexivity. Qed.

Definition store_wf (st : store) (ec : exe_conf) : Prop :=
  match ec_environ ec with Some r => r < length (s_envs st) | None => True end /\ ec_symbols ec < length (s_syms st).

(** the part of [spec_case] after the initial local state *)
Definition spec_tail {R} (sem : case_sem R) (osenv : env) (syms : symtab) (l0 : local) : obs R :=
  let v1 := local_view osenv l0 in
  let (r1, m1) := cs_stage1 sem v1 in
  let l1 := fold_left (local_step osenv) m1 l0 in
  let e1 := local_view osenv l1 in
  match r1 with
  | inl r => OBS v1 e1 None None r
  | inr _ =>
      let l2 := L (l_env_instr l1) (l_env_setup l1) (l_timeout l1) syms (VCur (Some DAct)) [] true in
      let v2 := local_view osenv l2 in
      let (r2, m2) := cs_stage2 sem v2 in
      let e2 := local_view osenv (fold_left (local_step osenv) m2 l2) in
      OBS v1 e1 (Some v2) (Some e2) r2
  end.

Lemma tail_refines {R} keep (sem : case_sem R) saved sym1 cw st5 h1 osenv syms l0 :
  sim osenv cw st5 h1 l0 -> h_root h1 = None ->
  sym1 < h_syms h1 -> get_sym st5 sym1 = syms ->
  (forall f, In f (cw_files cw) -> fst (fst f) < w_next (cw_w cw)) ->
  snd (run_from_stage1 real_policy keep sem saved sym1 (cw, st5, h1)) = spec_tail sem osenv syms l0.
Proof.
  intros Hsim Hroot Hlt Hsym Hfiles. unfold run_from_stage1, spec_tail.
  rewrite (view_sim _ _ _ _ _ Hsim).
  destruct (cs_stage1 sem (local_view osenv l0)) as [r1 m1].
  pose proof (apply_mutations_sim osenv m1 cw st5 h1 l0 Hsim) as S1.
  pose proof (apply_mutations_ext real_policy m1 cw st5 h1 0 (h_syms h1) (Nat.le_0_l _)) as X1.
  pose proof (apply_mutations_world real_policy m1 cw st5 h1 eq_refl) as W1.
  destruct (apply_mutations real_policy (cw, st5, h1) m1) as [[cw1 st6] h1'].
  rewrite (view_sim _ _ _ _ _ S1).
  destruct r1 as [r|[]]; [reflexivity|].
  assert (HA : handles_above 0 (h_syms h1) h1).
  { repeat split; try apply Nat.le_0_l; try apply le_n; destruct (h_env_instr h1) as [[]|], (h_env_setup h1) as [[]|]; cbn; auto using Nat.le_0_l. }
  destruct (X1 HA) as ((_ & Xl & _ & Xs) & _ & Xr).
  assert (Hno : no_os h1).
  { destruct Hsim as (A & B & _). split; intros E; [rewrite E in A | rewrite E in B]; cbn in *; destruct (l_env_instr l0), (l_env_setup l0); contradiction. }
  destruct (W1 Hno) as ((K1 & K2 & K3 & x1 & K4 & K5) & _).
  rewrite Hroot in K5.
  assert (X0 : x1 = []) by (destruct x1 as [|f x1]; [reflexivity|]; specialize (K5 f (or_introl eq_refl)); discriminate).
  subst x1. rewrite app_nil_r in K4.
  change (copy_sym (p_l2_sym_post real_policy) st6 sym1) with (ST (s_envs st6) (s_syms st6 ++ [get_sym st6 sym1]), length (s_syms st6)).
  cbn iota beta.
  set (root := w_next (cw_w cw1)).
  set (st7 := ST (s_envs st6) (s_syms st6 ++ [get_sym st6 sym1])).
  set (l1 := fold_left (local_step osenv) m1 l0) in *.
  destruct S1 as (A & B & N & C & S1' & S2' & E & F & G & K).
  assert (Hsim2 : sim osenv (CW (W (DSub root DAct) (w_environ (cw_w cw1)) (root :: w_roots (cw_w cw1)) (S root)) (cw_files cw1)) st7
                    (HD (h_env_instr h1') (h_env_setup h1') (h_timeout h1') (length (s_syms st6)) (Some root))
                    (L (l_env_instr l1) (l_env_setup l1) (l_timeout l1) syms (VCur (Some DAct)) [] true)).
  { unfold sim. cbn [h_env_instr h_env_setup h_timeout h_syms h_root l_env_instr l_env_setup l_timeout l_syms l_cwd l_files l_sandbox cw_w cw_files w_environ w_cwd].
    split; [exact A|]. split; [exact B|]. split; [exact N|]. split; [exact C|].
    split; [unfold st7; cbn [s_syms]; rewrite app_length; cbn; lia|].
    split.
    { unfold get_sym, st7. cbn [s_syms]. rewrite app_nth2 by lia. rewrite Nat.sub_diag. cbn.
      rewrite <- Hsym. apply Xs. exact Hlt. }
    split; [exact E|]. split; [cbn; rewrite Nat.eqb_refl; reflexivity|]. split; [|reflexivity].
    cbn. rewrite K4. rewrite filter_none; [reflexivity|]. intros f Hf. apply Hfiles in Hf. apply Nat.eqb_neq. unfold root. lia. }
  rewrite (view_sim _ _ _ _ _ Hsim2).
  destruct (cs_stage2 sem _) as [r2 m2].
  pose proof (apply_mutations_sim osenv m2 _ _ _ _ Hsim2) as S2.
  destruct (apply_mutations real_policy _ m2) as [[cw3 st8] h2'].
  rewrite (view_sim _ _ _ _ _ S2). destruct keep; reflexivity.
Qed.

(** *** A case run among others, on the shared store, observes and does exactly what the reference
    semantics says of a case that is alone with private copies of what the program was started with. *)
Theorem case_behaves_as_if_alone {R} keep ec (sem : case_sem R) cw st :
  store_wf st ec -> cw_ok cw ->
  snd (run_case real_policy keep ec sem (cw, st)) = spec_obs ec (cw, st) sem.
Proof.
  intros [We Ws] (_ & Okf & _).
  unfold spec_obs, pristine_environ, pristine_syms. cbn [fst snd].
  change (spec_case sem (option_map (get_env st) (ec_environ ec)) (w_environ (cw_w cw)) (get_sym st (ec_symbols ec)) (ec_timeout ec) (w_cwd (cw_w cw)))
    with (spec_tail sem (w_environ (cw_w cw)) (get_sym st (ec_symbols ec))
            (L (option_map (get_env st) (ec_environ ec)) (option_map (get_env st) (ec_environ ec)) (ec_timeout ec)
               (get_sym st (ec_symbols ec)) (VAbs (w_cwd (cw_w cw))) [] false)).
  set (ne := length (s_envs st)). set (ns := length (s_syms st)).
  set (S0 := get_sym st (ec_symbols ec)).
  destruct ec as [[r0|] tmo sy]; cbn [ec_environ ec_timeout ec_symbols option_map] in *.
  - set (E0 := get_env st r0).
    set (st5 := ST (s_envs st ++ [E0; E0; E0]) (s_syms st ++ [S0; S0])).
    assert (Hrun : run_case real_policy keep (EC (Some r0) tmo sy) sem (cw, st) =
                   run_from_stage1 real_policy keep sem (w_cwd (cw_w cw)) ns
                     (cw, st5, HD (Some (ERStore (ne + 2))) (Some (ERStore (ne + 1))) tmo (ns + 1) None)).
    { unfold run_case. cbn [real_policy p_l1_env p_l1_sym p_l2_env_setup p_l2_env_instr p_l2_sym_val ec_environ ec_symbols ec_timeout].
      rewrite copy_env_true. cbv beta iota. rewrite copy_sym_true. cbv beta iota.
      rewrite copy_env_true. cbv beta iota. rewrite copy_env_true. cbv beta iota. rewrite copy_sym_true. cbv beta iota.
      cbn [s_envs s_syms option_map]. unfold get_env, get_sym. cbn [s_envs s_syms].
      repeat (rewrite <- !app_assoc; cbn [app]; rewrite ?nth_middle).
      rewrite !app_length. cbn [length]. fold ne ns. unfold st5, E0, S0, get_env, get_sym.
      replace (ne + 1 + 1) with (ne + 2) by lia. reflexivity. }
    rewrite Hrun. apply tail_refines; auto.
    + unfold sim, st5. cbn [h_env_instr h_env_setup h_timeout h_syms h_root l_env_instr l_env_setup l_timeout l_syms l_cwd l_files l_sandbox cell_rel s_envs s_syms].
      rewrite !app_length. cbn [length]. fold ne ns.
      split; [split; [lia|]; unfold get_env; cbn [s_envs]; rewrite app_nth2 by (fold ne; lia); fold ne; replace (ne + 2 - ne) with 2 by lia; reflexivity|].
      split; [split; [lia|]; unfold get_env; cbn [s_envs]; rewrite app_nth2 by (fold ne; lia); fold ne; replace (ne + 1 - ne) with 1 by lia; reflexivity|].
      split; [intros r E1 E2; injection E1 as <-; injection E2 as E2; lia|].
      split; [reflexivity|]. split; [lia|].
      split; [unfold get_sym; cbn [s_syms]; rewrite app_nth2 by (fold ns; lia); fold ns; replace (ns + 1 - ns) with 1 by lia; reflexivity|].
      split; [reflexivity|]. split; [destruct (w_cwd (cw_w cw)); reflexivity|]. split; reflexivity.
    + cbn. lia.
    + unfold get_sym, st5. cbn [s_syms]. rewrite app_nth2 by (fold ns; lia). fold ns. rewrite Nat.sub_diag. reflexivity.
  - set (st5 := ST (s_envs st) (s_syms st ++ [S0; S0])).
    assert (Hrun : run_case real_policy keep (EC None tmo sy) sem (cw, st) =
                   run_from_stage1 real_policy keep sem (w_cwd (cw_w cw)) ns (cw, st5, HD None None tmo (ns + 1) None)).
    { unfold run_case. cbn [real_policy p_l1_env p_l1_sym p_l2_env_setup p_l2_env_instr p_l2_sym_val ec_environ ec_symbols ec_timeout copy_env].
      cbv beta iota. rewrite copy_sym_true. cbv beta iota. rewrite copy_sym_true. cbv beta iota.
      cbn [s_envs s_syms option_map]. unfold get_sym. cbn [s_envs s_syms].
      repeat (rewrite <- !app_assoc; cbn [app]; rewrite ?nth_middle).
      rewrite !app_length. cbn [length]. fold ns. unfold st5, S0, get_sym. reflexivity. }
    rewrite Hrun. apply tail_refines; auto.
    + unfold sim, st5. cbn [h_env_instr h_env_setup h_timeout h_syms h_root l_env_instr l_env_setup l_timeout l_syms l_cwd l_files l_sandbox cell_rel s_envs s_syms].
      rewrite !app_length. cbn [length]. fold ns.
      split; [exact I|]. split; [exact I|]. split; [intros r E1; discriminate|].
      split; [reflexivity|]. split; [lia|].
      split; [unfold get_sym; cbn [s_syms]; rewrite app_nth2 by (fold ns; lia); fold ns; replace (ns + 1 - ns) with 1 by lia; reflexivity|].
      split; [reflexivity|]. split; [destruct (w_cwd (cw_w cw)); reflexivity|]. split; reflexivity.
    + cbn. lia.
    + unfold get_sym, st5. cbn [s_syms]. rewrite app_nth2 by (fold ns; lia). fold ns. rewrite Nat.sub_diag. reflexivity.
Qed.

(** ** a run of many cases *)
Definition same_pristine (ec : exe_conf) (s s' : cworld * store) : Prop :=
  pristine_environ (snd s') ec = pristine_environ (snd s) ec /\ pristine_syms (snd s') ec = pristine_syms (snd s) ec /\
  w_environ (cw_w (fst s')) = w_environ (cw_w (fst s)) /\ w_cwd (cw_w (fst s')) = w_cwd (cw_w (fst s)).

Lemma spec_obs_same {R} ec s s' (sem : case_sem R) : same_pristine ec s s' -> spec_obs ec s' sem = spec_obs ec s sem.
Proof. intros (A & B & C & D). unfold spec_obs. rewrite A, B, C, D. reflexivity. Qed.

Lemma run_case_keeps_pristine {R} ec (sem : case_sem R) cw st :
  store_wf st ec -> cw_ok cw ->
  let '(cw', st', o) := run_case real_policy false ec sem (cw, st) in
  store_wf st' ec /\ cw_ok cw' /\ same_pristine ec (cw, st) (cw', st').
Proof.
  intros [We Ws] Ok.
  pose proof (config_isolated real_policy false ec sem cw st eq_refl eq_refl) as HI.
  pose proof (world_restored real_policy ec sem cw st eq_refl Ok) as HW.
  destruct (run_case real_policy false ec sem (cw, st)) as [[cw' st'] o].
  destruct HI as (L1 & L2 & G1 & G2). destruct HW as (W1 & W2 & W3 & W4 & W5 & W6).
  split; [|split; [exact W6|]].
  - split; [destruct (ec_environ ec); [lia|exact I]|lia].
  - unfold same_pristine, pristine_environ, pristine_syms. cbn [fst snd].
    split; [destruct (ec_environ ec) as [r|]; cbn; [rewrite G1 by exact We; reflexivity|reflexivity]|].
    split; [apply G2; exact Ws|]. split; assumption.
Qed.

Lemma run_cases_spec {R} ec (cases : list (case_sem R)) : forall s0 cw st,
  store_wf st ec -> cw_ok cw -> same_pristine ec s0 (cw, st) ->
  snd (run_cases real_policy false ec cases (cw, st)) = map (spec_obs ec s0) cases.
Proof.
  induction cases as [|c cs IH]; intros s0 cw st Wf Ok Same; [reflexivity|].
  cbn [run_cases map].
  pose proof (case_behaves_as_if_alone false ec c cw st Wf Ok) as H1.
  pose proof (run_case_keeps_pristine ec c cw st Wf Ok) as H2.
  destruct (run_case real_policy false ec c (cw, st)) as [[cw' st'] o]. cbn [snd] in H1.
  destruct H2 as (Wf' & Ok' & Same').
  assert (Same'' : same_pristine ec s0 (cw', st')).
  { destruct Same as (A & B & C & D), Same' as (A' & B' & C' & D'). cbn [fst snd] in *. repeat split; cbn [fst snd]; congruence. }
  specialize (IH s0 cw' st' Wf' Ok' Same'').
  destruct (run_cases real_policy false ec cs (cw', st')) as [s' os]. cbn [snd] in *.
  rewrite IH, H1. f_equal. apply spec_obs_same. exact Same.
Qed.

(** *** Independence: in a run of any list of cases, what every case observes, does and results in
    is what the reference semantics says of that case alone in the state the program was started
    in — whatever the cases before it did. *)
Theorem every_case_as_if_first {R} ec (cases : list (case_sem R)) cw st :
  store_wf st ec -> cw_ok cw ->
  snd (run_cases real_policy false ec cases (cw, st)) = map (spec_obs ec (cw, st)) cases.
Proof.
  intros Wf Ok. apply run_cases_spec; auto. repeat split; reflexivity.
Qed.

(** ... hence equal to what it observes, does and results in when it is run alone, first. *)
Theorem outcome_independent_of_predecessors {R} ec (pre : list (case_sem R)) c post cw st :
  store_wf st ec -> cw_ok cw ->
  nth_error (snd (run_cases real_policy false ec (pre ++ c :: post) (cw, st))) (length pre) =
  nth_error (snd (run_cases real_policy false ec [c] (cw, st))) 0.
Proof.
  intros Wf Ok. rewrite !every_case_as_if_first by assumption.
  rewrite map_app. rewrite nth_error_app2 by (rewrite map_length; apply le_n).
  rewrite map_length, Nat.sub_diag. reflexivity.
Qed.

(** ... and the shared configuration, the process environment, the current directory and the set of
    sandboxes are, after the whole run, what they were before it. *)
Theorem run_leaves_no_trace {R} ec (cases : list (case_sem R)) : forall cw st,
  store_wf st ec -> cw_ok cw ->
  let '(cw', st', _) := run_cases real_policy false ec cases (cw, st) in
  same_pristine ec (cw, st) (cw', st') /\ w_roots (cw_w cw') = w_roots (cw_w cw) /\ cw_files cw' = cw_files cw.
Proof.
  induction cases as [|c cs IH]; intros cw st Wf Ok; cbn [run_cases].
  - repeat split; reflexivity.
  - pose proof (run_case_keeps_pristine ec c cw st Wf Ok) as H2.
    pose proof (world_restored real_policy ec c cw st eq_refl Ok) as HW.
    destruct (run_case real_policy false ec c (cw, st)) as [[cw1 st1] o].
    destruct H2 as (Wf' & Ok' & Same'). destruct HW as (_ & _ & W3 & W4 & _).
    specialize (IH cw1 st1 Wf' Ok').
    destruct (run_cases real_policy false ec cs (cw1, st1)) as [[cw2 st2] os].
    destruct IH as (Same2 & R2 & F2).
    split; [|split; congruence].
    destruct Same' as (A & B & C & D), Same2 as (A' & B' & C' & D'). cbn [fst snd] in *. repeat split; cbn [fst snd]; congruence.
Qed.

(** ** instruction objects shared by the cases of a suite *)

(** If the suite's instruction objects behave as functions of what the case lets them see — their
    behaviour does not depend on anything they remember — the run is a run of independent cases. *)
Theorem stateless_suite_objects_independent {R M} ec (cases : list (shared_case R M)) (m0 : M) : forall m cw st,
  (forall c, In c cases -> forall m', shc_sem c m' = shc_sem c m0) ->
  snd (fst (run_cases_shared real_policy false ec cases m (cw, st))) =
  snd (run_cases real_policy false ec (map (fun c => shc_sem c m0) cases) (cw, st)).
Proof.
  induction cases as [|c cs IH]; intros m cw st H; [reflexivity|].
  cbn [run_cases_shared run_cases map]. rewrite (H c (or_introl eq_refl) m).
  destruct (run_case real_policy false ec (shc_sem c m0) (cw, st)) as [[cw' st'] o].
  specialize (IH (shc_remember c m o) cw' st' (fun c' Hc => H c' (or_intror Hc))).
  destruct (run_cases_shared real_policy false ec cs (shc_remember c m o) (cw', st')) as [[s' os] m'].
  destruct (run_cases real_policy false ec (map (fun c0 => shc_sem c0 m0) cs) (cw', st')) as [s'' os'].
  cbn [fst snd] in *. rewrite IH. reflexivity.
Qed.

(** A suite instruction that CACHES the value it resolved a symbol to (the case [i] defines symbol 8
    with value [i]; the instruction's verdict is the value it believes the symbol has). *)
Definition caching_case (i : nat) : shared_case nat (option nat) :=
  SHC (fun m => CS (fun _ => (inr tt, [MSymPut 8 i]))
                   (fun _ => (match m with Some x => x | None => i end, [MSymPut 8 i])))
      (fun m o => match m with
                  | Some _ => m
                  | None => match o_end2 o with Some v => env_get 8 (v_syms v) | None => None end
                  end).
Definition honest_case (i : nat) : shared_case nat (option nat) :=
  SHC (fun _ => shc_sem (caching_case i) None) (fun m _ => m).

(** With such an object independence is false: the second case is judged by the first case's value. *)
Theorem independence_with_caching_suite_objects_refuted :
  exists (cases : list (shared_case nat (option nat))) c,
    nth_error (map (@o_result nat) (snd (fst (run_cases_shared real_policy false shared_conf (cases ++ [c]) None (start_world, start_store))))) (length cases)
    <> nth_error (map (@o_result nat) (snd (fst (run_cases_shared real_policy false shared_conf [c] None (start_world, start_store))))) 0.
Proof. exists [caching_case 1], (caching_case 2). vm_compute. discriminate. Qed.
