(** Error reports are located: a FileSourceError shows lines of the file it names, at the number it names,
    with the chain of inclusion directives that led there; a FileAccessError names the directive whose
    file could not be included (missing, or cyclic).  Includes the source of an error raised by an
    instruction parser after it consumed input ([IErrAt], _ErrMsgSourceConstructor.ending_at: Proofs/DocEndingAt.v)
    and the errors of the inclusion directive parser (which consumes its line before raising). *)
From Coq Require Import NArith List Bool Arith Lia.
From Exactly Require Import Lib.Harness Model.Doc Spec.C07 Proofs.DocReader Proofs.DocParseSource Proofs.DocLocated Proofs.DocEndingAt.
Import ListNotations.
Local Open Scope N_scope.

Lemma came_from_refl : forall t, came_from t t = true.
Proof. intros. unfold came_from. apply (is_suffix_skipn 0). Qed.

Lemma err_line_ok : forall fl i l r, at_pos fl i (l :: r) -> err_src_ok fl (LineSeq (N.of_nat (S i)) [l]) = true.
Proof.
  intros fl i l r H. unfold err_src_ok. cbn [ls_first ls_lines length].
  rewrite (file_lines_at fl i l r 1 H) by lia. cbn [firstn err_lines_ok]. rewrite came_from_refl. reflexivity.
Qed.

Section ErrStep.
  Variable iparse : sec -> text -> list text -> ires.
  Variable fl : list text.
  Hypothesis fl_ok : Forall no_nl fl.     (* the lines of a file contain no newline *)

  Definition good_err (st : step) : Prop :=
    match st with SErr src => err_src_ok fl src = true | _ => True end.

  Lemma instr_at_err : forall s n i lm c restm,
      at_pos fl i (lm :: restm) -> good_err (instr_at iparse s n (N.of_nat (S i)) lm c restm).
  Proof.
    intros s n i lm c restm Hpos. unfold instr_at.
    destruct (iparse s (skipn c lm) restm) as [kk| |nn|] eqn:E; cbn [good_err]; try exact I.
    - destruct kk as [|k']; [exact I|]. destruct (k' <=? length restm)%nat; exact I.
    - eapply err_line_ok; eassumption.
    - apply ending_at_ok; assumption.
  Qed.

  Lemma skip_lines_err : forall s n ls i err,
      at_pos fl i ls -> err_src_ok fl err = true -> good_err (skip_lines iparse s n (N.of_nat (S i)) err ls).
  Proof.
    intros s n. induction ls as [|l r IH]; intros i err Hpos Herr; cbn [skip_lines].
    - exact Herr.
    - destruct (at_eof (l :: r)); [exact Herr|].
      destruct (is_empty_or_comment l).
      + replace (N.of_nat (S i) + 1) with (N.of_nat (S (S i))) by lia. apply IH.
        * eapply at_pos_next; eassumption.
        * eapply err_line_ok; eassumption.
      + apply instr_at_err. assumption.
  Qed.

  Lemma skip_cursor_err : forall s n l0 i lm c restm,
      err_src_ok fl (LineSeq n [l0]) = true -> at_pos fl i (lm :: restm) ->
      good_err (skip_cursor iparse s n l0 (N.of_nat (S i)) lm c restm).
  Proof.
    intros s n l0 i lm c restm H0 Hpos. unfold skip_cursor.
    assert (G : good_err (if (c + count_while is_space (skipn c lm) <? length lm)%nat
                          then instr_at iparse s n (N.of_nat (S i)) lm (c + count_while is_space (skipn c lm)) restm
                          else skip_lines iparse s n (N.of_nat (S i) + 1) (LineSeq n [l0]) restm)).
    { destruct (c + count_while is_space (skipn c lm) <? length lm)%nat.
      - apply instr_at_err. assumption.
      - replace (N.of_nat (S i) + 1) with (N.of_nat (S (S i))) by lia. apply skip_lines_err; [|assumption].
        eapply at_pos_next; eassumption. }
    destruct (skipn c lm); [destruct restm|]; try exact G. exact H0.
  Qed.

  Lemma elem_step_err : forall s i l0 rest src,
      at_pos fl i (l0 :: rest) -> elem_step iparse s (N.of_nat (S i)) l0 rest = SErr src -> err_src_ok fl src = true.
  Proof.
    intros s i l0 rest src Hpos H.
    pose proof (err_line_ok fl i l0 rest Hpos) as H0.
    remember (N.of_nat (S i)) as n eqn:Hn.
    assert (B : forall s', nonact_step iparse s' n l0 rest = SErr src -> err_src_ok fl src = true).
    { intros s' B. unfold nonact_step in B.
      destruct (is_empty_line l0); [discriminate|]. destruct (is_comment_line l0); [discriminate|].
      destruct (incl_step n l0) as [st|] eqn:Ei.
      - unfold incl_step in Ei. destruct (split_ws l0) as [|t args]; try discriminate.
        destruct (text_eqb t including_token); try discriminate.
        destruct args as [|tok [|? ?]]; injection Ei as <-; try discriminate; injection B as <-; exact H0.
      - assert (G : good_err (instr_step iparse s' n l0 rest)).
        { unfold instr_step.
          destruct (skipn (count_while is_space l0) l0) as [|ch r0].
          - rewrite Hn. apply skip_cursor_err; [rewrite <- Hn|]; assumption.
          - destruct (ch =? c_btick).
            + destruct (find_char c_btick r0).
              * rewrite Hn. apply skip_cursor_err; [rewrite <- Hn|]; assumption.
              * destruct (find_btick_lines (n + 1) rest) as [[[[m lm] c] restm]|] eqn:E; [|exact H0].
                rewrite Hn in E. replace (N.of_nat (S i) + 1) with (N.of_nat (S (S i))) in E by lia.
                destruct (find_btick_lines_pos fl rest (S i) m lm c restm (at_pos_next _ _ _ _ Hpos) E) as [j [-> Hj]].
                apply skip_cursor_err; assumption.
            + rewrite Hn. apply skip_cursor_err; [rewrite <- Hn|]; assumption. }
        rewrite B in G. exact G. }
    destruct s; cbn [elem_step] in H; try (eapply B; eassumption). unfold act_step in H. discriminate.
  Qed.
End ErrStep.

Section Reading.
  Variable iparse : sec -> text -> list text -> ires.
  Variable fs : N -> text -> fsres.
  Variable contents : N -> option (list text).
  Variable root rdir : N.
  Variable rpath : text.
  Hypothesis lines_ok : forall fid ls, contents fid = Some ls -> Forall no_nl ls.

  Definition QE (e : error) : Prop :=
    match e with
    | ECrash | EFuel | EOracle => True
    | _ => located_error fs contents root rdir rpath e = true
    end.

  Lemma source_error_located : forall fid fl fi sec src,
      reading fs contents root rdir rpath fid fl fi -> err_src_ok fl src = true ->
      QE (ESource sec src (fi_path fi) (fi_chain fi)).
  Proof.
    intros fid fl fi sec src [Hc Hw] Hs. cbn [QE located_error]. rewrite Hw, text_eqb_refl, Hc. exact Hs.
  Qed.

  Lemma flat_loop_err_located :
    forall finc fid fl fi, reading fs contents root rdir rpath fid fl fi ->
    (forall cur i l0 rest tok e,
        at_pos fl i (l0 :: rest) -> split_ws l0 = [including_token; tok] ->
        finc cur (LineSeq (N.of_nat (S i)) [l0]) tok = Err e -> QE e) ->
    forall fuel cur i ls e,
      at_pos fl i ls -> flat_loop iparse finc fuel fi cur (N.of_nat (S i)) ls = Err e -> QE e.
  Proof.
    intros finc fid fl fi Hr Hinc. induction fuel as [|fuel IH]; intros cur i ls e Hpos H; cbn [flat_loop] in H.
    - injection H as <-. exact I.
    - destruct ls as [|l0 rest]; [discriminate|].
      destruct (at_eof (l0 :: rest)); [discriminate|].
      destruct (is_header_line l0).
      + destruct (header_of l0).
        * injection H as <-. eapply source_error_located; [eassumption|]. eapply err_line_ok; eassumption.
        * injection H as <-. eapply source_error_located; [eassumption|]. eapply err_line_ok; eassumption.
        * replace (N.of_nat (S i) + 1) with (N.of_nat (S (S i))) in H by lia.
          eapply IH; [|eassumption]. eapply at_pos_next; eassumption.
      + destruct (elem_step iparse cur (N.of_nat (S i)) l0 rest) as [k src consumed|src tok|src| |] eqn:Est.
        * replace (N.of_nat (S i) + N.of_nat consumed) with (N.of_nat (S (consumed + i))) in H by lia.
          destruct (flat_loop iparse finc fuel fi cur (N.of_nat (S (consumed + i))) (skipn consumed (l0 :: rest))) as [out'|e'] eqn:Er;
            cbn [rbind] in H; [discriminate|].
          injection H as <-. eapply IH; [|eassumption]. apply at_pos_skip. assumption.
        * destruct (elem_step_incl iparse cur _ l0 rest src tok Est) as [-> Hsp].
          destruct (finc cur (LineSeq (N.of_nat (S i)) [l0]) tok) as [spl|e'] eqn:Ei; cbn [rbind] in H.
          -- replace (N.of_nat (S i) + 1) with (N.of_nat (S (S i))) in H by lia.
             destruct (flat_loop iparse finc fuel fi cur (N.of_nat (S (S i))) rest) as [out'|e''] eqn:Er; cbn [rbind] in H; [discriminate|].
             injection H as <-. eapply IH; [|eassumption]. eapply at_pos_next; eassumption.
          -- injection H as <-. eapply Hinc; eassumption.
        * injection H as <-. eapply source_error_located; [eassumption|].
          eapply elem_step_err; [eapply lines_ok; apply Hr|eassumption|eassumption].
        * injection H as <-. exact I.
        * injection H as <-. exact I.
  Qed.

  Lemma access_error_located : forall fid fl fi i l0 rest tok display target cur why,
      reading fs contents root rdir rpath fid fl fi ->
      at_pos fl i (l0 :: rest) -> split_ws l0 = [including_token; tok] ->
      fs (fi_dir fi) tok = FsEntry display target ->
      (match why, target with Missing, None => True | Cyclic, Some _ => True | _, _ => False end) ->
      QE (EAccess (Some cur) display (fi_chain fi ++ [Loc (fi_path fi) (LineSeq (N.of_nat (S i)) [l0])]) why).
  Proof.
    intros fid fl fi i l0 rest tok display target cur why [Hc Hw] Hpos Hsp Hfs Hwhy.
    cbn [QE located_error]. unfold walk_access. rewrite rev_app_distr. cbn [rev app].
    rewrite rev_involutive, Hw, Hc, text_eqb_refl, (file_lines_at fl i l0 rest 1 Hpos) by lia.
    cbn [firstn option_eqb andb]. rewrite lines_eqb_refl, Hsp, text_eqb_refl, Hfs, text_eqb_refl. cbn [andb].
    destruct why, target; try contradiction; reflexivity.
  Qed.

  Lemma flat_include_err_located :
    forall depth chain_ids fid fl fi, reading fs contents root rdir rpath fid fl fi ->
    forall cur i l0 rest tok e,
      at_pos fl i (l0 :: rest) -> split_ws l0 = [including_token; tok] ->
      flat_include iparse fs contents depth chain_ids fi cur (LineSeq (N.of_nat (S i)) [l0]) tok = Err e -> QE e.
  Proof.
    induction depth as [|depth IH]; intros chain_ids fid fl fi Hr cur i l0 rest tok e Hpos Hsp H; cbn [flat_include] in H.
    - injection H as <-. exact I.
    - destruct (fs (fi_dir fi) tok) as [|display [[fid' dir']|]] eqn:Hfs.
      + injection H as <-. exact I.
      + destruct (existsb (N.eqb fid') chain_ids).
        * injection H as <-. eapply access_error_located; try eassumption. exact I.
        * destruct (contents fid') as [ls|] eqn:Hc'; [|injection H as <-; exact I].
          set (fi' := FileInfo display (fi_chain fi ++ [Loc (fi_path fi) (LineSeq (N.of_nat (S i)) [l0])]) dir') in *.
          assert (Hr' : reading fs contents root rdir rpath fid' ls fi').
          { destruct Hr as [Hc Hw]. split; [assumption|]. unfold fi'. cbn [fi_chain fi_dir fi_path]. rewrite walk_app, Hw.
            eapply walk_step; eassumption. }
          eapply (flat_loop_err_located _ fid' ls fi' Hr') with (i := 0%nat); [|reflexivity|exact H].
          intros cur' i' l0' rest' tok' e' Hpos' Hsp' H'. eapply IH; eassumption.
      + injection H as <-. eapply access_error_located; try eassumption. exact I.
  Qed.

  Theorem flat_root_err_located :
    forall depth ls e,
      contents root = Some ls ->
      flat_root iparse fs contents depth root rpath rdir ls = Err e -> QE e.
  Proof.
    intros depth ls e Hc H. unfold flat_root in H.
    set (fi := FileInfo rpath [] rdir) in *.
    assert (Hr : reading fs contents root rdir rpath root ls fi). { split; [assumption|reflexivity]. }
    eapply (flat_loop_err_located _ root ls fi Hr) with (i := 0%nat); [|reflexivity|exact H].
    intros cur i l0 rest tok e' Hpos Hsp H'. eapply flat_include_err_located; eassumption.
  Qed.
End Reading.

Theorem error_location_exact :
  forall iparse fs contents depth root path dir ls e,
    (forall fid fl, contents fid = Some fl -> Forall no_nl fl) ->
    contents root = Some ls ->
    parse_root iparse fs contents depth root path dir ls = Err e ->
    match e with
    | ECrash | EFuel | EOracle => True
    | _ => located_error fs contents root dir path e = true
    end.
Proof.
  intros iparse fs contents depth root path dir ls e Hno Hc H.
  pose proof (elements_by_section iparse fs contents depth root path dir ls) as HE. rewrite H in HE.
  destruct (flat_root iparse fs contents depth root path dir ls) as [out|e'] eqn:Ef; [contradiction|]. subst e'.
  exact (flat_root_err_located iparse fs contents root dir path Hno depth ls e Hc Ef).
Qed.
