(** * Source tie, target ActSource (C07): [_un_escape_at_beginning_of_line] of processing/parse/act_phase_source_parser.py
    as translated from the current source (Gen/Src_ActSource.v) against [un_escape_at_beginning] of Model/Doc.v, for every
    str of characters 0..255 (a Coq [string]; the model's texts are lists of code points).
    [_un_escape] itself ([str.isspace], a [while] loop in [_split_space]) is outside the translator's subset. *)
From Coq Require Import ZArith NArith List Bool String Ascii.
From Exactly Require Import Lib.PyVal Model.Doc Gen.Src_ActSource Proofs.PyValLemmas.
Import ListNotations.

Theorem tie_un_escape_at_beginning_of_line s :
  exists s', py_act_phase_source_parser__un_escape_at_beginning_of_line (VStr s) = VStr s'
             /\ str_codes s' = un_escape_at_beginning (str_codes s).
Proof.
  destruct s as [|a [|b r]]; [eexists; split; reflexivity | |].
  { cbn -[Ascii.eqb]. destruct (Ascii.eqb a "\"); cbn; eexists; split; reflexivity. }
  unfold py_act_phase_source_parser__un_escape_at_beginning_of_line, un_escape_at_beginning, str_codes.
  cbn -[N.eqb Ascii.eqb N_of_ascii]. 
  change c_bslash with (N_of_ascii "\"%char). change c_lbr with (N_of_ascii "["%char).
  rewrite !ascii_code_eqb.
  destruct (Ascii.eqb a "\") eqn:Ea; [|eexists; split; reflexivity].
  cbn -[N.eqb Ascii.eqb N_of_ascii].
  destruct (Ascii.eqb b "[") eqn:Eb.
  - eexists; split; reflexivity.
  - cbn -[N.eqb Ascii.eqb N_of_ascii]. destruct (Ascii.eqb b "\") eqn:Eb2; eexists; split; reflexivity.
Qed.
