(** C09: the tokeniser (model of shlex.read_token + TokenStream.consume) on sources written from
    the documented structure: token boundaries. *)
From Coq Require Import NArith List Bool Arith Lia.
From Exactly Require Import Lib.Harness Model.Tok Spec.C09.
Import ListNotations.
Local Open Scope N_scope.

(** * Character classes *)
Lemma shlex_ws_py_space : forall c, is_shlex_ws c = true -> py_isspace c = true.
Proof.
  intros c. unfold is_shlex_ws. rewrite !orb_true_iff, !N.eqb_eq.
  intros [[[->| ->]| ->]| ->]; reflexivity.
Qed.

Lemma is_sep_shlex : forall c, is_sep c = is_shlex_ws c.
Proof. reflexivity. Qed.

Lemma naked_not_ws : forall c, naked_char c = true -> is_shlex_ws c = false.
Proof.
  intros c H. unfold naked_char in H. rewrite !andb_true_iff, !negb_true_iff in H.
  destruct H as [[H _] _]. destruct (is_shlex_ws c) eqn:E; [|reflexivity].
  apply shlex_ws_py_space in E. congruence.
Qed.

Lemma naked_not_quote : forall c, naked_char c = true -> is_quote c = false.
Proof.
  intros c H. unfold naked_char in H. rewrite !andb_true_iff, !negb_true_iff in H.
  destruct H as [[_ H1] H2]. unfold is_quote. rewrite H1, H2. reflexivity.
Qed.

Lemma naked_not_space : forall c, naked_char c = true -> py_isspace c = false.
Proof.
  intros c H. unfold naked_char in H. rewrite !andb_true_iff, !negb_true_iff in H. tauto.
Qed.

Lemma quote_not_space : forall c, is_quote c = true -> py_isspace c = false.
Proof.
  intros c. unfold is_quote. rewrite orb_true_iff, !N.eqb_eq. intros [-> | ->]; reflexivity.
Qed.

Lemma quote_not_ws : forall c, is_quote c = true -> is_shlex_ws c = false.
Proof.
  intros c. unfold is_quote. rewrite orb_true_iff, !N.eqb_eq. intros [-> | ->]; reflexivity.
Qed.

Lemma nl_is_space : py_isspace NL = true.
Proof. reflexivity. Qed.

Ltac len := repeat (progress cbn [length] || rewrite app_length); lia.

(** * The lexer on fragments *)

Definition frag_quoted (f : qfrag) : bool := match f with Naked _ => false | _ => true end.

(** naked characters in word state *)
Lemma lex_naked_word : forall cs qd tok n rest,
  forallb naked_char cs = true ->
  lex_go SWord qd tok n (cs ++ rest) = lex_go SWord qd (tok ++ cs) (n + length cs) rest.
Proof.
  induction cs as [|c cs IH]; intros qd tok n rest H.
  - cbn. rewrite app_nil_r, Nat.add_0_r. reflexivity.
  - cbn in H. apply andb_true_iff in H as [Hc Hcs].
    cbn [app lex_go]. rewrite (naked_not_ws _ Hc), (naked_not_quote _ Hc).
    rewrite IH by assumption. cbn [length]. rewrite <- app_assoc. cbn [app].
    f_equal. lia.
Qed.

(** characters inside quotes *)
Lemma lex_in_quotes : forall q cs qd tok n rest,
  existsb (N.eqb q) cs = false ->
  lex_go (SQuote q) qd tok n (cs ++ q :: rest) = lex_go SWord true (tok ++ cs) (n + length cs + 1) rest.
Proof.
  induction cs as [|c cs IH]; intros qd tok n rest H.
  - cbn. rewrite N.eqb_refl, app_nil_r. f_equal. lia.
  - cbn in H. apply orb_false_iff in H as [Hc Hcs].
    cbn [app lex_go]. rewrite N.eqb_sym in Hc. rewrite Hc.
    rewrite IH by assumption. cbn [length]. rewrite <- app_assoc. cbn [app]. f_equal. lia.
Qed.

Lemma existsb_negb_false : forall q cs, negb (existsb (N.eqb q) cs) = true -> existsb (N.eqb q) cs = false.
Proof. intros. apply negb_true_iff. assumption. Qed.

(** one fragment, read in word state *)
Lemma lex_frag_word : forall f qd tok n rest,
  wf_frag f = true ->
  lex_go SWord qd tok n (render_frag f ++ rest) =
  lex_go SWord (qd || frag_quoted f) (tok ++ chars_frag f) (n + length (render_frag f)) rest.
Proof.
  intros [cs|cs|cs] qd tok n rest H; cbn [render_frag chars_frag frag_quoted wf_frag] in *.
  - apply andb_true_iff in H as [_ H]. rewrite orb_false_r. apply lex_naked_word; assumption.
  - apply existsb_negb_false in H.
    cbn [app lex_go]. change (is_shlex_ws DQ) with false. change (is_quote DQ) with true. cbn iota.
    rewrite <- app_assoc. cbn [app]. rewrite lex_in_quotes by assumption.
    rewrite orb_true_r. f_equal. len.
  - apply existsb_negb_false in H.
    cbn [app lex_go]. change (is_shlex_ws SQ) with false. change (is_quote SQ) with true. cbn iota.
    rewrite <- app_assoc. cbn [app]. rewrite lex_in_quotes by assumption.
    rewrite orb_true_r. f_equal. len.
Qed.

(** the first fragment, read in white-space state (nothing accumulated yet) *)
Lemma lex_frag_ws : forall f n rest,
  wf_frag f = true ->
  lex_go SWs false [] n (render_frag f ++ rest) =
  lex_go SWord (frag_quoted f) (chars_frag f) (n + length (render_frag f)) rest.
Proof.
  intros [cs|cs|cs] n rest H; cbn [render_frag chars_frag frag_quoted wf_frag] in *.
  - apply andb_true_iff in H as [Hne H]. destruct cs as [|c cs]; [discriminate|].
    cbn in H. apply andb_true_iff in H as [Hc Hcs].
    cbn [app lex_go]. rewrite (naked_not_ws _ Hc), (naked_not_quote _ Hc).
    rewrite lex_naked_word by assumption. cbn [length app]. f_equal. lia.
  - apply existsb_negb_false in H.
    cbn [app lex_go]. change (is_shlex_ws DQ) with false. change (is_quote DQ) with true. cbn iota.
    rewrite <- app_assoc. cbn [app]. rewrite lex_in_quotes by assumption.
    cbn [app]. f_equal. len.
  - apply existsb_negb_false in H.
    cbn [app lex_go]. change (is_shlex_ws SQ) with false. change (is_quote SQ) with true. cbn iota.
    rewrite <- app_assoc. cbn [app]. rewrite lex_in_quotes by assumption.
    cbn [app]. f_equal. len.
Qed.

Lemma lex_frags_word : forall fs qd tok n rest,
  forallb wf_frag fs = true ->
  lex_go SWord qd tok n (render_tok fs ++ rest) =
  lex_go SWord (qd || existsb frag_quoted fs) (tok ++ chars_tok fs) (n + length (render_tok fs)) rest.
Proof.
  induction fs as [|f fs IH]; intros qd tok n rest H.
  - cbn. rewrite orb_false_r, app_nil_r, Nat.add_0_r. reflexivity.
  - cbn in H. apply andb_true_iff in H as [Hf Hfs].
    unfold render_tok, chars_tok in *. cbn [map concat existsb].
    rewrite <- app_assoc. rewrite lex_frag_word by assumption.
    rewrite IH by assumption. rewrite orb_assoc, app_assoc, app_length. f_equal. lia.
Qed.

(** a whole token, from white-space state *)
Lemma lex_tok_ws : forall t n rest,
  wf_tok t = true ->
  lex_go SWs false [] n (render_tok t ++ rest) =
  lex_go SWord (existsb frag_quoted t) (chars_tok t) (n + length (render_tok t)) rest.
Proof.
  intros [|f fs] n rest H; [discriminate|].
  unfold wf_tok in H. cbn in H. apply andb_true_iff in H as [Hf Hfs].
  unfold render_tok, chars_tok. cbn [map concat existsb].
  rewrite <- app_assoc. rewrite lex_frag_ws by assumption.
  fold (render_tok fs). fold (chars_tok fs).
  rewrite lex_frags_word by assumption. rewrite app_length. f_equal. lia.
Qed.

(** leading separators *)
Lemma lex_skip_seps : forall seps n x,
  forallb is_sep seps = true ->
  lex_go SWs false [] n (seps ++ x) = lex_go SWs false [] (n + length seps) x.
Proof.
  induction seps as [|c seps IH]; intros n x H.
  - cbn. rewrite Nat.add_0_r. reflexivity.
  - cbn in H. apply andb_true_iff in H as [Hc Hs]. rewrite is_sep_shlex in Hc.
    cbn [app lex_go]. rewrite Hc. cbn. rewrite IH by assumption. cbn [length]. f_equal. lia.
Qed.

(** a token is never "nothing" *)
Lemma tok_emits : forall t, wf_tok t = true -> emit (existsb frag_quoted t) (chars_tok t) = LexTok (chars_tok t).
Proof.
  intros [|f fs] H; [discriminate|].
  unfold wf_tok in H. cbn in H. apply andb_true_iff in H as [Hf _].
  unfold emit. destruct f as [cs|cs|cs]; cbn [existsb frag_quoted orb negb andb]; try reflexivity.
  cbn in Hf. apply andb_true_iff in Hf as [Hne _]. destruct cs; [discriminate|].
  unfold chars_tok. cbn [map concat chars_frag app nonempty]. rewrite andb_false_r. reflexivity.
Qed.

(** what follows a token: nothing, or a separator *)
Definition rest_ok (rest : text) : Prop := rest = [] \/ exists c r, rest = c :: r /\ is_sep c = true.
Definition hits_eof (rest : text) : bool := negb (nonempty rest).
Definition delim_len (rest : text) : nat := match rest with [] => 0%nat | _ => 1%nat end.

(** C09 token boundaries, lexer level: separators, then a token written from well-formed
    fragments, then end of input or a separator: the lexer delivers exactly the characters of the
    fragments and reads exactly the token's source plus one delimiter. *)
Lemma lex_token : forall seps t rest n,
  forallb is_sep seps = true -> wf_tok t = true -> rest_ok rest ->
  lex_go SWs false [] n (seps ++ render_tok t ++ rest) =
  (LexTok (chars_tok t), (n + length seps + length (render_tok t) + delim_len rest)%nat, hits_eof rest).
Proof.
  intros seps t rest n Hs Ht Hr.
  rewrite lex_skip_seps by assumption. rewrite lex_tok_ws by assumption.
  destruct Hr as [-> | (c & r & -> & Hc)].
  - cbn. rewrite tok_emits by assumption. f_equal. f_equal. lia.
  - cbn [lex_go]. rewrite is_sep_shlex in Hc. rewrite Hc.
    assert (E : emit (existsb frag_quoted t) (chars_tok t) = LexTok (chars_tok t)) by (apply tok_emits; assumption).
    unfold emit in E.
    destruct (nonempty (chars_tok t) || existsb frag_quoted t) eqn:Q.
    + unfold emit. cbn [delim_len hits_eof nonempty negb]. rewrite E. f_equal. f_equal. lia.
    + exfalso. apply orb_false_iff in Q as [Q1 Q2]. rewrite Q1, Q2 in E. discriminate.
Qed.

(** only separators remain: no token *)
Lemma lex_only_seps : forall seps n,
  forallb is_sep seps = true ->
  lex_go SWs false [] n seps = (LexNone, (n + length seps)%nat, true).
Proof.
  intros seps n H. rewrite <- (app_nil_r seps) at 1. rewrite lex_skip_seps by assumption. reflexivity.
Qed.

(** an unterminated quote after well-formed fragments: ValueError *)
Lemma lex_unterm_quote : forall q cs qd tok n,
  existsb (N.eqb q) cs = false ->
  fst (fst (lex_go (SQuote q) qd tok n cs)) = LexErr.
Proof.
  induction cs as [|c cs IH]; intros qd tok n H.
  - reflexivity.
  - cbn in H. apply orb_false_iff in H as [Hc Hcs]. cbn [lex_go]. rewrite N.eqb_sym in Hc. rewrite Hc.
    apply IH. assumption.
Qed.

Lemma lex_unterm_quote_len : forall q cs qd tok n,
  existsb (N.eqb q) cs = false ->
  lex_go (SQuote q) qd tok n cs = (LexErr, (n + length cs)%nat, false).
Proof.
  induction cs as [|c cs IH]; intros qd tok n H.
  - cbn. rewrite Nat.add_0_r. reflexivity.
  - cbn in H. apply orb_false_iff in H as [Hc Hcs]. cbn [lex_go]. rewrite N.eqb_sym in Hc. rewrite Hc.
    rewrite IH by assumption. cbn [length]. f_equal. f_equal. lia.
Qed.

Lemma lex_unterminated : forall seps u n,
  forallb is_sep seps = true -> wf_unterm u = true ->
  lex_go SWs false [] n (seps ++ render_unterm u) =
  (LexErr, (n + length seps + length (render_unterm u))%nat, false).
Proof.
  intros seps [pre q cs] n Hs Hu. unfold wf_unterm in Hu. cbn [u_pre u_q u_cs] in Hu.
  apply andb_true_iff in Hu as [Hu Hcs]. apply andb_true_iff in Hu as [Hpre Hq].
  apply negb_true_iff in Hcs.
  rewrite lex_skip_seps by assumption. unfold render_unterm. cbn [u_pre u_q u_cs].
  destruct pre as [|f fs].
  - cbn [render_tok map concat app lex_go]. rewrite (quote_not_ws _ Hq), Hq.
    rewrite lex_unterm_quote_len by assumption. f_equal. f_equal. len.
  - cbn in Hpre. apply andb_true_iff in Hpre as [Hf Hfs].
    unfold render_tok. cbn [map concat]. rewrite <- !app_assoc.
    rewrite lex_frag_ws by assumption. fold (render_tok fs).
    rewrite lex_frags_word by assumption.
    cbn [lex_go]. rewrite (quote_not_ws _ Hq), Hq.
    rewrite lex_unterm_quote_len by assumption. f_equal. f_equal. len.
Qed.
