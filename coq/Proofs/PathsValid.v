(** C12: symbol validation.  A validated reference resolves (no implementation error); a destination
    argument that parse and validation accept has relativity act, tmp or cd - through chains of symbol
    definitions of any length (induction over the table). *)
From Coq Require Import NArith List Bool.
From Exactly Require Import Model.Paths Spec.C12 Proofs.PathsJoin.
Import ListNotations.
Local Open Scope N_scope.

(** ** lookup and resolution agree *)
Lemma rvalue_lookup : forall tbl n v rest,
  lookup tbl n = Some (v, rest) ->
  rvalue_of_sym tbl n =
    match v with
    | VString fs => bind (concat_frags (rvalue_of_sym rest) fs) (fun s => Ok (RVStr s))
    | VPath s => bind (resolve rest s) (fun d => Ok (RVPath d))
    | VList => Ok RVList
    | VOther => Ok RVOther
    end.
Proof.
  induction tbl as [|[m v0] tl IH]; intros n v rest H; cbn [lookup] in H; [discriminate|].
  cbn [rvalue_of_sym]. destruct (N.eqb m n) eqn:E.
  - injection H as <- <-. reflexivity.
  - apply IH; assumption.
Qed.

Lemma rvalue_undefined : forall tbl n, lookup tbl n = None -> rvalue_of_sym tbl n = Err EUndefined.
Proof.
  induction tbl as [|[m v0] tl IH]; intros n H; [reflexivity|].
  cbn [lookup] in H. cbn [rvalue_of_sym]. destruct (N.eqb m n); [discriminate | apply IH; assumption].
Qed.

Lemma all_strings_lookup : forall tbl n v rest,
  lookup tbl n = Some (v, rest) ->
  sym_all_strings tbl n =
    match v with
    | VString fs => forallb (fun f => match f with FConst _ => true | FSym k => sym_all_strings rest k end) fs
    | _ => false
    end.
Proof.
  induction tbl as [|[m v0] tl IH]; intros n v rest H; cbn [lookup] in H; [discriminate|].
  cbn [sym_all_strings]. destruct (N.eqb m n) eqn:E.
  - injection H as <- <-. reflexivity.
  - apply IH; assumption.
Qed.

(** ** validate_refs is a conjunction *)
Lemma validate_refs_cons : forall tbl r rs,
  validate_refs tbl (r :: rs) = VAccept <-> validate_ref tbl r = VAccept /\ validate_refs tbl rs = VAccept.
Proof.
  intros tbl r rs. cbn [validate_refs]. destruct (validate_ref tbl r); split; intros H; try discriminate; try tauto;
    destruct H; discriminate.
Qed.

Lemma validate_refs_app : forall tbl r1 r2,
  validate_refs tbl (r1 ++ r2) = VAccept <-> validate_refs tbl r1 = VAccept /\ validate_refs tbl r2 = VAccept.
Proof.
  induction r1 as [|r r1 IH]; intros r2.
  - cbn. tauto.
  - rewrite <- app_comm_cons, !validate_refs_cons, IH. tauto.
Qed.

(** ** strings *)
Lemma all_strings_resolve : forall tbl n,
  sym_all_strings tbl n = true -> exists s, rvalue_of_sym tbl n = Ok (RVStr s).
Proof.
  induction tbl as [|[m v0] tl IH]; intros n H; cbn [sym_all_strings] in H; [discriminate|].
  cbn [rvalue_of_sym]. destruct (N.eqb m n) eqn:E; [|apply IH; assumption].
  destruct v0 as [fs| | |]; try discriminate.
  assert (exists s, concat_frags (rvalue_of_sym tl) fs = Ok s) as [s Hs].
  { induction fs as [|f fs IHf]; [exists []; reflexivity|].
    cbn [forallb] in H. apply andb_true_iff in H as [Hf Hfs]. destruct (IHf Hfs) as [t Ht].
    destruct f as [c|k]; cbn [concat_frags].
    - rewrite Ht. eexists; reflexivity.
    - destruct (IH k Hf) as [sk Hk]. unfold look_str. rewrite Hk. cbn [bind]. rewrite Ht. eexists; reflexivity. }
  rewrite Hs. eexists; reflexivity.
Qed.

Lemma validate_string_ref : forall tbl n,
  validate_ref tbl (n, RStringAll) = VAccept -> sym_all_strings tbl n = true.
Proof.
  intros tbl n H. cbn [validate_ref] in H. destruct (lookup tbl n) as [[v rest]|]; [|discriminate].
  destruct (sym_all_strings tbl n); [reflexivity | discriminate].
Qed.

Lemma validated_frags_concat : forall tbl fs,
  validate_refs tbl (frag_refs RStringAll fs) = VAccept -> exists s, concat_frags (rvalue_of_sym tbl) fs = Ok s.
Proof.
  induction fs as [|f fs IH]; intros H; [exists []; reflexivity|].
  destruct f as [c|k]; cbn [frag_refs flat_map] in H.
  - destruct (IH H) as [t Ht]. cbn [concat_frags]. rewrite Ht. eexists; reflexivity.
  - cbn [app] in H. apply validate_refs_cons in H as [Hk Hfs]. destruct (IH Hfs) as [t Ht].
    destruct (all_strings_resolve tbl k (validate_string_ref _ _ Hk)) as [sk Hsk].
    cbn [concat_frags]. unfold look_str. rewrite Hsk. cbn [bind]. rewrite Ht. eexists; reflexivity.
Qed.

Lemma validated_psdv : forall tbl p,
  validate_refs tbl (psdv_refs p) = VAccept -> exists sfx, resolve_psdv (rvalue_of_sym tbl) p = Ok sfx.
Proof.
  intros tbl [| s | fs] H; cbn [resolve_psdv]; try (eexists; reflexivity).
  destruct (validated_frags_concat tbl fs H) as [s Hs]. rewrite Hs. eexists; reflexivity.
Qed.

(** ** what an accepted path reference gives *)
Lemma check_path_rel_accept : forall rest v acc,
  check_path_rel rest v acc = VAccept ->
  exists s d, v = VPath s /\ resolve rest s = Ok d /\ variants_sat (ddv_relativity d) acc = true.
Proof.
  intros rest v acc H. unfold check_path_rel in H. destruct v as [fs|s| |]; try discriminate.
  destruct (resolve rest s) as [d|e] eqn:R; [|discriminate].
  destruct (variants_sat (ddv_relativity d) acc) eqn:S; [|discriminate].
  exists s, d. auto.
Qed.

Lemma path_rel_ref_accept : forall tbl n acc,
  validate_ref tbl (n, RPathRel acc) = VAccept ->
  exists d, rvalue_of_sym tbl n = Ok (RVPath d) /\ variants_sat (ddv_relativity d) acc = true.
Proof.
  intros tbl n acc H. cbn [validate_ref] in H. destruct (lookup tbl n) as [[v rest]|] eqn:L; [|discriminate].
  destruct (check_path_rel_accept _ _ _ H) as (s & d & -> & R & S).
  exists d. rewrite (rvalue_lookup _ _ _ _ L), R. auto.
Qed.

Lemma path_or_string_ref_accept : forall tbl n acc,
  validate_ref tbl (n, RPathOrString acc) = VAccept ->
  (exists d, rvalue_of_sym tbl n = Ok (RVPath d) /\ variants_sat (ddv_relativity d) acc = true)
  \/ (exists s, rvalue_of_sym tbl n = Ok (RVStr s)).
Proof.
  intros tbl n acc H. cbn [validate_ref] in H. destruct (lookup tbl n) as [[v rest]|] eqn:L; [|discriminate].
  destruct v as [fs|s| |]; try discriminate.
  - right. apply all_strings_resolve. destruct (sym_all_strings tbl n); [reflexivity|discriminate].
  - left. destruct (check_path_rel_accept _ _ _ H) as (s' & d & E & R & S). injection E as <-.
    exists d. rewrite (rvalue_lookup _ _ _ _ L), R. auto.
Qed.

(** ** a validated argument resolves: the errors of [resolve] are unreachable after validation *)
Theorem validated_resolves : forall tbl s,
  validate_refs tbl (sdv_refs s) = VAccept -> exists d, resolve tbl s = Ok d.
Proof.
  intros tbl s H. unfold resolve. destruct s as [d | r p | n acc p | n acc p dflt | root p]; cbn [sdv_refs] in H; cbn [resolve_sdv].
  - eexists; reflexivity.
  - destruct (validated_psdv tbl p H) as [sfx Hs]. rewrite Hs. eexists; reflexivity.
  - apply validate_refs_cons in H as [Hn Hp]. destruct (path_rel_ref_accept _ _ _ Hn) as (d & Hd & _).
    destruct (validated_psdv tbl p Hp) as [sfx Hs]. unfold look_path. rewrite Hd, Hs. eexists; reflexivity.
  - apply validate_refs_cons in H as [Hn Hp]. destruct (validated_psdv tbl p Hp) as [sfx Hs].
    destruct (path_or_string_ref_accept _ _ _ Hn) as [(d & Hd & _) | (str & Hstr)].
    + rewrite Hd. cbn [bind]. rewrite Hs. eexists; reflexivity.
    + rewrite Hstr. cbn [bind]. rewrite Hs. eexists; reflexivity.
  - destruct (validated_psdv tbl p H) as [sfx Hs]. rewrite Hs. eexists; reflexivity.
Qed.

(** ** on a table built by symbol validation, validation never crashes *)
Lemma wf_lookup : forall tbl n v rest,
  wf tbl -> lookup tbl n = Some (v, rest) -> wf rest /\ validate_refs rest (value_refs v) = VAccept.
Proof.
  induction tbl as [|[m v0] tl IH]; intros n v rest W L; cbn [lookup] in L; [discriminate|].
  cbn [wf] in W. destruct W as (Wtl & _ & Hv). destruct (N.eqb m n).
  - injection L as <- <-. auto.
  - eapply IH; eassumption.
Qed.

Theorem wf_validate_ref_no_crash : forall tbl r, wf tbl -> validate_ref tbl r <> VCrash.
Proof.
  intros tbl [n r] W. cbn [validate_ref]. destruct (lookup tbl n) as [[v rest]|] eqn:L; [|discriminate].
  destruct (wf_lookup _ _ _ _ W L) as [Wr Hv].
  assert (forall acc, check_path_rel rest v acc <> VCrash) as HC.
  { intros acc. unfold check_path_rel. destruct v as [fs|s| |]; try discriminate.
    cbn [value_refs] in Hv. destruct (validated_resolves rest s Hv) as [d Hd]. rewrite Hd.
    destruct (variants_sat (ddv_relativity d) acc); discriminate. }
  destruct r as [acc|acc| |].
  - apply HC.
  - destruct v; try discriminate; try apply HC. destruct (sym_all_strings tbl n); discriminate.
  - destruct (sym_all_strings tbl n); discriminate.
  - destruct v; discriminate.
Qed.

Lemma wf_validate_refs_no_crash : forall tbl rs, wf tbl -> validate_refs tbl rs <> VCrash.
Proof.
  intros tbl rs W. induction rs as [|r rs IH]; cbn [validate_refs]; [discriminate|].
  destruct (validate_ref tbl r) eqn:E; [assumption | discriminate | exfalso; eapply wf_validate_ref_no_crash; eassumption].
Qed.

Lemma validate_def_wf : forall tbl n v tbl', wf tbl -> validate_def tbl n v = (VAccept, tbl') -> wf tbl'.
Proof.
  intros tbl n v tbl' W H. unfold validate_def in H. destruct (contains tbl n) eqn:C; [discriminate|].
  destruct (validate_refs tbl (value_refs v)) eqn:V; try discriminate. injection H as <-. cbn [wf]. auto.
Qed.

Theorem validate_defs_wf : forall defs tbl tbl', wf tbl -> validate_defs tbl defs = (VAccept, tbl') -> wf tbl'.
Proof.
  induction defs as [|[n v] defs IH]; intros tbl tbl' W H; cbn [validate_defs] in H.
  - injection H as <-. assumption.
  - destruct (validate_def tbl n v) as [x t] eqn:D. destruct x; try discriminate.
    eapply IH; [eapply validate_def_wf; eassumption | eassumption].
Qed.

(** ** the relativity of a destination *)
Lemma creation_sat : forall rel, variants_sat rel creation_variants = creation_rel_ok rel.
Proof. intros [[]|]; reflexivity. Qed.

Lemma concat_all_const : forall look fs, all_const fs = true -> concat_frags look fs = Ok (const_concat fs).
Proof.
  induction fs as [|f fs IH]; intros H; [reflexivity|]. destruct f as [c|k]; cbn [all_const forallb] in H; [|discriminate].
  cbn [concat_frags const_concat]. unfold all_const in IH. rewrite (IH H). reflexivity.
Qed.

Lemma relativity_stacked_if : forall (b : bool) base sfx,
  ddv_relativity (if b then base else DStacked base sfx) = ddv_relativity base.
Proof. intros [] base sfx; reflexivity. Qed.

(** *** what a validated, resolved sdv looks like *)
Lemma resolved_rel_opt : forall tbl r p d, resolve tbl (SRelOpt r p) = Ok d -> ddv_relativity d = Some r.
Proof.
  intros tbl r p d H. unfold resolve in H. cbn [resolve_sdv] in H.
  destruct (resolve_psdv (rvalue_of_sym tbl) p); [|discriminate]. injection H as <-. reflexivity.
Qed.

Lemma resolved_rel_sym : forall tbl n acc p d,
  validate_refs tbl (sdv_refs (SRelSym n acc p)) = VAccept -> resolve tbl (SRelSym n acc p) = Ok d ->
  exists base, rvalue_of_sym tbl n = Ok (RVPath base) /\ ddv_relativity d = ddv_relativity base
               /\ variants_sat (ddv_relativity base) acc = true.
Proof.
  intros tbl n acc p d HV HR. cbn [sdv_refs] in HV. apply validate_refs_cons in HV as [Hn _].
  destruct (path_rel_ref_accept _ _ _ Hn) as (base & Hb & Hs). exists base.
  unfold resolve in HR. cbn [resolve_sdv] in HR. unfold look_path in HR. rewrite Hb in HR. cbn [bind] in HR.
  destruct (resolve_psdv (rvalue_of_sym tbl) p); [|discriminate]. cbn [bind] in HR. injection HR as <-.
  rewrite relativity_stacked_if. auto.
Qed.

Lemma resolved_ref : forall tbl n acc p dflt d,
  validate_refs tbl (sdv_refs (SRef n acc p dflt)) = VAccept -> resolve tbl (SRef n acc p dflt) = Ok d ->
  (exists base, rvalue_of_sym tbl n = Ok (RVPath base) /\ ddv_relativity d = ddv_relativity base
                /\ variants_sat (ddv_relativity base) acc = true)
  \/ (exists str sfx, rvalue_of_sym tbl n = Ok (RVStr str) /\ resolve_psdv (rvalue_of_sym tbl) p = Ok sfx /\ d = (if str_abs (str ++ part_value sfx) then DAbs (PFixed (str ++ part_value sfx))
                           else DRel dflt (PFixed (str ++ part_value sfx)))).
Proof.
  intros tbl n acc p dflt d HV HR. cbn [sdv_refs] in HV. apply validate_refs_cons in HV as [Hn _].
  unfold resolve in HR. cbn [resolve_sdv] in HR.
  destruct (path_or_string_ref_accept _ _ _ Hn) as [(base & Hb & Hs) | (str & Hstr)].
  - left. exists base. rewrite Hb in HR. cbn [bind] in HR.
    destruct (resolve_psdv (rvalue_of_sym tbl) p); [|discriminate]. cbn [bind] in HR. injection HR as <-.
    rewrite relativity_stacked_if. auto.
  - right. rewrite Hstr in HR. cbn [bind] in HR.
    destruct (resolve_psdv (rvalue_of_sym tbl) p) as [sfx|] eqn:RP; [|discriminate]. cbn [bind] in HR.
    rewrite abs_iff in HR. injection HR as <-. exists str, sfx. auto.
Qed.

(** *** what the parser produces for a destination argument *)
Definition own_is (a : parg) (n : sym) (p : psdv) : Prop :=
  forall tbl str sfx, rvalue_of_sym tbl n = Ok (RVStr str) -> resolve_psdv (rvalue_of_sym tbl) p = Ok sfx ->
                      own_string tbl a = Some (str ++ part_value sfx).

Inductive shape (a : parg) : sdv -> Prop :=
| sh_default : forall p, shape a (SConst (DRel RCwd p))
| sh_abs : forall str, str_abs str = true -> (forall tbl, own_string tbl a = Some str) -> shape a (SConst (DAbs (PFixed str)))
| sh_opt : forall o p, creation_rel_ok (Some o) = true -> shape a (SRelOpt o p)
| sh_sym : forall n p, shape a (SRelSym n creation_variants p)
| sh_ref : forall n p, own_is a n p -> shape a (SRef n creation_variants p RCwd).

Lemma own_const : forall rel q fs, all_const fs = true ->
  forall tbl, own_string tbl (PArg rel (Some (StrTok q fs))) = Some (const_concat fs).
Proof. intros rel q fs H tbl. unfold own_string. cbn [pa_str st_frags]. rewrite (concat_all_const _ _ H). reflexivity. Qed.

Lemma own_ref : forall q n rest, own_is (PArg RNone (Some (StrTok q (FSym n :: rest)))) n (suffix_of_frags rest).
Proof.
  intros q n rest tbl str sfx Hn Hp. unfold own_string. cbn [pa_str st_frags concat_frags]. unfold look_str. rewrite Hn. cbn [bind].
  destruct rest as [|f rest']; cbn [suffix_of_frags resolve_psdv] in Hp.
  - injection Hp as <-. reflexivity.
  - destruct (concat_frags (rvalue_of_sym tbl) (f :: rest')) as [t|]; [|discriminate]. injection Hp as <-. reflexivity.
Qed.

Lemma explicit_shape : forall rel t ctor,
  (forall p, shape (PArg rel (Some t)) (ctor p)) ->
  shape (PArg rel (Some t)) (with_explicit_relativity t ctor).
Proof.
  intros rel [q fs] ctor H. unfold with_explicit_relativity. cbn [st_frags].
  destruct (all_const fs) eqn:AC; [|apply H].
  rewrite abs_iff. destruct (str_abs (const_concat fs)) eqn:SA; [|apply H].
  apply sh_abs; [assumption | apply own_const; assumption].
Qed.

Lemma parse_shape : forall req a s, parse_path (creation_conf req) a = PParsed s -> shape a s.
Proof.
  intros req [rel st] s HP. unfold parse_path in HP. cbn [pa_rel pa_str] in HP.
  destruct rel as [|o|n| |].
  - (* no relativity *)
    destruct st as [t|].
    + cbn [relativity_ctor] in HP. destruct (tok_is_reserved t); [discriminate|]. destruct (tok_is_optionlike t); [discriminate|].
      destruct t as [q fs]. unfold without_explicit_relativity in HP. cbn [st_frags creation_conf c_acc c_default] in HP.
      destruct fs as [|f1 fs1]; [injection HP as <-; apply sh_opt; reflexivity|].
      destruct f1 as [c|n1].
      * destruct fs1 as [|f2 fs2].
        -- injection HP as <-. unfold just_string_argument. rewrite abs_iff. cbn [c_default].
           destruct (str_abs c) eqn:SA; [|apply sh_default].
           apply sh_abs; [assumption|]. intros tbl. unfold own_string. cbn [pa_str st_frags concat_frags bind]. rewrite app_nil_r. reflexivity.
        -- injection HP as <-. apply sh_opt. reflexivity.
      * destruct fs1 as [|f2 fs2].
        -- injection HP as <-. apply sh_ref. apply (own_ref q n1 []).
        -- destruct f2 as [k|n2].
           ++ destruct (str_abs k); injection HP as <-.
              ** apply sh_ref. apply own_ref.
              ** apply sh_opt. reflexivity.
           ++ injection HP as <-. apply sh_opt. reflexivity.
    + cbn [creation_conf c_suffix_required c_default] in HP. destruct req; [discriminate|]. injection HP as <-. apply sh_default.
  - (* a relativity option *)
    cbn [relativity_ctor creation_conf c_acc creation_variants v_rels] in HP.
    destruct (rel_in o [RAct; RTmp; RCwd]) eqn:RI; [|destruct st; discriminate].
    assert (creation_rel_ok (Some o) = true) as Ho by (destruct o; try discriminate; reflexivity).
    destruct st as [t|].
    + destruct (tok_is_reserved t); [discriminate|]. destruct (tok_is_optionlike t); [discriminate|].
      injection HP as <-. apply explicit_shape. intros p. apply sh_opt. assumption.
    + cbn [c_suffix_required] in HP. destruct req; [discriminate|]. injection HP as <-. apply sh_opt. assumption.
  - (* -rel SYMBOL *)
    cbn [relativity_ctor creation_conf c_acc] in HP. destruct st as [t|].
    + destruct (tok_is_reserved t); [discriminate|]. destruct (tok_is_optionlike t); [discriminate|].
      injection HP as <-. apply explicit_shape. intros p. apply sh_sym.
    + cbn [c_suffix_required] in HP. destruct req; [discriminate|]. injection HP as <-. apply sh_sym.
  - cbn [relativity_ctor creation_conf c_here] in HP. destruct st; discriminate.
  - cbn [relativity_ctor] in HP. destruct st; discriminate.
Qed.

(** Accepted by parse and symbol validation as the name of a file or directory to create or modify =>
    relativity act, tmp or cd - unless the PATH-STRING of the argument itself is absolute. *)
Theorem creation_target_relativity : forall req tbl a s d,
  parse_path (creation_conf req) a = PParsed s ->
  validate_refs tbl (sdv_refs s) = VAccept ->
  resolve tbl s = Ok d ->
  own_string_abs tbl a = false ->
  creation_rel_ok (ddv_relativity d) = true.
Proof.
  intros req tbl a s d HP HV HR HO. destruct (parse_shape _ _ _ HP) as [p | str SA OW | o p Ho | n p | n p OW].
  - unfold resolve in HR. cbn [resolve_sdv] in HR. injection HR as <-. reflexivity.
  - unfold own_string_abs in HO. rewrite OW, SA in HO. discriminate.
  - rewrite (resolved_rel_opt _ _ _ _ HR). assumption.
  - destruct (resolved_rel_sym _ _ _ _ _ HV HR) as (base & _ & -> & Hs). rewrite <- creation_sat. assumption.
  - destruct (resolved_ref _ _ _ _ _ _ HV HR) as [(base & _ & -> & Hs) | (str & sfx & Hn & Hp & ->)].
    + rewrite <- creation_sat. assumption.
    + unfold own_string_abs in HO. rewrite (OW tbl str sfx Hn Hp) in HO. rewrite HO. reflexivity.
Qed.

(** ** chains of definitions: the relativity at the end of the chain is the relativity of the symbol *)
Theorem chain_relativity : forall tbl n r,
  Chain tbl n r -> wf tbl -> forall d, rvalue_of_sym tbl n = Ok (RVPath d) -> ddv_relativity d = r.
Proof.
  intros tbl n r C. induction C as [tbl n d0 rest L | tbl n r0 p rest L | tbl n root p rest L
                                   | tbl n m acc p rest r L C IH | tbl n m acc p dflt rest r L C IH]; intros W d HR;
    rewrite (rvalue_lookup _ _ _ _ L) in HR; destruct (wf_lookup _ _ _ _ W L) as [Wr HV]; cbn [value_refs] in HV.
  - unfold resolve in HR. cbn [resolve_sdv bind] in HR. injection HR as <-. reflexivity.
  - destruct (resolve rest (SRelOpt r0 p)) as [d'|] eqn:R; [|discriminate]. cbn [bind] in HR. injection HR as <-.
    apply (resolved_rel_opt _ _ _ _ R).
  - unfold resolve in HR. cbn [resolve_sdv] in HR. destruct (resolve_psdv (rvalue_of_sym rest) p); [|discriminate].
    cbn [bind] in HR. injection HR as <-. reflexivity.
  - destruct (resolve rest (SRelSym m acc p)) as [d'|] eqn:R; [|discriminate]. cbn [bind] in HR. injection HR as <-.
    destruct (resolved_rel_sym _ _ _ _ _ HV R) as (base & Hb & -> & _). apply IH; assumption.
  - destruct (resolve rest (SRef m acc p dflt)) as [d'|] eqn:R; [|discriminate]. cbn [bind] in HR. injection HR as <-.
    destruct (resolved_ref _ _ _ _ _ _ HV R) as [(base & Hb & -> & _) | (str & sfx & Hn & _)].
    + apply IH; assumption.
    + (* the chain says [m] is a path symbol *)
      exfalso. clear -C Hn Wr. inversion C as [? ? ? ? L'|? ? ? ? ? L'|? ? ? ? ? L'|? ? ? ? ? ? ? L' _|? ? ? ? ? ? ? ? L' _]; subst;
        rewrite (rvalue_lookup _ _ _ _ L') in Hn;
        match type of Hn with bind ?x _ = _ => destruct x; discriminate end.
Qed.

(** A destination argument that goes through a path symbol whose chain of definitions - of any length -
    ends in a relativity other than act, tmp, cd is rejected by symbol validation. *)
Theorem chain_rejected : forall req tbl a s n r,
  wf tbl ->
  parse_path (creation_conf req) a = PParsed s ->
  path_symbol_of s = Some n ->
  Chain tbl n r -> creation_rel_ok r = false ->
  validate_refs tbl (sdv_refs s) = VReject.
Proof.
  intros req tbl a s n r W HP HS C Hr.
  destruct (validate_refs tbl (sdv_refs s)) eqn:HV; [|reflexivity|exfalso; eapply wf_validate_refs_no_crash; eassumption].
  exfalso. destruct (validated_resolves _ _ HV) as [d HR].
  destruct (parse_shape _ _ _ HP) as [p | str SA OW | o p Ho | n' p | n' p OW]; cbn [path_symbol_of] in HS; try discriminate;
    injection HS as ->.
  - destruct (resolved_rel_sym _ _ _ _ _ HV HR) as (base & Hb & _ & Hs).
    rewrite (chain_relativity _ _ _ C W _ Hb), creation_sat, Hr in Hs. discriminate.
  - destruct (resolved_ref _ _ _ _ _ _ HV HR) as [(base & Hb & _ & Hs) | (str & sfx & Hn & _)].
    + rewrite (chain_relativity _ _ _ C W _ Hb), creation_sat, Hr in Hs. discriminate.
    + inversion C as [? ? ? ? L'|? ? ? ? ? L'|? ? ? ? ? L'|? ? ? ? ? ? ? L' _|? ? ? ? ? ? ? ? L' _]; subst;
        rewrite (rvalue_lookup _ _ _ _ L') in Hn;
        match type of Hn with bind ?x _ = _ => destruct x; discriminate end.
Qed.
