(** Proofs for C02: the model of the implementation equals the documented table. *)
From Coq Require Import ZArith List Bool String.
From Exactly Require Import Lib.Harness Model.Outcome Spec.C02.
Import ListNotations.
Local Open Scope Z_scope.

Lemma verdict_table_no_conf_failure mode ps : full_status_of None mode ps = doc_verdict mode ps.
Proof. destruct mode, ps as [[]|]; reflexivity. Qed.

Lemma verdict_conf_failure f mode ps : full_status_of (Some f) mode ps = full_of_fail f.
Proof. reflexivity. Qed.

Lemma exit_ident_consistent r : exit_value r = (doc_exit (verdict_ident r), verdict_ident r).
Proof. destruct r as [s h c|a|]; [destruct s|destruct a|]; reflexivity. Qed.

Lemma exit_codes_documented r : In (fst (exit_value r)) documented_codes.
Proof. destruct r as [s h c|a|]; [destruct s|destruct a|]; cbn; tauto. Qed.

(** Same exit code <-> same class of verdicts (the documented sharing) *)
Lemma exit_code_sharing s1 s2 :
  exit_code_of_full s1 = exit_code_of_full s2 <->
  (s1 = s2 \/ (In s1 [PASS; SKIPPED] /\ In s2 [PASS; SKIPPED]) \/ (In s1 [XFAIL; XPASS] /\ In s2 [XFAIL; XPASS])
   \/ (In s1 [SYNTAX_ERROR; VALIDATION_ERROR] /\ In s2 [SYNTAX_ERROR; VALIDATION_ERROR])).
Proof.
  destruct s1, s2; cbn; split; intros H; try reflexivity; try discriminate; try tauto;
    repeat match goal with
           | H : _ \/ _ |- _ => destruct H
           | H : _ /\ _ |- _ => destruct H
           | H : False |- _ => contradiction
           | H : ?a = ?b |- _ => discriminate H
           end.
Qed.

Lemma program_output_matches_doc m r : program_output m r = doc_program_output m r.
Proof.
  destruct m, r as [s h [c|]|a|]; try destruct s; try destruct h; try destruct a; reflexivity.
Qed.

Lemma act_passes_exit_code_iff s h (c : Z) :
  r_exit (program_output Act (Executed s h (Some c))) = c /\ r_err_ident (program_output Act (Executed s h (Some c))) = None
  <-> (In s [PASS; FAIL; XPASS; XFAIL]).
Proof.
  destruct s; cbn; split; intros H; try tauto; try (destruct H as [_ H]; discriminate H);
    repeat match goal with H : _ \/ _ |- _ => destruct H end; try discriminate; try contradiction.
Qed.

Lemma ident_printed_exactly_once m r :
  passes_through m r = None ->
  let rep := program_output m r in
  let n_out := List.length (List.filter (fun o => match o with OIdent _ => true | _ => false end) (r_out rep)) in
  let n_err := match r_err_ident rep with Some _ => 1%nat | None => 0%nat end in
  (n_out + n_err = 1)%nat /\ (m = Normal -> n_out = 1%nat) /\ (m <> Normal -> n_err = 1%nat).
Proof.
  destruct m, r as [s h [c|]|a|]; try destruct s; try destruct h; try destruct a; cbn; intros H;
    try discriminate H; repeat split; intros; try reflexivity; try congruence.
Qed.

Lemma keep_stdout_is_only_sandbox_path r :
  r_out (program_output Keep r) = match r with Executed _ true _ => [OSdsPath] | _ => [] end.
Proof. destruct r as [s h [c|]|a|]; try destruct s; try destruct h; try destruct a; reflexivity. Qed.
