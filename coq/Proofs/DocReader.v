(** The reader of the model (dictionary of per-phase lists, merged at inclusions: document_parser._Impl,
    _add_raw_doc) computes exactly the declarative reading [flat_root] of Spec/C07.v: same error, or per
    phase the elements tagged with that phase, in reading order. *)
From Coq Require Import NArith List Bool Arith Lia.
From Exactly Require Import Model.Doc Spec.C07.
Import ListNotations.
Local Open Scope N_scope.

Lemma sec_eqb_refl : forall s, sec_eqb s s = true.
Proof. destruct s; reflexivity. Qed.

Lemma sec_eqb_eq : forall a b, sec_eqb a b = true <-> a = b.
Proof. destruct a, b; cbn; split; intros H; try reflexivity; try discriminate. Qed.

Lemma sections_of_app : forall a b s, sections_of (a ++ b) s = sections_of a s ++ sections_of b s.
Proof. intros. unfold sections_of. rewrite filter_app, map_app. reflexivity. Qed.

Lemma sections_of_cons : forall t e out s,
    sections_of ((t, e) :: out) s = (if sec_eqb t s then [e] else []) ++ sections_of out s.
Proof. intros. unfold sections_of. cbn. destruct (sec_eqb t s); reflexivity. Qed.

(** relation between a result of the reader started with [doc] and a result of the declarative reading *)
Definition rel_from (doc : rawdoc) (r : res rawdoc) (f : res tagged) : Prop :=
  match r, f with
  | Ok d, Ok out => forall s, d s = doc s ++ sections_of out s
  | Err e, Err e' => e = e'
  | _, _ => False
  end.

Definition inc_rel (inc : sec -> lineseq -> text -> res rawdoc) (finc : sec -> lineseq -> text -> res tagged) : Prop :=
  forall cur src tok, rel_from empty_doc (inc cur src tok) (finc cur src tok).

Section Reader.
  Variable iparse : sec -> text -> list text -> ires.
  Variable fs : N -> text -> fsres.
  Variable contents : N -> option (list text).

  Lemma loop_flat :
    forall inc finc, inc_rel inc finc ->
    forall fuel fi cur n ls doc,
      rel_from doc (loop iparse inc fuel fi cur n ls doc) (flat_loop iparse finc fuel fi cur n ls).
  Proof.
    intros inc finc Hinc. induction fuel as [|fuel IH]; intros fi cur n ls doc.
    - cbn. reflexivity.
    - cbn [loop flat_loop]. destruct ls as [|l0 rest].
      + cbn. intros s. rewrite app_nil_r. reflexivity.
      + destruct (at_eof (l0 :: rest)) eqn:Eeof.
        * cbn. intros s. rewrite app_nil_r. reflexivity.
        * destruct (is_header_line l0) eqn:Eh.
          -- destruct (header_of l0) eqn:Eho; cbn; try reflexivity. apply IH.
          -- destruct (elem_step iparse cur n l0 rest) as [k src consumed|src tok|src| |] eqn:Est; cbn; try reflexivity.
             ++ (* element *)
                specialize (IH fi cur (n + N.of_nat consumed) (skipn consumed (l0 :: rest))
                               (add_elem cur (Element k src (fi_path fi) (fi_chain fi) (elem_desc cur l0 rest)) doc)).
                destruct (loop iparse inc fuel fi cur (n + N.of_nat consumed) (skipn consumed (l0 :: rest))
                               (add_elem cur (Element k src (fi_path fi) (fi_chain fi) (elem_desc cur l0 rest)) doc)) as [d|e];
                  destruct (flat_loop iparse finc fuel fi cur (n + N.of_nat consumed) (skipn consumed (l0 :: rest))) as [out|e'];
                  cbn [rel_from rbind] in *; try assumption.
                intros s. rewrite IH, sections_of_cons. unfold add_elem.
                destruct (sec_eqb cur s); cbn; rewrite <- ?app_assoc; reflexivity.
             ++ (* inclusion *)
                specialize (Hinc cur src tok).
                destruct (inc cur src tok) as [dinc|e]; destruct (finc cur src tok) as [spl|e']; cbn [rel_from rbind] in *; try assumption; try contradiction.
                specialize (IH fi cur (n + 1) rest (merge doc dinc)).
                destruct (loop iparse inc fuel fi cur (n + 1) rest (merge doc dinc)) as [d|e];
                  destruct (flat_loop iparse finc fuel fi cur (n + 1) rest) as [out|e']; cbn [rel_from rbind] in *; try assumption.
                intros s. rewrite IH, sections_of_app. unfold merge. rewrite Hinc. unfold empty_doc. cbn [app]. rewrite <- app_assoc. reflexivity.
  Qed.

  Lemma include_flat :
    forall depth visited fi, inc_rel (include_file iparse fs contents depth visited fi) (flat_include iparse fs contents depth visited fi).
  Proof.
    induction depth as [|depth IH]; intros visited fi cur src tok.
    - cbn. reflexivity.
    - cbn [include_file flat_include].
      destruct (fs (fi_dir fi) tok) as [|display [[fid dir']|]]; try (cbn [rel_from]; reflexivity).
      destruct (existsb (N.eqb fid) visited); try (cbn [rel_from]; reflexivity).
      destruct (contents fid) as [ls|]; try (cbn [rel_from]; reflexivity).
      unfold read_lines. apply loop_flat. apply IH.
  Qed.

  Theorem reader_is_flat :
    forall depth root path dir ls,
      rel_from empty_doc (parse_root iparse fs contents depth root path dir ls)
               (flat_root iparse fs contents depth root path dir ls).
  Proof.
    intros. unfold parse_root, flat_root, read_lines. apply loop_flat. apply include_flat.
  Qed.

  (** the statement in the form used in Props/C07.v *)
  Corollary elements_by_section :
    forall depth root path dir ls,
      match parse_root iparse fs contents depth root path dir ls, flat_root iparse fs contents depth root path dir ls with
      | Ok d, Ok out => forall s, d s = sections_of out s
      | Err e, Err e' => e = e'
      | _, _ => False
      end.
  Proof.
    intros. pose proof (reader_is_flat depth root path dir ls) as H. unfold rel_from in H.
    destruct (parse_root iparse fs contents depth root path dir ls); destruct (flat_root iparse fs contents depth root path dir ls);
      assumption.
  Qed.
End Reader.
