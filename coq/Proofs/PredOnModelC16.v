(** C16: the property half of [check_c16] holds of the model's own run ([run_suite] + the two
    reporters), for every reporter, every file system, every root and every table of case outcomes;
    and correspondence on a case implies the property predicate on that case.

    The first conjunct of the property ("the run is INVALID exactly when the hierarchy is
    declaratively invalid") speaks about [spec_valid]; its equivalence with the reader is
    [reader_accepts_iff_valid] of Proofs/SuiteValid.v.  The lemmas [..._if] below take that
    equivalence as the explicit premise [reader_iff_valid]; the theorems exported to Props/C16.v
    discharge it and are unconditional.

    The clause "a valid run processed the cases in the declarative order [spec_processed]" is
    discharged with [processing_order_is_declarative] of Proofs/SuiteValid.v.

    The correspondence half compares every field the property half reads: exit code, INVALID flag,
    processed cases, executed cases, the junit counters and children (JUnit), the final OK / ERROR
    identifier (Progress; [None] for an INVALID run). *)
From Coq Require Import ZArith NArith List Bool Lia.
From Exactly Require Import Lib.Harness Model.Outcome Model.Suite Spec.C16 Proofs.SuiteRun Proofs.SuiteValid.
Import ListNotations.

Definition reader_iff_valid (fs : fsys) (root : fname) : Prop :=
  (exists h, read_root fs root = inr h) <-> spec_valid fs root = true.

(** The model's own observation. *)
Definition obs_of_model_c16 (rep : reporter) (fs : fsys) (root : fname) (outcomes : list (fname * proc_result))
  : c16_case :=
  let out := outcome_of outcomes in
  let model := run_suite rep fs root out in
  let results := map (fun p => out (fst p) (snd p)) (run_processed model) in
  let jr := junit_report results in
  C16Case rep fs root outcomes
    (run_exit model) (run_invalid model)
    (match rep with
     | Progress => if run_invalid model then None else Some (snd (progress_final results))
     | JUnit => None end)
    (run_processed model)
    (map snd (filter (fun p => reaches_setup (out (fst p) (snd p))) (run_processed model)))
    (match rep with
     | JUnit => if run_invalid model then None else Some (j_tests jr, j_failures jr, j_errors jr, j_children jr)
     | Progress => None end).

(** * facts about the reporters *)
Lemma n_bad_zero l : Nat.eqb (length (filter (fun r => negb (successful r)) l)) 0 = forallb successful l.
Proof. induction l as [|r l IH]; cbn; [reflexivity|]. destruct (successful r); cbn; [exact IH|reflexivity]. Qed.

Lemma progress_final_documented l :
  progress_final l = if forallb successful l then (0%Z, true) else (4%Z, false).
Proof. unfold progress_final. rewrite (forallb_ext' _ _ l progress_success_is_documented). reflexivity. Qed.

Lemma junit_children_consistent l :
  forallb (fun rc => Bool.eqb (negb (successful (fst rc))) (negb (junit_child_eqb (snd rc) JNone)))
          (combine l (map junit_classify l)) = true.
Proof.
  induction l as [|r l IH]; cbn [map combine forallb]; [reflexivity|]. rewrite IH, andb_true_r. cbn [fst snd].
  destruct r as [s h c|a|]; [destruct s|..]; reflexivity.
Qed.

Lemma junit_report_property l :
  let jr := junit_report l in
  Nat.eqb (j_tests jr) (length l) &&
  Nat.eqb (j_failures jr + j_errors jr) (length (filter (fun r => negb (successful r)) l)) &&
  Nat.eqb (length (j_children jr)) (length l) &&
  forallb (fun rc => Bool.eqb (negb (successful (fst rc))) (negb (junit_child_eqb (snd rc) JNone)))
          (combine l (j_children jr)) = true.
Proof.
  cbn zeta. destruct (junit_counts_ok l) as (H1 & H2 & H3 & _). cbn zeta in *.
  rewrite H1, H2, H3, !Nat.eqb_refl. cbn [andb j_children junit_report]. apply junit_children_consistent.
Qed.

Lemma progress_property l :
  let ok := snd (progress_final l) in
  Bool.eqb ok (Nat.eqb (length (filter (fun r => negb (successful r)) l)) 0) &&
  Z.eqb (fst (progress_final l)) (if ok then 0 else 4) = true.
Proof. cbn zeta. rewrite n_bad_zero, progress_final_documented. destruct (forallb successful l); reflexivity. Qed.

(** * decidable equalities of the correspondence half *)
Lemma pairN_eqb_eq (x y : fname * fname) : pairN_eqb x y = true <-> x = y.
Proof.
  destruct x as [a b], y as [c d]. unfold pairN_eqb, pair_eqb. cbn [fst snd].
  rewrite andb_true_iff, !N.eqb_eq. split; [intros [-> ->]; reflexivity|intros [= -> ->]; auto].
Qed.
Lemma n_eqb_eq' (a b : N) : N.eqb a b = true <-> a = b. Proof. apply N.eqb_eq. Qed.
Lemma junit_child_eqb_eq a b : junit_child_eqb a b = true <-> a = b.
Proof. destruct a, b; cbn; split; intros H; try reflexivity; discriminate. Qed.

Lemma spec_valid_of_reader fs root :
  reader_iff_valid fs root ->
  spec_valid fs root = match read_root fs root with inr _ => true | inl _ => false end.
Proof.
  intros [Hr Hv]. destruct (read_root fs root) as [e|h] eqn:E.
  - destruct (spec_valid fs root) eqn:Es; [|reflexivity]. destruct (Hv eq_refl) as (h & Hh). discriminate.
  - apply Hr. exists h. reflexivity.
Qed.

Lemma opt_bool_eqb_eq (a b : option bool) : option_eqb Bool.eqb a b = true <-> a = b.
Proof.
  destruct a as [x|], b as [y|]; cbn; split; intros H; try reflexivity; try discriminate.
  - apply eqb_prop in H. congruence.
  - injection H as ->. apply eqb_reflx.
Qed.

(** * The check on the model's own observation *)
Lemma check_c16_on_model_if : forall rep fs root outcomes,
  reader_iff_valid fs root ->
  check_c16 (obs_of_model_c16 rep fs root outcomes) = (true, true).
Proof.
  intros rep fs root outcomes Hrv. apply spec_valid_of_reader in Hrv.
  unfold check_c16, obs_of_model_c16.
  cbn [sc_reporter sc_fs sc_root sc_outcomes sc_obs_exit sc_obs_invalid sc_obs_final_ok sc_obs_processed
       sc_obs_executed sc_obs_junit]. cbn zeta.
  rewrite Hrv. unfold run_suite.
  rewrite Z.eqb_refl, eqb_reflx, (proj2 (list_eqb_eq _ pairN_eqb_eq _ _) eq_refl),
          (proj2 (list_eqb_eq _ n_eqb_eq' _ _) eq_refl). cbn [andb].
  destruct (read_root fs root) as [e|h] eqn:Er; cbn [run_exit run_invalid run_processed negb Bool.eqb andb].
  - destruct rep; reflexivity.
  - rewrite (processing_order_is_declarative _ _ _ Er), (proj2 (list_eqb_eq _ pairN_eqb_eq _ _) eq_refl). cbn [andb].
    set (results := map _ (processed h)).
    destruct rep.
    + cbn [option_eqb]. rewrite eqb_reflx. f_equal. apply progress_property.
    + do 3 rewrite Nat.eqb_refl. rewrite (proj2 (list_eqb_eq _ junit_child_eqb_eq _ _) eq_refl). cbn [andb]. f_equal.
      apply junit_report_property.
Qed.

(** * Correspondence implies the property *)
Lemma corr_implies_property_c16_if : forall c,
  reader_iff_valid (sc_fs c) (sc_root c) ->
  fst (check_c16 c) = true -> snd (check_c16 c) = true.
Proof.
  intros [rep fs root outcomes oexit oinv ofinal oproc oexec ojunit] Hrv. apply spec_valid_of_reader in Hrv.
  unfold check_c16.
  cbn [sc_reporter sc_fs sc_root sc_outcomes sc_obs_exit sc_obs_invalid sc_obs_final_ok sc_obs_processed
       sc_obs_executed sc_obs_junit fst snd] in *. cbn zeta.
  rewrite Hrv. unfold run_suite.
  destruct (read_root fs root) as [e|h] eqn:Er; cbn [run_exit run_invalid run_processed negb].
  - intros H. rewrite !andb_true_iff in H. destruct H as [[[[H1 H2] H3] H4] _].
    apply Z.eqb_eq in H1. apply eqb_prop in H2. apply (list_eqb_eq _ pairN_eqb_eq) in H3.
    cbn [filter map] in H4. apply (list_eqb_eq _ n_eqb_eq') in H4. subst. reflexivity.
  - set (out := outcome_of outcomes).
    intros H. rewrite !andb_true_iff in H. destruct H as [[[[H1 H2] H3] H4] H5].
    apply Z.eqb_eq in H1. apply eqb_prop in H2. apply (list_eqb_eq _ pairN_eqb_eq) in H3. subst oexit oinv oproc.
    cbn [Bool.eqb andb].
    rewrite (processing_order_is_declarative _ _ _ Er), (proj2 (list_eqb_eq _ pairN_eqb_eq _ _) eq_refl). cbn [andb].
    set (results := map _ (processed h)) in *.
    destruct rep.
    + apply opt_bool_eqb_eq in H5. subst ofinal. apply progress_property.
    + destruct ojunit as [[[[t f] e] ch]|]; [|discriminate].
      rewrite !andb_true_iff in H5. destruct H5 as [[[T F] E] C].
      apply Nat.eqb_eq in T, F, E. apply (list_eqb_eq _ junit_child_eqb_eq) in C. subst.
      apply junit_report_property.
Qed.

(** * Unconditional forms: the premise is a theorem (Proofs/SuiteValid.v) *)
Theorem check_c16_on_model : forall rep fs root outcomes,
  check_c16 (obs_of_model_c16 rep fs root outcomes) = (true, true).
Proof. intros. apply check_c16_on_model_if. exact (reader_accepts_iff_valid fs root). Qed.

Theorem corr_implies_property_c16 : forall c, fst (check_c16 c) = true -> snd (check_c16 c) = true.
Proof. intros c. apply corr_implies_property_c16_if. exact (reader_accepts_iff_valid (sc_fs c) (sc_root c)). Qed.

(** Non-vacuity.  root 1 lists suite 2 (cases 20, 21) and its own case 10; case 21 FAILs. *)
Definition fs1 : fsys :=
  [(1, SGood [RPlain (Some 2)] [RPlain (Some 10)]); (2, SGood [] [RGlob [21; 20]])]%N.
Definition outs1 : list (fname * proc_result) :=
  [(10, Executed PASS true (Some 0%Z)); (20, Executed XFAIL true (Some 0%Z)); (21, Executed FAIL true (Some 0%Z))]%N.
(** a suite that lists itself: invalid *)
Definition fs_cyc : fsys := [(1, SGood [RPlain (Some 1)] [RPlain (Some 10)])]%N.

Example c16_predicate_accepts_and_rejects :
  let c := obs_of_model_c16 Progress fs1 1%N outs1 in
  let j := obs_of_model_c16 JUnit fs1 1%N outs1 in
  let i := obs_of_model_c16 Progress fs_cyc 1%N outs1 in
  sc_obs_processed c = [(2, 20); (2, 21); (1, 10)]%N /\ sc_obs_exit c = 4%Z /\ sc_obs_final_ok c = Some false /\
  sc_obs_junit j = Some (3, 1, 0, [JNone; JFailure; JNone]) /\
  sc_obs_invalid i = true /\ sc_obs_exit i = 3%Z /\
  check_c16 c = (true, true) /\ check_c16 j = (true, true) /\ check_c16 i = (true, true) /\
  (* OK although a case failed *)
  snd (check_c16 (C16Case Progress fs1 1%N outs1 0 false (Some true) (sc_obs_processed c) (sc_obs_executed c) None)) = false /\
  (* exit code 4 but identifier OK *)
  snd (check_c16 (C16Case Progress fs1 1%N outs1 4 false (Some true) (sc_obs_processed c) (sc_obs_executed c) None)) = false /\
  (* a failed case without a failure/error element *)
  snd (check_c16 (C16Case JUnit fs1 1%N outs1 0 false None (sc_obs_processed c) (sc_obs_executed c)
                          (Some (3, 0, 0, [JNone; JNone; JNone])))) = false /\
  (* a valid hierarchy reported INVALID *)
  snd (check_c16 (C16Case Progress fs1 1%N outs1 3 true None [] [] None)) = false /\
  (* an invalid hierarchy whose cases were run *)
  snd (check_c16 (C16Case Progress fs_cyc 1%N outs1 0 false (Some true) [(1, 10)]%N [10%N] None)) = false /\
  snd (check_c16 (C16Case Progress fs_cyc 1%N outs1 3 true None [(1, 10)]%N [10%N] None)) = false /\
  (* the right cases with the right verdict, but the glob matches not in path order *)
  snd (check_c16 (C16Case Progress fs1 1%N outs1 4 false (Some false) [(2, 21); (2, 20); (1, 10)]%N [21; 20; 10]%N None)) = false /\
  (* ... or the suite's own case before its sub-suite *)
  snd (check_c16 (C16Case Progress fs1 1%N outs1 4 false (Some false) [(1, 10); (2, 20); (2, 21)]%N [10; 20; 21]%N None)) = false.
Proof. vm_compute. repeat split. Qed.
