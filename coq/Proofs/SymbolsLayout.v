(** C08: the order of the sections in the file is irrelevant. *)
From Coq Require Import List Bool Arith NArith.
From Exactly Require Import Model.Exec Model.Symbols.
Import ListNotations.

Lemma assemble_ext (l1 l2 : layout) :
  (forall p, section_contents l1 p = section_contents l2 p) -> assemble l1 = assemble l2.
Proof. intros H. unfold assemble. now rewrite !H. Qed.

Lemma file_order_irrelevant roots builtins (l1 l2 : layout) :
  (forall p, section_contents l1 p = section_contents l2 p) ->
  sym_execute roots builtins (assemble l1) = sym_execute roots builtins (assemble l2).
Proof. intros H. now rewrite (assemble_ext l1 l2 H). Qed.

(** two adjacent sections of different phases may be swapped *)
Lemma section_contents_swap (a b : phase * list instr) (pre post : layout) p :
  phase_eqb' (fst a) (fst b) = false ->
  section_contents (pre ++ a :: b :: post) p = section_contents (pre ++ b :: a :: post) p.
Proof.
  intros Hne. unfold section_contents. rewrite !flat_map_app. f_equal. cbn [flat_map].
  destruct (phase_eqb' (fst a) p) eqn:Ea, (phase_eqb' (fst b) p) eqn:Eb; try reflexivity.
  exfalso. destruct (fst a), (fst b), p; cbn in *; discriminate.
Qed.
