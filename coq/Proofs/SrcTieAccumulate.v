(** * Source tie, target Accumulate (C10): type_val_deps/types/program/sdv/accumulated_components.py and arguments.py as
    translated from the current source (Gen/Src_Accumulate.v) against [acc_app] of Model/Prog.v. *)
From Coq Require Import ZArith NArith List Bool String Lia.
From Exactly Require Import Lib.PyVal Model.Prog Gen.Src_Accumulate Proofs.PyValLemmas.
Import ListNotations. Local Open Scope Z_scope.

(** ** AccumulatedComponents.new_accumulated: the append order.
    An ArgumentsSdv holds a ListSdv [al] (any value: list_sdvs is not translated, [list_sdvs.concat([x, y])] is
    recorded as a call) and a tuple of validators; an AccumulatedComponents holds a tuple of stdin sources, an
    ArgumentsSdv and a tuple of transformations. *)
Definition enc_args (al : pyval) (validators : list pyval) : pyval :=
  VObj "arguments.ArgumentsSdv"%string [al; VTuple validators].
Definition enc_acc (stdin : list pyval) (args : pyval) (trs : list pyval) : pyval :=
  VObj "accumulated_components.AccumulatedComponents"%string [VTuple stdin; args; VTuple trs].
Definition concat_call (x y : pyval) : pyval := VObj "call:list_sdvs.concat"%string [VList [x; y]].

Lemma new_accumulated_F n s1 a1 v1 t1 s2 a2 v2 t2 : py_ok a1 = true -> py_ok a2 = true ->
  py_accumulated_components_AccumulatedComponents_new_accumulated_F (S (S n))
    (enc_acc s1 (enc_args a1 v1) t1) (enc_acc s2 (enc_args a2 v2) t2)
  = enc_acc (s1 ++ s2) (enc_args (concat_call a1 a2) (v1 ++ v2)) (t1 ++ t2).
Proof.
  intros H1 H2. cbn -[py_arguments_ArgumentsSdv_new_accumulated].
  unfold py_arguments_ArgumentsSdv_new_accumulated. pycbn. pyoks. reflexivity.
Qed.

Theorem tie_new_accumulated s1 a1 v1 t1 s2 a2 v2 t2 : py_ok a1 = true -> py_ok a2 = true ->
  py_accumulated_components_AccumulatedComponents_new_accumulated
    (enc_acc s1 (enc_args a1 v1) t1) (enc_acc s2 (enc_args a2 v2) t2)
  = enc_acc (s1 ++ s2) (enc_args (concat_call a1 a2) (v1 ++ v2)) (t1 ++ t2).
Proof.
  intros H1 H2. unfold py_accumulated_components_AccumulatedComponents_new_accumulated.
  match goal with |- context [(2 * S ?k)%nat] => replace (2 * S k)%nat with (S (S (2 * k)))%nat by lia end.
  now apply new_accumulated_F.
Qed.

(** the other constructors *)
Theorem tie_acc_constructors x xs : py_ok x = true ->
  py_accumulated_components_AccumulatedComponents_of_arguments x = enc_acc [] x [] /\
  py_accumulated_components_AccumulatedComponents_of_stdin (VTuple xs)
  = VObj "accumulated_components.AccumulatedComponents"%string
      [VTuple xs; enc_args (VObj "call:list_sdvs.empty"%string []) []; VTuple []] /\
  py_accumulated_components_AccumulatedComponents_of_transformation x
  = VObj "accumulated_components.AccumulatedComponents"%string
      [VTuple []; enc_args (VObj "call:list_sdvs.empty"%string []) []; VTuple [x]] /\
  py_accumulated_components_AccumulatedComponents_empty
  = enc_acc [] (enc_args (VObj "call:list_sdvs.empty"%string []) []) [].
Proof.
  intro H. repeat split.
  - unfold py_accumulated_components_AccumulatedComponents_of_arguments. pycbn. pyoks. reflexivity.
  - unfold py_accumulated_components_AccumulatedComponents_of_transformation. pycbn. pyoks. reflexivity.
Qed.

(** ** against the model: [acc_app] of Model/Prog.v *)
Section AgainstModel.
  Variable encS : src -> pyval.
  Variable encT : transformer -> pyval.
  (** how a ListSdv value represents a list of model arguments: given for the leaves, and [list_sdvs.concat([x, y])]
      (not translated; its reading as list concatenation is tied behaviourally only) represents the concatenation *)
  Variable leaf : pyval -> list arg -> Prop.
  Inductive arep : pyval -> list arg -> Prop :=
  | arep_leaf x l : leaf x l -> arep x l
  | arep_concat x y l1 l2 : arep x l1 -> arep y l2 -> arep (concat_call x y) (l1 ++ l2).

  Definition rep_acc (x : pyval) (a : acc src) : Prop :=
    exists al vs, x = enc_acc (map encS (a_stdin a)) (enc_args al vs) (map encT (a_tr a))
                  /\ arep al (a_args a) /\ py_ok al = true.

  Theorem tie_acc_app x y a b : rep_acc x a -> rep_acc y b ->
    rep_acc (py_accumulated_components_AccumulatedComponents_new_accumulated x y) (acc_app a b).
  Proof.
    intros (al1 & vs1 & -> & R1 & O1) (al2 & vs2 & -> & R2 & O2).
    rewrite tie_new_accumulated by assumption.
    exists (concat_call al1 al2), (vs1 ++ vs2). cbn [acc_app a_stdin a_args a_tr]. rewrite !map_app.
    split; [reflexivity|]. split; [now apply arep_concat | reflexivity].
  Qed.
End AgainstModel.
