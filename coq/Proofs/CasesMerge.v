(** Proofs about suite contents (C17, part A): merge order, composition with the schedule of the
    phased executor, no inheritance by sub-suites, standalone = in suite. *)
From Coq Require Import ZArith NArith List Bool Arith Lia.
From Exactly Require Import Lib.Harness Model.Outcome Model.Exec Model.World Model.Suite Model.Cases Spec.C01 Spec.C17.
Import ListNotations.

Section Merge.
  Context {I : Type}.
  Implicit Types tc d : casedoc I.
  Implicit Types files : fname -> suite_state I.
  Implicit Types default : handling I.
  Implicit Types source : preproc -> fname -> access_error + casedoc I.

  (** the merge is the specified one, phase by phase *)
  Lemma merge_is_spec (s : casedoc I) tc p : phase_of (merge s tc) p = spec_phase s tc p.
  Proof. destruct p; reflexivity. Qed.

  Lemma transform_app t1 t2 d : transform (t1 ++ t2) d = transform t2 (transform t1 d).
  Proof. unfold transform. apply fold_left_app. Qed.

  Lemma transform_nil d : @transform I [] d = d.
  Proof. reflexivity. Qed.

  Lemma transform_single (s : casedoc I) d : transform [s] d = merge s d.
  Proof. reflexivity. Qed.

  (** [_separate_configuration_elements]: order preserved within both parts *)
  Lemma separate_spec (l : list (conf_elem I)) :
    separate l = (flat_map (fun e => match e with CESuite p => [p] | CECase _ => [] end) l,
                  flat_map (fun e => match e with CESuite _ => [] | CECase i => [i] end) l).
  Proof.
    induction l as [|[p|i] l IH]; cbn [separate flat_map]; [reflexivity| |]; rewrite IH; reflexivity.
  Qed.

  (** the handling setup resolved from a suite: the actor is the default's, the transformer is the
      default's followed by the suite's contents, the preprocessor is the last one set (else the
      default's) *)
  Lemma last_cons_default {A} (l : list A) (x a b : A) : last (x :: l) a = last (x :: l) b.
  Proof. revert x. induction l as [|y l IH]; intros x; [reflexivity|]. change (last (y :: l) a = last (y :: l) b). apply IH. Qed.

  Lemma derive_conf_env_spec (sd : suite_doc I) (d : handling I) :
    derive_conf_env sd d = (last (sd_conf sd) (hs_preproc d), hs_actor d).
  Proof.
    unfold derive_conf_env. generalize (hs_preproc d) as p0. induction (sd_conf sd) as [|p l IH]; intros p0; [reflexivity|].
    cbn [fold_left fst snd]. rewrite IH. destruct l as [|q l]; [reflexivity|].
    f_equal. change (last (p :: q :: l) p0) with (last (q :: l) p0). apply last_cons_default.
  Qed.

  Lemma resolve_handling_spec (sd : suite_doc I) (d : handling I) :
    resolve_handling sd d = HS (hs_actor d) (last (sd_conf sd) (hs_preproc d)) (hs_transformer d ++ [sd_case_phases sd]).
  Proof. unfold resolve_handling. rewrite derive_conf_env_spec. reflexivity. Qed.

  (** with the program's default handling (identity transformer) the accessed case is the merge of
      the suite's contents and the case *)
  Lemma accessor_default_transformer source (d : handling I) (sd : suite_doc I) c doc :
    hs_transformer d = [] ->
    source (last (sd_conf sd) (hs_preproc d)) c = inr doc ->
    accessor source (resolve_handling sd d) c = inr (merge (sd_case_phases sd) doc).
  Proof.
    intros Ht Hs. rewrite resolve_handling_spec. unfold accessor. cbn [hs_preproc hs_transformer]. rewrite Hs, Ht. reflexivity.
  Qed.

  (** *** standalone = in suite *)
  Lemma in_case_runs files default h s c hs :
    In (s, c, hs) (case_runs files default h) -> hs = handling_from_suite_file files default s.
  Proof.
    unfold case_runs. intros H. apply in_flat_map in H as [n [_ H]]. apply in_map_iff in H as [c' [E _]].
    injection E as <- _ <-. reflexivity.
  Qed.

  Lemma case_runs_processed files default h :
    map fst (case_runs files default h) = processed h.
  Proof.
    unfold case_runs, processed. induction (postorder h) as [|n l IH]; [reflexivity|].
    cbn [flat_map]. rewrite map_app, IH. f_equal. rewrite map_map. reflexivity.
  Qed.

  (** However a case listed in suite [s] is run — by the suite runner (at whatever depth of the
      hierarchy [s] is), alone with [--suite s], or alone beside [s] — the executor is given the same
      test case and the same default actor. *)
  Theorem standalone_equals_in_suite files default source h s c hs :
    In (s, c, hs) (case_runs files default h) ->
    (forall beside, standalone_handling files default (Some s) beside = hs) /\
    standalone_handling files default None (Some s) = hs /\
    (forall hs', hs = Some hs' ->
       forall beside, option_map (fun x => executor_input source x c) (standalone_handling files default (Some s) beside)
                      = Some (executor_input source hs' c)).
  Proof.
    intros H. apply in_case_runs in H. subst hs. repeat split.
    intros hs' E beside. unfold standalone_handling, get_suite_file. rewrite E. reflexivity.
  Qed.

  (** The handling of the cases of a suite depends on that suite file alone: two file systems that
      agree on [s] (whatever the files of the suites that include [s] contain) handle its cases
      alike; in particular nothing is inherited from an including suite. *)
  Theorem handling_depends_on_own_file_only files files' default s :
    files s = files' s -> handling_from_suite_file files default s = handling_from_suite_file files' default s.
  Proof. unfold handling_from_suite_file. intros ->. reflexivity. Qed.

  (** ... and the instructions executed in a case of suite [s] are those of [s] and of the case:
      no instruction of any other suite (whatever includes [s], at whatever depth). *)
  Theorem not_inherited_by_sub_suites files default source h s c hs r :
    hs_transformer default = [] ->
    In (s, c, hs) (case_runs files default h) ->
    files s = SSGood r ->
    hs = Some (resolve_handling (parse_suite r) default) /\
    forall doc p i,
      accessor source (resolve_handling (parse_suite r) default) c = inr doc ->
      In i (phase_of doc p) ->
      In i (phase_of (sd_case_phases (parse_suite r)) p) \/
      exists own, source (hs_preproc (resolve_handling (parse_suite r) default)) c = inr own /\ In i (phase_of own p).
  Proof.
    intros Ht Hin Ef. apply in_case_runs in Hin. unfold handling_from_suite_file in Hin. rewrite Ef in Hin.
    split; [exact Hin|]. intros doc p i Hacc Hi.
    unfold accessor in Hacc. destruct (source _ c) as [e|own] eqn:Es; [discriminate|]. injection Hacc as <-.
    rewrite Ht in Hi. cbn [app] in Hi.
    rewrite transform_single, merge_is_spec in Hi.
    destruct p; cbn [spec_phase] in Hi; apply in_app_or in Hi as [Hi|Hi]; eauto.
  Qed.
End Merge.

(** *** composition with the schedule of the phased executor (Spec/C01.v) *)
Lemma sched_list_app p k prev : forall is1 is2 idx,
  sched_list p k prev idx (is1 ++ is2) = sched_list p k prev idx is1 ++ sched_list p k prev (idx + length is1) is2.
Proof.
  induction is1 as [|i is1 IH]; intros is2 idx; cbn [app sched_list length].
  - rewrite Nat.add_0_r. reflexivity.
  - rewrite IH. replace (S idx + length is1) with (idx + S (length is1)) by lia. reflexivity.
Qed.

(** In the plan of a case run under suite contents, for every step of every phase the suite's
    instructions are scheduled first (they are instructions 0 .. n-1 of the phase) and the case's
    own after them; for the cleanup phase it is the other way round. *)
Theorem suite_instrs_first_except_cleanup {I} (beh_of : I -> instr) status_of atc act_only (s c : casedoc I) :
  let tc := to_testcase beh_of status_of atc act_only (merge s c) in
  (forall p k, (p = Conf \/ p = Setup \/ p = BeforeAssert \/ p = Assert) ->
     sched_step tc (p, k) = sched_list p k None 0 (map beh_of (phase_of s p)) ++
                            sched_list p k None (length (phase_of s p)) (map beh_of (phase_of c p))) /\
  (forall k, sched_step tc (Cleanup, k) = sched_list Cleanup k None 0 (map beh_of (d_cleanup c)) ++
                                          sched_list Cleanup k None (length (d_cleanup c)) (map beh_of (d_cleanup s))) /\
  (forall prev, sched_cleanup tc prev =
     (ECleanupBegin prev, None) :: sched_list Cleanup SMain (Some prev) 0 (map beh_of (d_cleanup c)) ++
                                   sched_list Cleanup SMain (Some prev) (length (d_cleanup c)) (map beh_of (d_cleanup s))).
Proof.
  cbn zeta. split; [|split].
  - intros p k Hp; destruct Hp as [Hp|[Hp|[Hp|Hp]]]; subst p; unfold sched_step; cbn;
      rewrite map_app, sched_list_app, map_length; reflexivity.
  - intros k. unfold sched_step. cbn. rewrite map_app, sched_list_app, map_length. reflexivity.
  - intros prev. unfold sched_cleanup. cbn. rewrite map_app, sched_list_app, map_length. reflexivity.
Qed.
