(** C19: the timeout model, with processes erased, IS the phased executor of C01 run on the test
    case whose instruction behaviours are the resolved ones (simulation). *)
From Coq Require Import List Bool Arith NArith Lia.
From Exactly Require Import Lib.Harness Model.Outcome Model.Exec Model.World Model.Timeout Spec.C01 Spec.C19.
Import ListNotations.

Lemma erase_app a b : erase (a ++ b) = erase a ++ erase b.
Proof. unfold erase. apply flat_map_app. Qed.
Lemma erase_cons_ev e t : erase (TEv e :: t) = e :: erase t.
Proof. reflexivity. Qed.
Lemma erase_cons_call c t : erase (TCall c :: t) = erase t.
Proof. reflexivity. Qed.

Lemma spawn_all_erase p idx t : forall ds, erase (fst (spawn_all p idx t ds)) = [].
Proof.
  induction ds as [|d ds IH]; [reflexivity|]. cbn [spawn_all]. destruct (expires t d); [reflexivity|].
  destruct (spawn_all p idx t ds) as [l x]. cbn [fst] in *. rewrite erase_cons_call. exact IH.
Qed.

Lemma spawn_all_expired p idx t : forall ds, snd (spawn_all p idx t ds) = existsb (expires t) ds.
Proof.
  induction ds as [|d ds IH]; [reflexivity|]. cbn [spawn_all existsb]. destruct (expires t d); [reflexivity|].
  destruct (spawn_all p idx t ds) as [l x]. cbn [snd orb] in *. exact IH.
Qed.

(** events of a step in which every instruction succeeds *)
Fixpoint evs (p : phase) (k : stepk) (idx n : nat) : list event :=
  match n with 0 => [] | S n' => EInstr p k idx None :: evs p k (S idx) n' end.

Lemma erase_ok_evs p k : forall n idx, erase (ok_evs p k idx n) = evs p k idx n.
Proof. induction n as [|n IH]; intros idx; [reflexivity|]. cbn [ok_evs evs]. rewrite erase_cons_ev, IH. reflexivity. Qed.

Lemma run_list_all_ok p k : forall l idx,
  (forall i, In i l -> i k = BOk) -> run_list p k None idx l = (evs p k idx (length l), None).
Proof.
  induction l as [|i l IH]; intros idx H; [reflexivity|].
  cbn [run_list length evs]. rewrite (H i (or_introl eq_refl)). cbn [outcome].
  rewrite IH by (intros j Hj; apply H; right; exact Hj). reflexivity.
Qed.

Lemma lower_list_nonmain k : k <> SMain -> forall is_ st i, In i (lower_list st is_) -> i k = BOk.
Proof.
  intros Hk. induction is_ as [|x is_ IH]; intros st i Hin; [contradiction|].
  cbn [lower_list] in Hin. destruct Hin as [<-|Hin]; [|apply (IH _ _ Hin)].
  unfold main_only. destruct k; try reflexivity. congruence.
Qed.

Lemma lower_list_length : forall is_ st, length (lower_list st is_) = length is_.
Proof. induction is_ as [|x is_ IH]; intros st; [reflexivity|]. cbn. rewrite IH. reflexivity. Qed.

(** a main-step list: [Exec.run_list] on the resolved behaviours = the timeout model with processes erased *)
Lemma run_list_lower p prev : forall is_ idx st,
  let '(t, st', r) := trun_list p prev idx st is_ in
  run_list p SMain prev idx (lower_list st is_) = (erase t, r) /\ (r = None -> st' = final_st st is_).
Proof.
  induction is_ as [|i is_ IH]; intros idx st; [cbn; split; reflexivity|].
  cbn [trun_list lower_list run_list]. unfold main_only at 1.
  destruct i as [v|ds|d|b]; cbn [main_of beh_of step_st].
  - specialize (IH (S idx) (TS v (s_stdin st))).
    destruct (trun_list p prev (S idx) (TS v (s_stdin st)) is_) as [[t st''] r']. destruct IH as [I1 I2].
    cbn [outcome app]. rewrite I1, erase_cons_ev. split; [reflexivity|]. exact I2.
  - pose proof (spawn_all_erase p idx (s_timeout st) ds) as He.
    pose proof (spawn_all_expired p idx (s_timeout st) ds) as Hx.
    destruct (spawn_all p idx (s_timeout st) ds) as [l x]. cbn [fst snd] in He, Hx. subst x.
    unfold spawn_beh. destruct (existsb (expires (s_timeout st)) ds); cbn [outcome].
    + rewrite erase_cons_ev, He. split; [reflexivity|discriminate].
    + specialize (IH (S idx) st).
      destruct (trun_list p prev (S idx) st is_) as [[t st''] r']. destruct IH as [I1 I2].
      rewrite I1, erase_cons_ev, erase_app, He. split; [reflexivity|]. exact I2.
  - specialize (IH (S idx) (TS (s_timeout st) (Some d))).
    destruct (trun_list p prev (S idx) (TS (s_timeout st) (Some d)) is_) as [[t st''] r']. destruct IH as [I1 I2].
    cbn [outcome app]. rewrite I1, erase_cons_ev. split; [reflexivity|]. exact I2.
  - destruct (outcome b) as [s|].
    + rewrite erase_cons_ev. split; [reflexivity|discriminate].
    + specialize (IH (S idx) st).
      destruct (trun_list p prev (S idx) st is_) as [[t st''] r']. destruct IH as [I1 I2].
      cbn [app]. rewrite I1, erase_cons_ev. split; [reflexivity|]. exact I2.
Qed.

Lemma run_steps_cons tc s ss :
  run_steps tc (s :: ss) =
  let (t, r) := run_step tc s in
  match r with Some f => (t, Some f) | None => let (t', r') := run_steps tc ss in (t ++ t', r') end.
Proof. reflexivity. Qed.

Lemma run_steps_all_ok tc (T : phase * stepk -> list event) : forall ss,
  Forall (fun pk => run_step tc pk = (T pk, None)) ss -> run_steps tc ss = (flat_map T ss, None).
Proof.
  induction ss as [|s ss IH]; intros H; [reflexivity|].
  inversion H as [|? ? H1 H2]; subst. rewrite run_steps_cons, H1, (IH H2). reflexivity.
Qed.

Lemma erase_ok_steps tc ss :
  erase (ok_steps tc ss) = flat_map (fun pk => evs (fst pk) (snd pk) 0 (n_of tc (fst pk))) ss.
Proof.
  induction ss as [|s ss IH]; [reflexivity|].
  unfold ok_steps in *. cbn [flat_map]. rewrite erase_app, erase_ok_evs, IH. reflexivity.
Qed.

(** a step other than main / act-execute of the resolved test case: all instructions succeed *)
Lemma run_step_lower_quiet stc tc p k :
  k <> SMain -> k <> SExecute -> p <> Conf ->
  run_step (lower_with stc tc) (p, k) = (evs p k 0 (n_of tc p), None).
Proof.
  intros Hm Hx Hc. unfold run_step. cbn [fst snd].
  destruct p; try congruence; cbn [instrs_of lower_with tc_setup tc_atc tc_before_assert tc_assert tc_cleanup n_of tinstrs_of].
  - rewrite run_list_all_ok by (apply lower_list_nonmain, Hm). rewrite lower_list_length. reflexivity.
  - rewrite run_list_all_ok; [reflexivity|]. intros i [<-|[]]. unfold exec_only. destruct k; try reflexivity. congruence.
  - rewrite run_list_all_ok by (apply lower_list_nonmain, Hm). rewrite lower_list_length. reflexivity.
  - rewrite run_list_all_ok by (apply lower_list_nonmain, Hm). rewrite lower_list_length. reflexivity.
  - rewrite run_list_all_ok by (apply lower_list_nonmain, Hm). rewrite lower_list_length. reflexivity.
Qed.

Lemma run_steps_lower_quiet stc tc ss :
  Forall (fun pk : phase * stepk => snd pk <> SMain /\ snd pk <> SExecute /\ fst pk <> Conf) ss ->
  run_steps (lower_with stc tc) ss = (erase (ok_steps tc ss), None).
Proof.
  intros H. rewrite erase_ok_steps. apply run_steps_all_ok.
  apply Forall_impl with (2 := H). intros [p k] (H1 & H2 & H3). cbn [fst snd] in *. apply run_step_lower_quiet; assumption.
Qed.

Lemma block_validate_quiet :
  Forall (fun pk : phase * stepk => snd pk <> SMain /\ snd pk <> SExecute /\ fst pk <> Conf) block_validate.
Proof. repeat constructor; discriminate. Qed.
Lemma block_setup_tl_quiet :
  Forall (fun pk : phase * stepk => snd pk <> SMain /\ snd pk <> SExecute /\ fst pk <> Conf) (tl block_setup).
Proof. repeat constructor; discriminate. Qed.

Lemma run_cleanup_lower stc tc prev :
  run_cleanup (lower_with stc tc) prev = (erase (fst (tcleanup tc prev stc)), snd (tcleanup tc prev stc)).
Proof.
  unfold run_cleanup, tcleanup. cbn [lower_with tc_cleanup].
  pose proof (run_list_lower Cleanup (Some prev) (t_cleanup tc) 0 stc) as H.
  destruct (trun_list Cleanup (Some prev) 0 stc (t_cleanup tc)) as [[t st'] r]. destruct H as [H _].
  rewrite H. cbn [fst snd]. rewrite erase_cons_ev. reflexivity.
Qed.

Lemma run_act_lower stc tc :
  let st1 := final_st (TS (t_default tc) None) (t_setup tc) in
  run_steps (lower_with stc tc) block_act =
  ([EInstr Act SExecute 0 None],
   if existsb (expires (s_timeout st1)) (act_procs tc st1) then Some (Failure Act SExecute 0 FHard) else None).
Proof.
  cbn. unfold spawn_beh.
  destruct (existsb (expires (s_timeout (final_st (TS (t_default tc) None) (t_setup tc))))
                    (act_procs tc (final_st (TS (t_default tc) None) (t_setup tc)))); reflexivity.
Qed.

Theorem texecute_simulates tc :
  let '(t, r, stc) := texecute_st tc in partial_execute (lower_with stc tc) = (erase t, r).
Proof.
  unfold texecute_st.
  pose proof (run_list_lower Setup None (t_setup tc) 0 (TS (t_default tc) None)) as HS.
  destruct (trun_list Setup None 0 (TS (t_default tc) None) (t_setup tc)) as [[ts st1] rs]. destruct HS as [S1 S2].
  assert (Hsetup : forall stc, run_steps (lower_with stc tc) block_setup =
                     match rs with
                     | Some f => (erase ts, Some f)
                     | None => (erase ts ++ erase (ok_steps tc (tl block_setup)), None)
                     end).
  { intros stc. unfold block_setup. rewrite run_steps_cons. unfold run_step at 1. cbn [fst snd instrs_of lower_with tc_setup].
    rewrite S1. destruct rs; [reflexivity|].
    change (run_steps (lower_with stc tc) (tl block_setup)) with (run_steps (lower_with stc tc) (tl block_setup)).
    match goal with |- context [run_steps ?a ?l] => change l with (tl block_setup) end.
    rewrite (run_steps_lower_quiet stc tc (tl block_setup) block_setup_tl_quiet). reflexivity. }
  destruct rs as [f|].
  - pose proof (run_cleanup_lower st1 tc PSetup) as HC.
    destruct (tcleanup tc PSetup st1) as [tcl rc]. cbn [fst snd] in HC.
    unfold partial_execute. rewrite (run_steps_lower_quiet st1 tc block_validate block_validate_quiet), Hsetup.
    unfold with_cleanup_replace. rewrite HC.
    rewrite erase_app, erase_cons_ev, erase_app. reflexivity.
  - specialize (S2 eq_refl). subst st1.
    set (st1 := final_st (TS (t_default tc) None) (t_setup tc)) in *.
    pose proof (spawn_all_erase Act 0 (s_timeout st1) (act_procs tc st1)) as Ae.
    pose proof (spawn_all_expired Act 0 (s_timeout st1) (act_procs tc st1)) as Ax.
    destruct (spawn_all Act 0 (s_timeout st1) (act_procs tc st1)) as [ta xa]. cbn [fst snd] in Ae, Ax.
    assert (Hact : forall stc, run_steps (lower_with stc tc) block_act =
                     ([EInstr Act SExecute 0 None], if xa then Some (Failure Act SExecute 0 FHard) else None)).
    { intros stc. rewrite Ax. apply run_act_lower. }
    destruct xa; [|destruct (t_act_only tc) eqn:Eao].
    + pose proof (run_cleanup_lower st1 tc PAct) as HC.
      destruct (tcleanup tc PAct st1) as [tcl rc]. cbn [fst snd] in HC.
      unfold partial_execute. rewrite (run_steps_lower_quiet st1 tc block_validate block_validate_quiet), Hsetup, Hact.
      unfold with_cleanup_replace. rewrite HC.
      rewrite erase_app, erase_cons_ev, !erase_app, erase_cons_ev, Ae. cbn [app]. reflexivity.
    + pose proof (run_cleanup_lower st1 tc PAct) as HC.
      destruct (tcleanup tc PAct st1) as [tcl rc]. cbn [fst snd] in HC.
      unfold partial_execute. rewrite (run_steps_lower_quiet st1 tc block_validate block_validate_quiet), Hsetup, Hact.
      cbn [lower_with tc_act_only]. rewrite Eao.
      unfold finish_with_cleanup. rewrite HC.
      rewrite erase_app, erase_cons_ev, !erase_app, erase_cons_ev, Ae. cbn [app].
      destruct rc; reflexivity.
    + pose proof (run_list_lower BeforeAssert None (t_before_assert tc) 0 st1) as HB.
      destruct (trun_list BeforeAssert None 0 st1 (t_before_assert tc)) as [[t4 st2] r4]. destruct HB as [B1 B2].
      destruct r4 as [f|].
      * pose proof (run_cleanup_lower st2 tc PBeforeAssert) as HC.
        destruct (tcleanup tc PBeforeAssert st2) as [tcl rc]. cbn [fst snd] in HC.
        unfold partial_execute. rewrite (run_steps_lower_quiet st2 tc block_validate block_validate_quiet), Hsetup, Hact.
        cbn [lower_with tc_act_only]. rewrite Eao.
        unfold run_step. cbn [fst snd instrs_of lower_with tc_before_assert]. fold st1. rewrite B1. rewrite HC.
        rewrite erase_app, erase_cons_ev, !erase_app, erase_cons_ev, Ae. cbn [app]. reflexivity.
      * specialize (B2 eq_refl). subst st2.
        set (st2 := final_st st1 (t_before_assert tc)) in *.
        pose proof (run_list_lower Assert None (t_assert tc) 0 st2) as HA.
        destruct (trun_list Assert None 0 st2 (t_assert tc)) as [[t5 st3] r5]. destruct HA as [A1 _].
        pose proof (run_cleanup_lower st3 tc PAssert) as HC.
        destruct (tcleanup tc PAssert st3) as [tcl rc]. cbn [fst snd] in HC.
        unfold partial_execute. rewrite (run_steps_lower_quiet st3 tc block_validate block_validate_quiet), Hsetup, Hact.
        cbn [lower_with tc_act_only]. rewrite Eao.
        unfold run_step. cbn [fst snd instrs_of lower_with tc_before_assert tc_assert]. fold st1. rewrite B1. fold st2. rewrite A1.
        unfold finish_with_cleanup. rewrite HC.
        rewrite erase_app, erase_cons_ev, !erase_app, erase_cons_ev, Ae. cbn [app].
        destruct rc; reflexivity.
Qed.

Corollary texecute_is_partial_execute tc :
  partial_execute (lower tc) = (erase (fst (texecute tc)), snd (texecute tc)).
Proof.
  pose proof (texecute_simulates tc) as H. unfold lower, cleanup_entry, texecute.
  destruct (texecute_st tc) as [[t r] stc]. exact H.
Qed.
