(** C08: the type-compatibility matrix tabulated from the LIVE restriction objects (Gen/C08_types.v,
    regenerated on every run) agrees with the model's [restr_sat] and with the specification's
    [restr_ok], entry by entry. *)
From Coq Require Import List Bool Arith NArith.
From Exactly Require Import Lib.Harness Model.Exec Model.Symbols Spec.C08 Gen.C08_types.
Import ListNotations.

Definition mx_roots (r : rel) : text := [SLASH].
Definition matrix_row_ok (x : restr * container * bool) : bool :=
  let '(r, c, b) := x in
  let t := [(100%N, c)] in
  match restr_sat mx_roots t r c with Sat => b | Unsat => negb b | SatExn _ => false end &&
  Bool.eqb (ref_ok (env_of_table mx_roots t) (Ref 100%N r)) b &&
  wf_container c.
Definition all_vtypes : list vtype :=
  [TString; TPath; TList; TLineMatcher; TFileMatcher; TFilesMatcher; TStringMatcher; TIntegerMatcher;
   TStringTransformer; TProgram; TFilesCondition; TStringSource; TFilesSource].
Definition matrix_complete : bool :=
  forallb (fun ty => existsb (fun x => vtype_eqb (c_type (snd (fst x))) ty) gen_type_matrix) all_vtypes.

Lemma all_vtypes_complete ty : In ty all_vtypes.
Proof. destruct ty; cbn; tauto. Qed.

Lemma type_matrix_matches :
  forallb matrix_row_ok gen_type_matrix = true /\ matrix_complete = true.
Proof. vm_compute. split; reflexivity. Qed.

Lemma type_matrix_entry r c b :
  In (r, c, b) gen_type_matrix ->
  (restr_sat mx_roots [(100%N, c)] r c = Sat <-> b = true) /\
  (ref_ok (env_of_table mx_roots [(100%N, c)]) (Ref 100%N r) = b).
Proof.
  intros Hin. destruct type_matrix_matches as [H _]. rewrite forallb_forall in H. specialize (H _ Hin).
  cbn [matrix_row_ok] in H. apply andb_true_iff in H as [H _]. apply andb_true_iff in H as [H1 H2].
  apply eqb_prop in H2. split; [|exact H2].
  destruct (restr_sat mx_roots [(100%N, c)] r c); destruct b; cbn in H1; split; intros; try reflexivity; try discriminate.
Qed.

Lemma type_matrix_full :
  (forall r c b, In (r, c, b) gen_type_matrix ->
     (restr_sat mx_roots [(100%N, c)] r c = Sat <-> b = true) /\
     ref_ok (env_of_table mx_roots [(100%N, c)]) (Ref 100%N r) = b) /\
  (forall ty, exists x, In x gen_type_matrix /\ c_type (snd (fst x)) = ty).
Proof.
  split; [exact type_matrix_entry|]. intros ty. destruct type_matrix_matches as [_ H].
  unfold matrix_complete in H. rewrite forallb_forall in H. specialize (H ty (all_vtypes_complete ty)).
  apply existsb_exists in H as (x & Hx & E). exists x. split; [exact Hx|].
  destruct (c_type (snd (fst x))), ty; cbn in E; try reflexivity; discriminate.
Qed.
