(** Soundness of the parser model (everything accepted is a rendering of the tree that was built),
    precedence, the refutation of soundness for the parser before commit 24bf1ff, totality. *)
From Coq Require Import NArith List Bool Arith Lia.
From Exactly Require Import Lib.Harness Model.Expr Spec.C06 Proofs.ExprParse.
Import ListNotations.
Local Open Scope N_scope.

(** ** Inversion of the TokenParser primitives *)
Lemma skip_nl_inv ts t r : skip_nl ts = t :: r -> t <> TNL -> exists n, ts = nls n ++ t :: r.
Proof.
  induction ts as [|[q w|] ts IH]; cbn [skip_nl]; intros H Hn.
  - discriminate.
  - exists O. exact H.
  - destruct (IH H Hn) as [n ->]. exists (S n). reflexivity.
Qed.

Lemma skip_nl_not_nl ts r : skip_nl ts = TNL :: r -> False.
Proof. induction ts as [|[q w|] ts IH]; cbn [skip_nl]; intros H; [discriminate | discriminate | auto]. Qed.

Lemma consume_opt_inv cs mc ts w r :
  consume_opt cs mc ts = Some (w, r) -> exists n, ts = nls n ++ TW false w :: r /\ mem w cs = true.
Proof.
  unfold consume_opt. destruct (skip_nl ts) as [|[q w'|] r'] eqn:E; try discriminate.
  destruct (mc && at_eol ts); [discriminate|]. destruct q; [discriminate|].
  destruct (mem w' cs) eqn:M; [|discriminate]. intros [= <- <-].
  destruct (skip_nl_inv _ _ _ E) as [n ->]; [discriminate|]. eauto.
Qed.

Lemma consume_mandatory_constant_inv cs ts w r :
  consume_mandatory_constant cs ts = Ok w r -> exists n, ts = nls n ++ TW false w :: r /\ mem w cs = true.
Proof.
  unfold consume_mandatory_constant. destruct (skip_nl ts) as [|[q w'|] r'] eqn:E; try discriminate.
  destruct q; [discriminate|]. destruct (mem w' cs) eqn:M; cbn [negb]; [|discriminate]. intros [= <- <-].
  destruct (skip_nl_inv _ _ _ E) as [n ->]; [discriminate|]. eauto.
Qed.

Lemma consume_mandatory_unquoted_inv mc ts w r :
  consume_mandatory_unquoted mc ts = Ok w r -> exists n, ts = nls n ++ TW false w :: r.
Proof.
  unfold consume_mandatory_unquoted. destruct (skip_nl ts) as [|[q w'|] r'] eqn:E; try discriminate.
  destruct (at_eol ts && mc); [discriminate|]. destruct q; [discriminate|]. intros [= <- <-].
  destruct (skip_nl_inv _ _ _ E) as [n ->]; [discriminate|]. eauto.
Qed.

(** ** Adding operands to a decorated tree: a chain of the same operator is extended, anything
    else becomes the first operand of a new chain. *)
Definition extend (op : N) (dacc : dexpr) (news : list (nat * dexpr)) : dexpr :=
  match dacc with
  | DInf op' d0 ds => if op' =? op then DInf op d0 (ds ++ news) else DInf op dacc news
  | _ => DInf op dacc news
  end.

Lemma render_extend op dacc news :
  render (extend op dacc news)
  = render dacc ++ flat_map (fun p => nls (fst p) ++ TW false op :: render (snd p)) news.
Proof.
  destruct dacc as [nl w | nl o d | nl d nc | o d0 ds]; cbn [extend]; try reflexivity.
  destruct (o =? op) eqn:E; [|reflexivity]. apply N.eqb_eq in E. subst o.
  cbn [render]. now rewrite flat_map_app, app_assoc.
Qed.

Section Sound.
  Variable g : grammar.
  Variable ops : list N.
  Hypothesis G : wfg g ops.

  Let L := length ops.
  Let levels := g_levels g.

  (** [ts] minus [rest] is a rendering of (a tree equal modulo flatten to) [e] *)
  Definition snd_ok (k : nat) (ts : list tok) (e : expr) (rest : list tok) : Prop :=
    exists d, ts = render d ++ rest /\ wf_d g k d = true /\ flatten (erase d) = flatten e.

  Lemma wf_d_L_any d : wf_d g L d = true -> forall k, wf_d g k d = true.
  Proof.
    destruct d as [nl w | nl o d | nl d nc | o d0 ds]; cbn [wf_d]; auto.
    destruct (level_of g o) as [j|] eqn:E; [|discriminate]. apply (level_of_lt g ops G) in E.
    rewrite !andb_true_iff, Nat.leb_le. intros [[[H _] _] _]. fold L in E. lia.
  Qed.

  Lemma wf_d_down k d : wf_d g (S k) d = true -> wf_d g k d = true.
  Proof.
    destruct d as [nl w | nl o d | nl d nc | o d0 ds]; cbn [wf_d]; auto.
    destruct (level_of g o) as [j|]; [|discriminate].
    rewrite !andb_true_iff, !Nat.leb_le. intros [[[H1 H2] H3] H4]. repeat split; auto; lia.
  Qed.

  Section Level.
    Variable k : nat.
    Variable op : N.
    Hypothesis Hk : nth_error ops k = Some op.

    Definition rel (p : nat * dexpr) (e : expr) : Prop :=
      wf_d g (S k) (snd p) = true /\ flatten (erase (snd p)) = flatten e.

    Lemma rel_fo news es :
      Forall2 rel news es -> flat_map (fun p => fo op (erase (snd p))) news = flat_map (fo op) es.
    Proof.
      induction 1 as [|p e news es [_ H] _ IH]; cbn [flat_map]; [reflexivity|].
      unfold fo at 1 3. now rewrite H, IH.
    Qed.

    Lemma rel_wf news es : Forall2 rel news es -> forallb (fun p => wf_d g (S k) (snd p)) news = true.
    Proof. induction 1 as [|p e news es [H _] _ IH]; cbn [forallb]; [reflexivity | now rewrite H, IH]. Qed.

    Lemma level_op : level_of g op = Some k.
    Proof. now apply (level_of_nth g ops G). Qed.

    Lemma wf_extend dacc news es expression :
      wf_d g k dacc = true -> flatten (erase dacc) = flatten expression ->
      news <> [] -> Forall2 rel news es ->
      wf_d g k (extend op dacc news) = true /\
      flatten (erase (extend op dacc news)) = flatten (EInf op (expression :: es)).
    Proof.
      intros Hwf Hfl Hne HR.
      assert (Hnew : forall d, wf_d g (S k) d = true -> flatten (erase d) = flatten expression ->
                wf_d g k (DInf op d news) = true /\
                flatten (erase (DInf op d news)) = flatten (EInf op (expression :: es))).
      { intros d Hd Hfd. split.
        - cbn [wf_d]. rewrite level_op, Nat.leb_refl, Hd, (rel_wf _ _ HR). destruct news; [congruence | reflexivity].
        - cbn [erase]. rewrite !flatten_inf. cbn [flat_map]. f_equal. f_equal.
          + unfold fo. now rewrite Hfd.
          + rewrite flat_map_map'. now apply rel_fo. }
      destruct dacc as [nl w | nl o d | nl d nc | o d0 ds]; cbn [extend];
        try (apply Hnew; [exact Hwf | exact Hfl]).
      destruct (o =? op) eqn:E.
      - apply N.eqb_eq in E. subst o. cbn [wf_d] in Hwf |- *. rewrite level_op in *.
        rewrite !andb_true_iff in Hwf. destruct Hwf as [[[H1 H2] H3] H4]. split.
        + rewrite H1, H3, forallb_app, H4, (rel_wf _ _ HR). destruct ds; [discriminate H2 | reflexivity].
        + cbn [erase] in Hfl |- *. rewrite flatten_inf in Hfl. rewrite !flatten_inf. cbn [flat_map] in Hfl |- *. f_equal.
          rewrite map_app, flat_map_app, app_assoc. f_equal.
          * change (fo op expression) with (flat_ops op (flatten expression)).
            rewrite <- Hfl. cbn [flat_ops]. now rewrite N.eqb_refl.
          * rewrite flat_map_map'. now apply rel_fo.
      - apply Hnew; [|exact Hfl]. cbn [wf_d] in Hwf |- *.
        destruct (level_of g o) as [j|] eqn:Ej; [|discriminate].
        rewrite !andb_true_iff, Nat.leb_le in Hwf. destruct Hwf as [[[H1 H2] H3] H4].
        rewrite H2, H3, H4, !andb_true_r. apply Nat.leb_le.
        assert (j <> k).
        { intros ->. apply (level_of_nth g ops G) in Ej. rewrite Hk in Ej. injection Ej as <-.
          now rewrite N.eqb_refl in E. }
        lia.
    Qed.

    Variable fuel : nat.
    Variable operand : list tok -> res expr.
    Hypothesis operand_sound : forall ts e rest, operand ts = Ok e rest -> snd_ok (S k) ts e rest.

    Lemma seq_loop_sound n inside :
      forall operands ts es rest,
        seq_loop n operand op inside operands ts = Ok es rest ->
        exists news es', ts = chain op news ++ rest /\ es = operands ++ es' /\ Forall2 rel news es'.
    Proof.
      induction n as [|n IH]; intros operands ts es rest; cbn [seq_loop]; [discriminate|].
      destruct (consume_opt [op] (negb inside) ts) as [[w ts1]|] eqn:C.
      - destruct (operand ts1) as [e ts2 | x |] eqn:O; try discriminate. intros H.
        destruct (IH _ _ _ _ H) as (news & es' & -> & -> & HR).
        destruct (consume_opt_inv _ _ _ _ _ C) as (nl & -> & M). rewrite mem_single in M. apply N.eqb_eq in M. subst w.
        destruct (operand_sound _ _ _ O) as (d & -> & Hwf & Hfl).
        exists ((nl, d) :: news), (e :: es'). repeat split.
        + cbn [chain flat_map fst snd]. rewrite <- ?app_assoc. cbn [app]. rewrite <- ?app_assoc. reflexivity.
        + now rewrite <- app_assoc.
        + constructor; [split; assumption | exact HR].
      - intros [= <- <-]. exists [], []. repeat split; [now rewrite app_nil_r | constructor].
    Qed.

    Lemma op_loop_sound m n :
      forall expression dacc ts e rest,
        op_loop fuel n operand [op] m expression ts = Ok e rest ->
        wf_d g k dacc = true -> flatten (erase dacc) = flatten expression ->
        exists d, render d ++ rest = render dacc ++ ts /\ wf_d g k d = true /\ flatten (erase d) = flatten e.
    Proof.
      induction n as [|n IH]; intros expression dacc ts e rest; cbn [op_loop]; [discriminate|].
      destruct (consume_opt [op] (is_none m) ts) as [[w ts1]|] eqn:C.
      - destruct (consume_opt_inv _ _ _ _ _ C) as (nl & -> & M). rewrite mem_single in M. apply N.eqb_eq in M. subst w.
        unfold infix_op_sequence.
        destruct (operand ts1) as [ea tsa | x |] eqn:O; try discriminate. cbv beta iota.
        destruct (seq_loop fuel operand op (is_inside m) [expression; ea] tsa) as [es ts2 | x |] eqn:SL; try discriminate.
        cbv beta iota.
        intros H Hwf Hfl.
        destruct (operand_sound _ _ _ O) as (da & -> & Hwfa & Hfla).
        destruct (seq_loop_sound _ _ _ _ _ _ SL) as (news & es' & -> & -> & HR).
        destruct (wf_extend dacc ((nl, da) :: news) (ea :: es') expression Hwf Hfl) as [Hwf' Hfl'].
        { discriminate. } { constructor; [split; assumption | exact HR]. }
        destruct (IH _ _ _ _ _ H Hwf' Hfl') as (d & Hr & Hw & Hf).
        exists d. split; [|split; assumption].
        rewrite Hr, render_extend. cbn [flat_map fst snd]. fold (chain op news).
        rewrite <- ?app_assoc. cbn [app]. rewrite <- ?app_assoc. reflexivity.
      - intros [= <- <-] Hwf Hfl. exists dacc. repeat split; assumption.
    Qed.
  End Level.

  Section Levels.
    Variable prim' : bool -> list tok -> res expr.
    Variable fuel : nat.
    Hypothesis prim_sound : forall mc ts e rest, prim' mc ts = Ok e rest -> snd_ok L ts e rest.

    Lemma levels_sound :
      forall suffix k, skipn k levels = suffix ->
      forall m ts e rest,
        parse_w_maybe_infix_ops prim' fuel m suffix ts = Ok e rest -> snd_ok k ts e rest.
    Proof.
      unfold levels. induction suffix as [|cur next IH]; intros k Hs m ts e rest; cbn [parse_w_maybe_infix_ops].
      - intros H. destruct (prim_sound _ _ _ _ H) as (d & -> & Hwf & Hfl).
        exists d. repeat split; auto. now apply wf_d_L_any.
      - (* the level [k] exists *)
        assert (HkL : (k < L)%nat).
        { destruct (le_lt_dec L k) as [H|H]; [|exact H].
          rewrite (prim_level_skipn g ops G) in Hs by exact H. discriminate. }
        destruct (nth_error ops k) as [op|] eqn:Hk; [|apply nth_error_None in Hk; unfold L in HkL; lia].
        assert (Hc : cur = [op] /\ next = skipn (S k) (g_levels g)).
        { rewrite (levels_skipn g ops G _ _ Hk) in Hs. injection Hs as <- <-. split; reflexivity. }
        destruct Hc as [-> ->]. clear Hs.
        destruct (parse_w_maybe_infix_ops prim' fuel (NBool (is_none m)) (skipn (S k) (g_levels g)) ts) as [e0 ts1 | x |] eqn:P0;
          try discriminate.
        intros H.
        destruct (IH (S k) eq_refl _ _ _ _ P0) as (d0 & -> & Hwf0 & Hfl0).
        destruct (op_loop_sound k op Hk fuel _ (fun ts e rest => IH (S k) eq_refl NNextAny ts e rest) _ _ _ d0 _ _ _ H)
          as (d & Hr & Hwf & Hfl).
        + now apply wf_d_down.
        + exact Hfl0.
        + exists d. rewrite Hr. repeat split; assumption.
    Qed.
  End Levels.

  (** parse_mandatory_primitive, with only ")" closing a parenthesis *)
  Lemma prim_sound_all fuel :
    forall mc ts e rest, parse_mandatory_primitive g true fuel mc ts = Ok e rest -> snd_ok L ts e rest.
  Proof.
    induction fuel as [|f IH]; intros mc ts e rest; cbn [parse_mandatory_primitive]; [discriminate|].
    destruct (mc && at_eol ts); [discriminate|].
    destruct (consume_opt [W_LP] false ts) as [[w ts1]|] eqn:C1.
    - (* parentheses *)
      destruct (parse_w_maybe_infix_ops (parse_mandatory_primitive g true f) f NInside (g_levels g) ts1)
        as [e1 ts2 | x |] eqn:P; try discriminate.
      destruct (consume_mandatory_constant (closers g true) ts2) as [w' ts3 | x |] eqn:C2; try discriminate.
      intros [= <- <-].
      destruct (consume_opt_inv _ _ _ _ _ C1) as (nl & -> & M). rewrite mem_single in M. apply N.eqb_eq in M. subst w.
      destruct (levels_sound _ f IH (g_levels g) O eq_refl _ _ _ _ P) as (d & -> & Hwf & Hfl).
      destruct (consume_mandatory_constant_inv _ _ _ _ C2) as (nc & -> & M).
      cbn [closers] in M. rewrite mem_single in M. apply N.eqb_eq in M. subst w'.
      exists (DPar nl d nc). repeat split.
      + cbn [render]. rewrite <- ?app_assoc. cbn [app]. rewrite <- ?app_assoc. reflexivity.
      + exact Hwf.
      + exact Hfl.
    - destruct (consume_opt (g_prefix g) false ts) as [[w ts1]|] eqn:C2.
      + (* prefix operator *)
        destruct (parse_mandatory_primitive g true f false ts1) as [e1 ts2 | x |] eqn:P; try discriminate.
        intros [= <- <-].
        destruct (consume_opt_inv _ _ _ _ _ C2) as (nl & -> & M).
        destruct (IH _ _ _ _ P) as (d & -> & Hwf & Hfl).
        exists (DPre nl w d). repeat split.
        * cbn [render]. now rewrite <- app_assoc.
        * cbn [wf_d]. rewrite M. cbn [andb]. now rewrite (n_levels_L g ops G).
        * cbn [erase flatten]. now rewrite Hfl.
      + (* primitive / symbol *)
        destruct (consume_mandatory_unquoted false ts) as [w ts1 | x |] eqn:C3; try discriminate.
        unfold parse_primitive. intros H.
        destruct (consume_mandatory_unquoted_inv _ _ _ _ C3) as (nl & ->).
        assert (Hleaf : is_leaf_word g w = true /\ e = ELeaf w /\ rest = ts1).
        { unfold is_leaf_word. destruct (g_class g w); try discriminate; injection H as <- <-; auto. }
        destruct Hleaf as (Hl & -> & ->).
        exists (DWord nl w). repeat split.
        * cbn [render]. now rewrite <- app_assoc.
        * exact Hl.
  Qed.

  Theorem parse_sound' :
    forall (simple must_cur : bool) (ts : list tok) (e : expr) (rest : list tok),
      (if simple then parse_simple g true must_cur ts else parse_full g true must_cur ts) = Ok e rest ->
      exists d, ts = render d ++ rest
                /\ wf_d g (if simple then n_levels g else O) d = true
                /\ flatten (erase d) = flatten e.
  Proof.
    intros simple mc ts e rest. destruct simple.
    - unfold parse_simple. destruct (mc && at_eol ts); [discriminate|]. intros H.
      rewrite (n_levels_L g ops G). exact (prim_sound_all _ _ _ _ _ H).
    - unfold parse_full, parse_levels. destruct (mc && at_eol ts); [discriminate|]. intros H.
      exact (levels_sound _ _ (prim_sound_all _) (g_levels g) O eq_refl _ _ _ _ H).
  Qed.
End Sound.

Theorem parse_sound (g : grammar) (ops : list N) :
  wfg g ops ->
  forall (simple must_cur : bool) (ts : list tok) (e : expr) (rest : list tok),
    (if simple then parse_simple g true must_cur ts else parse_full g true must_cur ts) = Ok e rest ->
    exists d, ts = render d ++ rest
              /\ wf_d g (if simple then n_levels g else O) d = true
              /\ flatten (erase d) = flatten e.
Proof. intros G. exact (parse_sound' g ops G). Qed.

(** ** Precedence *)
Theorem precedence (g : grammar) (ops : list N) (strict : bool) :
  wfg g ops ->
  forall (lo hi pre a b c : N) (i j : nat),
    level_of g lo = Some i -> level_of g hi = Some j -> (i < j)%nat -> In pre (g_prefix g) ->
    is_leaf_word g a = true -> is_leaf_word g b = true -> is_leaf_word g c = true ->
    let w := TW false in
    (exists e, parse_full g strict false [w a; w lo; w b; w hi; w c] = Ok e []
               /\ flatten e = EInf lo [ELeaf a; EInf hi [ELeaf b; ELeaf c]]) /\
    (exists e, parse_full g strict false [w a; w hi; w b; w lo; w c] = Ok e []
               /\ flatten e = EInf lo [EInf hi [ELeaf a; ELeaf b]; ELeaf c]) /\
    (exists e, parse_full g strict false [w pre; w a; w hi; w b] = Ok e []
               /\ flatten e = EInf hi [EPre pre (ELeaf a); ELeaf b]) /\
    (exists e, parse_full g strict false [w W_LP; w a; w lo; w b; w W_RP; w hi; w c] = Ok e []
               /\ flatten e = EInf hi [EInf lo [ELeaf a; ELeaf b]; ELeaf c]).
Proof.
  intros G lo hi pre a b c i j Hlo Hhi Hij Hpre Ha Hb Hc w.
  assert (Hne1 : lo =? hi = false).
  { apply N.eqb_neq. intros ->. rewrite Hlo in Hhi. injection Hhi as ->. lia. }
  assert (Hne2 : hi =? lo = false) by (rewrite N.eqb_sym; exact Hne1).
  assert (Hmem : mem pre (g_prefix g) = true) by (now apply mem_In).
  assert (L0 : (0 <=? i)%nat = true) by (apply Nat.leb_le; lia).
  assert (L1 : (S i <=? j)%nat = true) by (apply Nat.leb_le; lia).
  assert (L2 : (0 <=? j)%nat = true) by (apply Nat.leb_le; lia).
  assert (L3 : (S j <=? i)%nat = false) by (apply Nat.leb_gt; lia).
  assert (F : follow_ok g 0 [] = true) by reflexivity.
  pose (d1 := DInf lo (DWord 0 a) [(O, DInf hi (DWord 0 b) [(O, DWord 0 c)])]).
  pose (d2 := DInf lo (DInf hi (DWord 0 a) [(O, DWord 0 b)]) [(O, DWord 0 c)]).
  pose (d3 := DInf hi (DPre 0 pre (DWord 0 a)) [(O, DWord 0 b)]).
  pose (d4 := DInf hi (DPar 0 (DInf lo (DWord 0 a) [(O, DWord 0 b)]) 0) [(O, DWord 0 c)]).
  assert (R : forall d, wf_d g 0 d = true -> lay g false 0 d = true -> leading_nl d = O ->
                        exists e, parse_full g strict false (render d) = Ok e [] /\ flatten e = flatten (erase d)).
  { intros d Hw Hl Hn.
    destruct (parse_complete g ops strict G false false d []) as (e & He & Hf); auto.
    - unfold rendering_ok. now rewrite Hw, Hl.
    - rewrite app_nil_r in He. eauto. }
  repeat split.
  - destruct (R d1) as (e & He & Hf); [| |reflexivity|].
    + cbn [wf_d d1 forallb snd]. now rewrite Hlo, Hhi, L0, L1, Ha, Hb, Hc.
    + cbn [lay d1 forallb fst snd]. rewrite Hlo, Hhi. cbn. now rewrite !orb_true_r.
    + exists e. split; [exact He|]. rewrite Hf. cbn. now rewrite Hne1.
  - destruct (R d2) as (e & He & Hf); [| |reflexivity|].
    + cbn [wf_d d2 forallb snd]. now rewrite Hlo, Hhi, L0, L1, Ha, Hb, Hc.
    + cbn [lay d2 forallb fst snd]. rewrite Hlo, Hhi. cbn. now rewrite !orb_true_r.
    + exists e. split; [exact He|]. rewrite Hf. cbn. now rewrite Hne1.
  - destruct (R d3) as (e & He & Hf); [| |reflexivity|].
    + cbn [wf_d d3 forallb snd]. now rewrite Hhi, L2, Hmem, Ha, Hb.
    + cbn [lay d3 forallb fst snd]. rewrite Hhi. cbn. now rewrite !orb_true_r.
    + exists e. split; [exact He|]. rewrite Hf. reflexivity.
  - destruct (R d4) as (e & He & Hf); [| |reflexivity|].
    + cbn [wf_d d4 forallb snd]. now rewrite Hlo, Hhi, L0, L2, Ha, Hb, Hc.
    + cbn [lay d4 forallb fst snd]. rewrite Hlo, Hhi. cbn. now rewrite !orb_true_r.
    + exists e. split; [exact He|]. rewrite Hf. cbn. now rewrite Hne2.
Qed.

(** ** The parser before commit 24bf1ff was unsound *)
Definition count_word (x : N) (ts : list tok) : nat :=
  length (filter (fun t => match t with TW false w => w =? x | _ => false end) ts).

Lemma count_word_app x a b : count_word x (a ++ b) = (count_word x a + count_word x b)%nat.
Proof. unfold count_word. now rewrite filter_app, app_length. Qed.

Lemma count_word_nls x n : count_word x (nls n) = O.
Proof. induction n; [reflexivity | exact IHn]. Qed.

Lemma matcher_level_ops op j : level_of matcher_grammar op = Some j -> op = W_OR \/ op = W_AND.
Proof.
  unfold level_of. cbn [matcher_grammar g_levels level_in]. rewrite !mem_single.
  destruct (op =? W_OR) eqn:E1; [apply N.eqb_eq in E1; auto|].
  destruct (op =? W_AND) eqn:E2; [apply N.eqb_eq in E2; auto|]. discriminate.
Qed.

Lemma render_balanced d :
  forall k, wf_d matcher_grammar k d = true -> count_word W_LP (render d) = count_word W_RP (render d).
Proof.
  induction d as [nl w | nl op d IH | nl d nc IH | op d0 ds IH0 IH] using dexpr_ind'; intros k Hwf;
    cbn [wf_d] in Hwf; cbn [render].
  - apply (std_leaf_word matcher_grammar) in Hwf; [|reflexivity].
    rewrite !count_word_app, !count_word_nls. unfold count_word. cbn [filter].
    assert (E1 : w =? W_LP = false) by (apply N.eqb_neq; intros ->; cbv in Hwf; now apply Hwf).
    assert (E2 : w =? W_RP = false) by (apply N.eqb_neq; intros ->; cbv in Hwf; now apply Hwf).
    now rewrite E1, E2.
  - apply andb_true_iff in Hwf as [Hop Hwf]. cbn in Hop. rewrite orb_false_r in Hop. apply N.eqb_eq in Hop. subst op.
    rewrite !count_word_app, !count_word_nls. change (TW false W_NOT :: render d) with ([TW false W_NOT] ++ render d).
    rewrite !count_word_app. rewrite (IH _ Hwf). reflexivity.
  - change (TW false W_LP :: render d ++ nls nc ++ [TW false W_RP])
      with ([TW false W_LP] ++ render d ++ nls nc ++ [TW false W_RP]).
    rewrite !count_word_app, !count_word_nls, (IH _ Hwf). cbn. lia.
  - destruct (level_of matcher_grammar op) as [j|] eqn:Ej; [|discriminate].
    apply andb_true_iff in Hwf as [Hwf Hds]. apply andb_true_iff in Hwf as [_ Hd0].
    rewrite !count_word_app, (IH0 _ Hd0). f_equal.
    assert (Eo : op =? W_LP = false /\ op =? W_RP = false).
    { destruct (matcher_level_ops _ _ Ej) as [-> | ->]; split; reflexivity. }
    destruct Eo as [E1 E2].
    induction IH as [|[n x] xs Hx _ IHxs]; cbn [flat_map fst snd]; [reflexivity|].
    cbn [forallb snd] in Hds, Hx. apply andb_true_iff in Hds as [Hx' Hds].
    change (TW false op :: render x) with ([TW false op] ++ render x).
    assert (C1 : count_word W_LP [TW false op] = O) by (unfold count_word; cbn [filter]; now rewrite E1).
    assert (C2 : count_word W_RP [TW false op] = O) by (unfold count_word; cbn [filter]; now rewrite E2).
    rewrite !count_word_app, !count_word_nls, C1, C2, (Hx _ Hx'), (IHxs Hds). reflexivity.
Qed.

Theorem prefix_unsound :
  exists (ts : list tok) (e : expr),
    parse_full matcher_grammar false false ts = Ok e [] /\
    (forall d k, wf_d matcher_grammar k d = true -> render d <> ts) /\
    parse_full matcher_grammar true false ts = Err ENotClose.
Proof.
  exists [TW false W_LP; TW false 100; TW false W_OR; TW false 101; TNL; TW false W_AND; TW false W_AND; TW false 102].
  eexists. split; [vm_compute; reflexivity|]. split; [|vm_compute; reflexivity].
  intros d k Hwf E. apply render_balanced in Hwf. rewrite E in Hwf. vm_compute in Hwf. discriminate.
Qed.

(** ** Totality: the fuel given by [parse_full] / [parse_simple] is never exhausted *)
Lemma nls_length n : length (nls n) = n.
Proof. apply repeat_length. Qed.

Lemma consume_opt_len cs mc ts w r : consume_opt cs mc ts = Some (w, r) -> (length r < length ts)%nat.
Proof.
  intros H. destruct (consume_opt_inv _ _ _ _ _ H) as (n & -> & _). rewrite app_length. cbn. lia.
Qed.

Lemma consume_mandatory_constant_len cs ts w r :
  consume_mandatory_constant cs ts = Ok w r -> (length r < length ts)%nat.
Proof.
  intros H. destruct (consume_mandatory_constant_inv _ _ _ _ H) as (n & -> & _). rewrite app_length. cbn. lia.
Qed.

Lemma consume_mandatory_unquoted_len mc ts w r :
  consume_mandatory_unquoted mc ts = Ok w r -> (length r < length ts)%nat.
Proof.
  intros H. destruct (consume_mandatory_unquoted_inv _ _ _ _ H) as (n & ->). rewrite app_length. cbn. lia.
Qed.

Lemma consume_mandatory_constant_fuel cs ts : consume_mandatory_constant cs ts <> OutOfFuel.
Proof.
  unfold consume_mandatory_constant. destruct (skip_nl ts) as [|[q w|] r]; try discriminate.
  destruct q; [discriminate|]. destruct (negb (mem w cs)); discriminate.
Qed.

Lemma consume_mandatory_unquoted_fuel mc ts : consume_mandatory_unquoted mc ts <> OutOfFuel.
Proof.
  unfold consume_mandatory_unquoted. destruct (skip_nl ts) as [|[q w|] r]; try discriminate.
  destruct (at_eol ts && mc); [discriminate|]. destruct q; discriminate.
Qed.

Section Len.
  Variable prim' : bool -> list tok -> res expr.
  Variable lf : nat.
  Hypothesis P1 : forall mc ts e r, prim' mc ts = Ok e r -> (length r < length ts)%nat.

  Section Loops.
    Variable operand : list tok -> res expr.
    Hypothesis O1 : forall ts e r, operand ts = Ok e r -> (length r < length ts)%nat.

    Lemma seq_loop_len n op inside : forall acc ts es r,
      seq_loop n operand op inside acc ts = Ok es r -> (length r <= length ts)%nat.
    Proof.
      induction n as [|n IH]; intros acc ts es r; cbn [seq_loop]; [discriminate|].
      destruct (consume_opt [op] (negb inside) ts) as [[w ts1]|] eqn:C.
      - destruct (operand ts1) as [e ts2 | x |] eqn:O; try discriminate. intros H.
        apply IH in H. apply consume_opt_len in C. apply O1 in O. lia.
      - intros [= <- <-]. lia.
    Qed.

    Lemma op_loop_len n cur m : forall expression ts e r,
      op_loop lf n operand cur m expression ts = Ok e r -> (length r <= length ts)%nat.
    Proof.
      induction n as [|n IH]; intros expression ts e r; cbn [op_loop]; [discriminate|].
      destruct (consume_opt cur (is_none m) ts) as [[w ts1]|] eqn:C.
      - unfold infix_op_sequence.
        destruct (operand ts1) as [ea tsa | x |] eqn:O; try discriminate. cbv beta iota.
        destruct (seq_loop lf operand w (is_inside m) [expression; ea] tsa) as [es ts2 | x |] eqn:SL; try discriminate.
        cbv beta iota. intros H. apply IH in H. apply consume_opt_len in C. apply O1 in O. apply seq_loop_len in SL. lia.
      - intros [= <- <-]. lia.
    Qed.
  End Loops.

  Lemma levels_len levels :
    forall m ts e r, parse_w_maybe_infix_ops prim' lf m levels ts = Ok e r -> (length r < length ts)%nat.
  Proof.
    induction levels as [|cur next IH1]; cbn [parse_w_maybe_infix_ops].
    - intros m; apply P1.
    - intros m ts e r.
      destruct (parse_w_maybe_infix_ops prim' lf (NBool (is_none m)) next ts) as [e0 ts1 | x |] eqn:P0; try discriminate.
      intros H. apply IH1 in P0. apply (op_loop_len _ (IH1 NNextAny)) in H. lia.
  Qed.
End Len.

Section Fuel.
  Variable prim' : bool -> list tok -> res expr.
  Variable lf : nat.
  Variable bound : nat.
  Hypothesis P1 : forall mc ts e r, prim' mc ts = Ok e r -> (length r < length ts)%nat.
  Hypothesis P2 : forall mc ts, (length ts <= bound)%nat -> prim' mc ts <> OutOfFuel.
  Hypothesis Hlf : (bound < lf)%nat.

  Section Loops.
    Variable operand : list tok -> res expr.
    Hypothesis O1 : forall ts e r, operand ts = Ok e r -> (length r < length ts)%nat.
    Hypothesis O2 : forall ts, (length ts <= bound)%nat -> operand ts <> OutOfFuel.

    Lemma seq_loop_fuel n op inside : forall acc ts,
      (length ts < n)%nat -> (length ts <= bound)%nat -> seq_loop n operand op inside acc ts <> OutOfFuel.
    Proof.
      induction n as [|n IH]; intros acc ts Hn Hb; [lia|]. cbn [seq_loop].
      destruct (consume_opt [op] (negb inside) ts) as [[w ts1]|] eqn:C; [|discriminate].
      apply consume_opt_len in C.
      destruct (operand ts1) as [e ts2 | x |] eqn:O; [| discriminate | exfalso; apply (O2 ts1); [lia | exact O]].
      apply O1 in O. apply IH; lia.
    Qed.

    Lemma op_loop_fuel n cur m : forall expression ts,
      (length ts < n)%nat -> (length ts <= bound)%nat -> op_loop lf n operand cur m expression ts <> OutOfFuel.
    Proof.
      induction n as [|n IH]; intros expression ts Hn Hb; [lia|]. cbn [op_loop].
      destruct (consume_opt cur (is_none m) ts) as [[w ts1]|] eqn:C; [|discriminate].
      apply consume_opt_len in C. unfold infix_op_sequence.
      destruct (operand ts1) as [ea tsa | x |] eqn:O; [| discriminate | exfalso; apply (O2 ts1); [lia | exact O]].
      cbv beta iota. apply O1 in O.
      destruct (seq_loop lf operand w (is_inside m) [expression; ea] tsa) as [es ts2 | x |] eqn:SL;
        [| discriminate | exfalso; apply (seq_loop_fuel lf w (is_inside m) [expression; ea] tsa); [lia | lia | exact SL]].
      cbv beta iota. apply (seq_loop_len operand O1) in SL. apply IH; lia.
    Qed.
  End Loops.

  Lemma levels_fuel levels :
    forall m ts, (length ts <= bound)%nat -> parse_w_maybe_infix_ops prim' lf m levels ts <> OutOfFuel.
  Proof.
    induction levels as [|cur next IH2]; cbn [parse_w_maybe_infix_ops].
    - intros m; apply P2.
    - intros m ts Hb.
      destruct (parse_w_maybe_infix_ops prim' lf (NBool (is_none m)) next ts) as [e0 ts1 | x |] eqn:P0;
        [| discriminate | exfalso; exact (IH2 _ _ Hb P0)].
      apply (levels_len prim' lf P1) in P0.
      apply (op_loop_fuel _ (levels_len prim' lf P1 next NNextAny) (IH2 NNextAny)); lia.
  Qed.
End Fuel.

Section Total.
  Variable g : grammar.
  Variable strict : bool.

  Lemma prim_len fuel : forall mc ts e r,
    parse_mandatory_primitive g strict fuel mc ts = Ok e r -> (length r < length ts)%nat.
  Proof.
    induction fuel as [|f IH]; intros mc ts e r; cbn [parse_mandatory_primitive]; [discriminate|].
    destruct (mc && at_eol ts); [discriminate|].
    destruct (consume_opt [W_LP] false ts) as [[w ts1]|] eqn:C1.
    - destruct (parse_w_maybe_infix_ops (parse_mandatory_primitive g strict f) f NInside (g_levels g) ts1)
        as [e1 ts2 | x |] eqn:P; try discriminate.
      destruct (consume_mandatory_constant (closers g strict) ts2) as [w' ts3 | x |] eqn:C2; try discriminate.
      intros [= <- <-]. apply consume_opt_len in C1. apply consume_mandatory_constant_len in C2.
      apply (levels_len _ _ IH) in P. lia.
    - destruct (consume_opt (g_prefix g) false ts) as [[w ts1]|] eqn:C2.
      + destruct (parse_mandatory_primitive g strict f false ts1) as [e1 ts2 | x |] eqn:P; try discriminate.
        intros [= <- <-]. apply consume_opt_len in C2. apply IH in P. lia.
      + destruct (consume_mandatory_unquoted false ts) as [w ts1 | x |] eqn:C3; try discriminate.
        unfold parse_primitive. destruct (g_class g w); try discriminate; intros [= <- <-];
          now apply consume_mandatory_unquoted_len in C3.
  Qed.

  Lemma prim_fuel fuel : forall mc ts,
    (length ts < fuel)%nat -> parse_mandatory_primitive g strict fuel mc ts <> OutOfFuel.
  Proof.
    induction fuel as [|f IH]; intros mc ts Hlen; [lia|]. cbn [parse_mandatory_primitive].
    destruct (mc && at_eol ts); [discriminate|].
    destruct (consume_opt [W_LP] false ts) as [[w ts1]|] eqn:C1.
    - apply consume_opt_len in C1.
      assert (L2 : forall levels m, parse_w_maybe_infix_ops (parse_mandatory_primitive g strict f) f m levels ts1 <> OutOfFuel).
      { intros levels m. apply (levels_fuel (parse_mandatory_primitive g strict f) f (length ts1) (prim_len f)).
        - intros mc' ts' Hb. apply IH. lia.
        - lia.
        - lia. }
      destruct (parse_w_maybe_infix_ops (parse_mandatory_primitive g strict f) f NInside (g_levels g) ts1)
        as [e1 ts2 | x |] eqn:P; [| discriminate | exfalso; exact (L2 _ _ P)].
      destruct (consume_mandatory_constant (closers g strict) ts2) as [w' ts3 | x |] eqn:C2; try discriminate.
      exfalso. exact (consume_mandatory_constant_fuel _ _ C2).
    - destruct (consume_opt (g_prefix g) false ts) as [[w ts1]|] eqn:C2.
      + apply consume_opt_len in C2.
        destruct (parse_mandatory_primitive g strict f false ts1) as [e1 ts2 | x |] eqn:P; try discriminate.
        exfalso. apply (IH false ts1); [lia | exact P].
      + destruct (consume_mandatory_unquoted false ts) as [w ts1 | x |] eqn:C3;
          [| discriminate | exfalso; exact (consume_mandatory_unquoted_fuel _ _ C3)].
        unfold parse_primitive. destruct (g_class g w); discriminate.
  Qed.

  Theorem parse_total' (simple must_cur : bool) (ts : list tok) :
    (if simple then parse_simple g strict must_cur ts else parse_full g strict must_cur ts) <> OutOfFuel.
  Proof.
    destruct simple.
    - unfold parse_simple. destruct (must_cur && at_eol ts); [discriminate|]. apply prim_fuel. unfold fuel_for. lia.
    - unfold parse_full, parse_levels. destruct (must_cur && at_eol ts); [discriminate|].
      apply (levels_fuel (parse_mandatory_primitive g strict (fuel_for ts)) (fuel_for ts) (length ts) (prim_len _)).
      + intros mc' ts' Hb. apply prim_fuel. unfold fuel_for. lia.
      + unfold fuel_for. lia.
      + lia.
  Qed.
End Total.

Theorem parse_total (g : grammar) (strict simple must_cur : bool) (ts : list tok) :
  (if simple then parse_simple g strict must_cur ts else parse_full g strict must_cur ts) <> OutOfFuel.
Proof. apply parse_total'. Qed.
