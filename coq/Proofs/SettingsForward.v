(** Corollaries of the refinement: a timeout / a change of directory stays in force for every later
    process until the next instruction of the same kind; which set a process sees; the boolean
    property predicate of the check holds on the model for all histories. *)
From Coq Require Import NArith List Bool Arith Lia ZifyBool.
From Exactly Require Import Lib.Harness Model.Settings Spec.C11 Proofs.SettingsExpand Proofs.SettingsRefine.
Import ListNotations.
Local Open Scope N_scope.

Lemma if_reached_some : forall r ss, if_reached r = Some ss -> r = (ss, false).
Proof. intros [x b] ss H. unfold if_reached in H. cbn [fst snd] in H. destruct b; [discriminate|]. congruence. Qed.

Lemma spec_before_main : forall c h pt,
  in_cleanup pt = false ->
  spec_before c h pt = if_reached (sfold (c_dirs c) (instructions_before h pt) (sinitial c)).
Proof. intros c h [[| | |] i|] H; try reflexivity. discriminate. Qed.

Lemma spec_before_cleanup : forall c h i,
  spec_before c h (PtInstr PCleanup i) =
  if_reached (sfold (c_dirs c) (firstn i (h_cleanup h))
                    (fst (sfold (c_dirs c) (instructions_before h (PtInstr PCleanup i)) (sinitial c)))).
Proof. reflexivity. Qed.

Lemma sfold_app_ok : forall dirs a b s s',
  sfold dirs (a ++ b) s = (s', false) -> exists s1, sfold dirs a s = (s1, false) /\ sfold dirs b s1 = (s', false).
Proof.
  intros dirs a b s s' H. rewrite sfold_app in H. destruct (sfold dirs a s) as [s1 h1]. cbn [fst snd] in H.
  destruct h1; [discriminate|]. exists s1. split; [reflexivity|exact H].
Qed.

(** ** timeout *)

Lemma sstep_keeps_timeout : forall dirs o s s',
  sstep dirs o s = Some s' -> sets_timeout o = false -> ss_timeout s' = ss_timeout s.
Proof.
  intros dirs o s s' H Ho. destruct o as [t md | t n v | b suffix | t | b suffix | ]; cbn [sstep] in H; try discriminate.
  - injection H as <-. reflexivity.
  - injection H as <-. reflexivity.
  - destruct (walk (base_dir (ss_cwd s) b) suffix) as [d|]; [|discriminate].
    destruct (existsb (path_eqb d) dirs); [|discriminate]. injection H as <-. reflexivity.
  - injection H as <-. reflexivity.
  - injection H as <-. reflexivity.
Qed.

Lemma sfold_keeps_timeout : forall dirs mid s,
  no_timeout mid -> ss_timeout (fst (sfold dirs mid s)) = ss_timeout s.
Proof.
  intros dirs mid. induction mid as [|o mid IH]; intros s H.
  - reflexivity.
  - unfold no_timeout in H. cbn [forallb] in H. apply andb_true_iff in H as [Ho Hm].
    cbn [sfold]. destruct (sstep dirs o s) as [s1|] eqn:E; [|reflexivity].
    rewrite IH by exact Hm. eapply sstep_keeps_timeout; [exact E|]. destruct (sets_timeout o); [discriminate|reflexivity].
Qed.

Lemma sfold_timeout_forward : forall dirs pre t mid s,
  snd (sfold dirs pre s) = false -> no_timeout mid ->
  ss_timeout (fst (sfold dirs (pre ++ OTimeout t :: mid) s)) = t.
Proof.
  intros dirs pre t mid s Hpre Hmid. rewrite sfold_app, Hpre. cbn [sfold sstep].
  rewrite sfold_keeps_timeout by exact Hmid. reflexivity.
Qed.

(** ** current directory *)
Lemma sstep_keeps_cwd : forall dirs o s s',
  sstep dirs o s = Some s' -> is_cd o = false -> ss_cwd s' = ss_cwd s.
Proof.
  intros dirs o s s' H Ho. destruct o as [t md | t n v | b suffix | t | b suffix | ]; cbn [sstep] in H; try discriminate;
    injection H as <-; reflexivity.
Qed.

Lemma sfold_keeps_cwd : forall dirs mid s, no_cd mid -> ss_cwd (fst (sfold dirs mid s)) = ss_cwd s.
Proof.
  intros dirs mid. induction mid as [|o mid IH]; intros s H.
  - reflexivity.
  - unfold no_cd in H. cbn [forallb] in H. apply andb_true_iff in H as [Ho Hm].
    cbn [sfold]. destruct (sstep dirs o s) as [s1|] eqn:E; [|reflexivity].
    rewrite IH by exact Hm. eapply sstep_keeps_cwd; [exact E|]. destruct (is_cd o); [discriminate|reflexivity].
Qed.

Lemma sfold_cd_forward : forall dirs pre b suffix d mid s,
  snd (sfold dirs pre s) = false ->
  walk (base_dir (ss_cwd (fst (sfold dirs pre s))) b) suffix = Some d -> existsb (path_eqb d) dirs = true ->
  no_cd mid ->
  ss_cwd (fst (sfold dirs (pre ++ OCd b suffix :: mid) s)) = d.
Proof.
  intros dirs pre b suffix d mid s Hpre Hw Hd Hmid. rewrite sfold_app, Hpre. cbn [sfold sstep].
  rewrite Hw, Hd. rewrite sfold_keeps_cwd by exact Hmid. reflexivity.
Qed.

(** ** on the model *)
Lemma observed_refined : forall c h pt o,
  In (pt, o) (fst (run c h)) ->
  exists ss, spec_before c h pt = Some ss /\ obs_agrees (spec_view pt ss) o.
Proof.
  intros c h pt o Hin. destruct (run_refines c h) as [_ Hall].
  rewrite Forall_forall in Hall. exact (Hall (pt, o) Hin).
Qed.

Theorem timeout_forward : forall c h pt o pre t mid,
  In (pt, o) (fst (run c h)) -> in_cleanup pt = false ->
  instructions_before h pt = pre ++ OTimeout t :: mid -> no_timeout mid ->
  o_timeout o = t.
Proof.
  intros c h pt o pre t mid Hin Hpt HL Hmid.
  destruct (observed_refined c h pt o Hin) as (ss & Hsb & (_ & _ & Ht)).
  rewrite spec_before_main in Hsb by exact Hpt. apply if_reached_some in Hsb.
  rewrite Ht. cbn [spec_view so_timeout]. replace ss with (fst (sfold (c_dirs c) (instructions_before h pt) (sinitial c))) by (rewrite Hsb; reflexivity).
  rewrite HL. apply sfold_timeout_forward; [|exact Hmid].
  rewrite HL in Hsb. apply sfold_app_ok in Hsb as (s1 & H1 & _). rewrite H1. reflexivity.
Qed.

Theorem timeout_forward_in_cleanup : forall c h i o pre t mid,
  In (PtInstr PCleanup i, o) (fst (run c h)) ->
  firstn i (h_cleanup h) = pre ++ OTimeout t :: mid -> no_timeout mid ->
  o_timeout o = t.
Proof.
  intros c h i o pre t mid Hin HL Hmid.
  destruct (observed_refined c h _ o Hin) as (ss & Hsb & (_ & _ & Ht)).
  rewrite spec_before_cleanup in Hsb. apply if_reached_some in Hsb.
  rewrite Ht. cbn [spec_view so_timeout].
  match type of Hsb with sfold ?d ?l ?s0 = _ => replace ss with (fst (sfold d l s0)) by (rewrite Hsb; reflexivity) end.
  rewrite HL. apply sfold_timeout_forward; [|exact Hmid].
  rewrite HL in Hsb. apply sfold_app_ok in Hsb as (s1 & H1 & _). rewrite H1. reflexivity.
Qed.

Theorem timeout_forward_into_cleanup : forall c h i o pre t mid,
  In (PtInstr PCleanup i, o) (fst (run c h)) ->
  h_setup h ++ h_before_assert h ++ h_assert h = pre ++ OTimeout t :: mid ->
  snd (sfold (c_dirs c) pre (sinitial c)) = false ->       (* the timeout instruction was reached *)
  no_timeout mid -> no_timeout (firstn i (h_cleanup h)) ->
  o_timeout o = t.
Proof.
  intros c h i o pre t mid Hin HL Hpre Hmid Hcl.
  destruct (observed_refined c h _ o Hin) as (ss & Hsb & (_ & _ & Ht)).
  rewrite spec_before_cleanup in Hsb. apply if_reached_some in Hsb.
  rewrite Ht. cbn [spec_view so_timeout].
  match type of Hsb with sfold ?d ?l ?s0 = _ => replace ss with (fst (sfold d l s0)) by (rewrite Hsb; reflexivity) end.
  rewrite sfold_keeps_timeout by exact Hcl. cbn [instructions_before]. rewrite HL.
  apply sfold_timeout_forward; assumption.
Qed.

Theorem cd_forward : forall c h pt o pre b suffix d mid,
  In (pt, o) (fst (run c h)) -> in_cleanup pt = false ->
  instructions_before h pt = pre ++ OCd b suffix :: mid -> no_cd mid ->
  walk (base_dir (ss_cwd (fst (sfold (c_dirs c) pre (sinitial c)))) b) suffix = Some d ->
  o_cwd o = d.
Proof.
  intros c h pt o pre b suffix d mid Hin Hpt HL Hmid Hw.
  destruct (observed_refined c h pt o Hin) as (ss & Hsb & (_ & Hc & _)).
  rewrite spec_before_main in Hsb by exact Hpt. apply if_reached_some in Hsb.
  rewrite Hc. cbn [spec_view so_cwd].
  replace ss with (fst (sfold (c_dirs c) (instructions_before h pt) (sinitial c))) by (rewrite Hsb; reflexivity).
  rewrite HL in *. pose proof Hsb as Hsb'. apply sfold_app_ok in Hsb' as (s1 & H1 & H2).
  assert (Hex : existsb (path_eqb d) (c_dirs c) = true).
  { cbn [sfold sstep] in H2. rewrite H1 in Hw. cbn [fst] in Hw. rewrite Hw in H2.
    destruct (existsb (path_eqb d) (c_dirs c)); [reflexivity|discriminate]. }
  apply sfold_cd_forward; try assumption. rewrite H1. reflexivity.
Qed.

Theorem cd_forward_in_cleanup : forall c h i o pre b suffix d mid,
  In (PtInstr PCleanup i, o) (fst (run c h)) ->
  firstn i (h_cleanup h) = pre ++ OCd b suffix :: mid -> no_cd mid ->
  walk (base_dir (ss_cwd (fst (sfold (c_dirs c) pre
           (fst (sfold (c_dirs c) (h_setup h ++ h_before_assert h ++ h_assert h) (sinitial c)))))) b) suffix = Some d ->
  o_cwd o = d.
Proof.
  intros c h i o pre b suffix d mid Hin HL Hmid Hw.
  destruct (observed_refined c h _ o Hin) as (ss & Hsb & (_ & Hc & _)).
  rewrite spec_before_cleanup in Hsb. apply if_reached_some in Hsb. cbn [instructions_before] in Hsb.
  rewrite Hc. cbn [spec_view so_cwd].
  match type of Hsb with sfold ?d ?l ?s0 = _ => replace ss with (fst (sfold d l s0)) by (rewrite Hsb; reflexivity) end.
  rewrite HL in *. pose proof Hsb as Hsb'. apply sfold_app_ok in Hsb' as (s1 & H1 & H2).
  assert (Hex : existsb (path_eqb d) (c_dirs c) = true).
  { cbn [sfold sstep] in H2. rewrite H1 in Hw. cbn [fst] in Hw. rewrite Hw in H2.
    destruct (existsb (path_eqb d) (c_dirs c)); [reflexivity|discriminate]. }
  apply sfold_cd_forward; try assumption. rewrite H1. reflexivity.
Qed.

Theorem cd_forward_into_cleanup : forall c h i o pre b suffix d mid,
  In (PtInstr PCleanup i, o) (fst (run c h)) ->
  h_setup h ++ h_before_assert h ++ h_assert h = pre ++ OCd b suffix :: mid ->
  snd (sfold (c_dirs c) pre (sinitial c)) = false ->       (* the cd instruction was reached ... *)
  walk (base_dir (ss_cwd (fst (sfold (c_dirs c) pre (sinitial c)))) b) suffix = Some d ->
  existsb (path_eqb d) (c_dirs c) = true ->                 (* ... and succeeded *)
  no_cd mid -> no_cd (firstn i (h_cleanup h)) ->
  o_cwd o = d.
Proof.
  intros c h i o pre b suffix d mid Hin HL Hpre Hw Hd Hmid Hcl.
  destruct (observed_refined c h _ o Hin) as (ss & Hsb & (_ & Hc & _)).
  rewrite spec_before_cleanup in Hsb. apply if_reached_some in Hsb.
  rewrite Hc. cbn [spec_view so_cwd].
  match type of Hsb with sfold ?d ?l ?s0 = _ => replace ss with (fst (sfold d l s0)) by (rewrite Hsb; reflexivity) end.
  rewrite sfold_keeps_cwd by exact Hcl. cbn [instructions_before]. rewrite HL.
  apply sfold_cd_forward; assumption.
Qed.

(** ** which set a process sees *)
Theorem act_sees_act_set_others_nonact : forall c h pt o,
  In (pt, o) (fst (run c h)) ->
  o_role o = RProcess ->
  exists ss, spec_before c h pt = Some ss /\
             forall n, get (o_env o) n = match pt with PtAct => ss_act ss n | PtInstr _ _ => ss_nonact ss n end.
Proof.
  intros c h pt o Hin Hrole. destruct (observed_refined c h pt o Hin) as (ss & Hsb & (He & _ & _)).
  exists ss. split; [exact Hsb|]. intros n. rewrite (He Hrole). destruct pt; reflexivity.
Qed.

Theorem value_program_timeout_cwd : forall c h pt o,
  In (pt, o) (fst (run c h)) ->
  exists ss, spec_before c h pt = Some ss /\ o_cwd o = ss_cwd ss /\ o_timeout o = ss_timeout ss.
Proof.
  intros c h pt o Hin. destruct (observed_refined c h pt o Hin) as (ss & Hsb & (_ & Hc & Ht)).
  exists ss. split; [exact Hsb|]. split; [rewrite Hc|rewrite Ht]; destruct pt; reflexivity.
Qed.

(** ** no backward effect: what is in force at a point depends only on the instructions before it *)
Lemma spec_before_agree : forall c h h' pt, agree_before pt h h' -> spec_before c h pt = spec_before c h' pt.
Proof.
  intros c h h' [[| | |] i|] H; cbn [agree_before] in H; cbn [spec_before]; cbv zeta.
  - rewrite H. reflexivity.
  - destruct H as (-> & ->). reflexivity.
  - destruct H as (-> & -> & ->). reflexivity.
  - destruct H as (-> & -> & -> & ->). reflexivity.
  - rewrite H. reflexivity.
Qed.

Theorem no_backward_effect : forall c h h' pt o o',
  agree_before pt h h' ->
  In (pt, o) (fst (run c h)) -> In (pt, o') (fst (run c h')) ->
  obs_equiv o o'.
Proof.
  intros c h h' pt o o' Hag Hin Hin'.
  destruct (observed_refined c h pt o Hin) as (ss & Hsb & (He & Hc & Ht)).
  destruct (observed_refined c h' pt o' Hin') as (ss' & Hsb' & (He' & Hc' & Ht')).
  rewrite (spec_before_agree c h h' pt Hag) in Hsb. rewrite Hsb in Hsb'. injection Hsb' as <-.
  split; [|split]; [intros Hr Hr' n; rewrite (He Hr), (He' Hr'); reflexivity | congruence | congruence].
Qed.

(** ** the boolean predicate of the check holds on the model, for all histories *)
Lemma option_text_eqb_refl : forall x : option text, option_eqb text_eqb x x = true.
Proof. intros [v|]; cbn; [apply text_eqb_refl|reflexivity]. Qed.

Lemma path_eqb_refl : forall p : path, path_eqb p p = true.
Proof.
  intros p. unfold path_eqb. apply (list_eqb_eq text_eqb); [|reflexivity]. exact text_eqb_eq.
Qed.

Lemma timeout_eqb_refl : forall t : timeout, timeout_eqb t t = true.
Proof. intros [t|]; cbn; [apply N.eqb_refl|reflexivity]. Qed.

Lemma obs_agrees_b : forall names so o, obs_agrees so o -> obs_agreesb names so o = true.
Proof.
  intros names so o (He & Hc & Ht). unfold obs_agreesb. rewrite Hc, Ht, path_eqb_refl, timeout_eqb_refl.
  rewrite !andb_true_r. destruct (o_role o) eqn:Er; [|reflexivity].
  apply forallb_forall. intros n _. rewrite (He eq_refl). apply option_text_eqb_refl.
Qed.

Theorem P_holds_on_model : forall c h, P_C11 c h (fst (run c h)) = true.
Proof.
  intros c h. unfold P_C11. apply forallb_forall. intros [pt o] Hin.
  destruct (observed_refined c h pt o Hin) as (ss & Hsb & Hag). cbn [fst snd]. rewrite Hsb.
  apply obs_agrees_b. exact Hag.
Qed.
