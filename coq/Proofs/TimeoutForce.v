(** C19: every process is handed the timeout in force (proofs). *)
From Coq Require Import List Bool Arith NArith Lia.
From Exactly Require Import Lib.Harness Model.Outcome Model.Exec Model.World Model.Timeout Spec.C01 Spec.C19.
Import ListNotations.

Lemma tmo_eqb_refl t : tmo_eqb t t = true.
Proof. destruct t; cbn; [apply N.eqb_refl|reflexivity]. Qed.

Lemma tmo_eqb_eq a b : tmo_eqb a b = true <-> a = b.
Proof.
  destruct a, b; cbn; split; intros H; try discriminate; try reflexivity.
  - apply N.eqb_eq in H. congruence.
  - injection H as ->. apply N.eqb_refl.
Qed.

Definition force_end (tc : tcase) (cur : tmo) (t : list tev) : tmo := fold_left (force_after tc) t cur.

Lemma force_end_app tc cur a b : force_end tc cur (a ++ b) = force_end tc (force_end tc cur a) b.
Proof. unfold force_end. apply fold_left_app. Qed.

Lemma calls_in_force_app tc : forall a b cur,
  calls_in_force tc cur (a ++ b) = calls_in_force tc cur a && calls_in_force tc (force_end tc cur a) b.
Proof.
  induction a as [|x a IH]; intros b cur; [reflexivity|].
  destruct x as [e|c].
  - change (calls_in_force tc (force_after tc cur (TEv e)) (a ++ b) =
            calls_in_force tc (force_after tc cur (TEv e)) a && calls_in_force tc (force_end tc cur (TEv e :: a)) b).
    rewrite IH. reflexivity.
  - cbn [app calls_in_force]. rewrite IH, andb_assoc. reflexivity.
Qed.

(** a trace in which the timeout in force does not change and every call carries it *)
Definition steady (tc : tcase) (cur : tmo) (t : list tev) : Prop :=
  calls_in_force tc cur t = true /\ force_end tc cur t = cur.

Lemma steady_nil tc cur : steady tc cur [].
Proof. split; reflexivity. Qed.

Lemma steady_app tc cur a b : steady tc cur a -> steady tc cur b -> steady tc cur (a ++ b).
Proof.
  intros [Ha Ea] [Hb Eb]. split.
  - rewrite calls_in_force_app, Ha, Ea, Hb. reflexivity.
  - rewrite force_end_app, Ea, Eb. reflexivity.
Qed.

Lemma steady_spawn_all tc p idx cur : forall ds, steady tc cur (fst (spawn_all p idx cur ds)).
Proof.
  induction ds as [|d ds IH]; [apply steady_nil|].
  cbn [spawn_all]. destruct (expires cur d).
  - split; cbn; [rewrite tmo_eqb_refl|]; reflexivity.
  - destruct (spawn_all p idx cur ds) as [l x]. cbn [fst] in *. destruct IH as [H1 H2]. split.
    + cbn. rewrite tmo_eqb_refl. exact H1.
    + exact H2.
Qed.

Lemma steady_ok_evs tc cur p k : k <> SMain -> forall n idx, steady tc cur (ok_evs p k idx n).
Proof.
  intros Hk. induction n as [|n IH]; intros idx; [apply steady_nil|].
  specialize (IH (S idx)). destruct IH as [H1 H2]. cbn [ok_evs]. split.
  - cbn [calls_in_force]. replace (force_after tc cur (TEv (EInstr p k idx None))) with cur; [exact H1|].
    destruct k; try reflexivity. congruence.
  - unfold force_end. cbn [fold_left]. replace (force_after tc cur (TEv (EInstr p k idx None))) with cur; [exact H2|].
    destruct k; try reflexivity. congruence.
Qed.

Lemma steady_ok_steps tc cur : forall ss, Forall (fun pk => snd pk <> SMain) ss -> steady tc cur (ok_steps tc ss).
Proof.
  induction ss as [|pk ss IH]; intros H; [apply steady_nil|].
  inversion H as [|? ? H1 H2]; subst. unfold ok_steps. cbn [flat_map].
  apply steady_app; [apply steady_ok_evs, H1 | apply IH, H2].
Qed.

Lemma block_validate_no_main : Forall (fun pk : phase * stepk => snd pk <> SMain) block_validate.
Proof. repeat constructor; discriminate. Qed.
Lemma block_setup_tl_no_main : Forall (fun pk : phase * stepk => snd pk <> SMain) (tl block_setup).
Proof. repeat constructor; discriminate. Qed.

Lemma steady_single tc cur e : force_after tc cur (TEv e) = cur -> steady tc cur [TEv e].
Proof. intros H. split; [cbn; destruct e; reflexivity | unfold force_end; cbn; exact H]. Qed.

(** the instruction list of a phase: calls carry the timeout in force, and the settings object
    agrees with the timeout in force at the end *)
Lemma trun_list_in_force tc p prev :
  forall is_ pre st,
    tinstrs_of tc p = pre ++ is_ ->
    let '(t, st', _) := trun_list p prev (length pre) st is_ in
    calls_in_force tc (s_timeout st) t = true /\ force_end tc (s_timeout st) t = s_timeout st'.
Proof.
  induction is_ as [|i is_ IH]; intros pre st Hpre.
  - cbn. split; reflexivity.
  - cbn [trun_list].
    assert (Hat : instr_at tc p (length pre) = Some i).
    { unfold instr_at. rewrite Hpre, nth_error_app2, Nat.sub_diag by lia. reflexivity. }
    assert (Hnext : tinstrs_of tc p = (pre ++ [i]) ++ is_) by (rewrite <- app_assoc; exact Hpre).
    specialize (IH (pre ++ [i])). rewrite app_length in IH. cbn [length] in IH.
    replace (length pre + 1) with (S (length pre)) in IH by lia.
    assert (Hfa : forall cur, force_after tc cur (TEv (EInstr p SMain (length pre) prev)) =
                              match i with TSet v => v | _ => cur end).
    { intros cur. cbn [force_after]. rewrite Hat. reflexivity. }
    destruct i as [v|ds|d|b]; cbn [main_of].
    + (* TSet *)
      specialize (IH (TS v (s_stdin st)) Hnext).
      destruct (trun_list p prev (S (length pre)) (TS v (s_stdin st)) is_) as [[t st''] r'].
      cbn [app calls_in_force]. unfold force_end in *. cbn [fold_left]. rewrite Hfa. exact IH.
    + (* TSpawn *)
      pose proof (steady_spawn_all tc p (length pre) (s_timeout st) ds) as Hsp.
      destruct (spawn_all p (length pre) (s_timeout st) ds) as [l x]. cbn [fst] in Hsp.
      destruct x.
      * destruct Hsp as [H1 H2]. split.
        -- cbn [calls_in_force]. rewrite Hfa. exact H1.
        -- unfold force_end in *. cbn [fold_left]. rewrite Hfa. exact H2.
      * specialize (IH st Hnext).
        destruct (trun_list p prev (S (length pre)) st is_) as [[t st''] r'].
        destruct IH as [I1 I2]. destruct Hsp as [H1 H2]. split.
        -- cbn [calls_in_force]. rewrite Hfa, calls_in_force_app, H1, H2. exact I1.
        -- unfold force_end in *. cbn [fold_left]. rewrite Hfa, fold_left_app, H2. exact I2.
    + (* TStdin *)
      specialize (IH (TS (s_timeout st) (Some d)) Hnext).
      destruct (trun_list p prev (S (length pre)) (TS (s_timeout st) (Some d)) is_) as [[t st''] r'].
      cbn [app calls_in_force]. unfold force_end in *. cbn [fold_left]. rewrite Hfa. exact IH.
    + (* TPlain *)
      destruct (outcome b).
      * split; [cbn [calls_in_force]; reflexivity | unfold force_end; cbn [fold_left]; rewrite Hfa; reflexivity].
      * specialize (IH st Hnext).
        destruct (trun_list p prev (S (length pre)) st is_) as [[t st''] r'].
        cbn [app calls_in_force]. unfold force_end in *. cbn [fold_left]. rewrite Hfa. exact IH.
Qed.

Lemma trun_list_in_force0 tc p prev st :
  let '(t, st', _) := trun_list p prev 0 st (tinstrs_of tc p) in
  calls_in_force tc (s_timeout st) t = true /\ force_end tc (s_timeout st) t = s_timeout st'.
Proof. apply (trun_list_in_force tc p prev (tinstrs_of tc p) [] st). reflexivity. Qed.

Lemma tcleanup_in_force tc prev st :
  calls_in_force tc (s_timeout st) (fst (tcleanup tc prev st)) = true.
Proof.
  unfold tcleanup. pose proof (trun_list_in_force0 tc Cleanup (Some prev) st) as H. cbn [tinstrs_of] in H.
  destruct (trun_list Cleanup (Some prev) 0 st (t_cleanup tc)) as [[t st'] r]. cbn [fst calls_in_force force_after].
  apply H.
Qed.

(** tactic: split a goal [calls_in_force (a ++ b) = true] *)
Ltac cif_app := rewrite calls_in_force_app; apply andb_true_iff; split.

Theorem texecute_calls_in_force tc : calls_in_force tc (t_default tc) (fst (texecute tc)) = true.
Proof.
  unfold texecute, texecute_st.
  pose proof (steady_ok_steps tc (t_default tc) block_validate block_validate_no_main) as [V1 V2].
  pose proof (trun_list_in_force0 tc Setup None (TS (t_default tc) None)) as HS. cbn [tinstrs_of s_timeout] in HS.
  destruct (trun_list Setup None 0 (TS (t_default tc) None) (t_setup tc)) as [[ts st1] rs].
  destruct HS as [S1 S2].
  assert (Hsb : forall rest, calls_in_force tc (force_end tc (t_default tc) (ok_steps tc block_validate)) (TEv ESandbox :: rest)
                             = calls_in_force tc (t_default tc) rest).
  { intros rest. rewrite V2. reflexivity. }
  destruct rs as [f|].
  - pose proof (tcleanup_in_force tc PSetup st1) as HC.
    destruct (tcleanup tc PSetup st1) as [tcl rc]. cbn [fst] in *.
    cif_app; [exact V1|]. rewrite Hsb. cif_app; [exact S1|]. rewrite S2. exact HC.
  - pose proof (steady_ok_steps tc (s_timeout st1) (tl block_setup) block_setup_tl_no_main) as [P1 P2].
    pose proof (steady_spawn_all tc Act 0 (s_timeout st1) (act_procs tc st1)) as [A1 A2].
    destruct (spawn_all Act 0 (s_timeout st1) (act_procs tc st1)) as [ta xa]. cbn [fst] in A1, A2.
    assert (Ht2 : calls_in_force tc (t_default tc) (ts ++ ok_steps tc (tl block_setup)) = true /\
                  force_end tc (t_default tc) (ts ++ ok_steps tc (tl block_setup)) = s_timeout st1).
    { split; [cif_app; [exact S1 | rewrite S2; exact P1] | rewrite force_end_app, S2; exact P2]. }
    destruct Ht2 as [T1 T2].
    assert (Ht3 : calls_in_force tc (s_timeout st1) (TEv (EInstr Act SExecute 0 None) :: ta) = true /\
                  force_end tc (s_timeout st1) (TEv (EInstr Act SExecute 0 None) :: ta) = s_timeout st1).
    { split; [exact A1 | exact A2]. }
    destruct Ht3 as [X1 X2].
    destruct xa; [|destruct (t_act_only tc)].
    + pose proof (tcleanup_in_force tc PAct st1) as HC.
      destruct (tcleanup tc PAct st1) as [tcl rc]. cbn [fst] in *.
      cif_app; [exact V1|]. rewrite Hsb. cif_app; [exact T1|]. rewrite T2. cif_app; [exact X1|]. rewrite X2. exact HC.
    + pose proof (tcleanup_in_force tc PAct st1) as HC.
      destruct (tcleanup tc PAct st1) as [tcl rc]. cbn [fst] in *.
      cif_app; [exact V1|]. rewrite Hsb. cif_app; [exact T1|]. rewrite T2. cif_app; [exact X1|]. rewrite X2. exact HC.
    + pose proof (trun_list_in_force0 tc BeforeAssert None st1) as HB. cbn [tinstrs_of] in HB.
      destruct (trun_list BeforeAssert None 0 st1 (t_before_assert tc)) as [[t4 st2] r4].
      destruct HB as [B1 B2].
      destruct r4 as [f|].
      * pose proof (tcleanup_in_force tc PBeforeAssert st2) as HC.
        destruct (tcleanup tc PBeforeAssert st2) as [tcl rc]. cbn [fst] in *.
        cif_app; [exact V1|]. rewrite Hsb. cif_app; [exact T1|]. rewrite T2. cif_app; [exact X1|]. rewrite X2.
        cif_app; [exact B1|]. rewrite B2. exact HC.
      * pose proof (trun_list_in_force0 tc Assert None st2) as HA. cbn [tinstrs_of] in HA.
        destruct (trun_list Assert None 0 st2 (t_assert tc)) as [[t5 st3] r5].
        destruct HA as [C1 C2].
        pose proof (tcleanup_in_force tc PAssert st3) as HC.
        destruct (tcleanup tc PAssert st3) as [tcl rc]. cbn [fst] in *.
        cif_app; [exact V1|]. rewrite Hsb. cif_app; [exact T1|]. rewrite T2. cif_app; [exact X1|]. rewrite X2.
        cif_app; [exact B1|]. rewrite B2. cif_app; [exact C1|]. rewrite C2. exact HC.
Qed.

(** the pointwise reading *)
Lemma calls_in_force_nth tc : forall t cur n c,
  calls_in_force tc cur t = true -> nth_error t n = Some (TCall c) ->
  c_timeout c = fold_left (force_after tc) (firstn n t) cur.
Proof.
  induction t as [|x t IH]; intros cur n c H Hn; [destruct n; discriminate|].
  destruct n as [|n].
  - cbn in Hn. injection Hn as ->. cbn in H. apply andb_true_iff in H as [H _]. apply tmo_eqb_eq in H. exact H.
  - cbn [nth_error] in Hn. cbn [firstn fold_left].
    destruct x as [e|c'].
    + apply (IH _ n c); [exact H | exact Hn].
    + cbn in H. apply andb_true_iff in H as [_ H]. apply (IH _ n c); [exact H | exact Hn].
Qed.

Theorem timeout_in_force tc n c :
  nth_error (fst (texecute tc)) n = Some (TCall c) ->
  c_timeout c = in_force tc (firstn n (fst (texecute tc))).
Proof. intros H. unfold in_force. apply (calls_in_force_nth tc _ _ n c (texecute_calls_in_force tc) H). Qed.
