(** The executor model refines the declarative protocol specification (C01), and corollaries. *)
From Coq Require Import List Bool Arith Lia.
From Exactly Require Import Lib.Harness Model.Outcome Model.Exec Spec.C01.
Import ListNotations.

(** *** list lemmas about [tuf] / [ffail] *)
Lemma tuf_app a b : tuf (a ++ b) = match ffail a with Some _ => tuf a | None => a ++ tuf b end.
Proof.
  induction a as [|[e [f|]] a IH]; cbn; [reflexivity|reflexivity|]. rewrite IH. destruct (ffail a); reflexivity.
Qed.
Lemma ffail_app a b : ffail (a ++ b) = match ffail a with Some f => Some f | None => ffail b end.
Proof. induction a as [|[e [f|]] a IH]; cbn; auto. Qed.
Lemma tuf_no_fail a : ffail a = None -> tuf a = a.
Proof. induction a as [|[e [f|]] a IH]; cbn; intros H; [reflexivity|discriminate|]. rewrite IH; auto. Qed.
Lemma ffail_tuf a : ffail (tuf a) = ffail a.
Proof. induction a as [|[e [f|]] a IH]; cbn; auto. Qed.

(** *** the implementation-shaped walkers compute [tuf] / [ffail] of the plan *)
Lemma run_list_spec p k prev : forall is_ idx,
  run_list p k prev idx is_ = (map fst (tuf (sched_list p k prev idx is_)), ffail (sched_list p k prev idx is_)).
Proof.
  induction is_ as [|i is' IH]; intros idx; cbn [run_list sched_list tuf ffail map]; [reflexivity|].
  destruct (outcome (i k)) as [st|]; cbn [option_map snd fst map]; [reflexivity|].
  rewrite IH. reflexivity.
Qed.

Lemma run_step_spec tc pk : run_step tc pk = (map fst (tuf (sched_step tc pk)), ffail (sched_step tc pk)).
Proof. unfold run_step, sched_step. apply run_list_spec. Qed.

Lemma run_steps_spec tc : forall ss,
  run_steps tc ss = (map fst (tuf (sched_steps tc ss)), ffail (sched_steps tc ss)).
Proof.
  induction ss as [|s ss IH]; [reflexivity|].
  cbn [run_steps sched_steps flat_map]. rewrite run_step_spec, tuf_app, ffail_app.
  destruct (ffail (sched_step tc s)) as [f|] eqn:E; [reflexivity|].
  fold (sched_steps tc ss). rewrite IH, map_app, (tuf_no_fail _ E). reflexivity.
Qed.

Lemma run_cleanup_spec tc prev :
  run_cleanup tc prev = (map fst (tuf (sched_cleanup tc prev)), ffail (sched_cleanup tc prev)).
Proof. unfold run_cleanup, sched_cleanup. rewrite run_list_spec. reflexivity. Qed.

(** a failure of a plan names one of the plan's steps *)
Lemma ffail_sched_list p k prev : forall is_ idx f,
  ffail (sched_list p k prev idx is_) = Some f -> f_phase f = p /\ f_step f = k.
Proof.
  induction is_ as [|i is' IH]; cbn; intros idx f H; [discriminate|].
  destruct (outcome (i k)); cbn in H; [injection H as <-; split; reflexivity | eapply IH; eauto].
Qed.
Lemma ffail_sched_steps tc : forall ss f,
  ffail (sched_steps tc ss) = Some f -> In (f_phase f, f_step f) ss.
Proof.
  induction ss as [|[p k] ss IH]; cbn; intros f H; [discriminate|].
  rewrite ffail_app in H. destruct (ffail (sched_step tc (p, k))) eqn:E.
  - injection H as <-. apply ffail_sched_list in E as [-> ->]. left; reflexivity.
  - right. apply IH, H.
Qed.

Ltac step_cases H :=
  cbn in H; repeat (destruct H as [H|H]; [injection H as ? ?|]); try contradiction.

(** ** Main refinement theorem *)
Theorem partial_execute_refines_spec tc : partial_execute tc = spec_partial tc.
Proof.
  unfold partial_execute, spec_partial, schedule.
  rewrite !run_steps_spec.
  rewrite !tuf_app, !ffail_app.
  destruct (ffail (sched_steps tc block_validate)) as [f1|] eqn:E1.
  { (* failure while validating: no sandbox, no cleanup *)
    pose proof (ffail_sched_steps _ _ _ E1) as Hin.
    assert (Hv : in_validation f1 = true).
    { unfold in_validation. step_cases Hin; match goal with H : _ = f_step f1 |- _ => rewrite <- H end; reflexivity. }
    rewrite Hv. reflexivity. }
  cbn [tuf ffail snd].
  rewrite !tuf_app, !ffail_app.
  rewrite (tuf_no_fail _ E1).
  destruct (ffail (sched_steps tc block_setup)) as [f2|] eqn:E2.
  { pose proof (ffail_sched_steps _ _ _ E2) as Hin.
    assert (Hv : in_validation f2 = false /\ is_main_of BeforeAssert f2 = false /\ is_main_of Assert f2 = false
                 /\ prev_of (tc_act_only tc) (Some f2) = PSetup).
    { unfold in_validation, is_main_of, prev_of.
      step_cases Hin; repeat match goal with H : _ = f_step f2 |- _ => rewrite <- H | H : _ = f_phase f2 |- _ => rewrite <- H end;
        repeat split; reflexivity. }
    destruct Hv as (-> & -> & -> & ->).
    unfold with_cleanup_replace. rewrite run_cleanup_spec.
    rewrite map_app. cbn [map fst]. rewrite <- !app_assoc. cbn [app].
    destruct (ffail (sched_cleanup tc PSetup)); reflexivity. }
  rewrite (tuf_no_fail _ E2).
  destruct (ffail (sched_steps tc block_act)) as [f3|] eqn:E3.
  { pose proof (ffail_sched_steps _ _ _ E3) as Hin.
    assert (Hv : in_validation f3 = false /\ is_main_of BeforeAssert f3 = false /\ is_main_of Assert f3 = false
                 /\ prev_of (tc_act_only tc) (Some f3) = PAct).
    { unfold in_validation, is_main_of, prev_of.
      step_cases Hin; repeat match goal with H : _ = f_step f3 |- _ => rewrite <- H | H : _ = f_phase f3 |- _ => rewrite <- H end;
        repeat split; reflexivity. }
    destruct Hv as (-> & -> & -> & ->).
    unfold with_cleanup_replace. rewrite run_cleanup_spec.
    rewrite !map_app. cbn [map fst]. rewrite !map_app. rewrite <- !app_assoc. cbn [app]. rewrite <- !app_assoc.
    destruct (ffail (sched_cleanup tc PAct)); reflexivity. }
  rewrite (tuf_no_fail _ E3).
  destruct (tc_act_only tc) eqn:Eao.
  { unfold finish_with_cleanup. rewrite run_cleanup_spec. cbn [tuf ffail prev_of].
    rewrite !map_app. cbn [map fst]. rewrite !map_app, app_nil_r. rewrite <- !app_assoc. cbn [app]. rewrite <- !app_assoc.
    destruct (ffail (sched_cleanup tc PAct)); reflexivity. }
  rewrite !run_step_spec. rewrite !tuf_app, !ffail_app.
  destruct (ffail (sched_step tc (BeforeAssert, SMain))) as [f4|] eqn:E4.
  { apply ffail_sched_list in E4 as E4'. destruct E4' as [Hp Hk].
    assert (Hv : in_validation f4 = false /\ is_main_of BeforeAssert f4 = true
                 /\ prev_of false (Some f4) = PBeforeAssert).
    { unfold in_validation, is_main_of, prev_of. cbn in Hp, Hk. rewrite Hp, Hk. repeat split. }
    destruct Hv as (-> & -> & ->).
    rewrite run_cleanup_spec.
    rewrite !map_app. cbn [map fst]. rewrite !map_app. rewrite <- !app_assoc. cbn [app]. rewrite <- !app_assoc.
    reflexivity. }
  rewrite (tuf_no_fail _ E4).
  unfold finish_with_cleanup. rewrite run_cleanup_spec.
  destruct (ffail (sched_step tc (Assert, SMain))) as [f5|] eqn:E5.
  { apply ffail_sched_list in E5 as E5'. destruct E5' as [Hp Hk].
    assert (Hv : in_validation f5 = false /\ is_main_of BeforeAssert f5 = false /\ is_main_of Assert f5 = true
                 /\ prev_of false (Some f5) = PAssert).
    { unfold in_validation, is_main_of, prev_of. cbn in Hp, Hk. rewrite Hp, Hk. repeat split. }
    destruct Hv as (-> & -> & -> & ->).
    rewrite !map_app. cbn [map fst]. rewrite !map_app. rewrite <- !app_assoc. cbn [app]. rewrite <- !app_assoc.
    destruct (ffail (sched_cleanup tc PAssert)); reflexivity. }
  rewrite (tuf_no_fail _ E5). cbn [prev_of].
  rewrite !map_app. cbn [map fst]. rewrite !map_app. rewrite <- !app_assoc. cbn [app]. rewrite <- !app_assoc.
  destruct (ffail (sched_cleanup tc PAssert)); reflexivity.
Qed.

Theorem full_execute_refines_spec tc : full_execute tc = spec_full tc.
Proof.
  unfold full_execute, spec_full. rewrite run_step_spec.
  destruct (ffail (sched_step tc (Conf, SMain))) as [f|] eqn:E; [reflexivity|].
  rewrite (tuf_no_fail _ E), partial_execute_refines_spec.
  destruct (tc_status tc); try reflexivity; destruct (spec_partial tc); reflexivity.
Qed.
