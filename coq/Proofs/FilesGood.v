(** C15: [populate] keeps the tree well formed (unique names in every directory, every name a plain
    component); with the round-trip theorem this gives populate-then-[matches -full]. *)
From Coq Require Import NArith ZArith List Bool Arith Lia Permutation.
From Exactly Require Import Lib.Tree Model.Files Spec.C15 Proofs.FilesPopulate Proofs.FilesDenote Proofs.FilesSafe
  Proofs.FilesGen Proofs.FilesMatch Proofs.FilesWf Proofs.FilesRoundTrip.
Import ListNotations.

Definition good (t : tree) : Prop := wf_tree t /\ plain_tree t.

Lemma plain_tree_Dir : forall es, plain_tree (Dir es) <-> Forall (fun p => plain_component (fst p) /\ plain_tree (snd p)) es.
Proof.
  intros es. cbn [plain_tree]. induction es as [|p es IH]; [split; [constructor | trivial]|].
  rewrite IH. split; [intros [H1 [H2 H3]]; constructor; [split|]; assumption | intros H; inversion H as [|? ? [H1 H2] H3]; auto].
Qed.

Lemma good_Dir : forall es, good (Dir es) <-> NoDup (names es) /\ Forall (fun p => plain_component (fst p) /\ good (snd p)) es.
Proof.
  intros es. unfold good. rewrite wf_tree_Dir, plain_tree_Dir. unfold wf_dirc. rewrite !Forall_forall. split.
  - intros [[N W] P]. split; [exact N|]. intros p Hp. destruct (P p Hp) as [P1 P2].
    split; [exact P1 | split; [apply W; exact Hp | exact P2]].
  - intros [N G]. split; [split; [exact N|] |]; intros p Hp; destruct (G p Hp) as [P1 [P2 P3]]; [exact P2 | split; assumption].
Qed.

Lemma good_lookup : forall n es c, good (Dir es) -> lookup n es = Some c -> good c.
Proof. intros n es c G L. apply good_Dir in G as [_ F]. rewrite Forall_forall in F. apply lookup_In in L. apply (F (n, c) L). Qed.

Lemma names_update : forall n (c : tree) es, names (update n c es) = names es.
Proof. induction es as [|[k w] es IH]; [reflexivity|]. cbn [update]. destruct (name_eqb k n); unfold names in *; cbn [map fst]; [reflexivity | rewrite IH; reflexivity]. Qed.

Lemma good_update : forall n c es, good (Dir es) -> good c -> good (Dir (update n c es)).
Proof.
  intros n c es G Gc. apply good_Dir in G as [N F]. apply good_Dir. rewrite names_update. split; [exact N|].
  clear N. induction es as [|[k w] es IH]; [constructor|]. inversion F as [|? ? [Pk Gw] Fes]; subst. cbn [update].
  destruct (name_eqb k n); constructor; cbn [fst snd] in *; auto.
Qed.

Lemma good_app : forall n c es, good (Dir es) -> good c -> plain_component n -> lookup n es = None -> good (Dir (es ++ [(n, c)])).
Proof.
  intros n c es G Gc Pn L. apply good_Dir in G as [N F]. apply good_Dir. split.
  - unfold names. rewrite map_app. apply NoDup_app_intro; [exact N | constructor; [intros [] | constructor]|].
    intros x Hx [<-|[]]. apply lookup_None in L. contradiction.
  - apply Forall_app. split; [exact F | constructor; [split; assumption | constructor]].
Qed.

Lemma good_chain : forall q, Forall plain_component q -> good (chain q).
Proof.
  induction q as [|n q IH]; intros F; cbn [chain].
  - apply good_Dir. split; constructor.
  - inversion F as [|? ? Pn Fq]; subst. apply good_Dir. split; [cbn; constructor; [intros [] | constructor]|].
    constructor; [split; [exact Pn | apply IH; exact Fq] | constructor].
Qed.

Lemma mkdirs_good : forall p st, good st -> Forall plain_component p ->
  match mkdirs p st with MOk st' => good st' | _ => True end.
Proof.
  induction p as [|n p IH]; intros st G F; destruct st as [c|es|l]; cbn [mkdirs]; try exact I; [exact G| | |].
  - destruct (resolve (Link l)) as [[?|?|?]|]; exact I.
  - inversion F as [|? ? Pn Fp]; subst. destruct (lookup n es) as [c|] eqn:E.
    + specialize (IH c (good_lookup _ _ _ G E) Fp). destruct (mkdirs p c); try exact I. apply good_update; assumption.
    + apply good_app; [exact G | apply good_chain; exact Fp | exact Pn | exact E].
  - destruct (resolve (Link l)) as [[?|?|?]|]; exact I.
Qed.

Lemma alter_good : forall p f st st', good st -> (forall x x', good x -> f x = Some x' -> good x') ->
  alter p f st = Some st' -> good st'.
Proof.
  induction p as [|n p IH]; intros f st st' G Hf E; cbn [alter] in E; [eapply Hf; eassumption|].
  destruct st as [c|es|l]; try discriminate. destruct (lookup n es) as [c|] eqn:El; [|discriminate].
  destruct (alter p f c) as [c'|] eqn:Ea; [|discriminate]. injection E as <-.
  apply good_update; [exact G|]. eapply IH; [eapply good_lookup; eassumption | exact Hf | exact Ea].
Qed.

Lemma add_entry_good : forall n new x x', good new -> plain_component n -> good x -> add_entry n new x = Some x' -> good x'.
Proof.
  intros n new x x' Gn Pn Gx E. unfold add_entry in E. destruct x as [c|es|l]; try discriminate.
  destruct (lookup n es) eqn:El; [discriminate|]. injection E as <-. apply good_app; assumption.
Qed.

Lemma create_good : forall p new st, good st -> good new -> Forall plain_component p -> good (fst (create p new st)).
Proof.
  intros p new st G Gn F. unfold create.
  destruct (lstat p st); cbn [fst]; try exact G;
    (destruct (split_last p) as [[q l]|] eqn:Es; cbn [fst]; [|exact G];
     rewrite (split_last_app_inv _ _ _ Es) in F; apply Forall_app in F as [Fq Fl]; inversion Fl as [|? ? Pl _]; subst;
     pose proof (mkdirs_good q st G Fq) as M; destruct (mkdirs q st) as [st1| |]; cbn [fst]; try exact G;
     destruct (alter q (add_entry l new) st1) as [st2|] eqn:Ea; cbn [fst]; [|exact M];
     eapply alter_good; [exact M | | exact Ea]; intros x x' Gx; apply add_entry_good; assumption).
Qed.

Lemma deref_good : forall t c, good t -> fst (deref t) = Some c -> good c.
Proof.
  induction t as [c0|es IH| |t IH] using tree_ind'; intros c G E.
  - cbn in E. injection E as <-. exact G.
  - rewrite deref_Dir in E. cbn [fst] in E. injection E as <-. apply good_Dir in G as [N F]. apply good_Dir.
    assert (forall n, In n (names (fst (deref_list es))) -> In n (names es)) as Sub.
    { clear. induction es as [|p es IHes]; intros n Hn; cbn [deref_list fst] in Hn; [exact Hn|].
      destruct (fst (deref (snd p))); cbn [names map fst] in *; [destruct Hn as [<-|Hn]; [left; reflexivity | right; apply IHes; exact Hn] | right; apply IHes; exact Hn]. }
    induction es as [|p es IHes]; [split; constructor|].
    inversion IH as [|? ? Hp Hes]; subst. cbn [names map] in N. inversion N as [|? ? Hn Nes]; subst. inversion F as [|? ? [Pp Gp] Fes]; subst.
    assert (forall n, In n (names (fst (deref_list es))) -> In n (names es)) as Sub'.
    { clear -Sub. intros n Hn. clear Sub. revert n Hn. induction es as [|q es IHes]; intros n Hn; cbn [deref_list fst] in Hn; [exact Hn|].
      destruct (fst (deref (snd q))); cbn [names map fst] in *; [destruct Hn as [<-|Hn]; [left; reflexivity | right; apply IHes; exact Hn] | right; apply IHes; exact Hn]. }
    destruct (IHes Hes Nes Fes Sub') as [N' F']. cbn [deref_list fst].
    destruct (fst (deref (snd p))) as [c|] eqn:Ed; [|split; assumption]. split.
    + cbn [names map fst]. constructor; [|exact N']. intros Hin. apply Hn. apply Sub'. exact Hin.
    + constructor; [|exact F']. cbn [fst snd]. split; [exact Pp | exact (Hp c Gp eq_refl)].
  - discriminate.
  - cbn [deref] in E. apply IH; [exact G | exact E].
Qed.


Lemma copy_into_good : forall src p st, good (Dir src) -> good st -> good (fst (copy_into src p st)).
Proof.
  induction src as [|[n s] src IH]; intros p st Gs G; cbn [copy_into]; [exact G|].
  apply good_Dir in Gs as [N F]. cbn [names map fst] in N. inversion N as [|? ? Hn Nsrc]; subst. inversion F as [|? ? [Pn Gn] Fsrc]; subst.
  cbn [fst snd] in *.
  destruct (lstat (p ++ [n]) st); cbn [fst]; try exact G.
  destruct (deref s) as [[c|] er] eqn:Ed; cbn [fst]; [|exact G].
  destruct (alter p (add_entry n c) st) as [st1|] eqn:Ea; cbn [fst]; [|exact G].
  assert (good st1) as G1.
  { eapply alter_good; [exact G | | exact Ea]. intros x x' Gx. apply add_entry_good; [|exact Pn|exact Gx].
    apply (deref_good s); [exact Gn | rewrite Ed; reflexivity]. }
  destruct er; cbn [fst]; [exact G1|]. apply IH; [|exact G1]. apply good_Dir. split; assumption.
Qed.

(** the sources of the [dir-contents-of] entries are well formed *)
Fixpoint sources_good (e : entry) : Prop :=
  match e with
  | EDirCopy _ _ src => good (Dir src)
  | EDirList _ _ es => (fix go (es : list entry) : Prop := match es with [] => True | e' :: es' => sources_good e' /\ go es' end) es
  | _ => True
  end.

Lemma sources_good_list : forall nm md es, sources_good (EDirList nm md es) <-> Forall sources_good es.
Proof.
  intros nm md es. cbn [sources_good]. induction es as [|e es IH]; [split; [constructor | trivial]|].
  rewrite IH. split; [intros [H1 H2]; constructor; assumption | intros H; inversion H; auto].
Qed.

Definition make_good_stmt (e : entry) : Prop :=
  sources_good e -> forall base st, good st -> Forall plain_component base -> good (fst (make e base st)).

Lemma populate_good_of : forall es, Forall make_good_stmt es -> Forall sources_good es ->
  forall base st, good st -> Forall plain_component base -> good (fst (populate es base st)).
Proof.
  induction es as [|e es IH]; intros F S base st G B; cbn [populate]; [exact G|].
  inversion F as [|? ? He Fes]; subst. inversion S as [|? ? Se Ses]; subst.
  pose proof (He Se base st G B) as G1. destruct (make e base st) as [st1 [| |]]; cbn [fst] in *; [apply IH; assumption | exact G1 | exact G1].
Qed.

Lemma make_good : forall e, make_good_stmt e.
Proof.
  induction e as [nm m|nm|nm md es IH|nm md src] using entry_ind'; intros S base st G B; rewrite make_eq; cbn zeta; cbn [entry_name];
    (destruct (name_escapes nm); [exact G|]);
    assert (Forall plain_component (base ++ posix_parts nm)) as Fp by (apply Forall_app; split; [exact B | apply posix_parts_plain]).
  - destruct m as [[[|] c]|]; try (apply create_good; [exact G | split; exact I | exact Fp]).
    destruct (stat_existing (base ++ posix_parts nm) st); cbn [fst]; try exact G.
    destruct (alter (base ++ posix_parts nm) (append_text c) st) as [st1|] eqn:Ea; cbn [fst]; [|exact G].
    eapply alter_good; [exact G | | exact Ea]. intros x x' _ E. unfold append_text in E. destruct x; try discriminate.
    injection E as <-. split; exact I.
  - apply create_good; [exact G | apply good_Dir; split; constructor | exact Fp].
  - apply sources_good_list in S. destruct md.
    + pose proof (create_good (base ++ posix_parts nm) (Dir []) st G (proj2 (good_Dir []) (conj (NoDup_nil _) (Forall_nil _))) Fp) as G1.
      destruct (create (base ++ posix_parts nm) (Dir []) st) as [st1 [| |]]; cbn [fst] in *; try exact G1.
      apply (populate_good_of es IH S); assumption.
    + destruct (stat_existing (base ++ posix_parts nm) st); cbn [fst]; try exact G.
      apply (populate_good_of es IH S); assumption.
  - cbn [sources_good] in S. destruct md.
    + pose proof (create_good (base ++ posix_parts nm) (Dir []) st G (proj2 (good_Dir []) (conj (NoDup_nil _) (Forall_nil _))) Fp) as G1.
      destruct (create (base ++ posix_parts nm) (Dir []) st) as [st1 [| |]]; cbn [fst] in *; try exact G1.
      apply copy_into_good; assumption.
    + destruct (stat_existing (base ++ posix_parts nm) st); cbn [fst]; try exact G.
      apply copy_into_good; assumption.
Qed.

Theorem populate_good : forall es base st, Forall sources_good es -> good st -> Forall plain_component base ->
  good (fst (populate es base st)).
Proof. intros es base st S. apply populate_good_of; [|exact S]. apply Forall_forall. intros e _. apply make_good. Qed.

(** Populate-then-match: after populating an empty directory from a validated FILE-LIST (copy
    sources well formed), [matches -full] of the complete typed listing of the result holds on its
    recursive contents - in the model of the code, for every order of directory listings. *)
Theorem populate_then_matches_full :
  forall es t, entries_valid es = true -> Forall sources_good es ->
    populate es [] (Dir []) = (t, Done) ->
    forall (scandir : path -> dirc -> dirc), (forall p l, Permutation (scandir p l) l) ->
    forall O abs,
      eval_fsm scandir O (SMatches true (cond_of (listing t [] abs))) (FsModel t abs (Rec None None) None None) = Ok true.
Proof.
  intros es t V S E scandir HP O abs.
  destruct (populate_safe es [] (Dir []) V eq_refl) as [LF _]. rewrite E in LF. cbn [fst] in LF.
  assert (good (Dir [])) as G0 by (apply good_Dir; split; constructor).
  pose proof (populate_good es [] (Dir []) S G0 (Forall_nil _)) as G. rewrite E in G. cbn [fst] in G. destruct G as [W P].
  apply (proj1 (proj2 (matchers_sound scandir HP O)) _ _ (SModel t abs (Rec None None) (fun _ => Some true) nf)).
  - constructor; cbn; try reflexivity; intros x b Hx; injection Hx as <-; reflexivity.
  - apply listing_matches_full; assumption.
Qed.
