(** C19: an expiry is a HARD_ERROR of exactly the step that started the process; afterwards only
    cleanup runs (proofs). *)
From Coq Require Import List Bool Arith NArith Lia.
From Exactly Require Import Lib.Harness Model.Outcome Model.Exec Model.World Model.Timeout Spec.C01 Spec.C19.
Import ListNotations.

(** ** The executor as "main part, then cleanup" *)
Definition tmain (tc : tcase) : list tev * option failure * tstate * prev_phase * bool :=
  let st0 := TS (t_default tc) None in
  let '(ts, st1, rs) := trun_list Setup None 0 st0 (t_setup tc) in
  match rs with
  | Some f => (ts, Some f, st1, PSetup, false)
  | None =>
      let t2 := ts ++ ok_steps tc (tl block_setup) in
      let (ta, xa) := spawn_all Act 0 (s_timeout st1) (act_procs tc st1) in
      let t3 := TEv (EInstr Act SExecute 0 None) :: ta in
      if xa then (t2 ++ t3, Some (Failure Act SExecute 0 FHard), st1, PAct, false)
      else if t_act_only tc then (t2 ++ t3, None, st1, PAct, true)
      else
        let '(t4, st2, r4) := trun_list BeforeAssert None 0 st1 (t_before_assert tc) in
        match r4 with
        | Some f => (t2 ++ t3 ++ t4, Some f, st2, PBeforeAssert, true)
        | None =>
            let '(t5, st3, r5) := trun_list Assert None 0 st2 (t_assert tc) in
            (t2 ++ t3 ++ t4 ++ t5, r5, st3, PAssert, true)
        end
  end.

(** which failure is reported: cleanup's, if it fails — except after a failure of before-assert *)
Definition combine (prev : prev_phase) (f0 rc : option failure) : option failure :=
  match prev with
  | PBeforeAssert => f0
  | _ => match rc with Some f' => Some f' | None => f0 end
  end.

Lemma texecute_st_shape tc :
  let '(tm, f0, stc, prev, atc) := tmain tc in
  texecute_st tc = (ok_steps tc block_validate ++ TEv ESandbox :: tm ++ fst (tcleanup tc prev stc),
                    PResult (combine prev f0 (snd (tcleanup tc prev stc))) true atc, stc).
Proof.
  unfold tmain, texecute_st.
  destruct (trun_list Setup None 0 (TS (t_default tc) None) (t_setup tc)) as [[ts st1] rs].
  destruct rs as [f|].
  - destruct (tcleanup tc PSetup st1) as [tcl rc]. cbn [fst snd combine]. destruct rc; reflexivity.
  - destruct (spawn_all Act 0 (s_timeout st1) (act_procs tc st1)) as [ta xa].
    destruct xa; [|destruct (t_act_only tc)].
    + destruct (tcleanup tc PAct st1) as [tcl rc]. cbn [fst snd combine]. rewrite <- !app_assoc. destruct rc; reflexivity.
    + destruct (tcleanup tc PAct st1) as [tcl rc]. cbn [fst snd combine]. rewrite <- !app_assoc. destruct rc; reflexivity.
    + destruct (trun_list BeforeAssert None 0 st1 (t_before_assert tc)) as [[t4 st2] r4].
      destruct r4 as [f|].
      * destruct (tcleanup tc PBeforeAssert st2) as [tcl rc]. cbn [fst snd combine]. rewrite <- !app_assoc. reflexivity.
      * destruct (trun_list Assert None 0 st2 (t_assert tc)) as [[t5 st3] r5].
        destruct (tcleanup tc PAssert st3) as [tcl rc]. cbn [fst snd combine]. rewrite <- !app_assoc.
        destruct rc; reflexivity.
Qed.

(** ** Where expired calls can be *)
Definition no_exp (t : list tev) : Prop := existsb is_expired_call t = false.
Definition exp_call (c : call) : Prop := expires (c_timeout c) (c_dur c) = true.
Definition site_failure (c : call) : failure :=
  Failure (c_phase c) (match c_phase c with Act => SExecute | _ => SMain end) (c_idx c) FHard.
(** [t] ends with the first expired call, which is [c] *)
Definition ends_exp (t : list tev) (c : call) : Prop :=
  exists pre, t = pre ++ [TCall c] /\ no_exp pre /\ exp_call c.

Lemma no_exp_app a b : no_exp a -> no_exp b -> no_exp (a ++ b).
Proof. unfold no_exp. intros Ha Hb. rewrite existsb_app, Ha, Hb. reflexivity. Qed.
Lemma no_exp_app_inv a b : no_exp (a ++ b) -> no_exp a /\ no_exp b.
Proof. unfold no_exp. rewrite existsb_app. intros H. apply orb_false_iff in H. exact H. Qed.
Lemma no_exp_ev e t : no_exp t -> no_exp (TEv e :: t).
Proof. unfold no_exp. cbn. auto. Qed.
Lemma no_exp_nil : no_exp [].
Proof. reflexivity. Qed.

Lemma ends_exp_prepend a t c : no_exp a -> ends_exp t c -> ends_exp (a ++ t) c.
Proof.
  intros Ha (pre & -> & Hp & Hc). exists (a ++ pre). rewrite app_assoc. split; [reflexivity|].
  split; [apply no_exp_app; assumption | exact Hc].
Qed.
Lemma ends_exp_cons_ev e t c : ends_exp t c -> ends_exp (TEv e :: t) c.
Proof. intros H. apply (ends_exp_prepend [TEv e] t c); [reflexivity | exact H]. Qed.

Lemma no_exp_ok_evs p k : forall n idx, no_exp (ok_evs p k idx n).
Proof. induction n as [|n IH]; intros idx; [reflexivity|]. cbn [ok_evs]. apply no_exp_ev, IH. Qed.
Lemma no_exp_ok_steps tc : forall ss, no_exp (ok_steps tc ss).
Proof.
  induction ss as [|s ss IH]; [reflexivity|]. unfold ok_steps. cbn [flat_map].
  apply no_exp_app; [apply no_exp_ok_evs | exact IH].
Qed.

Lemma spawn_all_exp p idx t : forall ds,
  let (l, x) := spawn_all p idx t ds in
  if x then exists c, ends_exp l c /\ c_phase c = p /\ c_idx c = idx else no_exp l.
Proof.
  induction ds as [|d ds IH]; [reflexivity|]. cbn [spawn_all]. destruct (expires t d) eqn:E.
  - exists (Call p idx t d). split; [|split; reflexivity]. exists []. split; [reflexivity|]. split; [reflexivity|exact E].
  - destruct (spawn_all p idx t ds) as [l x]. destruct x.
    + destruct IH as (c & He & Hp & Hi). exists c. split; [|split; assumption].
      apply (ends_exp_prepend [TCall (Call p idx t d)] l c); [|exact He]. unfold no_exp. cbn. rewrite E. reflexivity.
    + unfold no_exp in *. cbn. rewrite E. exact IH.
Qed.

Lemma trun_list_exp p prev : forall is_ idx st,
  let '(t, _, r) := trun_list p prev idx st is_ in
  (no_exp t) \/ (exists c, ends_exp t c /\ c_phase c = p /\ r = Some (Failure p SMain (c_idx c) FHard)).
Proof.
  induction is_ as [|i is_ IH]; intros idx st; [left; reflexivity|].
  cbn [trun_list]. destruct i as [v|ds|d|b]; cbn [main_of].
  - specialize (IH (S idx) (TS v (s_stdin st))).
    destruct (trun_list p prev (S idx) (TS v (s_stdin st)) is_) as [[t st''] r']. cbn [app].
    destruct IH as [H|(c & He & Hp & Hr)]; [left; apply no_exp_ev, H | right; exists c; split; [apply ends_exp_cons_ev, He | auto]].
  - pose proof (spawn_all_exp p idx (s_timeout st) ds) as Hs.
    destruct (spawn_all p idx (s_timeout st) ds) as [l x]. destruct x.
    + destruct Hs as (c & He & Hp & Hi). right. exists c. split; [apply ends_exp_cons_ev, He|]. split; [exact Hp|]. rewrite Hi. reflexivity.
    + specialize (IH (S idx) st). destruct (trun_list p prev (S idx) st is_) as [[t st''] r'].
      destruct IH as [H|(c & He & Hp & Hr)].
      * left. apply no_exp_ev, no_exp_app; assumption.
      * right. exists c. split; [apply ends_exp_cons_ev, ends_exp_prepend; assumption | auto].
  - specialize (IH (S idx) (TS (s_timeout st) (Some d))).
    destruct (trun_list p prev (S idx) (TS (s_timeout st) (Some d)) is_) as [[t st''] r']. cbn [app].
    destruct IH as [H|(c & He & Hp & Hr)]; [left; apply no_exp_ev, H | right; exists c; split; [apply ends_exp_cons_ev, He | auto]].
  - destruct (outcome b).
    + left. reflexivity.
    + specialize (IH (S idx) st). destruct (trun_list p prev (S idx) st is_) as [[t st''] r']. cbn [app].
      destruct IH as [H|(c & He & Hp & Hr)]; [left; apply no_exp_ev, H | right; exists c; split; [apply ends_exp_cons_ev, He | auto]].
Qed.

(** failures of an instruction list name that phase's main step *)
Lemma trun_list_failure p prev : forall is_ idx st f,
  snd (trun_list p prev idx st is_) = Some f -> f_phase f = p /\ f_step f = SMain.
Proof.
  induction is_ as [|i is_ IH]; intros idx st f; [discriminate|].
  cbn [trun_list]. destruct (main_of p idx st i) as [[l st'] r]. destruct r as [s|].
  - cbn. intros H. injection H as <-. split; reflexivity.
  - specialize (IH (S idx) st' f). destruct (trun_list p prev (S idx) st' is_) as [[t st''] r']. exact IH.
Qed.

Lemma tcleanup_exp tc prev st :
  let (tcl, rc) := tcleanup tc prev st in
  no_exp tcl \/ (exists c, ends_exp tcl c /\ c_phase c = Cleanup /\ rc = Some (site_failure c)).
Proof.
  unfold tcleanup. pose proof (trun_list_exp Cleanup (Some prev) (t_cleanup tc) 0 st) as H.
  destruct (trun_list Cleanup (Some prev) 0 st (t_cleanup tc)) as [[t st'] r].
  destruct H as [H|(c & He & Hp & Hr)]; [left; apply no_exp_ev, H|].
  right. exists c. split; [apply ends_exp_cons_ev, He|]. split; [exact Hp|]. unfold site_failure. rewrite Hp. exact Hr.
Qed.

Lemma tcleanup_failure tc prev st f : snd (tcleanup tc prev st) = Some f -> f_phase f = Cleanup.
Proof.
  unfold tcleanup. pose proof (trun_list_failure Cleanup (Some prev) (t_cleanup tc) 0 st f) as H.
  destruct (trun_list Cleanup (Some prev) 0 st (t_cleanup tc)) as [[t st'] r]. cbn [snd] in *. intros E. apply H, E.
Qed.

Lemma tmain_exp tc :
  let '(tm, f0, _, prev, _) := tmain tc in
  (prev = PBeforeAssert -> exists f, f0 = Some f /\ f_phase f = BeforeAssert) /\
  (no_exp tm \/
   exists c, ends_exp tm c /\ c_phase c <> Cleanup /\ f0 = Some (site_failure c) /\
             (prev = PBeforeAssert -> c_phase c = BeforeAssert) /\ (c_phase c = BeforeAssert -> prev = PBeforeAssert)).
Proof.
  unfold tmain.
  pose proof (trun_list_exp Setup None (t_setup tc) 0 (TS (t_default tc) None)) as HS.
  destruct (trun_list Setup None 0 (TS (t_default tc) None) (t_setup tc)) as [[ts st1] rs].
  destruct rs as [f|].
  - split; [discriminate|]. destruct HS as [H|(c & He & Hp & Hr)]; [left; exact H|].
    right. exists c. unfold site_failure. rewrite Hp. repeat split; try discriminate; try assumption.
  - assert (Hts : no_exp ts). { destruct HS as [H|(c & _ & _ & Hr)]; [exact H | discriminate]. }
    assert (Ht2 : no_exp (ts ++ ok_steps tc (tl block_setup))) by (apply no_exp_app; [exact Hts | apply no_exp_ok_steps]).
    pose proof (spawn_all_exp Act 0 (s_timeout st1) (act_procs tc st1)) as HA.
    destruct (spawn_all Act 0 (s_timeout st1) (act_procs tc st1)) as [ta xa].
    destruct xa; [|destruct (t_act_only tc)].
    + split; [discriminate|]. destruct HA as (c & He & Hp & Hi). right. exists c. split.
      * apply ends_exp_prepend; [exact Ht2|]. apply ends_exp_cons_ev, He.
      * unfold site_failure. rewrite Hp, Hi. repeat split; try discriminate.
    + split; [discriminate|]. left. apply no_exp_app; [exact Ht2|]. apply no_exp_ev, HA.
    + pose proof (trun_list_exp BeforeAssert None (t_before_assert tc) 0 st1) as HB.
      pose proof (trun_list_failure BeforeAssert None (t_before_assert tc) 0 st1) as HBf.
      destruct (trun_list BeforeAssert None 0 st1 (t_before_assert tc)) as [[t4 st2] r4]. cbn [snd] in HBf.
      assert (Ht3 : no_exp (TEv (EInstr Act SExecute 0 None) :: ta)) by (apply no_exp_ev, HA).
      destruct r4 as [f|].
      * split; [intros _; exists f; split; [reflexivity | apply (HBf f eq_refl)]|].
        destruct HB as [H|(c & He & Hp & Hr)].
        -- left. apply no_exp_app; [exact Ht2|]. apply no_exp_app; assumption.
        -- right. exists c. split; [apply ends_exp_prepend; [exact Ht2|]; apply ends_exp_prepend; assumption|].
           unfold site_failure. rewrite Hp. repeat split; try discriminate; try assumption.
      * assert (Ht4 : no_exp t4). { destruct HB as [H|(c & _ & _ & Hr)]; [exact H | discriminate]. }
        pose proof (trun_list_exp Assert None (t_assert tc) 0 st2) as HC.
        destruct (trun_list Assert None 0 st2 (t_assert tc)) as [[t5 st3] r5].
        split; [discriminate|].
        destruct HC as [H|(c & He & Hp & Hr)].
        -- left. apply no_exp_app; [exact Ht2|]. apply no_exp_app; [exact Ht3|]. apply no_exp_app; assumption.
        -- right. exists c. split; [repeat (apply ends_exp_prepend; [assumption|]); exact He|].
           unfold site_failure. rewrite Hp. repeat split; try discriminate; try assumption.
Qed.

(** the first expired call of a trace is unique *)
Lemma first_exp_unique : forall A c1 B pre c post,
  A ++ TCall c1 :: B = pre ++ TCall c :: post ->
  no_exp A -> exp_call c1 -> no_exp pre -> exp_call c -> A = pre /\ c1 = c /\ B = post.
Proof.
  unfold no_exp, exp_call.
  induction A as [|a A IH]; intros c1 B pre c post E HA H1 Hp Hc.
  - destruct pre as [|x pre]; cbn in E.
    + injection E as -> ->. auto.
    + injection E as <- _. cbn in Hp. rewrite H1 in Hp. discriminate.
  - destruct pre as [|x pre]; cbn in E.
    + injection E as -> _. cbn in HA. rewrite Hc in HA. discriminate.
    + injection E as -> E. cbn in HA, Hp. apply orb_false_iff in HA as [_ HA]. apply orb_false_iff in Hp as [_ Hp].
      destruct (IH c1 B pre c post E HA H1 Hp Hc) as (-> & -> & ->). auto.
Qed.

(** what may follow an expiry: cleanup only *)
Definition only_cleanup (x : tev) : bool :=
  match x with
  | TEv (ECleanupBegin _) => true
  | TEv (EInstr Cleanup SMain _ _) => true
  | TCall c => phase_eqb (c_phase c) Cleanup
  | _ => false
  end.

Lemma spawn_all_phase p idx t : forall ds x, In x (fst (spawn_all p idx t ds)) -> exists c, x = TCall c /\ c_phase c = p.
Proof.
  induction ds as [|d ds IH]; intros x; [contradiction|]. cbn [spawn_all]. destruct (expires t d).
  - intros [<-|[]]. eexists. split; reflexivity.
  - destruct (spawn_all p idx t ds) as [l y]. cbn [fst] in *. intros [<-|H]; [eexists; split; reflexivity | apply IH, H].
Qed.

Lemma trun_list_cleanup_only prev : forall is_ idx st,
  forallb only_cleanup (fst (fst (trun_list Cleanup (Some prev) idx st is_))) = true.
Proof.
  induction is_ as [|i is_ IH]; intros idx st; [reflexivity|].
  cbn [trun_list].
  assert (Hl : forallb only_cleanup (fst (fst (main_of Cleanup idx st i))) = true).
  { destruct i as [v|ds|d|b]; cbn [main_of]; try reflexivity.
    pose proof (spawn_all_phase Cleanup idx (s_timeout st) ds) as Hp.
    destruct (spawn_all Cleanup idx (s_timeout st) ds) as [l x]. cbn [fst] in *.
    apply forallb_forall. intros y Hy. destruct (Hp y Hy) as (c & -> & Hc). cbn. rewrite Hc. reflexivity. }
  destruct (main_of Cleanup idx st i) as [[l st'] r]. cbn [fst] in Hl. destruct r as [s|].
  - cbn [fst forallb only_cleanup]. exact Hl.
  - specialize (IH (S idx) st'). destruct (trun_list Cleanup (Some prev) (S idx) st' is_) as [[t st''] r'].
    cbn [fst] in *. cbn [forallb only_cleanup]. rewrite forallb_app, Hl, IH. reflexivity.
Qed.

Lemma tcleanup_only tc prev st : forallb only_cleanup (fst (tcleanup tc prev st)) = true.
Proof.
  unfold tcleanup. pose proof (trun_list_cleanup_only prev (t_cleanup tc) 0 st) as H.
  destruct (trun_list Cleanup (Some prev) 0 st (t_cleanup tc)) as [[t st'] r]. cbn [fst] in *. cbn. exact H.
Qed.

(** ** An expiry is a HARD_ERROR of exactly that step; only cleanup follows *)
Theorem expiry_is_hard_error tc pre c post :
  fst (texecute tc) = pre ++ TCall c :: post ->
  exp_call c -> no_exp pre ->
  forallb only_cleanup post = true /\
  (c_phase c = Cleanup -> post = []) /\
  (c_phase c <> Cleanup -> exists prev, post = fst (tcleanup tc prev (cleanup_entry tc))) /\
  exists f, pr_failure (snd (texecute tc)) = Some f /\
    (f = site_failure c \/
     (c_phase c <> Cleanup /\ c_phase c <> BeforeAssert /\ f_phase f = Cleanup) \/
     (c_phase c = Cleanup /\ f_phase f = BeforeAssert)).
Proof.
  intros E Hc Hpre. unfold texecute, cleanup_entry in *.
  pose proof (texecute_st_shape tc) as Hs. pose proof (tmain_exp tc) as Hm.
  destruct (tmain tc) as [[[[tm f0] stc] prev] atc]. rewrite Hs in *. cbn [fst snd pr_failure] in *. clear Hs.
  pose proof (tcleanup_exp tc prev stc) as Hcl. pose proof (tcleanup_only tc prev stc) as Hoc.
  pose proof (tcleanup_failure tc prev stc) as Hcf.
  destruct (tcleanup tc prev stc) as [tcl rc] eqn:Etc. cbn [fst snd] in *.
  assert (HV : no_exp (ok_steps tc block_validate ++ [TEv ESandbox])).
  { apply no_exp_app; [apply no_exp_ok_steps | reflexivity]. }
  destruct Hm as [Hba [Hm|(c1 & (pm & -> & Hpm & Hc1) & Hnc & Hf0 & Hb1 & Hb2)]].
  - (* no expiry outside cleanup: it is in cleanup *)
    destruct Hcl as [Hcl|(c1 & (pc & -> & Hpc & Hc1) & Hp1 & Hrc)].
    + exfalso. assert (Hall : no_exp (ok_steps tc block_validate ++ TEv ESandbox :: tm ++ tcl)).
      { apply no_exp_app; [apply no_exp_ok_steps|]. apply no_exp_ev, no_exp_app; assumption. }
      rewrite E in Hall. apply no_exp_app_inv in Hall as [_ Hall]. unfold no_exp in Hall. cbn in Hall.
      unfold exp_call in Hc. rewrite Hc in Hall. discriminate.
    + assert (E' : (ok_steps tc block_validate ++ TEv ESandbox :: tm ++ pc) ++ TCall c1 :: [] = pre ++ TCall c :: post).
      { rewrite <- E. rewrite <- !app_assoc. cbn. rewrite <- !app_assoc. reflexivity. }
      apply first_exp_unique in E' as (_ & -> & <-); try assumption.
      2:{ apply no_exp_app; [apply no_exp_ok_steps|]. apply no_exp_ev, no_exp_app; assumption. }
      split; [reflexivity|]. split; [reflexivity|]. split; [intros Hx; contradiction|].
      destruct prev; cbn [combine]; rewrite ?Hrc; try (eexists; split; [reflexivity | left; reflexivity]).
      destruct (Hba eq_refl) as (f & -> & Hf). exists f. split; [reflexivity|]. right. right. auto.
  - (* the first expiry is outside cleanup; what follows is the cleanup part *)
    assert (E' : (ok_steps tc block_validate ++ TEv ESandbox :: pm) ++ TCall c1 :: tcl = pre ++ TCall c :: post).
    { rewrite <- E. rewrite <- !app_assoc. cbn. rewrite <- !app_assoc. reflexivity. }
    apply first_exp_unique in E' as (_ & -> & <-); try assumption.
    2:{ apply no_exp_app; [apply no_exp_ok_steps|]. apply no_exp_ev, Hpm. }
    split; [exact Hoc|]. split; [intros Hx; contradiction|]. split; [intros _; exists prev; rewrite Etc; reflexivity|].
    subst f0. destruct prev eqn:Eprev; cbn [combine].
    + destruct rc as [f'|]; [|eexists; split; [reflexivity | left; reflexivity]].
      exists f'. split; [reflexivity|]. right. left. split; [exact Hnc|]. split; [|apply Hcf; reflexivity].
      intros Hx. specialize (Hb2 Hx). discriminate.
    + destruct rc as [f'|]; [|eexists; split; [reflexivity | left; reflexivity]].
      exists f'. split; [reflexivity|]. right. left. split; [exact Hnc|]. split; [|apply Hcf; reflexivity].
      intros Hx. specialize (Hb2 Hx). discriminate.
    + eexists; split; [reflexivity | left; reflexivity].
    + destruct rc as [f'|]; [|eexists; split; [reflexivity | left; reflexivity]].
      exists f'. split; [reflexivity|]. right. left. split; [exact Hnc|]. split; [|apply Hcf; reflexivity].
      intros Hx. specialize (Hb2 Hx). discriminate.
Qed.
