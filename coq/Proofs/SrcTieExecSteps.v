(** * Source tie, target ExecSteps (C01): the [_from_*] translators of execution/impl/phase_step_executors.py, with the
    result classes of test_case/result/{svh,sh,pfh}.py and PartialInstructionControlledFailureInfo, as translated from the
    current source (Gen/Src_ExecSteps.v) against [outcome] of Model/Exec.v (the behaviours an instruction step can
    RETURN: [BOk], [BValErr], [BHardRet], [BFail]; raised exceptions are handled elsewhere, not translated). *)
From Coq Require Import ZArith List Bool String.
From Exactly Require Import Lib.PyVal Model.Outcome Model.Exec Gen.Src_ExecSteps Proofs.PyValLemmas.
Import ListNotations.
Local Open Scope Z_scope.
Local Open Scope string_scope.

(** PartialControlledFailureEnum; the values are those of ExecutionFailureStatus (Proofs/SrcTieOutcomeEnc.enc_fail) *)
Definition enc_pcf (f : fail_status) : pyval :=
  match f with
  | FValidation => VEnum "single_instruction_executor.PartialControlledFailureEnum" "VALIDATION_ERROR" (VInt 1)
  | FFail => VEnum "single_instruction_executor.PartialControlledFailureEnum" "FAIL" (VInt 2)
  | FHard => VEnum "single_instruction_executor.PartialControlledFailureEnum" "HARD_ERROR" (VInt 99)
  | _ => VErr    (* SYNTAX_ERROR and INTERNAL_ERROR are not "controlled" failures: no member *)
  end.

(** what [ControlledInstructionExecutor.apply] returns: None, or the failure with its message *)
Definition enc_outcome (o : option fail_status) (msg : pyval) : pyval :=
  match o with
  | None => VNone
  | Some f => VObj "single_instruction_executor.PartialInstructionControlledFailureInfo" [enc_pcf f; msg]
  end.

Lemma tie_pcf_members :
  py_single_instruction_executor_PartialControlledFailureEnum_members = map enc_pcf [FValidation; FFail; FHard].
Proof. reflexivity. Qed.

Section Msg.
  Variable msg : pyval.
  Hypothesis (Hok : py_ok msg = true) (Hnn : msg <> VNone).

  Lemma not_none : py_is_none msg = VBool false.
  Proof. destruct msg; try reflexivity; try discriminate; congruence. Qed.

  (** svh: success / validation error / hard error *)
  Theorem tie_from_svh :
    py_phase_step_executors__from_success_or_validation_error_or_hard_error py_svh_new_svh_success
    = enc_outcome (outcome BOk) msg /\
    py_phase_step_executors__from_success_or_validation_error_or_hard_error (py_svh_new_svh_validation_error msg)
    = enc_outcome (outcome BValErr) msg /\
    py_phase_step_executors__from_success_or_validation_error_or_hard_error (py_svh_new_svh_hard_error msg)
    = enc_outcome (outcome BHardRet) msg.
  Proof.
    split; [reflexivity|].
    unfold py_svh_new_svh_validation_error, py_svh_new_svh_hard_error,
      py_phase_step_executors__from_success_or_validation_error_or_hard_error.
    split; pyoks; rewrite not_none; pyoks; rewrite ?not_none; pyoks; reflexivity.
  Qed.

  (** sh: success / hard error *)
  Theorem tie_from_sh :
    py_phase_step_executors__from_success_or_hard_error py_sh_new_sh_success = enc_outcome (outcome BOk) msg /\
    py_phase_step_executors__from_success_or_hard_error (py_sh_new_sh_hard_error msg) = enc_outcome (outcome BHardRet) msg.
  Proof.
    split; [reflexivity|].
    unfold py_sh_new_sh_hard_error, py_phase_step_executors__from_success_or_hard_error, py_sh_SuccessOrHardError.
    pyoks; rewrite not_none; pyoks; rewrite ?not_none; pyoks; reflexivity.
  Qed.

  (** pfh: pass / fail / hard error (the status is carried over BY VALUE: PartialControlledFailureEnum(res.status.value)) *)
  Theorem tie_from_pfh :
    py_phase_step_executors__from_pass_or_fail_or_hard_error py_pfh_new_pfh_pass = enc_outcome (outcome BOk) msg /\
    py_phase_step_executors__from_pass_or_fail_or_hard_error (py_pfh_new_pfh_fail msg) = enc_outcome (outcome BFail) msg /\
    py_phase_step_executors__from_pass_or_fail_or_hard_error (py_pfh_new_pfh_hard_error msg) = enc_outcome (outcome BHardRet) msg.
  Proof.
    split; [reflexivity|].
    unfold py_pfh_new_pfh_fail, py_pfh_new_pfh_hard_error, py_phase_step_executors__from_pass_or_fail_or_hard_error,
      py_pfh_PassOrFailOrHardError.
    split; pyoks; cbn [Z.eqb Pos.eqb]; unfold py_single_instruction_executor_PartialInstructionControlledFailureInfo;
      pyoks; reflexivity.
  Qed.
End Msg.
