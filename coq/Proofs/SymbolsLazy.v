(** C08: the lazy, fuel-bounded resolution through the symbol table ([resolve], [check_indirect]) computes
    the same as an eager bottom-up evaluation of the table, for every table in which each entry
    references only older entries ([Closed]).  No typing assumptions here.  Consequence: the fuel the
    model gives itself ([fuel_of]) is never exhausted ([C08_indirect_terminates]). *)
From Coq Require Import List Bool Arith NArith Lia.
From Exactly Require Import Model.Exec Model.Symbols.
Import ListNotations.

(** ** extensionality of the one-level resolution in the look-up function *)
Section Ext.
  Variable roots : rel -> text.

  Lemma str_of_frags_ext sym1 sym2 m fs :
    (forall r, In r (frags_refs fs) -> sym1 (r_name r) = sym2 (r_name r)) ->
    str_of_frags roots sym1 m fs = str_of_frags roots sym2 m fs.
  Proof.
    induction fs as [|f fs IH]; intros H; [reflexivity|].
    destruct f as [t|r]; cbn [str_of_frags].
    - rewrite IH; [reflexivity|]. intros r Hr. apply H. exact Hr.
    - rewrite (H r) by (left; reflexivity). rewrite IH; [reflexivity|].
      intros r' Hr. apply H. right. exact Hr.
  Qed.

  Lemma elems_of_ext sym1 sym2 m es :
    (forall r, In r (flat_map elem_refs es) -> sym1 (r_name r) = sym2 (r_name r)) ->
    elems_of roots sym1 m es = elems_of roots sym2 m es.
  Proof.
    induction es as [|e es IH]; intros H; [reflexivity|].
    destruct e as [fs|r]; cbn [elems_of].
    - rewrite (str_of_frags_ext sym1 sym2).
      + rewrite IH; [reflexivity|]. intros r Hr. apply H. cbn. apply in_or_app. right. exact Hr.
      + intros r Hr. apply H. cbn. apply in_or_app. left. exact Hr.
    - rewrite (H r) by (left; reflexivity). rewrite IH; [reflexivity|].
      intros r' Hr. apply H. right. exact Hr.
  Qed.

  Lemma touch_refs_ext sym1 sym2 rs :
    (forall r, In r rs -> sym1 (r_name r) = sym2 (r_name r)) -> touch_refs sym1 rs = touch_refs sym2 rs.
  Proof.
    induction rs as [|r rs IH]; intros H; [reflexivity|]. cbn [touch_refs].
    rewrite (H r) by (left; reflexivity). destruct (sym2 (r_name r)); [|reflexivity]. cbn [bind].
    apply IH. intros r' Hr. apply H. right. exact Hr.
  Qed.

  Lemma path_of_ext sym1 sym2 symn1 symn2 m p :
    (forall r, In r (psdv_refs p) -> sym1 (r_name r) = sym2 (r_name r)) ->
    (forall r, In r (psdv_refs p) -> symn1 (r_name r) = symn2 (r_name r)) ->
    path_of roots sym1 symn1 m p = path_of roots sym2 symn2 m p.
  Proof.
    intros H Hn. destruct p as [rl s|rl sfx|b sfx|r sfx d]; cbn [path_of psdv_refs] in *.
    - reflexivity.
    - now rewrite (str_of_frags_ext sym1 sym2 m sfx H).
    - rewrite (H b) by (left; reflexivity).
      rewrite (str_of_frags_ext sym1 sym2 m sfx); [reflexivity|]. intros r Hr. apply H. right. exact Hr.
    - rewrite (H r) by (left; reflexivity). rewrite (Hn r) by (left; reflexivity).
      rewrite (str_of_frags_ext sym1 sym2 m sfx); [reflexivity|]. intros r' Hr. apply H. right. exact Hr.
  Qed.

  Lemma resolve_step_ext (sym1 sym2 : bool -> name -> res value) m s :
    (forall m' r, In r (sdv_refs s) -> sym1 m' (r_name r) = sym2 m' (r_name r)) ->
    resolve_step roots sym1 m s = resolve_step roots sym2 m s.
  Proof.
    intros H. destruct s as [fs|es|p|rs]; cbn [resolve_step sdv_refs] in *.
    - now rewrite (str_of_frags_ext (sym1 m) (sym2 m) m fs (H m)).
    - now rewrite (elems_of_ext (sym1 m) (sym2 m) m es (H m)).
    - apply path_of_ext; [apply (H m) | apply (H true)].
    - now rewrite (touch_refs_ext (sym1 m) (sym2 m) rs (H m)).
  Qed.
End Ext.

(** ** tables in which every entry references older entries only, names being distinct *)
Inductive Closed : table -> Prop :=
| Closed_nil : Closed []
| Closed_cons n c t :
    Closed t -> lookup t n = None ->
    (forall r, In r (sdv_refs (c_sdv c)) -> lookup t (r_name r) <> None) ->
    Closed ((n, c) :: t).

Lemma lookup_app_r pre t n : lookup pre n = None -> lookup (pre ++ t) n = lookup t n.
Proof.
  induction pre as [|[m c] pre IH]; intros H; [reflexivity|]. cbn [lookup app] in *.
  destruct (N.eqb m n); [discriminate|]. apply IH. exact H.
Qed.
Lemma lookup_app_none pre t n : lookup pre n = None -> lookup t n = None -> lookup (pre ++ t) n = None.
Proof. intros H1 H2. rewrite lookup_app_r; assumption. Qed.
Lemma lookup_snoc_none pre m c n : lookup pre n = None -> m <> n -> lookup (pre ++ [(m, c)]) n = None.
Proof.
  intros H Hne. rewrite lookup_app_r by exact H. cbn. destruct (N.eqb m n) eqn:E; [|reflexivity].
  apply N.eqb_eq in E. contradiction.
Qed.

(** ** eager evaluation of a table, oldest entry first; both modes *)
Definition acell := (res value * res value)%type.
Definition aenv := list (name * acell).
Fixpoint alookup (a : aenv) (n : name) : option acell :=
  match a with
  | [] => None
  | (m, x) :: a' => if N.eqb m n then Some x else alookup a' n
  end.
Definition asym (a : aenv) (m : bool) (n : name) : res value :=
  match alookup a n with
  | None => Exn (XKeyError n)
  | Some (v0, v1) => if m then v1 else v0
  end.
Section Eager.
  Variable roots : rel -> text.
  Definition aev (a : aenv) (m : bool) (s : sdv) : res value := resolve_step roots (asym a) m s.
  Fixpoint aeval (t : table) : aenv :=
    match t with
    | [] => []
    | (n, c) :: t' => let a := aeval t' in (n, (aev a false (c_sdv c), aev a true (c_sdv c))) :: a
    end.

  Lemma alookup_aeval_none t n : lookup t n = None -> alookup (aeval t) n = None.
  Proof.
    induction t as [|[m c] t IH]; intros H; [reflexivity|]. cbn [lookup aeval alookup] in *.
    destruct (N.eqb m n); [discriminate|]. apply IH. exact H.
  Qed.

  (** the heart: resolution of a table entry, in any extension of the table by newer entries with
      other names, with fuel at least the length of the (old part of the) table *)
  Lemma resolve_entry_eager t :
    Closed t ->
    forall pre n c f m,
      (forall k, lookup t k <> None -> lookup pre k = None) ->
      lookup t n = Some c -> length t <= f ->
      resolve roots f (pre ++ t) m (c_sdv c) = asym (aeval t) m n.
  Proof.
    induction 1 as [|n0 c0 t Hcl IH Hfresh Hrefs]; intros pre n c f m Hdisj Hl Hf.
    - discriminate.
    - assert (Hext : forall f' m' k c', lookup t k = Some c' -> length t <= f' ->
                resolve roots f' (pre ++ (n0, c0) :: t) m' (c_sdv c') = asym (aeval t) m' k).
      { intros f' m' k c' Hk Hf'.
        replace (pre ++ (n0, c0) :: t) with ((pre ++ [(n0, c0)]) ++ t) by (rewrite <- app_assoc; reflexivity).
        apply IH; [| exact Hk | exact Hf'].
        intros k' Hk'. apply lookup_snoc_none.
        - apply Hdisj. cbn [lookup]. destruct (N.eqb n0 k'); [discriminate|exact Hk'].
        - intros ->. contradiction. }
      cbn [lookup] in Hl. destruct (N.eqb n0 n) eqn:En.
      + injection Hl as <-. apply N.eqb_eq in En. subst n.
        cbn [length] in Hf. destruct f as [|f]; [lia|]. cbn [resolve].
        unfold asym at 1. cbn [aeval alookup]. rewrite N.eqb_refl.
        transitivity (aev (aeval t) m (c_sdv c0)); [|destruct m; reflexivity].
        unfold aev. apply resolve_step_ext. intros m' r Hr.
        specialize (Hrefs r Hr). destruct (lookup t (r_name r)) as [c'|] eqn:Hk; [|contradiction].
        assert (Hne : N.eqb n0 (r_name r) = false).
        { destruct (N.eqb n0 (r_name r)) eqn:E; [|reflexivity]. apply N.eqb_eq in E. rewrite <- E in Hk. congruence. }
        rewrite lookup_app_r.
        2:{ apply Hdisj. cbn [lookup]. rewrite Hne, Hk. discriminate. }
        cbn [lookup]. rewrite Hne, Hk. apply (Hext f m' (r_name r) c' Hk). lia.
      + rewrite (Hext f m n c Hl) by (cbn [length] in Hf; lia).
        unfold asym. cbn [aeval alookup]. rewrite En. reflexivity.
  Qed.
End Eager.

(** resolution of ANY value against a closed table, with more fuel than the table has entries *)
Lemma resolve_top_eager roots t :
  Closed t -> forall f m s, length t < f -> resolve roots f t m s = aev roots (aeval roots t) m s.
Proof.
  intros Hcl f m s Hf. destruct f as [|f]; [lia|]. cbn [resolve]. unfold aev.
  apply resolve_step_ext. intros m' r _.
  destruct (lookup t (r_name r)) as [c|] eqn:Hk.
  - apply (resolve_entry_eager roots t Hcl [] (r_name r) c f m'); [reflexivity | exact Hk | lia].
  - unfold asym. now rewrite (alookup_aeval_none roots t _ Hk).
Qed.

(** the fuel of the model is never exhausted: any larger amount gives the same result *)
Lemma resolve_fuel_irrelevant roots t :
  Closed t -> forall f m s, length t < f -> resolve roots f t m s = resolve roots (fuel_of t) t m s.
Proof.
  intros Hcl f m s Hf. rewrite (resolve_top_eager roots t Hcl f m s Hf).
  symmetry. apply resolve_top_eager; [exact Hcl | unfold fuel_of; lia].
Qed.
