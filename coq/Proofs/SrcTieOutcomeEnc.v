(** * Encoding of the enumerations of Model/Outcome.v as Python enum members (Lib/PyVal.v), shared by the source
    ties of the targets Outcome (C02) and Reporters (C16).  Definitions only. *)
From Coq Require Import ZArith List String.
From Exactly Require Import Lib.PyVal Model.Outcome.
Import ListNotations.
Local Open Scope Z_scope.
Local Open Scope string_scope.

Definition enc_tc (m : tc_status) : pyval :=
  match m with
  | TPass => VEnum "test_case_status.TestCaseStatus" "PASS" (VInt 0)
  | TSkip => VEnum "test_case_status.TestCaseStatus" "SKIP" (VInt 1)
  | TFail => VEnum "test_case_status.TestCaseStatus" "FAIL" (VInt 2)
  end.

Definition enc_fail (f : fail_status) : pyval :=
  match f with
  | FSyntax => VEnum "result.ExecutionFailureStatus" "SYNTAX_ERROR" (VInt 3)
  | FValidation => VEnum "result.ExecutionFailureStatus" "VALIDATION_ERROR" (VInt 1)
  | FFail => VEnum "result.ExecutionFailureStatus" "FAIL" (VInt 2)
  | FHard => VEnum "result.ExecutionFailureStatus" "HARD_ERROR" (VInt 99)
  | FInternal => VEnum "result.ExecutionFailureStatus" "INTERNAL_ERROR" (VInt 100)
  end.
Definition enc_opt_fail (o : option fail_status) : pyval := match o with Some f => enc_fail f | None => VNone end.

(** the value of a member is part of the encoding: it is what [FullExeResultStatus(ps.value)] looks up *)
Definition full_value (s : full_status) : Z :=
  match s with
  | SYNTAX_ERROR => 3 | PASS => 0 | VALIDATION_ERROR => 1 | FAIL => 2 | SKIPPED => 77
  | XFAIL => 4 | XPASS => 5 | HARD_ERROR => 99 | INTERNAL_ERROR => 100
  end.
Definition enc_full (s : full_status) : pyval :=
  VEnum "result.FullExeResultStatus" (full_status_name s) (VInt (full_value s)).

Definition enc_access (a : access_error) : pyval :=
  match a with
  | FILE_ACCESS_ERROR => VEnum "test_case_processing.AccessErrorType" "FILE_ACCESS_ERROR" (VInt 1)
  | PRE_PROCESS_ERROR => VEnum "test_case_processing.AccessErrorType" "PRE_PROCESS_ERROR" (VInt 2)
  | ACC_SYNTAX_ERROR => VEnum "test_case_processing.AccessErrorType" "SYNTAX_ERROR" (VInt 3)
  end.
