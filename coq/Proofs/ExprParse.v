(** Completeness of the parser model: every permitted rendering of every tree parses to that tree,
    modulo [flatten]; for any number of precedence levels. *)
From Coq Require Import NArith List Bool Arith Lia.
From Exactly Require Import Lib.Harness Model.Expr Spec.C06.
Import ListNotations.
Local Open Scope N_scope.

(** ** Induction principle for the nested type [dexpr] *)
Lemma dexpr_ind' (P : dexpr -> Prop) :
  (forall nl w, P (DWord nl w)) ->
  (forall nl op d, P d -> P (DPre nl op d)) ->
  (forall nl d nc, P d -> P (DPar nl d nc)) ->
  (forall op d0 ds, P d0 -> Forall (fun p => P (snd p)) ds -> P (DInf op d0 ds)) ->
  forall d, P d.
Proof.
  intros HW HP HR HI. fix IH 1. intros [nl w | nl op d | nl d nc | op d0 ds].
  - apply HW.
  - apply HP, IH.
  - apply HR, IH.
  - apply HI; [apply IH|]. induction ds as [|[n x] xs IHxs]; constructor; [apply IH | exact IHxs].
Qed.

(** number of words of a rendering *)
Fixpoint size (d : dexpr) : nat :=
  match d with
  | DWord _ _ => 1
  | DPre _ _ d1 => S (size d1)
  | DPar _ d1 _ => S (S (size d1))
  | DInf _ d0 ds => size d0 + fold_right (fun p a => S (size (snd p)) + a)%nat O ds
  end.

Lemma size_pos d : (1 <= size d)%nat.
Proof. induction d using dexpr_ind'; cbn; lia. Qed.

Lemma size_le_render d : (size d <= length (render d))%nat.
Proof.
  induction d as [nl w | nl op d IH | nl d nc IH | op d0 ds IH0 IH] using dexpr_ind'; cbn [size render].
  - rewrite app_length. cbn. lia.
  - rewrite app_length. cbn. lia.
  - repeat (rewrite ?app_length; cbn [length]). lia.
  - rewrite app_length. induction IH as [|[n x] xs Hx _ IHxs]; cbn [flat_map fold_right fst snd length] in *; [lia|].
    repeat (rewrite ?app_length; cbn [length]). lia.
Qed.

Lemma flat_map_map' {A B C} (f : B -> list C) (h : A -> B) l :
  flat_map f (map h l) = flat_map (fun x => f (h x)) l.
Proof. induction l as [|x l IH]; cbn; [reflexivity | now rewrite IH]. Qed.

Lemma fold_size_len (ds : list (nat * dexpr)) :
  (2 * length ds <= fold_right (fun p a => S (size (snd p)) + a) 0 ds)%nat.
Proof.
  induction ds as [|p ds IH]; cbn [fold_right length]; [lia|]. pose proof (size_pos (snd p)). lia.
Qed.

Lemma fold_size_in (ds : list (nat * dexpr)) p :
  In p ds -> (size (snd p) < fold_right (fun p a => S (size (snd p)) + a) 0 ds)%nat.
Proof.
  induction ds as [|q ds IH]; cbn [fold_right In]; [tauto|]. intros [-> | H]; [lia|]. specialize (IH H). lia.
Qed.

(** ** Basic facts about the TokenParser primitives on rendered prefixes *)
Lemma skip_nl_nls n t r : t <> TNL -> skip_nl (nls n ++ t :: r) = t :: r.
Proof. intros H. induction n; cbn; [destruct t; congruence | exact IHn]. Qed.

Lemma at_eol_nls n q w r : at_eol (nls n ++ TW q w :: r) = negb (n =? 0)%nat.
Proof. destruct n; reflexivity. Qed.

Lemma consume_opt_hit cs mc n w r :
  mem w cs = true -> (mc = false \/ n = O) ->
  consume_opt cs mc (nls n ++ TW false w :: r) = Some (w, r).
Proof.
  intros Hm H. unfold consume_opt. rewrite skip_nl_nls by discriminate. rewrite at_eol_nls, Hm.
  destruct H as [-> | ->]; [reflexivity | now rewrite andb_false_r].
Qed.

Lemma consume_opt_miss cs mc n q w r :
  mem w cs = false -> consume_opt cs mc (nls n ++ TW q w :: r) = None.
Proof.
  intros Hm. unfold consume_opt. rewrite skip_nl_nls by discriminate. rewrite Hm.
  destruct (mc && at_eol _), q; reflexivity.
Qed.

Lemma consume_opt_next_line cs n q w r :
  consume_opt cs true (nls (S n) ++ TW q w :: r) = None.
Proof. unfold consume_opt. rewrite skip_nl_nls by discriminate. reflexivity. Qed.

Lemma mem_In w l : mem w l = true <-> In w l.
Proof.
  unfold mem. rewrite existsb_exists. split.
  - intros (x & Hx & E). apply N.eqb_eq in E. now subst.
  - intros H. exists w. split; [exact H | apply N.eqb_refl].
Qed.

Lemma mem_single w op : mem w [op] = (w =? op).
Proof. unfold mem. cbn. now rewrite orb_false_r. Qed.

(** ** Grammars with one operator per level *)
Record wfg (g : grammar) (ops : list N) : Prop := {
  wfg_levels : g_levels g = map (fun o => [o]) ops;
  wfg_nodup : NoDup ops;
  wfg_lp_prefix : ~ In W_LP (g_prefix g);
  wfg_rp_infix : ~ In W_RP ops;
  wfg_leaf : forall w, is_leaf_word g w = true -> w <> W_LP /\ ~ In w (g_prefix g) }.

Lemma level_in_map_lt ops op j : level_in (map (fun o => [o]) ops) op = Some j -> (j < length ops)%nat.
Proof.
  revert j. induction ops as [|o ops IH]; intros j; cbn [level_in map length]; [discriminate|].
  rewrite mem_single. destruct (op =? o).
  - intros [= <-]. lia.
  - destruct (level_in _ op) eqn:E; cbn [option_map]; [|discriminate]. intros [= <-]. specialize (IH _ eq_refl). lia.
Qed.

Lemma level_in_nth ops op j :
  level_in (map (fun o => [o]) ops) op = Some j -> nth_error ops j = Some op.
Proof.
  revert j. induction ops as [|o ops IH]; intros j; cbn [level_in map]; [discriminate|].
  rewrite mem_single. destruct (op =? o) eqn:E.
  - intros [= <-]. apply N.eqb_eq in E. now subst.
  - destruct (level_in _ op) eqn:E'; cbn [option_map]; [|discriminate]. intros [= <-]. cbn. now apply IH.
Qed.

Lemma nth_level_in ops op j :
  NoDup ops -> nth_error ops j = Some op -> level_in (map (fun o => [o]) ops) op = Some j.
Proof.
  intros ND. revert j. induction ops as [|o ops IH]; intros j; [destruct j; discriminate|].
  inversion ND as [|? ? Hnin ND']; subst. destruct j as [|j]; cbn [nth_error level_in map].
  - intros [= ->]. rewrite mem_single, N.eqb_refl. reflexivity.
  - intros H. rewrite mem_single. destruct (op =? o) eqn:E.
    + apply N.eqb_eq in E. subst. apply nth_error_In in H. contradiction.
    + rewrite (IH ND' _ H). reflexivity.
Qed.

Lemma skipn_nth {A} (l : list A) k x : nth_error l k = Some x -> skipn k l = x :: skipn (S k) l.
Proof.
  revert k. induction l as [|a l IH]; intros [|k]; cbn; try discriminate.
  - now intros [= ->].
  - intros H. now rewrite (IH _ H).
Qed.

Lemma closers_rp g b : mem W_RP (closers g b) = true.
Proof. destruct b; reflexivity. Qed.

Section Complete.
  Variable g : grammar.
  Variable ops : list N.
  Hypothesis G : wfg g ops.
  Variable strict : bool.

  Let L := length ops.
  Let levels := g_levels g.
  Let prim := parse_mandatory_primitive g strict.

  Lemma n_levels_L : n_levels g = L.
  Proof. unfold n_levels. rewrite (wfg_levels _ _ G), map_length. reflexivity. Qed.

  Lemma level_of_lt op j : level_of g op = Some j -> (j < L)%nat.
  Proof. unfold level_of. rewrite (wfg_levels _ _ G). apply level_in_map_lt. Qed.

  Lemma level_of_nth op j : level_of g op = Some j <-> nth_error ops j = Some op.
  Proof.
    unfold level_of. rewrite (wfg_levels _ _ G). split; [apply level_in_nth | apply nth_level_in, (wfg_nodup _ _ G)].
  Qed.

  Lemma levels_skipn k op :
    nth_error ops k = Some op -> skipn k levels = [op] :: skipn (S k) levels.
  Proof.
    intros H. unfold levels. rewrite (wfg_levels _ _ G). apply skipn_nth. now rewrite nth_error_map, H.
  Qed.

  Lemma levels_skipn_L : skipn L levels = [].
  Proof. unfold levels, L. rewrite (wfg_levels _ _ G). apply skipn_all2. now rewrite map_length. Qed.

  (** what [follow_ok] gives the loops *)
  Lemma follow_stop k op mc rest :
    follow_ok g k rest = true -> nth_error ops k = Some op -> consume_opt [op] mc rest = None.
  Proof.
    intros F Hk. unfold follow_ok in F. unfold consume_opt.
    destruct (skip_nl rest) as [|[q w|] r]; try reflexivity.
    destruct (mc && at_eol rest); [reflexivity|]. destruct q; [reflexivity|].
    rewrite mem_single. destruct (w =? op) eqn:E; [|reflexivity].
    apply N.eqb_eq in E. subst. apply level_of_nth in Hk. rewrite Hk in F.
    apply Nat.ltb_lt in F. lia.
  Qed.

  Lemma follow_mono k rest : follow_ok g k rest = true -> follow_ok g (S k) rest = true.
  Proof.
    unfold follow_ok. destruct (skip_nl rest) as [|[[|] w|] r]; try reflexivity.
    destruct (level_of g w); [|reflexivity]. rewrite !Nat.ltb_lt. lia.
  Qed.

  Lemma follow_L rest : follow_ok g L rest = true.
  Proof.
    unfold follow_ok. destruct (skip_nl rest) as [|[[|] w|] r]; try reflexivity.
    destruct (level_of g w) eqn:E; [|reflexivity]. apply level_of_lt in E. now apply Nat.ltb_lt.
  Qed.

  Lemma follow_op k n op r : nth_error ops k = Some op -> follow_ok g (S k) (nls n ++ TW false op :: r) = true.
  Proof.
    intros H. unfold follow_ok. rewrite skip_nl_nls by discriminate. apply level_of_nth in H. rewrite H.
    apply Nat.ltb_lt. lia.
  Qed.

  Lemma follow_rp n r : follow_ok g 0 (nls n ++ TW false W_RP :: r) = true.
  Proof.
    unfold follow_ok. rewrite skip_nl_nls by discriminate.
    destruct (level_of g W_RP) eqn:E; [|reflexivity]. apply level_of_nth, nth_error_In in E.
    now apply (wfg_rp_infix _ _ G) in E.
  Qed.

  (** the chain of operands after the first one, as rendered *)
  Definition chain (op : N) (ds : list (nat * dexpr)) : list tok :=
    flat_map (fun p => nls (fst p) ++ TW false op :: render (snd p)) ds.

  (** flattened operands contributed to an [op]-node *)
  Definition fo (op : N) (e : expr) : list expr := flat_ops op (flatten e).

  Lemma flatten_inf op es : flatten (EInf op es) = EInf op (flat_map (fo op) es).
  Proof. reflexivity. Qed.
  Lemma fo_inf op es : fo op (EInf op es) = flat_map (fo op) es.
  Proof. unfold fo. rewrite flatten_inf. cbn. now rewrite N.eqb_refl. Qed.

  (** ** The two loops on a rendered chain *)
  Section Chain.
    Variable fuel : nat.                     (* loop fuel of this level *)
    Variable operand : list tok -> res expr. (* parse of an operand after an operator *)
    Variable op : N.
    Variable m : nli.                        (* the mode of the loops at this level *)
    Variable k : nat.
    Hypothesis Hk : nth_error ops k = Some op.

    (** seq_loop followed by op_loop: the state after some operands of the chain were read *)
    Definition seq_then_op (n_seq n_op : nat) (operands : list expr) (ts : list tok) : res expr :=
      match seq_loop n_seq operand op (is_inside m) operands ts with
      | Ok es ts2 => op_loop fuel n_op operand [op] m (EInf op es) ts2
      | Err x => Err x
      | OutOfFuel => OutOfFuel
      end.

    Lemma seq_then_op_chain ds :
      Forall (fun p => (fst p = O \/ is_none m = false) /\
                       forall rest, follow_ok g (S k) rest = true ->
                                    exists e, operand (render (snd p) ++ rest) = Ok e rest
                                              /\ flatten e = flatten (erase (snd p))) ds ->
      forall n_seq n_op operands rest,
        (length ds < n_seq)%nat -> (length ds < n_op)%nat -> (length ds < fuel)%nat ->
        follow_ok g k rest = true ->
        exists es, seq_then_op n_seq n_op operands (chain op ds ++ rest) = Ok (EInf op es) rest /\
                   flat_map (fo op) es
                   = flat_map (fo op) operands ++ flat_map (fun p => fo op (erase (snd p))) ds.
    Proof.
      induction 1 as [|[nl d] ds [Hnl Hd] _ IH]; intros n_seq n_op operands rest H1 H2 H3 F.
      - cbn [chain flat_map app]. unfold seq_then_op.
        destruct n_seq as [|n_seq]; [cbn in H1; lia|]. cbn [seq_loop].
        rewrite (follow_stop _ _ _ _ F Hk).
        destruct n_op as [|n_op]; [cbn in H2; lia|]. cbn [op_loop].
        rewrite (follow_stop _ _ _ _ F Hk).
        exists operands. split; [reflexivity|]. now rewrite app_nil_r.
      - cbn [length] in *. cbn [fst snd] in Hnl, Hd. cbn [chain flat_map fst snd]. rewrite <- ?app_assoc. cbn [app]. rewrite <- ?app_assoc.
        fold (chain op ds).
        assert (Hop : mem op [op] = true) by (rewrite mem_single; apply N.eqb_refl).
        destruct (Hd (chain op ds ++ rest)) as (e & He & Hfl).
        { destruct ds as [|[nl' d'] ds']; cbn [chain flat_map app fst snd].
          - now apply follow_mono.
          - rewrite <- ?app_assoc. cbn [app]. now apply follow_op. }
        unfold seq_then_op.
        destruct n_seq as [|n_seq]; [lia|]. cbn [seq_loop].
        destruct (is_inside m) eqn:Hin; cbn [negb].
        + (* inside parentheses: the operator may stand on any line *)
          rewrite consume_opt_hit by (auto). rewrite He.
          destruct (IH n_seq n_op (operands ++ [e]) rest ltac:(lia) ltac:(lia) ltac:(lia) F) as (es & E1 & E2).
          unfold seq_then_op in E1. rewrite Hin in E1. exists es. split; [exact E1|].
          assert (Hfo : fo op e = fo op (erase d)) by (unfold fo; now rewrite Hfl).
          rewrite E2, ?flat_map_app. cbn [flat_map fst snd]. rewrite ?fo_inf, ?Hfo, ?app_nil_r, <- ?app_assoc. reflexivity.
        + destruct nl as [|nl].
          * (* same line: the sequence continues *)
            rewrite consume_opt_hit by (auto). rewrite He.
            destruct (IH n_seq n_op (operands ++ [e]) rest ltac:(lia) ltac:(lia) ltac:(lia) F) as (es & E1 & E2).
            unfold seq_then_op in E1. rewrite Hin in E1. exists es. split; [exact E1|].
            assert (Hfo : fo op e = fo op (erase d)) by (unfold fo; now rewrite Hfl).
          rewrite E2, ?flat_map_app. cbn [flat_map fst snd]. rewrite ?fo_inf, ?Hfo, ?app_nil_r, <- ?app_assoc. reflexivity.
          * (* the operator stands on a later line: the sequence ends, the outer loop takes it *)
            destruct Hnl as [Hnl | Hnl]; [discriminate|].
            rewrite consume_opt_next_line.
            destruct n_op as [|n_op]; [lia|]. cbn [op_loop]. rewrite Hnl.
            rewrite consume_opt_hit by (auto). unfold infix_op_sequence. rewrite He.
            destruct (IH fuel n_op [EInf op operands; e] rest ltac:(lia) ltac:(lia) ltac:(lia) F) as (es & E1 & E2).
            unfold seq_then_op in E1. rewrite Hin in *. revert E1.
            destruct (seq_loop fuel operand op false [EInf op operands; e] (chain op ds ++ rest)) as [es' ts' | x |];
              intros E1; try discriminate.
            exists es. split; [exact E1|].
            assert (Hfo : fo op e = fo op (erase d)) by (unfold fo; now rewrite Hfl).
          rewrite E2, ?flat_map_app. cbn [flat_map fst snd]. rewrite ?fo_inf, ?Hfo, ?app_nil_r, <- ?app_assoc. reflexivity.
    Qed.

    (** the whole loop of parse_w_infix_ops, entered after the first operand of a chain *)
    Lemma op_loop_chain e0 d1 nl1 ds rest :
      Forall (fun p => (fst p = O \/ is_none m = false) /\
                       forall rest, follow_ok g (S k) rest = true ->
                                    exists e, operand (render (snd p) ++ rest) = Ok e rest
                                              /\ flatten e = flatten (erase (snd p))) ((nl1, d1) :: ds) ->
      (S (length ds) < fuel)%nat ->
      follow_ok g k rest = true ->
      exists es, op_loop fuel fuel operand [op] m e0 (chain op ((nl1, d1) :: ds) ++ rest) = Ok (EInf op es) rest /\
                 flat_map (fo op) es = fo op e0 ++ flat_map (fun p => fo op (erase (snd p))) ((nl1, d1) :: ds).
    Proof.
      intros HF Hfuel F. inversion HF as [|? ? [Hnl Hd] HF']; subst. cbn [fst snd] in *.
      cbn [chain flat_map fst snd]. rewrite <- ?app_assoc. cbn [app]. rewrite <- ?app_assoc. fold (chain op ds).
      assert (Hop : mem op [op] = true) by (rewrite mem_single; apply N.eqb_refl).
      destruct (Hd (chain op ds ++ rest)) as (e & He & Hfl).
      { destruct ds as [|[nl' d'] ds']; cbn [chain flat_map app fst snd].
        - now apply follow_mono.
        - rewrite <- ?app_assoc. cbn [app]. now apply follow_op. }
      destruct fuel as [|f] eqn:Ef; [lia|]. cbn [op_loop].
      rewrite consume_opt_hit; [| exact Hop | destruct Hnl; auto].
      unfold infix_op_sequence. rewrite He. rewrite <- Ef in *.
      destruct (seq_then_op_chain ds HF' fuel f [e0; e] rest ltac:(lia) ltac:(lia) ltac:(lia) F) as (es & E1 & E2).
      unfold seq_then_op in E1. revert E1.
      destruct (seq_loop fuel operand op (is_inside m) [e0; e] (chain op ds ++ rest)) as [es' ts' | x |];
        intros E1; try discriminate.
      exists es. split; [exact E1|].
      assert (Hfo : fo op e = fo op (erase d1)) by (unfold fo; now rewrite Hfl).
          rewrite E2, ?flat_map_app. cbn [flat_map fst snd]. rewrite ?fo_inf, ?Hfo, ?app_nil_r, <- ?app_assoc. reflexivity.
    Qed.
  End Chain.

  (** ** The main induction *)
  Definition mode_free (m : nli) : bool := match m with NNextAny => false | _ => true end.

  Definition parses (fuel : nat) (d : dexpr) : Prop :=
    forall k m rest,
      m <> NNone -> wf_d g k d = true -> lay g (mode_free m) k d = true -> follow_ok g k rest = true ->
      exists e, parse_w_maybe_infix_ops (prim fuel) fuel m (skipn k levels) (render d ++ rest) = Ok e rest
                /\ flatten e = flatten (erase d).

  (** own level *)
  Definition olevel (d : dexpr) : nat :=
    match d with
    | DInf op _ _ => match level_of g op with Some j => j | None => L end
    | _ => L
    end.

  Lemma wf_d_up k d : (k < olevel d)%nat -> wf_d g k d = true -> wf_d g (S k) d = true.
  Proof.
    destruct d as [nl w | nl op d | nl d nc | op d0 ds]; cbn [wf_d olevel]; auto.
    destruct (level_of g op) as [j|]; [|discriminate]. intros Hlt.
    rewrite !andb_true_iff, !Nat.leb_le. intros [[[H1 H2] H3] H4]. repeat split; auto; lia.
  Qed.

  Lemma lay_up free k d : (k < olevel d)%nat -> lay g free k d = true -> lay g true (S k) d = true.
  Proof.
    destruct d as [nl w | nl op d | nl d nc | op d0 ds]; cbn [lay olevel]; auto.
    destruct (level_of g op) as [j|]; [|discriminate]. intros Hlt.
    assert (E : (j =? k)%nat = false) by (apply Nat.eqb_neq; lia). rewrite E.
    destruct (j =? S k)%nat; auto.
  Qed.

  Lemma wf_olevel k d : wf_d g k d = true -> (k <= olevel d)%nat \/ (forall k', wf_d g k' d = wf_d g k d) /\ olevel d = L.
  Proof.
    destruct d as [nl w | nl op d | nl d nc | op d0 ds]; cbn [wf_d olevel]; try (right; split; reflexivity).
    destruct (level_of g op) as [j|]; [|discriminate].
    rewrite !andb_true_iff, !Nat.leb_le. intros [[[H1 H2] H3] H4]. now left.
  Qed.

  (** descending through a level at which [d] has no operator *)
  Lemma descend fuel d k :
    (1 <= fuel)%nat -> (k < olevel d)%nat -> (k < L)%nat ->
    (forall m rest, m <> NNone -> wf_d g (S k) d = true -> lay g (mode_free m) (S k) d = true ->
                    follow_ok g (S k) rest = true ->
                    exists e, parse_w_maybe_infix_ops (prim fuel) fuel m (skipn (S k) levels) (render d ++ rest) = Ok e rest
                              /\ flatten e = flatten (erase d)) ->
    forall m rest, m <> NNone -> wf_d g k d = true -> lay g (mode_free m) k d = true -> follow_ok g k rest = true ->
                   exists e, parse_w_maybe_infix_ops (prim fuel) fuel m (skipn k levels) (render d ++ rest) = Ok e rest
                             /\ flatten e = flatten (erase d).
  Proof.
    intros Hf Hlt HkL IH m rest Hm Hwf Hlay F.
    destruct (nth_error ops k) as [opk|] eqn:Hk; [|apply nth_error_None in Hk; unfold L in HkL; lia].
    rewrite (levels_skipn _ _ Hk). cbn [parse_w_maybe_infix_ops].
    destruct (IH (NBool (is_none m)) rest) as (e & He & Hfl).
    - discriminate.
    - now apply wf_d_up.
    - cbn [mode_free]. now apply (lay_up (mode_free m)).
    - now apply follow_mono.
    - rewrite He. destruct fuel as [|f]; [lia|]. cbn [op_loop].
      rewrite (follow_stop _ _ _ _ F Hk). eauto.
  Qed.

  Lemma descend_all fuel d :
    (1 <= fuel)%nat ->
    (forall m rest, m <> NNone -> wf_d g (olevel d) d = true -> lay g (mode_free m) (olevel d) d = true ->
                    follow_ok g (olevel d) rest = true ->
                    exists e, parse_w_maybe_infix_ops (prim fuel) fuel m (skipn (olevel d) levels) (render d ++ rest) = Ok e rest
                              /\ flatten e = flatten (erase d)) ->
    (olevel d <= L)%nat ->
    forall n k, (olevel d - k = n)%nat -> (k <= olevel d)%nat ->
    forall m rest, m <> NNone -> wf_d g k d = true -> lay g (mode_free m) k d = true -> follow_ok g k rest = true ->
                   exists e, parse_w_maybe_infix_ops (prim fuel) fuel m (skipn k levels) (render d ++ rest) = Ok e rest
                             /\ flatten e = flatten (erase d).
  Proof.
    intros Hf Hown HoL. induction n as [|n IHn]; intros k Hn Hle.
    - assert (k = olevel d) by lia. subst k. exact Hown.
    - apply descend; try lia. apply IHn; lia.
  Qed.

  Lemma olevel_le d : (olevel d <= L)%nat.
  Proof.
    destruct d as [nl w | nl op d | nl d nc | op d0 ds]; cbn [olevel]; try lia.
    destruct (level_of g op) as [j|] eqn:E; [|lia]. apply level_of_lt in E. lia.
  Qed.

  Lemma prim_level_skipn k : (L <= k)%nat -> skipn k levels = [].
  Proof. intros H. apply skipn_all2. unfold levels. rewrite (wfg_levels _ _ G), map_length. exact H. Qed.

  Theorem complete_main d : forall fuel, (size d <= fuel)%nat -> parses fuel d.
  Proof.
    induction d as [nl w | nl op d IH | nl d nc IH | op d0 ds IH0 IH] using dexpr_ind'; intros fuel Hsz.
    - (* a primitive / symbol *)
      assert (Hown : forall k m rest, (L <= k)%nat -> m <> NNone -> wf_d g k (DWord nl w) = true ->
                exists e, parse_w_maybe_infix_ops (prim fuel) fuel m (skipn k levels) (render (DWord nl w) ++ rest) = Ok e rest
                          /\ flatten e = flatten (erase (DWord nl w))).
      { intros k m rest HLk Hm Hwf. rewrite (prim_level_skipn _ HLk). cbn [parse_w_maybe_infix_ops].
        destruct m; try congruence; cbn [is_none];
          (destruct fuel as [|f]; [cbn in Hsz; lia|]); cbn [wf_d] in Hwf;
          destruct (wfg_leaf _ _ G _ Hwf) as [Hlp Hpre];
          cbn [render]; rewrite <- app_assoc; cbn [app]; unfold prim; cbn [parse_mandatory_primitive andb];
          (rewrite consume_opt_miss by (rewrite mem_single; now apply N.eqb_neq));
          (rewrite consume_opt_miss by (apply not_true_is_false; rewrite mem_In; exact Hpre));
          unfold consume_mandatory_unquoted; rewrite skip_nl_nls by discriminate; rewrite andb_false_r;
          unfold parse_primitive; unfold is_leaf_word in Hwf;
          (destruct (g_class g w); try discriminate; eauto). }
      intros k m rest Hm Hwf Hlay F.
      destruct (le_lt_dec L k) as [HLk | HkL]; [now apply Hown|].
      apply (descend_all fuel (DWord nl w) ltac:(cbn in Hsz; lia)) with (n := (L - k)%nat); cbn [olevel]; try lia; auto; try (intros; apply Hown; auto; lia).
    - (* prefix operator *)
      assert (Hown : forall k m rest, (L <= k)%nat -> m <> NNone -> wf_d g k (DPre nl op d) = true ->
                lay g (mode_free m) k (DPre nl op d) = true ->
                exists e, parse_w_maybe_infix_ops (prim fuel) fuel m (skipn k levels) (render (DPre nl op d) ++ rest) = Ok e rest
                          /\ flatten e = flatten (erase (DPre nl op d))).
      { intros k m rest HLk Hm Hwf Hlay. rewrite (prim_level_skipn _ HLk). cbn [parse_w_maybe_infix_ops].
        cbn [size] in Hsz. destruct fuel as [|f]; [lia|].
        cbn [wf_d] in Hwf. apply andb_true_iff in Hwf as [Hop Hwf]. cbn [lay] in Hlay.
        assert (Hlp : op <> W_LP).
        { intros ->. apply mem_In in Hop. now apply (wfg_lp_prefix _ _ G). }
        destruct (IH f ltac:(lia) (n_levels g) (NBool false) rest) as (e & He & Hfl); auto.
        { discriminate. } { rewrite n_levels_L. apply follow_L. }
        rewrite n_levels_L, (prim_level_skipn L) in He by lia. cbn [parse_w_maybe_infix_ops is_none] in He.
        assert (E : is_none m = false) by (destruct m; cbn; congruence). rewrite E.
        cbn [render]. rewrite <- app_assoc. cbn [app]. unfold prim. cbn [parse_mandatory_primitive andb].
        rewrite consume_opt_miss by (rewrite mem_single; now apply N.eqb_neq).
        rewrite consume_opt_hit by auto.
        (* the operand: same function with fuel f, but [He] is about loop structure at fuel f *)
        fold (parse_mandatory_primitive g strict f). unfold prim in He. rewrite He.
        eexists. split; [reflexivity|]. cbn [flatten erase]. now rewrite Hfl. }
      intros k m rest Hm Hwf Hlay F.
      destruct (le_lt_dec L k) as [HLk | HkL]; [now apply Hown|].
      apply (descend_all fuel (DPre nl op d) ltac:(cbn in Hsz; lia)) with (n := (L - k)%nat); cbn [olevel]; try lia; auto; try (intros; apply Hown; auto; lia).
    - (* parentheses *)
      assert (Hown : forall k m rest, (L <= k)%nat -> m <> NNone -> wf_d g k (DPar nl d nc) = true ->
                lay g (mode_free m) k (DPar nl d nc) = true ->
                exists e, parse_w_maybe_infix_ops (prim fuel) fuel m (skipn k levels) (render (DPar nl d nc) ++ rest) = Ok e rest
                          /\ flatten e = flatten (erase (DPar nl d nc))).
      { intros k m rest HLk Hm Hwf Hlay. rewrite (prim_level_skipn _ HLk). cbn [parse_w_maybe_infix_ops].
        cbn [size] in Hsz. destruct fuel as [|f]; [lia|].
        cbn [wf_d] in Hwf. cbn [lay] in Hlay.
        destruct (IH f ltac:(lia) O NInside (nls nc ++ TW false W_RP :: rest)) as (e & He & Hfl); auto.
        { discriminate. } { apply follow_rp. }
        cbn [skipn] in He.
        assert (E : is_none m = false) by (destruct m; cbn; congruence). rewrite E.
        cbn [render]. rewrite <- ?app_assoc. cbn [app]. rewrite <- ?app_assoc. cbn [app].
        unfold prim. cbn [parse_mandatory_primitive andb].
        rewrite consume_opt_hit by auto.
        fold (parse_mandatory_primitive g strict f). unfold prim in He. unfold levels in He. rewrite He.
        unfold consume_mandatory_constant. rewrite skip_nl_nls by discriminate.
        rewrite closers_rp. cbn [negb]. eexists. split; [reflexivity|]. exact Hfl. }
      intros k m rest Hm Hwf Hlay F.
      destruct (le_lt_dec L k) as [HLk | HkL]; [now apply Hown|].
      apply (descend_all fuel (DPar nl d nc) ltac:(cbn in Hsz; lia)) with (n := (L - k)%nat); cbn [olevel]; try lia; auto; try (intros; apply Hown; auto; lia).
    - (* infix operator chain *)
      intros k m rest Hm Hwf Hlay F.
      pose proof Hwf as Hwf0. cbn [wf_d] in Hwf0.
      destruct (level_of g op) as [j|] eqn:Ej; [|discriminate].
      apply andb_true_iff in Hwf0 as [Hwf0 Hwds]. apply andb_true_iff in Hwf0 as [Hwf0 Hwd0].
      apply andb_true_iff in Hwf0 as [Hkj Hne]. apply Nat.leb_le in Hkj.
      pose proof (level_of_lt _ _ Ej) as HjL. pose proof (proj1 (level_of_nth _ _) Ej) as Hnth.
      assert (Hol : olevel (DInf op d0 ds) = j) by (cbn [olevel]; now rewrite Ej).
      assert (Hf1 : (1 <= fuel)%nat) by (pose proof (size_pos (DInf op d0 ds)); lia).
      apply (descend_all fuel (DInf op d0 ds) Hf1) with (n := (j - k)%nat); rewrite ?Hol; try lia; auto.
      clear k m rest Hm Hwf Hlay F Hkj.
      intros m rest Hm _ Hlay F.
      cbn [lay] in Hlay. rewrite Ej, Nat.eqb_refl in Hlay.
      apply andb_true_iff in Hlay as [Hlay Hlds]. apply andb_true_iff in Hlay as [Hfree Hld0].
      destruct ds as [|[nl1 d1] ds]; [discriminate|].
      rewrite (levels_skipn _ _ Hnth). cbn [parse_w_maybe_infix_ops].
      cbn [render]. fold (chain op ((nl1, d1) :: ds)). rewrite <- app_assoc.
      cbn [size fold_right snd] in Hsz.
      (* first operand *)
      destruct (IH0 fuel ltac:(lia) (S j) (NBool (is_none m)) (chain op ((nl1, d1) :: ds) ++ rest)) as (e0 & He0 & Hfl0); auto.
      { discriminate. }
      { cbn [chain flat_map fst snd]. rewrite <- ?app_assoc. cbn [app]. now apply follow_op. }
      rewrite He0.
      (* the loops *)
      set (m' := if is_next_any m then NNone else m).
      assert (Hlen : (S (length ds) < fuel)%nat).
      { pose proof (fold_size_len ds). pose proof (size_pos d0). pose proof (size_pos d1). lia. }
      destruct (op_loop_chain fuel (parse_w_maybe_infix_ops (prim fuel) fuel NNextAny (skipn (S j) levels)) op m' j Hnth
                              e0 d1 nl1 ds rest) as (es & Hes & Hfes); auto.
      { rewrite Forall_forall. intros p Hp. split.
        - destruct m; cbn [mode_free is_next_any] in *; subst m'; cbn [is_none]; auto; try congruence.
          cbn [orb] in Hfree. rewrite forallb_forall in Hfree. left. apply Nat.eqb_eq. now apply Hfree.
        - intros rest' F'. rewrite Forall_forall in IH.
          assert (Hszp : (size (snd p) <= fuel)%nat).
          { pose proof (fold_size_in _ _ Hp) as H. cbn [fold_right snd] in H. lia. }
          apply (IH p Hp fuel Hszp (S j) NNextAny rest'); auto.
          + discriminate.
          + rewrite forallb_forall in Hwds. now apply Hwds.
          + cbn [mode_free]. rewrite forallb_forall in Hlds. now apply Hlds. }
      rewrite Hes. eexists. split; [reflexivity|].
      cbn [erase]. rewrite !flatten_inf. f_equal. rewrite Hfes. cbn [flat_map]. f_equal.
      + unfold fo. now rewrite Hfl0.
      + rewrite flat_map_map'. reflexivity.
  Qed.
End Complete.

(** ** Completeness of the entry points *)
Lemma render_head d : exists w tail, render d = nls (leading_nl d) ++ TW false w :: tail.
Proof.
  induction d as [nl w | nl op d IH | nl d nc IH | op d0 ds IH0 IH] using dexpr_ind'; cbn [render leading_nl].
  - eauto.
  - eauto.
  - eauto.
  - destruct IH0 as (w & tail & ->). rewrite <- app_assoc. cbn [app]. eauto.
Qed.

Lemma at_eol_render d r : at_eol (render d ++ r) = negb (leading_nl d =? 0)%nat.
Proof. destruct (render_head d) as (w & tail & ->). rewrite <- app_assoc. cbn [app]. apply at_eol_nls. Qed.

Lemma lay_free_mono g k d : lay g false k d = true -> lay g true k d = true.
Proof.
  destruct d as [nl w | nl op d | nl d nc | op d0 ds]; cbn [lay]; auto.
  destruct (level_of g op); auto. destruct (_ =? k)%nat; auto.
  rewrite !andb_true_iff. intros [[H1 H2] H3]. repeat split; auto.
Qed.

Theorem parse_complete (g : grammar) (ops : list N) (strict : bool) :
  wfg g ops ->
  forall (simple must_cur : bool) (d : dexpr) (follow : list tok),
    rendering_ok g simple must_cur d = true ->
    follow_ok g (if simple then n_levels g else O) follow = true ->
    exists e,
      (if simple then parse_simple g strict must_cur (render d ++ follow)
       else parse_full g strict must_cur (render d ++ follow)) = Ok e follow
      /\ flatten e = flatten (erase d).
Proof.
  intros G simple mc d follow R F. unfold rendering_ok in R.
  apply andb_true_iff in R as [R Hmc]. apply andb_true_iff in R as [Hwf Hlay].
  assert (Hmc' : mc && at_eol (render d ++ follow) = false).
  { rewrite at_eol_render. destruct mc; [|reflexivity]. cbn in Hmc |- *. now rewrite Hmc. }
  assert (Hfuel : (size d <= fuel_for (render d ++ follow))%nat).
  { unfold fuel_for. rewrite app_length. pose proof (size_le_render d). lia. }
  destruct simple.
  - unfold parse_simple. rewrite Hmc'.
    destruct (complete_main g ops G strict d _ Hfuel (n_levels g) (NBool false) follow) as (e & He & Hfl); auto.
    + discriminate.
    + cbn [mode_free]. now apply lay_free_mono.
    + rewrite (n_levels_L g ops G), (prim_level_skipn g ops G) in He by lia. exists e. split; [exact He | exact Hfl].
  - unfold parse_full, parse_levels. rewrite Hmc'.
    destruct (complete_main g ops G strict d _ Hfuel O NNextAny follow) as (e & He & Hfl); auto.
    + discriminate.
    + exists e. split; [exact He | exact Hfl].
Qed.

(** A simple expression ends where it ends, WHATEVER follows: in [CTX ARG op REST] the simple parser
    that reads the argument of a primitive leaves [op REST] to the outer parser. *)
Corollary simple_argument_ends (g : grammar) (ops : list N) (strict : bool) :
  wfg g ops ->
  forall (d : dexpr) (post : list tok),
    rendering_ok g true false d = true ->
    exists e, parse_simple g strict false (render d ++ post) = Ok e post /\ flatten e = flatten (erase d).
Proof.
  intros G d post R.
  apply (parse_complete g ops strict G true false d post R).
  rewrite (n_levels_L g ops G). apply (follow_L g ops G).
Qed.

(** Redundant parentheses and permitted line breaks change nothing: two permitted renderings of
    trees that are equal modulo flatten are read as trees that are equal modulo flatten. *)
Corollary layout_irrelevant (g : grammar) (ops : list N) (strict : bool) :
  wfg g ops ->
  forall (simple mc1 mc2 : bool) (d1 d2 : dexpr) (f1 f2 : list tok),
    rendering_ok g simple mc1 d1 = true -> rendering_ok g simple mc2 d2 = true ->
    follow_ok g (if simple then n_levels g else O) f1 = true ->
    follow_ok g (if simple then n_levels g else O) f2 = true ->
    flatten (erase d1) = flatten (erase d2) ->
    exists e1 e2,
      (if simple then parse_simple g strict mc1 (render d1 ++ f1) else parse_full g strict mc1 (render d1 ++ f1)) = Ok e1 f1 /\
      (if simple then parse_simple g strict mc2 (render d2 ++ f2) else parse_full g strict mc2 (render d2 ++ f2)) = Ok e2 f2 /\
      flatten e1 = flatten e2.
Proof.
  intros G simple mc1 mc2 d1 d2 f1 f2 R1 R2 F1 F2 E.
  destruct (parse_complete g ops strict G simple mc1 d1 f1 R1 F1) as (e1 & H1 & Hf1).
  destruct (parse_complete g ops strict G simple mc2 d2 f2 R2 F2) as (e2 & H2 & Hf2).
  exists e1, e2. repeat split; auto. congruence.
Qed.

(** Unambiguity: a token sequence is a permitted rendering of at most one tree (modulo flatten). *)
Corollary rendering_unambiguous (g : grammar) (ops : list N) :
  wfg g ops ->
  forall (simple mc : bool) (d1 d2 : dexpr),
    rendering_ok g simple mc d1 = true -> rendering_ok g simple mc d2 = true ->
    render d1 = render d2 -> flatten (erase d1) = flatten (erase d2).
Proof.
  intros G simple mc d1 d2 R1 R2 E.
  assert (F : follow_ok g (if simple then n_levels g else O) [] = true) by reflexivity.
  destruct (parse_complete g ops true G simple mc d1 [] R1 F) as (e1 & H1 & Hf1).
  destruct (parse_complete g ops true G simple mc d2 [] R2 F) as (e2 & H2 & Hf2).
  rewrite E in H1. destruct simple; rewrite H1 in H2; injection H2 as <-; congruence.
Qed.

(** The two grammars of the program are of the required form. *)
Lemma std_leaf_word g w : g_class g = std_class -> is_leaf_word g w = true -> (100 <= w)%N.
Proof.
  intros E. unfold is_leaf_word. rewrite E. unfold std_class.
  destruct (w <? 100) eqn:H; [discriminate|]. intros _. now apply N.ltb_ge in H.
Qed.

Lemma matcher_grammar_wf : wfg matcher_grammar [W_OR; W_AND].
Proof.
  split.
  - reflexivity.
  - repeat constructor; cbn; intuition discriminate.
  - cbn. intuition discriminate.
  - cbn. intuition discriminate.
  - intros w H. apply std_leaf_word in H; [|reflexivity]. split.
    + intros ->. cbv in H. now apply H.
    + cbn. intros [<- | []]. cbv in H. now apply H.
Qed.

Lemma transformer_grammar_wf : wfg transformer_grammar [W_PIPE].
Proof.
  split.
  - reflexivity.
  - repeat constructor; cbn; intuition discriminate.
  - cbn. intuition.
  - cbn. intuition discriminate.
  - intros w H. apply std_leaf_word in H; [|reflexivity]. split.
    + intros ->. cbv in H. now apply H.
    + cbn. intuition.
Qed.
