(** * Composition of the finished models, end to end.

    The executor (Model/Exec.v, property C01), the processing pipeline and the world around an
    execution (Model/World.v, C03/C04) and the outcome table with its reporters (Model/Outcome.v,
    C02) are proved separately.  Here they are composed: what the user sees - exit code, exit
    identifier, the lines on stdout / stderr - as a function of what the instructions of the test
    case do, stated declaratively (plans [schedule] / [sched_cleanup] and their first failure
    [ffail], Spec/C01.v; the documented table [doc_program_output], Spec/C02.v) without mention of
    the implementation-shaped [partial_execute] / [run_steps] / reporter classes. *)
From Coq Require Import ZArith List Bool String Arith Lia.
From Exactly Require Import Lib.Harness Model.Outcome Model.Exec Model.World Spec.C01 Spec.C02
  Proofs.ExecSpec Proofs.ExecCorollaries Proofs.WorldProofs Proofs.OutcomeTable Proofs.PredOnModelC01.
Import ListNotations.
Local Arguments schedule : simpl never.

(** ** The declarative account of one processed test case *)
Definition conf_plan (tc : testcase) : list item := sched_step tc (Conf, SMain).

(** The failure that is reported for an execution that got past the configuration phase: the
    first failing step of the plan; unless cleanup ran and one of its steps failed, which then
    replaces it - except after a failure of before-assert/main (cleanup failures are swallowed). *)
Definition reported_failure (tc : testcase) : option failure :=
  match ffail (schedule tc) with
  | Some f =>
      if in_validation f || is_main_of BeforeAssert f then Some f
      else match ffail (sched_cleanup tc (prev_of (tc_act_only tc) (Some f))) with
           | Some f' => Some f'
           | None => Some f
           end
  | None => ffail (sched_cleanup tc (prev_of (tc_act_only tc) None))
  end.

(** The kind of failure the verdict is computed from; [None]: nothing that was executed failed. *)
Definition failure_kind (tc : testcase) : option fail_status :=
  match ffail (conf_plan tc) with
  | Some f => Some (f_status f)
  | None => match tc_status tc with TSkip => None | _ => option_map f_status (reported_failure tc) end
  end.

(** The verdict: a failing configuration instruction is reported as it is; otherwise the
    documented verdict table [doc_verdict] (Spec/C02.v) applied to the status in force and the
    kind of the reported failure. *)
Definition verdict (tc : testcase) : full_status :=
  match ffail (conf_plan tc) with
  | Some f => full_of_fail (f_status f)
  | None => doc_verdict (tc_status tc) (option_map f_status (reported_failure tc))
  end.

(** A sandbox is created iff the configuration phase succeeds, the case is not skipped and no
    step of the validation block fails. *)
Definition sandbox_created (tc : testcase) : bool :=
  match ffail (conf_plan tc), tc_status tc with
  | Some _, _ | None, TSkip => false
  | None, _ => match ffail (schedule tc) with Some f => negb (in_validation f) | None => true end
  end.

(** The action to check has an outcome iff, in addition, nothing fails up to and including
    act/execute. *)
Definition atc_completed (tc : testcase) : bool :=
  match ffail (conf_plan tc), tc_status tc with
  | Some _, _ | None, TSkip => false
  | None, _ => match ffail (schedule tc) with
               | Some f => negb (in_validation f) && (is_main_of BeforeAssert f || is_main_of Assert f)
               | None => true
               end
  end.

(** What processing a source file results in, declaratively. *)
Definition user_result (s : source) : proc_result :=
  match access s with
  | StageErr e => AccessErr e
  | StageOk tc => Executed (verdict tc) (sandbox_created tc) (if atc_completed tc then Some 0%Z else None)
  end.

(** ** The executor's result is the declarative one *)
Lemma reported_failure_spec tc : pr_failure (snd (spec_partial tc)) = reported_failure tc.
Proof.
  unfold spec_partial, reported_failure. destruct (ffail (schedule tc)) as [f|]; [|reflexivity].
  destruct (in_validation f); [reflexivity|]. cbn [orb snd pr_failure]. destruct (is_main_of BeforeAssert f); reflexivity.
Qed.

Lemma spec_partial_flags tc :
  pr_has_sds (snd (spec_partial tc)) = match ffail (schedule tc) with Some f => negb (in_validation f) | None => true end /\
  pr_has_atc_outcome (snd (spec_partial tc)) =
    match ffail (schedule tc) with
    | Some f => negb (in_validation f) && (is_main_of BeforeAssert f || is_main_of Assert f)
    | None => true
    end.
Proof.
  unfold spec_partial. destruct (ffail (schedule tc)) as [f|]; [|split; reflexivity].
  destruct (in_validation f); split; reflexivity.
Qed.

Theorem full_result_declarative tc :
  snd (full_execute tc) =
  FResult (verdict tc)
          (match ffail (conf_plan tc) with
           | Some f => Some f
           | None => match tc_status tc with TSkip => None | _ => reported_failure tc end
           end)
          (sandbox_created tc) (atc_completed tc).
Proof.
  rewrite full_execute_refines_spec. unfold spec_full, verdict, sandbox_created, atc_completed, conf_plan.
  destruct (ffail (sched_step tc (Conf, SMain))) as [f0|]; [reflexivity|].
  pose proof (reported_failure_spec tc) as Hf. destruct (spec_partial_flags tc) as [Hs Ha].
  destruct (tc_status tc); try reflexivity; destruct (spec_partial tc) as [t pr]; cbn [snd] in *;
    rewrite Hf, Hs, Ha, <- verdict_table_no_conf_failure; reflexivity.
Qed.

(** ** The pipeline *)
Lemma process_parts keep s eff w :
  snd (process keep s eff w) =
    match access s with
    | StageErr e => AccessErr e
    | StageOk tc => let r := snd (full_execute tc) in
                    Executed (fr_status r) (fr_has_sds r) (if fr_has_atc_outcome r then Some 0%Z else None)
    end /\
  snd (fst (process keep s eff w)) = match access s with StageErr _ => [] | StageOk tc => fst (full_execute tc) end.
Proof.
  unfold process. destruct (access s) as [tc|e]; [|split; reflexivity].
  unfold execute_in_world. destruct (full_execute tc) as [t r]. split; reflexivity.
Qed.

(** *** 1. What the user sees as a function of what the instructions do *)
Theorem process_result_declarative keep s eff w : snd (process keep s eff w) = user_result s.
Proof.
  rewrite (proj1 (process_parts keep s eff w)). unfold user_result. destruct (access s) as [tc|e]; [|reflexivity].
  rewrite full_result_declarative. reflexivity.
Qed.

Theorem user_sees keep s eff w m :
  program_output m (snd (process keep s eff w)) = doc_program_output m (user_result s) /\
  report m (snd (process keep s eff w)) = report m (user_result s) /\
  exit_value (snd (process keep s eff w)) = (doc_exit (verdict_ident (user_result s)), verdict_ident (user_result s)).
Proof.
  rewrite process_result_declarative. split; [apply program_output_matches_doc|]. split; [reflexivity|].
  apply exit_ident_consistent.
Qed.

(** *** Corollary (a): exit code 0 under the normal reporter *)
Lemma reported_none tc :
  reported_failure tc = None <->
  ffail (schedule tc) = None /\ ffail (sched_cleanup tc (prev_of (tc_act_only tc) None)) = None.
Proof.
  unfold reported_failure. destruct (ffail (schedule tc)) as [f|].
  - split; [|intros [H _]; discriminate]. destruct (in_validation f || is_main_of BeforeAssert f); [discriminate|].
    destruct (ffail _); discriminate.
  - split; [intros H; split; [reflexivity|exact H] | intros [_ H]; exact H].
Qed.

Lemma normal_exit r : r_exit (program_output Normal r) = fst (exit_value r).
Proof. destruct r; reflexivity. Qed.
Lemma keep_exit r : r_exit (program_output Keep r) = fst (exit_value r).
Proof. destruct r as [s h c| |]; reflexivity. Qed.

Theorem exit_zero_iff keep s eff w :
  r_exit (program_output Normal (snd (process keep s eff w))) = 0%Z <->
  exists tc, access s = StageOk tc /\ ffail (conf_plan tc) = None /\
    (tc_status tc = TSkip \/
     (tc_status tc = TPass /\ ffail (schedule tc) = None /\
      ffail (sched_cleanup tc (prev_of (tc_act_only tc) None)) = None)).
Proof.
  rewrite normal_exit, process_result_declarative. unfold user_result.
  destruct (access s) as [tc|e]; cbn [exit_value fst].
  2:{ split; [discriminate|intros (tc & H & _); discriminate]. }
  assert (G : exit_code_of_full (verdict tc) = 0%Z <->
              ffail (conf_plan tc) = None /\ (tc_status tc = TSkip \/ (tc_status tc = TPass /\ reported_failure tc = None))).
  { unfold verdict. destruct (ffail (conf_plan tc)) as [f0|].
    - split; [destruct (f_status f0); discriminate | intros [H _]; discriminate].
    - destruct (tc_status tc); destruct (reported_failure tc) as [[p k i []]|]; cbn; split; intros H;
        try discriminate; try reflexivity; try tauto;
        try (destruct H as [_ [H|[H1 H2]]]; discriminate). }
  rewrite G, reported_none. split.
  - intros (H1 & H2). exists tc. tauto.
  - intros (tc' & [= <-] & H). tauto.
Qed.

(** the two verdicts behind exit code 0 *)
Theorem exit_zero_verdict keep s eff w :
  r_exit (program_output Normal (snd (process keep s eff w))) = 0%Z ->
  exists h c, snd (process keep s eff w) = Executed PASS h c \/ snd (process keep s eff w) = Executed SKIPPED h c.
Proof.
  rewrite normal_exit. destruct (snd (process keep s eff w)) as [st h c|a|]; cbn; [|discriminate..].
  intros H. exists h, c. destruct st; try discriminate; auto.
Qed.

(** *** Corollary (b): the exit code is always a documented one; when it is 65 *)
Theorem exit_code_documented keep s eff w :
  In (fst (exit_value (snd (process keep s eff w)))) documented_codes /\
  r_exit (program_output Normal (snd (process keep s eff w))) = fst (exit_value (snd (process keep s eff w))) /\
  r_exit (program_output Keep (snd (process keep s eff w))) = fst (exit_value (snd (process keep s eff w))).
Proof. split; [apply exit_codes_documented|]. split; [apply normal_exit|apply keep_exit]. Qed.

Theorem exit_65_iff keep s eff w :
  fst (exit_value (snd (process keep s eff w))) = 65%Z <->
  (exists e, access s = StageErr e) \/
  (exists tc, access s = StageOk tc /\ (failure_kind tc = Some FSyntax \/ failure_kind tc = Some FValidation)).
Proof.
  rewrite process_result_declarative. unfold user_result. destruct (access s) as [tc|e]; cbn [exit_value fst].
  2:{ split; [intros _; left; eauto|reflexivity]. }
  assert (G : exit_code_of_full (verdict tc) = 65%Z <-> (failure_kind tc = Some FSyntax \/ failure_kind tc = Some FValidation)).
  { unfold verdict, failure_kind. destruct (ffail (conf_plan tc)) as [f0|].
    - destruct (f_status f0); cbn; split; intros H; try discriminate; try tauto; destruct H; discriminate.
    - destruct (tc_status tc); destruct (reported_failure tc) as [[p k i []]|]; cbn; split; intros H;
        try discriminate; try tauto; destruct H; discriminate. }
  rewrite G. split.
  - intros H. right. exists tc. auto.
  - intros [(e & H)|(tc' & [= <-] & H)]; [discriminate|exact H].
Qed.

(** where a failure of the plan can be *)
Definition plan_steps : list (phase * stepk) :=
  block_validate ++ block_setup ++ block_act ++ [(BeforeAssert, SMain); (Assert, SMain)].

Lemma ffail_schedule_in tc f : ffail (schedule tc) = Some f -> In (f_phase f, f_step f) plan_steps.
Proof.
  unfold schedule, plan_steps. rewrite ffail_app. intros H.
  destruct (ffail (sched_steps tc block_validate)) eqn:E1.
  { injection H as <-. apply in_or_app. left. apply (ffail_sched_steps tc _ _ E1). }
  cbn [ffail snd] in H. rewrite !ffail_app in H. apply in_or_app. right.
  destruct (ffail (sched_steps tc block_setup)) eqn:E2.
  { injection H as <-. apply in_or_app. left. apply (ffail_sched_steps tc _ _ E2). }
  apply in_or_app. right.
  destruct (ffail (sched_steps tc block_act)) eqn:E3.
  { injection H as <-. apply in_or_app. left. apply (ffail_sched_steps tc _ _ E3). }
  apply in_or_app. right.
  destruct (tc_act_only tc); [discriminate|]. rewrite ffail_app in H.
  destruct (ffail (sched_step tc (BeforeAssert, SMain))) eqn:E4.
  { injection H as <-. apply ffail_sched_list in E4 as [-> ->]. left. reflexivity. }
  apply ffail_sched_list in H as [-> ->]. right. left. reflexivity.
Qed.

Lemma ffail_cleanup_in tc prev f : ffail (sched_cleanup tc prev) = Some f -> f_phase f = Cleanup /\ f_step f = SMain.
Proof. cbn. apply ffail_sched_list. Qed.

(** the reported failure is the failure of an executed step of an instruction of the case *)
Lemma reported_failure_cases tc f :
  reported_failure tc = Some f ->
  ffail (schedule tc) = Some f \/ exists prev, ffail (sched_cleanup tc prev) = Some f.
Proof.
  unfold reported_failure. destruct (ffail (schedule tc)) as [f0|].
  - destruct (in_validation f0 || is_main_of BeforeAssert f0); [intros [= ->]; left; reflexivity|].
    destruct (ffail (sched_cleanup tc _)) eqn:E; intros [= <-]; [right; eauto|left; reflexivity].
  - intros H. right. eauto.
Qed.

Lemma failure_is_of_step tc f :
  ffail (conf_plan tc) = Some f \/ reported_failure tc = Some f ->
  exists pv, outcome (beh_of_event tc (EInstr (f_phase f) (f_step f) (f_idx f) pv)) = Some (f_status f).
Proof.
  intros [H|H].
  - destruct (ffail_ev_some tc _ f (sched_list_wf tc Conf SMain None) H) as (pv & _ & Ho). eauto.
  - apply reported_failure_cases in H as [H|(prev & H)].
    + destruct (ffail_ev_some tc _ f (schedule_wf tc) H) as (pv & _ & Ho). eauto.
    + cbn in H. destruct (ffail_ev_some tc _ f (sched_list_wf tc Cleanup SMain (Some prev)) H) as (pv & _ & Ho). eauto.
Qed.

(** every behaviour of every instruction is one the return type of its step admits (what the
    stub instructions of the correspondence harness, and real instructions, satisfy) *)
Definition all_phases : list phase := [Conf; Setup; Exec.Act; BeforeAssert; Assert; Cleanup].
Definition all_steps : list stepk := [SActParse; SValSym; SValPre; SValPost; SValExeInput; SPrepare; SExecute; SMain].
Definition admissible_tc (tc : testcase) : bool :=
  forallb (fun p => forallb (fun k => forallb (fun i : instr => admissible p k (i k)) (instrs_of tc p)) all_steps) all_phases.

Lemma admissible_event tc p k j pv :
  admissible_tc tc = true -> admissible p k (beh_of_event tc (EInstr p k j pv)) = true.
Proof.
  intros H. cbn [beh_of_event]. destruct (nth_error (instrs_of tc p) j) as [i|] eqn:E; [|reflexivity].
  apply nth_error_In in E. unfold admissible_tc in H. rewrite forallb_forall in H.
  assert (Hp : In p all_phases) by (destruct p; cbn; tauto). specialize (H _ Hp). rewrite forallb_forall in H.
  assert (Hk : In k all_steps) by (destruct k; cbn; tauto). specialize (H _ Hk). rewrite forallb_forall in H.
  apply H, E.
Qed.

(** With admissible behaviours: exit code 65 for a file that could be read and parsed means that
    no sandbox was created (only validation ran - see [no_sandbox_only_validation]), or that a
    post-setup validation step reported a validation error. *)
Theorem exit_65_admissible keep s eff w tc :
  access s = StageOk tc -> admissible_tc tc = true ->
  fst (exit_value (snd (process keep s eff w))) = 65%Z ->
  sandbox_created tc = false \/
  exists f, reported_failure tc = Some f /\ f_step f = SValPost /\ f_status f = FValidation.
Proof.
  intros Ha Hadm H. apply exit_65_iff in H as [(e & He)|(tc' & Ha' & Hk)]; [congruence|].
  assert (tc' = tc) by congruence. subst tc'. clear Ha'.
  unfold failure_kind in Hk. unfold sandbox_created.
  destruct (ffail (conf_plan tc)) as [f0|]; [left; reflexivity|].
  destruct (tc_status tc) eqn:Es; try (left; reflexivity);
    (destruct (reported_failure tc) as [f|] eqn:Er; [|destruct Hk; discriminate]);
    cbn [option_map] in Hk;
    destruct (failure_is_of_step tc f (or_intror Er)) as (pv & Ho);
    pose proof (admissible_event tc (f_phase f) (f_step f) (f_idx f) pv Hadm) as Hb;
    set (b := beh_of_event tc _) in *;
    (assert (Hloc : ffail (schedule tc) = Some f /\ In (f_phase f, f_step f) plan_steps \/ (f_phase f = Cleanup /\ f_step f = SMain));
     [apply reported_failure_cases in Er as [E|(prev & E)];
       [left; split; [exact E|apply (ffail_schedule_in tc f E)]|right; apply (ffail_cleanup_in tc prev f E)]|]).
  all: destruct Hloc as [[Hs Hin]|[Hp Hst]].
  all: try (rewrite Hp, Hst in Hb; destruct Hk as [Hk|Hk]; injection Hk as Hk; rewrite Hk in Ho;
            destruct b; try discriminate Ho; discriminate Hb).
  all: rewrite Hs.
  all: unfold plan_steps in Hin; cbn in Hin.
  all: repeat (destruct Hin as [Hin|Hin];
               [injection Hin as Hp Hst; rewrite <- Hp, <- Hst in Hb;
                destruct Hk as [Hk|Hk]; injection Hk as Hk; rewrite Hk in Ho;
                destruct b; try discriminate Ho; try discriminate Hb;
                first [ left; unfold in_validation; rewrite <- Hst; reflexivity
                      | right; exists f; split; [reflexivity|split; [symmetry; exact Hst|exact Hk]] ] |]).
  all: contradiction.
Qed.

(** *** the trace and the world of the composed pipeline *)
Lemma execute_in_world_parts keep tc eff w :
  snd (fst (execute_in_world keep tc eff w)) = fst (full_execute tc) /\
  snd (execute_in_world keep tc eff w) = snd (full_execute tc).
Proof. unfold execute_in_world. destruct (full_execute tc). split; reflexivity. Qed.

Lemma has_sds_iff_sandbox_event tc :
  existsb is_sandbox (fst (full_execute tc)) = fr_has_sds (snd (full_execute tc)).
Proof.
  pose proof (full_trace_sandbox_shape tc) as H. cbn zeta in H.
  destruct H as [[Hno ->]|[(t1 & t2 & -> & _ & _) ->]].
  - destruct (existsb is_sandbox (fst (full_execute tc))) eqn:E; [|reflexivity].
    apply existsb_exists in E as (e & Hin & He). rewrite forallb_forall in Hno. specialize (Hno _ Hin).
    rewrite He in Hno. discriminate.
  - rewrite existsb_app. cbn. apply orb_true_r.
Qed.

Theorem sandbox_event_iff_created tc : existsb is_sandbox (fst (full_execute tc)) = sandbox_created tc.
Proof. rewrite has_sds_iff_sandbox_event, full_result_declarative. reflexivity. Qed.

(** No sandbox: nothing but validation (configuration, act parse, symbol and pre-sds validation)
    ran, and no directory was created. *)
Theorem no_sandbox_only_validation keep s eff w tc :
  access s = StageOk tc -> sandbox_created tc = false ->
  let '(w', t, r) := process keep s eff w in
  Forall (fun e => is_validation_event e = true) t /\ existsb is_sandbox t = false /\
  ((forall r, In r (w_roots w) -> r < w_next w) -> w_roots w' = w_roots w).
Proof.
  intros Ha Hsb. unfold process. rewrite Ha.
  pose proof (execute_in_world_parts keep tc eff w) as [Ht Hr].
  pose proof (sandbox_removed_or_kept keep tc eff w) as Hroots.
  destruct (execute_in_world keep tc eff w) as [[w' t] r]. cbn [fst snd] in Ht, Hr. subst t r.
  split; [|split].
  - rewrite full_execute_refines_spec. unfold spec_full, sandbox_created, conf_plan in *.
    assert (Hc : forall l : list item, (forall it, In it l -> In it (sched_step tc (Conf, SMain))) ->
                           Forall (fun e => is_validation_event e = true) (map fst l)).
    { intros l Hl. apply Forall_map_fst, Forall_forall. intros it Hin. apply Hl in Hin.
      apply sched_list_events in Hin as (j & i & -> & _). reflexivity. }
    destruct (ffail (sched_step tc (Conf, SMain))) as [f0|]; [apply Hc, tuf_incl|].
    assert (Hp : tc_status tc <> TSkip -> Forall (fun e => is_validation_event e = true) (fst (spec_partial tc))).
    { intros Hns. unfold spec_partial.
      destruct (ffail (schedule tc)) as [f|] eqn:Ef; [|destruct (tc_status tc); congruence].
      assert (Hv : in_validation f = true) by (destruct (tc_status tc); [|congruence|]; destruct (in_validation f); auto; discriminate).
      rewrite Hv. cbn [fst].
      pose proof (sandbox_in_plan_b tc) as Hb. rewrite Ef, Hv in Hb. cbn [negb] in Hb.
      unfold schedule in *. rewrite tuf_app in *.
      destruct (ffail (sched_steps tc block_validate)).
      - apply Forall_map_fst, Forall_forall. intros it Hin. eapply validate_block_is_validation, tuf_incl, Hin.
      - rewrite map_app, existsb_app in Hb. cbn in Hb. rewrite orb_true_r in Hb. discriminate. }
    destruct (tc_status tc) eqn:Es; [|apply Hc; auto|];
      (destruct (spec_partial tc) as [t pr]; cbn [fst] in *; apply Forall_app; split; [apply Hc; auto|apply Hp; discriminate]).
  - rewrite sandbox_event_iff_created. exact Hsb.
  - intros Hfresh. specialize (Hroots Hfresh). cbn in Hroots.
    rewrite full_result_declarative in Hroots. cbn [fr_has_sds] in Hroots. rewrite Hsb in Hroots. exact Hroots.
Qed.

(** *** Corollary (c): under --keep the only line on stdout is the sandbox path; it is printed iff
    the sandbox event is in the trace, iff a sandbox is created (declaratively), iff a fresh
    directory [w_next w] is left behind.  Without --keep nothing is ever left. *)
Theorem keep_prints_the_kept_sandbox s eff w :
  (forall r, In r (w_roots w) -> r < w_next w) ->
  let '(w', t, r) := process true s eff w in
  let created := match access s with StageOk tc => sandbox_created tc | StageErr _ => false end in
  existsb is_sandbox t = created /\
  r_out (program_output Keep r) = (if created then [OSdsPath] else []) /\
  w_roots w' = (if created then w_next w :: w_roots w else w_roots w) /\
  (created = true -> ~ In (w_next w) (w_roots w)).
Proof.
  intros Hfresh. unfold process. destruct (access s) as [tc|e].
  2:{ cbn. repeat split; auto. discriminate. }
  pose proof (execute_in_world_parts true tc eff w) as [Ht Hr].
  pose proof (sandbox_removed_or_kept true tc eff w Hfresh) as Hroots.
  destruct (execute_in_world true tc eff w) as [[w' t] r]. cbn [fst snd] in Ht, Hr. subst t r.
  cbn zeta. rewrite sandbox_event_iff_created. rewrite full_result_declarative in *. cbn [fr_has_sds fr_status] in *.
  split; [reflexivity|]. rewrite keep_stdout_is_only_sandbox_path.
  destruct (sandbox_created tc); [destruct Hroots as [Hr Hn]|]; repeat split; auto. discriminate.
Qed.

Theorem nothing_left_without_keep s eff w :
  (forall r, In r (w_roots w) -> r < w_next w) ->
  w_roots (fst (fst (process false s eff w))) = w_roots w.
Proof.
  intros Hfresh. unfold process. destruct (access s) as [tc|e]; [|reflexivity].
  pose proof (sandbox_removed_or_kept false tc eff w Hfresh) as Hroots.
  destruct (execute_in_world false tc eff w) as [[w' t] r]. cbn [fst].
  destruct (fr_has_sds r); [destruct Hroots as [H _]|]; assumption.
Qed.

(** ** 2. Later steps cannot matter *)
(** Two test cases whose plans agree up to and including their first failing step (configuration
    plan, main plan, cleanup plan for whatever phase cleanup is told), with the same status in
    force (relevant only if the configuration phase succeeds) and the same --act flag, are
    executed identically: same trace, same result. *)
Lemma tuf_eq_ffail a b : tuf a = tuf b -> ffail a = ffail b.
Proof. intros H. rewrite <- (ffail_tuf a), <- (ffail_tuf b), H. reflexivity. Qed.

Theorem agree_up_to_first_failure tc1 tc2 :
  tuf (conf_plan tc1) = tuf (conf_plan tc2) ->
  (ffail (conf_plan tc1) = None ->
     tc_status tc1 = tc_status tc2 /\
     (tc_status tc1 <> TSkip ->
        tc_act_only tc1 = tc_act_only tc2 /\
        tuf (schedule tc1) = tuf (schedule tc2) /\
        forall prev, tuf (sched_cleanup tc1 prev) = tuf (sched_cleanup tc2 prev))) ->
  full_execute tc1 = full_execute tc2.
Proof.
  unfold conf_plan. intros Hc Hrest. rewrite !full_execute_refines_spec. unfold spec_full.
  pose proof (tuf_eq_ffail _ _ Hc) as Hcf. rewrite <- Hcf.
  destruct (ffail (sched_step tc1 (Conf, SMain))) as [f0|] eqn:E0; [rewrite Hc; reflexivity|].
  assert (Hceq : sched_step tc1 (Conf, SMain) = sched_step tc2 (Conf, SMain)).
  { rewrite <- (tuf_no_fail _ E0), Hc. apply tuf_no_fail. congruence. }
  destruct (Hrest eq_refl) as [Hst Hmore]. rewrite <- Hst, <- Hceq.
  assert (Hp : tc_status tc1 <> TSkip -> spec_partial tc1 = spec_partial tc2).
  { intros Hns. destruct (Hmore Hns) as (Hao & Hs & Hcl). unfold spec_partial.
    rewrite <- (tuf_eq_ffail _ _ Hs), <- Hs, <- Hao.
    destruct (ffail (schedule tc1)) as [f|].
    - destruct (in_validation f); [reflexivity|].
      rewrite <- (tuf_eq_ffail _ _ (Hcl _)), <- Hcl. reflexivity.
    - rewrite <- (tuf_eq_ffail _ _ (Hcl _)), <- Hcl. reflexivity. }
  destruct (tc_status tc1); [rewrite Hp by discriminate; reflexivity|reflexivity|rewrite Hp by discriminate; reflexivity].
Qed.

(** hence the same world, trace, result and - in every output mode - the same report *)
Theorem same_execution_same_report keep s1 s2 eff w tc1 tc2 m :
  access s1 = StageOk tc1 -> access s2 = StageOk tc2 -> full_execute tc1 = full_execute tc2 ->
  process keep s1 eff w = process keep s2 eff w /\
  program_output m (snd (process keep s1 eff w)) = program_output m (snd (process keep s2 eff w)).
Proof.
  intros H1 H2 He.
  assert (E : process keep s1 eff w = process keep s2 eff w).
  { unfold process. rewrite H1, H2. unfold execute_in_world. rewrite He. reflexivity. }
  split; [exact E|]. rewrite E. reflexivity.
Qed.

(** *** instruction-level instance: once an [assert] instruction has failed in its main step, what
    the main steps of the assert instructions after it would do is irrelevant (their validation
    steps are not: those run before) *)
Definition set_assert (tc : testcase) (l : list instr) : testcase :=
  TC (tc_conf tc) (tc_setup tc) (tc_atc tc) (tc_before_assert tc) l (tc_cleanup tc) (tc_status tc) (tc_act_only tc).

Lemma sched_list_ext p k prev : forall l1 l2 idx,
  map (fun i : instr => i k) l1 = map (fun i : instr => i k) l2 ->
  sched_list p k prev idx l1 = sched_list p k prev idx l2.
Proof.
  induction l1 as [|a l1 IH]; destruct l2 as [|b l2]; cbn; intros idx H; try discriminate; [reflexivity|].
  injection H as Hab Hl. rewrite Hab, (IH l2 (S idx) Hl). reflexivity.
Qed.
Lemma sched_list_app p k prev : forall l1 l2 idx,
  sched_list p k prev idx (l1 ++ l2) = sched_list p k prev idx l1 ++ sched_list p k prev (idx + List.length l1) l2.
Proof.
  induction l1 as [|a l1 IH]; cbn; intros l2 idx; [rewrite Nat.add_0_r; reflexivity|].
  rewrite IH. replace (S idx + List.length l1) with (idx + S (List.length l1)) by lia. reflexivity.
Qed.
Lemma tuf_app_eq a x y : tuf x = tuf y -> tuf (a ++ x) = tuf (a ++ y).
Proof. intros H. rewrite !tuf_app. destruct (ffail a); [reflexivity|]. rewrite H. reflexivity. Qed.

Definition agree_off_main (a b : instr) : Prop := forall k, k <> SMain -> a k = b k.

Theorem later_assert_mains_cannot_matter tc pre i post1 post2 :
  tc_assert tc = pre ++ i :: post1 -> outcome (i SMain) <> None -> Forall2 agree_off_main post1 post2 ->
  full_execute (set_assert tc (pre ++ i :: post2)) = full_execute tc.
Proof.
  intros Hassert Hfail Hagree. set (tc2 := set_assert tc (pre ++ i :: post2)).
  assert (Hmap : forall k, k <> SMain -> map (fun j : instr => j k) (tc_assert tc2) = map (fun j : instr => j k) (tc_assert tc)).
  { intros k Hk. cbn [tc2 set_assert tc_assert]. rewrite Hassert, !map_app. cbn [map]. do 2 f_equal.
    clear -Hagree Hk. induction Hagree as [|a b l1 l2 Hab _ IH]; cbn; [reflexivity|]. rewrite IH, (Hab k Hk). reflexivity. }
  assert (Hstep : forall p k, (p, k) <> (Assert, SMain) -> sched_step tc2 (p, k) = sched_step tc (p, k)).
  { intros p k Hpk. unfold sched_step. cbn [fst snd].
    destruct p; try reflexivity. apply sched_list_ext. cbn [instrs_of]. apply Hmap. intros ->. contradiction Hpk. reflexivity. }
  assert (Hsteps : forall ss, ~ In (Assert, SMain) ss -> sched_steps tc2 ss = sched_steps tc ss).
  { induction ss as [|[p k] ss IH]; intros Hn; [reflexivity|]. cbn [sched_steps flat_map].
    fold (sched_steps tc2 ss) (sched_steps tc ss). rewrite IH, Hstep; [reflexivity| |].
    - intros E. apply Hn. left. exact E.
    - intros Hin. apply Hn. right. exact Hin. }
  assert (Hmain : tuf (sched_step tc2 (Assert, SMain)) = tuf (sched_step tc (Assert, SMain))).
  { unfold sched_step. cbn [fst snd instrs_of tc2 set_assert tc_assert]. rewrite Hassert, !sched_list_app.
    apply tuf_app_eq. cbn [sched_list tuf snd].
    destruct (outcome (i SMain)); [reflexivity|contradiction Hfail; reflexivity]. }
  apply agree_up_to_first_failure.
  - unfold conf_plan. rewrite Hstep by discriminate. reflexivity.
  - intros _. split; [reflexivity|]. intros _. split; [reflexivity|]. split.
    + unfold schedule. rewrite !Hsteps by (cbn; intuition discriminate). cbn [tc2 set_assert tc_act_only].
      apply tuf_app_eq. cbn [tuf snd]. f_equal. apply tuf_app_eq, tuf_app_eq.
      destruct (tc_act_only tc); [reflexivity|]. rewrite (Hstep BeforeAssert SMain) by discriminate.
      apply tuf_app_eq, Hmain.
    + intros prev. reflexivity.
Qed.

(** ** 3. The [symbol] command *)
Definition sym_block : list (phase * stepk) :=
  [(Exec.Act, SActParse); (Setup, SValSym); (Exec.Act, SValSym); (BeforeAssert, SValSym); (Assert, SValSym); (Cleanup, SValSym)].
Definition sym_plan (tc : testcase) : list item := conf_plan tc ++ sched_steps tc sym_block.

(** its trace and result, declaratively: the configuration phase, act parse and symbol validation
    of every phase, cut after the first failing step *)
Theorem symbol_command_declarative s :
  symbol_command s =
  match access s with
  | StageErr e => ([], Some (inl e))
  | StageOk tc => (map fst (tuf (sym_plan tc)), option_map inr (ffail (sym_plan tc)))
  end.
Proof.
  unfold symbol_command, sym_plan, conf_plan. destruct (access s) as [tc|e]; [|reflexivity].
  rewrite run_step_spec, tuf_app, ffail_app.
  destruct (ffail (sched_step tc (Conf, SMain))) as [f0|] eqn:E0; [reflexivity|].
  change [(Exec.Act, SActParse); (Setup, SValSym); (Exec.Act, SValSym); (BeforeAssert, SValSym); (Assert, SValSym); (Cleanup, SValSym)]
    with sym_block.
  rewrite run_steps_spec, (tuf_no_fail _ E0), map_app. reflexivity.
Qed.

Lemma sched_steps_app tc a b : sched_steps tc (a ++ b) = sched_steps tc a ++ sched_steps tc b.
Proof. unfold sched_steps. apply flat_map_app. Qed.

(** a defect the [symbol] command reports is the defect a run of the case reports (unless the case
    is skipped: then a run stops after the configuration phase), with the same trace and without
    any sandbox *)
Theorem symbol_failure_is_run_failure keep s eff w tc f :
  access s = StageOk tc -> snd (symbol_command s) = Some (inr f) ->
  ffail (conf_plan tc) = Some f \/ tc_status tc <> TSkip ->
  let '(w', t, r) := process keep s eff w in
  t = fst (symbol_command s) /\
  r = Executed (match ffail (conf_plan tc) with
                | Some _ => full_of_fail (f_status f)
                | None => translate_status (tc_status tc) (Some (f_status f))
                end) false None.
Proof.
  intros Ha Hsym Hns. rewrite symbol_command_declarative, Ha in *. cbn [fst snd] in *.
  pose proof (process_parts keep s eff w) as [Hr Ht]. rewrite Ha in Hr, Ht.
  destruct (process keep s eff w) as [[w' t] r]. cbn [fst snd] in Hr, Ht. subst t r.
  cbn zeta. rewrite full_execute_refines_spec. unfold spec_full, sym_plan, conf_plan in *.
  rewrite tuf_app, ffail_app in *.
  destruct (ffail (sched_step tc (Conf, SMain))) as [f0|] eqn:E0.
  { injection Hsym as ->. cbn. split; reflexivity. }
  destruct (ffail (sched_steps tc sym_block)) as [f1|] eqn:E1; [|discriminate]. injection Hsym as ->.
  assert (Hs : ffail (schedule tc) = Some f /\ tuf (schedule tc) = tuf (sched_steps tc sym_block) /\ in_validation f = true).
  { unfold schedule.
    change block_validate with (sym_block ++ [(Setup, SValPre); (Exec.Act, SValPre); (BeforeAssert, SValPre); (Assert, SValPre); (Cleanup, SValPre)]).
    rewrite sched_steps_app, <- !app_assoc, tuf_app, ffail_app, E1. repeat split.
    apply ffail_sched_steps in E1. unfold in_validation. cbn in E1.
    repeat (destruct E1 as [E1|E1]; [injection E1 as _ <-; reflexivity|]). contradiction. }
  destruct Hs as (Hs1 & Hs2 & Hs3).
  assert (Hp : spec_partial tc = (map fst (tuf (sched_steps tc sym_block)), PResult (Some f) false false)).
  { unfold spec_partial. rewrite Hs1, Hs3, Hs2. reflexivity. }
  destruct Hns as [Hns|Hns]; [discriminate|].
  destruct (tc_status tc); [|contradiction Hns; reflexivity|]; rewrite Hp; cbn; rewrite map_app; split; reflexivity.
Qed.

(** ** Non-vacuity *)
Definition src_of (tc : testcase) : source := Src true true true true tc.
Definition w1 : world := W (DOther 0) [(1, 1)] [] 5.
Definition no_eff : effects := fun _ => EffNone.

(** 1: two instructions per phase; assert[1] raises a hard error, cleanup[0] raises an exception
    which replaces it: INTERNAL_ERROR, 129; the three output modes *)
Example user_sees_example :
  user_result (src_of tc0) = Executed INTERNAL_ERROR true (Some 0%Z) /\
  option_map f_phase (reported_failure tc0) = Some Cleanup /\
  program_output Normal (snd (process false (src_of tc0) no_eff w1)) = Report 129 [OIdent "INTERNAL_ERROR"] None false /\
  program_output Keep (snd (process true (src_of tc0) no_eff w1)) = Report 129 [OSdsPath] (Some "INTERNAL_ERROR"%string) false /\
  program_output Outcome.Act (snd (process false (src_of tc0) no_eff w1)) =
    Report 129 [OAtcOut] (Some "INTERNAL_ERROR"%string) true /\
  program_output Normal (snd (process false (Src true true true false tc0) no_eff w1)) = Report 65 [OIdent "SYNTAX_ERROR"] None false.
Proof. vm_compute. repeat split. Qed.

(** (a): exit 0 for a passing and for a skipped case (whose later instructions would fail), not for
    an unexpected pass *)
Definition tc_pass : testcase := TC [ok_instr] [ok_instr] ok_instr [ok_instr] [ok_instr] [ok_instr] TPass false.
Definition tc_skip : testcase := TC [ok_instr] [failing_at SMain BHardRet] ok_instr [] [] [] TSkip false.
Definition tc_xpass : testcase := TC [ok_instr] [ok_instr] ok_instr [ok_instr] [ok_instr] [ok_instr] TFail false.
Example exit_zero_examples :
  program_output Normal (snd (process false (src_of tc_pass) no_eff w1)) = Report 0 [OIdent "PASS"] None false /\
  program_output Normal (snd (process false (src_of tc_skip) no_eff w1)) = Report 0 [OIdent "SKIPPED"] None false /\
  program_output Normal (snd (process false (src_of tc_xpass) no_eff w1)) = Report 33 [OIdent "XPASS"] None false.
Proof. vm_compute. repeat split. Qed.

(** (b): "exit code 65 iff nothing but validation ran" does NOT hold, in either direction, even for
    admissible behaviours:
    - a validation error reported by a post-setup validation step gives 65 although setup/main ran
      in a sandbox;
    - a hard error returned by a pre-sds validation step gives 128 although nothing but validation ran. *)
Definition tc_post_setup_invalid : testcase :=
  TC [] [ok_instr] ok_instr [] [failing_at SValPost BValErr] [ok_instr] TPass false.
Definition tc_presds_hard : testcase :=
  TC [] [failing_at SValPre BHardRet] ok_instr [] [ok_instr] [ok_instr] TPass false.
Theorem exit_65_iff_only_validation_refuted :
  (exists tc, admissible_tc tc = true /\
     fst (exit_value (snd (process false (src_of tc) no_eff w1))) = 65%Z /\
     existsb is_sandbox (snd (fst (process false (src_of tc) no_eff w1))) = true /\
     In (EInstr Setup SMain 0 None) (snd (fst (process false (src_of tc) no_eff w1)))) /\
  (exists tc, admissible_tc tc = true /\
     fst (exit_value (snd (process false (src_of tc) no_eff w1))) = 128%Z /\
     forallb is_validation_event (snd (fst (process false (src_of tc) no_eff w1))) = true).
Proof.
  split; [exists tc_post_setup_invalid|exists tc_presds_hard]; vm_compute; repeat split; auto 20.
Qed.

(** (c): --keep: the path is printed and root 5 = [w_next w1] is left; a case that fails validation
    prints nothing and leaves nothing *)
Example keep_examples :
  (let '(w', t, r) := process true (src_of tc0) no_eff w1 in
   r_out (program_output Keep r) = [OSdsPath] /\ w_roots w' = [5] /\ existsb is_sandbox t = true) /\
  (let '(w', t, r) := process true (src_of tc_presds_hard) no_eff w1 in
   r_out (program_output Keep r) = [] /\ w_roots w' = [] /\ existsb is_sandbox t = false) /\
  w_roots (fst (fst (process false (src_of tc0) no_eff w1))) = [].
Proof. vm_compute. repeat split. Qed.

(** 2: after assert[0] failed, the main step of assert[1] is irrelevant - its pre-sds validation is not *)
Example later_steps_example :
  let tc a := TC [] [ok_instr] ok_instr [] [failing_at SMain BFail; a] [ok_instr] TPass false in
  full_execute (tc (failing_at SMain BExn)) = full_execute (tc ok_instr) /\
  fr_status (snd (full_execute (tc ok_instr))) = FAIL /\
  fr_status (snd (full_execute (tc (failing_at SValPre BValErr)))) = VALIDATION_ERROR.
Proof. vm_compute. repeat split. Qed.

(** 3: an undefined symbol in cleanup[1] *)
Example symbol_example :
  let tc := TC [] [ok_instr] ok_instr [ok_instr] [ok_instr] [ok_instr; failing_at SValSym BValErr] TPass false in
  option_map (fun f => (f_phase f, f_step f, f_idx f)) (ffail (sym_plan tc)) = Some (Cleanup, SValSym, 1) /\
  List.length (fst (symbol_command (src_of tc))) = 7 /\
  snd (process false (src_of tc) no_eff w1) = Executed VALIDATION_ERROR false None /\
  snd (fst (process false (src_of tc) no_eff w1)) = fst (symbol_command (src_of tc)).
Proof. vm_compute. repeat split. Qed.
