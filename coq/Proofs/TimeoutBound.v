(** C19: cleanup runs and the sandbox is removed (corollaries of C01 / C04 through the simulation);
    bounded number of steps after an expiry; bounded waiting in model time (proofs). *)
From Coq Require Import List Bool Arith NArith Lia.
From Exactly Require Import Lib.Harness Model.Outcome Model.Exec Model.World Model.Timeout Spec.C01 Spec.C19
  Proofs.ExecSpec Proofs.ExecCorollaries Proofs.WorldProofs Proofs.TimeoutForce Proofs.TimeoutSim Proofs.TimeoutExpiry.
Import ListNotations.

(** ** cleanup is entered exactly once (C01), the sandbox exists and is removed unless --keep (C04) *)
Lemma texecute_has_sds tc : pr_has_sds (snd (texecute tc)) = true.
Proof.
  unfold texecute. pose proof (texecute_st_shape tc) as H.
  destruct (tmain tc) as [[[[tm f0] stc] prev] atc]. rewrite H. reflexivity.
Qed.

Theorem cleanup_entered_once tc : count_ev is_cleanup_begin (erase (fst (texecute tc))) = 1.
Proof.
  pose proof (cleanup_exactly_once_iff_sandbox (lower tc)) as H. cbn zeta in H.
  rewrite texecute_is_partial_execute in H. cbn [fst snd] in H. destruct H as [H1 H2].
  rewrite texecute_has_sds in H2. rewrite H2 in H1. exact H1.
Qed.

Lemma full_execute_lower tc :
  full_execute (lower tc) =
  (erase (fst (texecute tc)),
   FResult (translate_status TPass (option_map f_status (pr_failure (snd (texecute tc)))))
           (pr_failure (snd (texecute tc))) true (pr_has_atc_outcome (snd (texecute tc)))).
Proof.
  unfold full_execute.
  change (run_step (lower tc) (Conf, SMain)) with (@nil event, @None failure).
  change (tc_status (lower tc)) with TPass. cbn iota beta.
  rewrite texecute_is_partial_execute. cbn [fst snd app]. rewrite texecute_has_sds. reflexivity.
Qed.

Theorem sandbox_removed_unless_keep tc keep : sandbox_left keep tc = keep.
Proof.
  unfold sandbox_left.
  pose proof (sandbox_removed_or_kept keep (lower tc) (fun _ => EffNone) world0) as H.
  assert (H0 : forall r, In r (w_roots world0) -> r < w_next world0) by (intros r []).
  specialize (H H0). clear H0. unfold execute_in_world in *. rewrite full_execute_lower in *.
  cbn [fr_has_sds fst snd w_roots] in *. destruct H as [H _].
  destruct keep; rewrite H; reflexivity.
Qed.

(** ** the cleanup phase runs its instructions in order, all of them unless one fails *)
Definition cleanup_mains (prev : prev_phase) (from n : nat) : list event :=
  map (fun i => EInstr Cleanup SMain i (Some prev)) (seq from n).

Lemma main_of_erase p idx st i : erase (fst (fst (main_of p idx st i))) = [].
Proof.
  destruct i as [v|ds|d|b]; cbn [main_of]; try reflexivity.
  pose proof (spawn_all_erase p idx (s_timeout st) ds) as H.
  destruct (spawn_all p idx (s_timeout st) ds) as [l x]. exact H.
Qed.

Lemma trun_list_cleanup_mains prev : forall is_ idx st,
  let '(t, _, r) := trun_list Cleanup (Some prev) idx st is_ in
  exists n, erase t = cleanup_mains prev idx n /\ n <= length is_ /\
            match r with None => n = length is_ | Some f => idx + n = S (f_idx f) end.
Proof.
  induction is_ as [|i is_ IH]; intros idx st; [exists 0; cbn; auto|].
  cbn [trun_list]. pose proof (main_of_erase Cleanup idx st i) as He.
  destruct (main_of Cleanup idx st i) as [[l st'] r]. cbn [fst] in He. destruct r as [s|].
  - exists 1. rewrite erase_cons_ev, He. cbn. split; [reflexivity|]. split; lia.
  - specialize (IH (S idx) st'). destruct (trun_list Cleanup (Some prev) (S idx) st' is_) as [[t st''] r'].
    destruct IH as (n & E & Hn & Hr). exists (S n). rewrite erase_cons_ev, erase_app, He, E. cbn [app].
    split; [reflexivity|]. split; [cbn; lia|]. destruct r'; cbn [length]; lia.
Qed.

Theorem cleanup_runs_in_order tc prev st :
  let (t, rc) := tcleanup tc prev st in
  exists n, erase t = ECleanupBegin prev :: cleanup_mains prev 0 n /\ n <= length (t_cleanup tc) /\
            match rc with None => n = length (t_cleanup tc) | Some f => n = S (f_idx f) end.
Proof.
  unfold tcleanup. pose proof (trun_list_cleanup_mains prev (t_cleanup tc) 0 st) as H.
  destruct (trun_list Cleanup (Some prev) 0 st (t_cleanup tc)) as [[t st'] r].
  destruct H as (n & E & Hn & Hr). exists n. rewrite erase_cons_ev, E. split; [reflexivity|]. split; [exact Hn|].
  destruct r; [cbn in Hr|]; exact Hr.
Qed.

(** every execution ends with the cleanup phase *)
Theorem trace_ends_with_cleanup tc :
  exists prev pre, fst (texecute tc) = pre ++ fst (tcleanup tc prev (cleanup_entry tc)).
Proof.
  unfold texecute, cleanup_entry. pose proof (texecute_st_shape tc) as H.
  destruct (tmain tc) as [[[[tm f0] stc] prev] atc]. rewrite H. cbn [fst snd].
  exists prev, (ok_steps tc block_validate ++ TEv ESandbox :: tm). rewrite <- app_assoc. reflexivity.
Qed.

(** ** bounded number of steps after an expiry *)
Lemma is_main_ev_erase : forall t, length (filter is_main_ev t) <= length (erase t).
Proof.
  induction t as [|x t IH]; [cbn; lia|]. destruct x as [e|c].
  - rewrite erase_cons_ev. cbn [filter]. destruct (is_main_ev (TEv e)); cbn [length]; lia.
  - rewrite erase_cons_call. cbn [filter is_main_ev]. exact IH.
Qed.

Lemma cleanup_main_count tc prev st : length (filter is_main_ev (fst (tcleanup tc prev st))) <= length (t_cleanup tc).
Proof.
  unfold tcleanup. pose proof (trun_list_cleanup_mains prev (t_cleanup tc) 0 st) as H.
  destruct (trun_list Cleanup (Some prev) 0 st (t_cleanup tc)) as [[t st'] r]. cbn [fst filter is_main_ev].
  destruct H as (n & E & Hn & _).
  pose proof (is_main_ev_erase t) as H. rewrite E in H. unfold cleanup_mains in H. rewrite map_length, seq_length in H. lia.
Qed.

Theorem bounded_steps_after_expiry tc pre c post :
  fst (texecute tc) = pre ++ TCall c :: post -> exp_call c -> no_exp pre ->
  length (filter is_main_ev post) <= length (t_cleanup tc).
Proof.
  intros E Hc Hp. destruct (expiry_is_hard_error tc pre c post E Hc Hp) as (_ & H1 & H2 & _).
  destruct (phase_eqb (c_phase c) Cleanup) eqn:Ep.
  - assert (c_phase c = Cleanup) by (destruct (c_phase c); try discriminate; reflexivity).
    rewrite (H1 H). cbn. lia.
  - assert (Hne : c_phase c <> Cleanup) by (intros H; rewrite H in Ep; discriminate).
    destruct (H2 Hne) as (prev & ->). apply cleanup_main_count.
Qed.

(** ** bounded waiting (model time) *)
Lemma calls_in_force_invariant tc (Q : tmo -> Prop) :
  (forall cur x, Q cur -> Q (force_after tc cur x)) ->
  forall t cur, Q cur -> calls_in_force tc cur t = true -> forall c, In (TCall c) t -> Q (c_timeout c).
Proof.
  intros Hstep. induction t as [|x t IH]; intros cur Hq H c Hin; [contradiction|].
  destruct x as [e|c'].
  - destruct Hin as [Hin|Hin]; [discriminate|]. apply (IH (force_after tc cur (TEv e))); [apply Hstep, Hq | exact H | exact Hin].
  - cbn in H. apply andb_true_iff in H as [H1 H2]. destruct Hin as [Hin|Hin].
    + injection Hin as <-. apply tmo_eqb_eq in H1. rewrite H1. exact Hq.
    + apply (IH cur); assumption.
Qed.

Definition finite_le (T : N) (v : tmo) : Prop := exists s, v = Some s /\ (s <= T)%N.

Lemma in_calls_of c : forall t, In c (calls_of t) <-> In (TCall c) t.
Proof.
  induction t as [|x t IH]; [cbn; tauto|]. destruct x as [e|c']; cbn [calls_of flat_map app In] in *.
  - fold (calls_of t). rewrite IH. split; [auto | intros [H|H]; [discriminate | exact H]].
  - fold (calls_of t). rewrite IH. split; intros [H|H]; auto; [left; congruence | left; congruence].
Qed.

Lemma total_wait_le T : forall cs,
  (forall c, In c cs -> finite_le T (c_timeout c)) -> (total_wait cs <= T * N.of_nat (length cs))%N.
Proof.
  induction cs as [|c cs IH]; intros H; [cbn; lia|].
  cbn [total_wait fold_right length]. fold (total_wait cs).
  destruct (H c (or_introl eq_refl)) as (s & Es & Hs). rewrite Es. cbn [wait_of].
  specialize (IH (fun c' Hc' => H c' (or_intror Hc'))). lia.
Qed.

Theorem bounded_wait tc T :
  finite_le T (t_default tc) ->
  (forall p i v, instr_at tc p i = Some (TSet v) -> finite_le T v) ->
  (forall c, In c (calls_of (fst (texecute tc))) -> finite_le T (c_timeout c)) /\
  (total_wait (calls_of (fst (texecute tc))) <= T * N.of_nat (length (calls_of (fst (texecute tc)))))%N.
Proof.
  intros Hd Hset.
  assert (Hall : forall c, In c (calls_of (fst (texecute tc))) -> finite_le T (c_timeout c)).
  { intros c Hin. apply in_calls_of in Hin.
    apply (calls_in_force_invariant tc (finite_le T)) with (t := fst (texecute tc)) (cur := t_default tc);
      [|exact Hd | apply texecute_calls_in_force | exact Hin].
    intros cur x Hq. destruct x as [e|c']; [|exact Hq]. destruct e as [p k idx pr| |]; try exact Hq.
    destruct k; try exact Hq. cbn [force_after]. destruct (instr_at tc p idx) as [[v|ds|d|b]|] eqn:Ei; try exact Hq.
    apply (Hset p idx v Ei). }
  split; [exact Hall | apply total_wait_le, Hall].
Qed.

(** the number of processes started is bounded by the number of process start sites of the case *)
Definition n_procs_list (is_ : list tinstr) : nat :=
  fold_right (fun i acc => match i with TSpawn ds => length ds | _ => 0 end + acc) 0 is_.
Definition n_procs (tc : tcase) : nat :=
  n_procs_list (t_setup tc) + (1 + length (t_act tc)) + n_procs_list (t_before_assert tc) +
  n_procs_list (t_assert tc) + n_procs_list (t_cleanup tc).

Lemma calls_of_app a b : calls_of (a ++ b) = calls_of a ++ calls_of b.
Proof. unfold calls_of. apply flat_map_app. Qed.

Lemma calls_ok_evs p k : forall n idx, calls_of (ok_evs p k idx n) = [].
Proof. induction n as [|n IH]; intros idx; [reflexivity|]. cbn [ok_evs]. exact (IH (S idx)). Qed.
Lemma calls_ok_steps tc : forall ss, calls_of (ok_steps tc ss) = [].
Proof.
  induction ss as [|s ss IH]; [reflexivity|]. unfold ok_steps. cbn [flat_map]. rewrite calls_of_app, calls_ok_evs. exact IH.
Qed.

Lemma spawn_all_count p idx t : forall ds, length (calls_of (fst (spawn_all p idx t ds))) <= length ds.
Proof.
  induction ds as [|d ds IH]; [cbn; lia|]. cbn [spawn_all]. destruct (expires t d); [cbn; lia|].
  destruct (spawn_all p idx t ds) as [l x]. cbn [fst] in *.
  change (calls_of (TCall (Call p idx t d) :: l)) with (Call p idx t d :: calls_of l). cbn [length]. lia.
Qed.

Lemma trun_list_count p prev : forall is_ idx st,
  length (calls_of (fst (fst (trun_list p prev idx st is_)))) <= n_procs_list is_.
Proof.
  induction is_ as [|i is_ IH]; intros idx st; [cbn; lia|].
  cbn [trun_list n_procs_list fold_right]. fold (n_procs_list is_).
  assert (Hl : length (calls_of (fst (fst (main_of p idx st i)))) <= match i with TSpawn ds => length ds | _ => 0 end).
  { destruct i as [v|ds|d|b]; cbn [main_of]; try (cbn; lia).
    pose proof (spawn_all_count p idx (s_timeout st) ds) as H. destruct (spawn_all p idx (s_timeout st) ds) as [l x]. exact H. }
  destruct (main_of p idx st i) as [[l st'] r]. cbn [fst] in Hl. destruct r as [s|].
  - cbn [fst]. change (calls_of (TEv (EInstr p SMain idx prev) :: l)) with (calls_of l). lia.
  - specialize (IH (S idx) st'). destruct (trun_list p prev (S idx) st' is_) as [[t st''] r']. cbn [fst] in *.
    change (calls_of (TEv (EInstr p SMain idx prev) :: l ++ t)) with (calls_of (l ++ t)).
    rewrite calls_of_app, app_length. lia.
Qed.

Lemma act_procs_count tc st : length (act_procs tc st) <= 1 + length (t_act tc).
Proof. unfold act_procs. rewrite app_length. destruct (t_act_uses_stdin tc); [destruct (s_stdin st)|]; cbn; lia. Qed.

Theorem calls_bounded_by_sites tc : length (calls_of (fst (texecute tc))) <= n_procs tc.
Proof.
  unfold texecute. pose proof (texecute_st_shape tc) as H.
  assert (Hm : let '(tm, _, _, _, _) := tmain tc in
               length (calls_of tm) <= n_procs_list (t_setup tc) + (1 + length (t_act tc)) +
                                       n_procs_list (t_before_assert tc) + n_procs_list (t_assert tc)).
  { unfold tmain.
    pose proof (trun_list_count Setup None (t_setup tc) 0 (TS (t_default tc) None)) as HS.
    destruct (trun_list Setup None 0 (TS (t_default tc) None) (t_setup tc)) as [[ts st1] rs]. cbn [fst] in HS.
    destruct rs as [f|]; [lia|].
    pose proof (spawn_all_count Act 0 (s_timeout st1) (act_procs tc st1)) as HA.
    pose proof (act_procs_count tc st1) as HP.
    destruct (spawn_all Act 0 (s_timeout st1) (act_procs tc st1)) as [ta xa]. cbn [fst] in HA.
    assert (H23 : length (calls_of ((ts ++ ok_steps tc (tl block_setup)) ++ TEv (EInstr Act SExecute 0 None) :: ta))
                  <= n_procs_list (t_setup tc) + (1 + length (t_act tc))).
    { rewrite !calls_of_app, calls_ok_steps, !app_length. cbn [length].
      change (calls_of (TEv (EInstr Act SExecute 0 None) :: ta)) with (calls_of ta). lia. }
    destruct xa; [lia|]. destruct (t_act_only tc); [lia|].
    pose proof (trun_list_count BeforeAssert None (t_before_assert tc) 0 st1) as HB.
    destruct (trun_list BeforeAssert None 0 st1 (t_before_assert tc)) as [[t4 st2] r4]. cbn [fst] in HB.
    destruct r4 as [f|].
    - rewrite !calls_of_app, !app_length in *. rewrite calls_ok_steps in *. cbn [length] in *.
      change (calls_of (TEv (EInstr Act SExecute 0 None) :: ta)) with (calls_of ta) in *. lia.
    - pose proof (trun_list_count Assert None (t_assert tc) 0 st2) as HC.
      destruct (trun_list Assert None 0 st2 (t_assert tc)) as [[t5 st3] r5]. cbn [fst] in HC.
      rewrite !calls_of_app, !app_length in *. rewrite calls_ok_steps in *. cbn [length] in *.
      change (calls_of (TEv (EInstr Act SExecute 0 None) :: ta)) with (calls_of ta) in *. lia. }
  destruct (tmain tc) as [[[[tm f0] stc] prev] atc]. rewrite H. cbn [fst].
  assert (Hc : length (calls_of (fst (tcleanup tc prev stc))) <= n_procs_list (t_cleanup tc)).
  { unfold tcleanup. pose proof (trun_list_count Cleanup (Some prev) (t_cleanup tc) 0 stc) as HC.
    destruct (trun_list Cleanup (Some prev) 0 stc (t_cleanup tc)) as [[t st'] r]. cbn [fst] in *. exact HC. }
  rewrite calls_of_app, calls_ok_steps. cbn [app].
  change (calls_of (TEv ESandbox :: tm ++ fst (tcleanup tc prev stc))) with (calls_of (tm ++ fst (tcleanup tc prev stc))).
  rewrite calls_of_app, app_length. unfold n_procs. lia.
Qed.
