(** Exec-side lemmas shared by the composition files (Proofs/ComposeC10.v, ComposeC18.v): the first
    failure of the plan [schedule tc] computed from the outcomes of the instructions' steps. *)
From Coq Require Import List Bool Arith Lia.
From Exactly Require Import Lib.Harness Model.Outcome Model.Exec Spec.C01 Proofs.ExecSpec Proofs.ExecCorollaries.
Import ListNotations.
Local Arguments schedule : simpl never.

Lemma sched_steps_app' tc a b : sched_steps tc (a ++ b) = sched_steps tc a ++ sched_steps tc b.
Proof. unfold sched_steps. apply flat_map_app. Qed.

Lemma ffail_steps_cons tc s ss :
  ffail (sched_steps tc (s :: ss)) =
  match ffail (sched_step tc s) with Some f => Some f | None => ffail (sched_steps tc ss) end.
Proof. change (sched_steps tc (s :: ss)) with (sched_step tc s ++ sched_steps tc ss). apply ffail_app. Qed.

(** the steps of the whole plan, in order *)
Definition plan_of (act_only : bool) : list (phase * stepk) :=
  block_validate ++ block_setup ++ block_act ++ (if act_only then [] else [(BeforeAssert, SMain); (Assert, SMain)]).

Lemma schedule_ffail tc : ffail (schedule tc) = ffail (sched_steps tc (plan_of (tc_act_only tc))).
Proof.
  unfold schedule, plan_of. rewrite !sched_steps_app', !ffail_app. cbn [ffail snd]. rewrite !ffail_app.
  destruct (ffail (sched_steps tc block_validate)); [reflexivity|].
  destruct (ffail (sched_steps tc block_setup)); [reflexivity|].
  destruct (ffail (sched_steps tc block_act)); [reflexivity|].
  destruct (tc_act_only tc); [reflexivity|]. cbn [sched_steps flat_map]. rewrite app_nil_r. reflexivity.
Qed.

(** steps at which no instruction fails can be dropped *)
Lemma ffail_steps_filter tc (Q : phase * stepk -> bool) : forall ss,
  (forall s, In s ss -> Q s = false -> ffail (sched_step tc s) = None) ->
  ffail (sched_steps tc ss) = ffail (sched_steps tc (filter Q ss)).
Proof.
  induction ss as [|s ss IH]; intros H; [reflexivity|]. rewrite ffail_steps_cons. cbn [filter].
  destruct (Q s) eqn:E.
  - rewrite ffail_steps_cons, IH; [reflexivity|]. intros s' Hin. apply H. right; exact Hin.
  - rewrite (H s (or_introl eq_refl) E). apply IH. intros s' Hin. apply H. right; exact Hin.
Qed.

Lemma ffail_quiet p k prev : forall l s,
  (forall i, In i l -> outcome (i k) = None) -> ffail (sched_list p k prev s l) = None.
Proof.
  induction l as [|i l IH]; intros s H; [reflexivity|]. cbn [sched_list ffail snd].
  rewrite (H i (or_introl eq_refl)). cbn [option_map]. apply IH. intros j Hj. apply H. right; exact Hj.
Qed.

Definition pk_eqb (a b : phase * stepk) : bool := phase_eqb (fst a) (fst b) && stepk_eqb (snd a) (snd b).
Lemma pk_eqb_eq a b : pk_eqb a b = true <-> a = b.
Proof.
  destruct a as [p k], b as [p' k']. unfold pk_eqb. cbn [fst snd]. rewrite andb_true_iff. split.
  - intros [H1 H2]. destruct p, p'; try discriminate; destruct k, k'; try discriminate; reflexivity.
  - intros [= -> ->]. destruct p', k'; split; reflexivity.
Qed.
