(** Refinement: for ALL histories, every observation the model of the implementation produces
    (None = inherit, populate on first modification, act applier only in setup, act settings
    captured after setup/main) is what the two-plain-maps specification says is in force at that
    point.  Induction over the instruction lists. *)
From Coq Require Import NArith List Bool Arith Lia ZifyBool.
From Exactly Require Import Lib.Harness Model.Settings Spec.C11 Proofs.SettingsExpand.
Import ListNotations.
Local Open Scope N_scope.

(** ** dictionaries *)
Lemma text_eqb_sym : forall a b, text_eqb a b = text_eqb b a.
Proof.
  intros a b. destruct (text_eqb a b) eqn:E1, (text_eqb b a) eqn:E2; try reflexivity.
  - apply text_eqb_eq in E1. subst. rewrite text_eqb_refl in E2. discriminate.
  - apply text_eqb_eq in E2. subst. rewrite text_eqb_refl in E1. discriminate.
Qed.

Lemma get_set : forall e n v m, get (set e n v) m = if text_eqb n m then Some v else get e m.
Proof.
  induction e as [|[k w] e IH]; intros n v m; cbn [set get].
  - reflexivity.
  - destruct (text_eqb k n) eqn:Ekn; cbn [get].
    + apply text_eqb_eq in Ekn. subst k. destruct (text_eqb n m); reflexivity.
    + rewrite IH. destruct (text_eqb k m) eqn:Ekm; [|reflexivity].
      apply text_eqb_eq in Ekm. subst m. rewrite text_eqb_sym, Ekn. reflexivity.
Qed.

Lemma get_unset : forall e n m, get (unset e n) m = if text_eqb n m then None else get e m.
Proof.
  induction e as [|[k w] e IH]; intros n m; cbn [unset get].
  - destruct (text_eqb n m); reflexivity.
  - destruct (text_eqb k n) eqn:Ekn.
    + apply text_eqb_eq in Ekn. subst k. rewrite IH. destruct (text_eqb n m); reflexivity.
    + cbn [get]. rewrite IH. destruct (text_eqb k m) eqn:Ekm; [|reflexivity].
      apply text_eqb_eq in Ekm. subst m. rewrite text_eqb_sym, Ekn. reflexivity.
Qed.

(** ** the abstraction: an unpopulated (None) set stands for the default environment *)
Definition env_abs (d : env) (o : option env) (m : smap) : Prop :=
  forall n, get (populated d o) n = m n.

(** [full = true] while in [setup]: the act set is tracked too.  Afterwards the act set of the
    implementation is frozen (it was handed to the act process) while the specification goes on
    changing its act map - which no process observes any more. *)
Definition R (full : bool) (d : env) (s : state) (ss : sstate) : Prop :=
  env_abs d (st_nonact s) (ss_nonact ss) /\ st_timeout s = ss_timeout ss /\ st_cwd s = ss_cwd ss /\
  (full = true -> env_abs d (st_act s) (ss_act ss)).

Lemma R_weaken : forall full d s ss, R full d s ss -> R false d s ss.
Proof. intros full d s ss (H1 & H2 & H3 & _). repeat split; try assumption. discriminate. Qed.

Lemma modify_abs : forall d o m md,
  env_abs d o m -> exists e', modify md (populated d o) = Some e' /\ env_abs d (Some e') (smodify md m).
Proof.
  intros d o m md H. destruct md as [n v | n]; cbn [modify smodify].
  - rewrite expand_vars_spec. eexists. split; [reflexivity|]. intros k. cbn [populated]. rewrite get_set.
    unfold upd. rewrite (text_eqb_sym k n). destruct (text_eqb n k); [|apply H].
    f_equal. apply expand_spec_ext. exact H.
  - eexists. split; [reflexivity|]. intros k. cbn [populated]. rewrite get_unset.
    unfold upd. rewrite (text_eqb_sym k n). destruct (text_eqb n k); [reflexivity|apply H].
Qed.

Definition is_setup (p : phase_id) : bool := match p with PSetup => true | _ => false end.

(** ** one instruction *)
Lemma step_refines_env : forall d dirs full t md s ss,
  R full d s ss ->
  match step d dirs full (OEnv t md) s with
  | SOk s' => exists ss', sstep dirs (OEnv t md) ss = Some ss' /\ R full d s' ss'
  | SHardError s' => sstep dirs (OEnv t md) ss = None /\ s' = s
  | SOutOfFuel => False
  end.
Proof.
  intros d dirs full t md s ss HR. pose proof HR as (Hn & Ht & Hc & Ha). cbn [step sstep].
  destruct (modify_abs d (st_nonact s) (ss_nonact ss) md Hn) as (en & Hmn & Hn').
  destruct full.
  + destruct (modify_abs d (st_act s) (ss_act ss) md (Ha eq_refl)) as (ea & Hma & Ha').
    destruct t; cbn [appliers has_act has_non_act app apply_all]; unfold apply_act, apply_non_act; cbn [st_act st_nonact st_timeout st_cwd].
    * rewrite Hma. cbn [st_act st_nonact st_timeout st_cwd]. rewrite Hmn. eexists. split; [reflexivity|]. repeat split; cbn; try assumption. intros _. exact Ha'.
    * rewrite Hma. eexists. split; [reflexivity|]. repeat split; cbn; try assumption. intros _. exact Ha'.
    * rewrite Hmn. eexists. split; [reflexivity|]. repeat split; cbn; try assumption.
  + destruct t; cbn [appliers has_act has_non_act app apply_all]; unfold apply_non_act; cbn [st_act st_nonact st_timeout st_cwd].
    * rewrite Hmn. eexists. split; [reflexivity|]. repeat split; cbn; try assumption; try discriminate.
    * eexists. split; [reflexivity|]. repeat split; cbn; try assumption; try discriminate.
    * rewrite Hmn. eexists. split; [reflexivity|]. repeat split; cbn; try assumption; try discriminate.
Qed.

Lemma step_refines : forall d dirs full o s ss,
  R full d s ss ->
  match step d dirs full o s with
  | SOk s' => exists ss', sstep dirs o ss = Some ss' /\ R full d s' ss'
  | SHardError s' => sstep dirs o ss = None /\ s' = s
  | SOutOfFuel => False
  end.
Proof.
  intros d dirs full o s ss HR. pose proof HR as (Hn & Ht & Hc & Ha).
  destruct o as [t md | t n v | b suffix | t | b suffix | ].
  - (* env *)
    apply step_refines_env. exact HR.
  - (* env with a value computed by a program: as a constant value *)
    change (step d dirs full (OEnvProg t n v) s) with (step d dirs full (OEnv t (MSet n v)) s).
    change (sstep dirs (OEnvProg t n v) ss) with (sstep dirs (OEnv t (MSet n v)) ss).
    apply step_refines_env. exact HR.
  - (* cd *)
    cbn [step sstep].
    rewrite <- Hc. destruct (walk (base_dir (st_cwd s) b) suffix) as [dd|]; [|split; reflexivity].
    destruct (existsb (path_eqb dd) dirs); [|split; reflexivity].
    eexists. split; [reflexivity|]. repeat split; cbn; assumption.
  - (* timeout *)
    cbn [step sstep]. eexists. split; [reflexivity|]. repeat split; cbn; assumption.
  - (* a child process changing its own directory *)
    cbn [step sstep]. eexists. split; [reflexivity|]. exact HR.
  - (* probe *)
    cbn [step sstep]. eexists. split; [reflexivity|]. exact HR.
Qed.

Lemma obs_non_act_agrees : forall full d s ss p i,
  R full d s ss -> obs_agrees (spec_view (PtInstr p i) ss) (obs_non_act d s).
Proof. intros full d s ss p i (Hn & Ht & Hc & _). split; [intros _; exact Hn|]. split; cbn; assumption. Qed.

Lemma obs_value_agrees : forall full d s ss p i aps k,
  R full d s ss -> Forall (fun ob => obs_agrees (spec_view (PtInstr p i) ss) ob) (obs_value d k aps s).
Proof.
  intros full d s ss p i aps. induction aps as [|a aps IH]; intros k HR; cbn [obs_value]; constructor.
  - destruct HR as (_ & Ht & Hc & _). split; [cbn; discriminate|]. split; cbn; assumption.
  - apply IH. exact HR.
Qed.

Lemma obs_act_agrees : forall d s ss, R true d s ss -> obs_agrees (spec_view PtAct ss) (obs_act d s).
Proof. intros d s ss (_ & Ht & Hc & Ha). split; [intros _; apply Ha; reflexivity|]. split; cbn; assumption. Qed.

(** ** one phase *)
Definition halted_of (r : status) : bool := match r with Halted => true | _ => false end.

Lemma run_ops_refines : forall d dirs p ops idx s ss t s' r,
  R (is_setup p) d s ss ->
  run_ops d dirs p idx ops s = (t, s', r) ->
  exists ss',
    sfold dirs ops ss = (ss', halted_of r) /\ R (is_setup p) d s' ss' /\ r <> OutOfFuel /\
    Forall (fun po => exists j ssj,
                fst po = PtInstr p (idx + j) /\ (j < length ops)%nat /\
                sfold dirs (firstn j ops) ss = (ssj, false) /\
                obs_agrees (spec_view (fst po) ssj) (snd po)) t.
Proof.
  intros d dirs p ops. induction ops as [|o ops IH]; intros idx s ss t s' r HR Hrun.
  - cbn in Hrun. injection Hrun as <- <- <-. exists ss. split; [reflexivity|]. split; [exact HR|]. split; [discriminate|constructor].
  - cbn [run_ops] in Hrun. fold (is_setup p) in Hrun.
    assert (Hhere : Forall (fun po => exists j ssj,
                fst po = PtInstr p (idx + j) /\ (j < length (o :: ops))%nat /\
                sfold dirs (firstn j (o :: ops)) ss = (ssj, false) /\
                obs_agrees (spec_view (fst po) ssj) (snd po))
              (processes_of d p idx o s)).
    { assert (Hone : forall ob, obs_agrees (spec_view (PtInstr p idx) ss) ob ->
                exists j ssj, fst (PtInstr p idx, ob) = PtInstr p (idx + j) /\ (j < length (o :: ops))%nat /\
                  sfold dirs (firstn j (o :: ops)) ss = (ssj, false) /\
                  obs_agrees (spec_view (fst (PtInstr p idx, ob)) ssj) (snd (PtInstr p idx, ob))).
      { intros ob Hob. exists 0%nat, ss. cbn [fst snd firstn sfold length]. rewrite Nat.add_0_r.
        split; [reflexivity|]. split; [lia|]. split; [reflexivity|exact Hob]. }
      destruct o; try (constructor; fail); cbn [processes_of].
      - apply Forall_map. eapply Forall_impl; [|eapply obs_value_agrees; exact HR]. intros ob Hob. apply Hone. exact Hob.
      - constructor; [|constructor]. apply Hone. eapply obs_non_act_agrees. exact HR. }
    pose proof (step_refines d dirs (is_setup p) o s ss HR) as Hstep.
    destruct (step d dirs (is_setup p) o s) as [s1 | s1 | ].
    + destruct Hstep as (ss1 & Hs1 & HR1).
      destruct (run_ops d dirs p (S idx) ops s1) as [[t' s''] r'] eqn:Erec.
      injection Hrun as <- <- <-.
      destruct (IH (S idx) s1 ss1 t' s'' r' HR1 Erec) as (ss' & Hf & HR' & Hr & Hall).
      exists ss'. cbn [sfold]. rewrite Hs1. split; [exact Hf|]. split; [exact HR'|]. split; [exact Hr|].
      apply Forall_app. split; [exact Hhere|].
      eapply Forall_impl; [|exact Hall]. intros po (j & ssj & H1 & H2 & H3 & H4).
      exists (S j), ssj. cbn [firstn sfold length]. rewrite Hs1.
      split; [rewrite H1; f_equal; lia|]. split; [lia|]. split; [exact H3|exact H4].
    + destruct Hstep as (Hs1 & ->). injection Hrun as <- <- <-.
      exists ss. cbn [sfold halted_of]. rewrite Hs1. split; [reflexivity|]. split; [exact HR|]. split; [discriminate|exact Hhere].
    + contradiction.
Qed.

Lemma sfold_app : forall dirs a b s,
  sfold dirs (a ++ b) s = (if snd (sfold dirs a s) then (fst (sfold dirs a s), true) else sfold dirs b (fst (sfold dirs a s))).
Proof.
  intros dirs a b. induction a as [|o a IH]; intros s; cbn [app sfold].
  - reflexivity.
  - destruct (sstep dirs o s) as [s1|]; [apply IH | reflexivity].
Qed.

(** ** the whole execution *)
Definition refined (c : config) (h : history) (po : point * obs) : Prop :=
  exists ss, spec_before c h (fst po) = Some ss /\ obs_agrees (spec_view (fst po) ss) (snd po).

Lemma initial_R : forall c, R true (c_default c) (initial c) (sinitial c).
Proof. intros c. repeat split; cbn; reflexivity. Qed.

Lemma cleanup_refined : forall c h s ss tc s' rc,
  R false (c_default c) s ss ->
  fst (sfold (c_dirs c) (h_setup h ++ h_before_assert h ++ h_assert h) (sinitial c)) = ss ->
  run_ops (c_default c) (c_dirs c) PCleanup 0 (h_cleanup h) s = (tc, s', rc) ->
  rc <> OutOfFuel /\ Forall (refined c h) tc.
Proof.
  intros c h s ss tc s' rc HR Hss Hrun.
  destruct (run_ops_refines _ _ PCleanup _ _ _ _ _ _ _ HR Hrun) as (ss' & _ & _ & Hr & Hall).
  split; [exact Hr|]. eapply Forall_impl; [|exact Hall].
  intros [pt o] (j & ssj & H1 & _ & H3 & H4). cbn [fst snd] in *. subst pt.
  exists ssj. split; [|exact H4]. cbn [fst spec_before Nat.add]; cbv zeta. rewrite Hss, H3. reflexivity.
Qed.

Theorem run_refines : forall c h,
  snd (run c h) = Done /\ Forall (refined c h) (fst (run c h)).
Proof.
  intros c h. unfold run. cbv zeta.
  destruct (run_ops (c_default c) (c_dirs c) PSetup 0 (h_setup h) (initial c)) as [[t1 s1] r1] eqn:E1.
  destruct (run_ops_refines _ _ PSetup _ _ _ _ _ _ _ (initial_R c) E1) as (ss1 & Hf1 & HR1 & Hr1 & Hall1).
  assert (Hgood1 : Forall (refined c h) t1).
  { eapply Forall_impl; [|exact Hall1]. intros [pt o] (j & ssj & H1 & _ & H3 & H4). cbn [fst snd] in *. subst pt.
    exists ssj. split; [|exact H4]. cbn [fst spec_before Nat.add]; cbv zeta. rewrite H3. reflexivity. }
  destruct r1; [| |contradiction].
  - (* setup completed *)
    cbn [halted_of] in Hf1.
    assert (Hact : refined c h (PtAct, obs_act (c_default c) s1)).
    { exists ss1. split; [cbn [fst spec_before]; cbv zeta; rewrite Hf1; reflexivity | apply obs_act_agrees; exact HR1]. }
    destruct (run_ops (c_default c) (c_dirs c) PBeforeAssert 0 (h_before_assert h) s1) as [[t2 s2] r2] eqn:E2.
    destruct (run_ops_refines _ _ PBeforeAssert _ _ _ _ _ _ _ (R_weaken _ _ _ _ HR1) E2) as (ss2 & Hf2 & HR2 & Hr2 & Hall2).
    assert (Hgood2 : Forall (refined c h) t2).
    { eapply Forall_impl; [|exact Hall2]. intros [pt o] (j & ssj & H1 & _ & H3 & H4). cbn [fst snd] in *. subst pt.
      exists ssj. split; [|exact H4]. cbn [fst spec_before Nat.add]; cbv zeta. rewrite sfold_app, Hf1. cbn [fst snd]. rewrite H3. reflexivity. }
    destruct r2; [| |contradiction].
    + (* before-assert completed *)
      cbn [halted_of] in Hf2.
      destruct (run_ops (c_default c) (c_dirs c) PAssert 0 (h_assert h) s2) as [[t3 s3] r3] eqn:E3.
      destruct (run_ops_refines _ _ PAssert _ _ _ _ _ _ _ HR2 E3) as (ss3 & Hf3 & HR3 & Hr3 & Hall3).
      assert (Hgood3 : Forall (refined c h) t3).
      { eapply Forall_impl; [|exact Hall3]. intros [pt o] (j & ssj & H1 & _ & H3 & H4). cbn [fst snd] in *. subst pt.
        exists ssj. split; [|exact H4]. cbn [fst spec_before Nat.add]; cbv zeta.
        rewrite sfold_app, Hf1. cbn [fst snd]. rewrite sfold_app, Hf2. cbn [fst snd]. rewrite H3. reflexivity. }
      assert (Hend : fst (sfold (c_dirs c) (h_setup h ++ h_before_assert h ++ h_assert h) (sinitial c)) = ss3).
      { rewrite sfold_app, Hf1. cbn [fst snd]. rewrite sfold_app, Hf2. cbn [fst snd]. rewrite Hf3. reflexivity. }
      destruct (run_ops (c_default c) (c_dirs c) PCleanup 0 (h_cleanup h) s3) as [[tc sc] rc] eqn:Ec.
      destruct (cleanup_refined c h s3 ss3 tc sc rc HR3 Hend Ec) as (Hrc & Hgoodc).
      destruct r3; [| |contradiction]; cbn [fst snd];
        (split; [destruct rc; try reflexivity; contradiction|]);
        repeat (apply Forall_app; split); try assumption; constructor; try assumption; constructor.
    + (* before-assert halted *)
      cbn [halted_of] in Hf2.
      assert (Hend : fst (sfold (c_dirs c) (h_setup h ++ h_before_assert h ++ h_assert h) (sinitial c)) = ss2).
      { rewrite sfold_app, Hf1. cbn [fst snd]. rewrite sfold_app, Hf2. reflexivity. }
      destruct (run_ops (c_default c) (c_dirs c) PCleanup 0 (h_cleanup h) s2) as [[tc sc] rc] eqn:Ec.
      destruct (cleanup_refined c h s2 ss2 tc sc rc HR2 Hend Ec) as (Hrc & Hgoodc).
      cbn [fst snd]. split; [destruct rc; try reflexivity; contradiction|].
      repeat (apply Forall_app; split); try assumption. constructor; [assumption|constructor].
  - (* setup halted *)
    cbn [halted_of] in Hf1.
    assert (Hend : fst (sfold (c_dirs c) (h_setup h ++ h_before_assert h ++ h_assert h) (sinitial c)) = ss1).
    { rewrite sfold_app, Hf1. reflexivity. }
    destruct (run_ops (c_default c) (c_dirs c) PCleanup 0 (h_cleanup h) s1) as [[tc sc] rc] eqn:Ec.
    destruct (cleanup_refined c h s1 ss1 tc sc rc (R_weaken _ _ _ _ HR1) Hend Ec) as (Hrc & Hgoodc).
    cbn [fst snd]. split; [destruct rc; try reflexivity; contradiction|].
    apply Forall_app; split; assumption.
Qed.
