(** C08: the invariant connecting the symbol table of the model with the environment of the
    specification, and the evaluation lemmas: for a validated table the lazy resolution of every entry
    succeeds and yields the value the specification assigns to the definition. *)
From Coq Require Import List Bool Arith NArith Lia.
From Exactly Require Import Lib.Harness Model.Exec Model.Symbols Spec.C08 Proofs.SymbolsLazy Proofs.SymbolsReach.
Import ListNotations.

Lemma vtype_eqb_eq a b : vtype_eqb a b = true <-> a = b.
Proof. split; [|intros ->; destruct b; reflexivity]. destruct a, b; cbn; intros H; try reflexivity; discriminate. Qed.
Lemma wstr_eqb_eq a b : wstr_eqb a b = true <-> a = b.
Proof. split; [|intros ->; destruct b; reflexivity]. destruct a, b; cbn; intros H; try reflexivity; discriminate. Qed.

Section Sound.
  Variable roots : rel -> text.
  Notation find := (@find).

  (** *** unfolding lemmas for the specification's denotations *)
  Lemma denote_str_nil e : denote_str roots e [] = Some [].
  Proof. reflexivity. Qed.
  Lemma denote_str_cons e f fs :
    denote_str roots e (f :: fs) =
    match denote_frag roots e f, denote_str roots e fs with
    | Some t, Some x => Some (t ++ x)
    | _, _ => None
    end.
  Proof.
    unfold denote_str. cbn [map all_some]. destruct (denote_frag roots e f); [|reflexivity].
    destruct (all_some (map (denote_frag roots e) fs)); reflexivity.
  Qed.
  Lemma denote_list_cons e x es :
    denote_list roots e (x :: es) =
    match denote_elem roots e x, denote_list roots e es with
    | Some l, Some r => Some (l ++ r)
    | _, _ => None
    end.
  Proof.
    unfold denote_list. cbn [map all_some]. destruct (denote_elem roots e x); [|reflexivity].
    destruct (all_some (map (denote_elem roots e) es)); reflexivity.
  Qed.

  (** *** what a reference evaluates to, seen from both sides *)
  Definition ref_text (a : aenv) (e : env) (m : bool) (r : ref) : Prop :=
    exists v t, asym a m (r_name r) = Ok v /\ val_of e (r_name r) = Some v /\
                value_as_text roots m (r_name r) v = Ok t /\ text_of_value roots v = Some t.
  Definition ref_elems (a : aenv) (e : env) (m : bool) (r : ref) : Prop :=
    exists v l, asym a m (r_name r) = Ok v /\ val_of e (r_name r) = Some v /\
                value_as_elements roots m (r_name r) v = Ok l /\ elements_of_value roots v = Some l.

  Lemma str_eval a e m fs :
    (forall r, In r (frags_refs fs) -> ref_text a e m r) ->
    exists x, str_of_frags roots (asym a m) m fs = Ok x /\ denote_str roots e fs = Some x.
  Proof.
    induction fs as [|f fs IH]; intros H.
    - exists []. split; reflexivity.
    - destruct IH as (x & Hx1 & Hx2).
      { intros r Hr. apply H. cbn. apply in_or_app. right. exact Hr. }
      destruct f as [t|r].
      + exists (t ++ x). cbn [str_of_frags]. rewrite Hx1. split; [reflexivity|].
        rewrite denote_str_cons, Hx2. reflexivity.
      + destruct (H r) as (v & t & Hv1 & Hv2 & Hv3 & Hv4); [left; reflexivity|].
        exists (t ++ x). cbn [str_of_frags]. rewrite Hv1. cbn [bind]. rewrite Hv3. cbn [bind]. rewrite Hx1.
        split; [reflexivity|]. rewrite denote_str_cons, Hx2. cbn [denote_frag]. rewrite Hv2, Hv4. reflexivity.
  Qed.

  Lemma list_eval a e m es :
    (forall x fs, In x es -> x = EStr fs -> forall r, In r (frags_refs fs) -> ref_text a e m r) ->
    (forall x r, In x es -> x = ESym r -> ref_elems a e m r) ->
    exists l, elems_of roots (asym a m) m es = Ok l /\ denote_list roots e es = Some l.
  Proof.
    induction es as [|x es IH]; intros H1 H2.
    - exists []. split; reflexivity.
    - destruct IH as (l & Hl1 & Hl2).
      { intros x' fs Hin. apply H1. right. exact Hin. }
      { intros x' r Hin. apply H2. right. exact Hin. }
      destruct x as [fs|r].
      + destruct (str_eval a e m fs) as (t & Ht1 & Ht2).
        { apply (H1 (EStr fs) fs); [left; reflexivity|reflexivity]. }
        exists (t :: l). cbn [elems_of]. rewrite Ht1. cbn [bind]. rewrite Hl1. split; [reflexivity|].
        rewrite denote_list_cons, Hl2. cbn [denote_elem]. rewrite Ht2. reflexivity.
      + destruct (H2 (ESym r) r) as (v & l0 & Hv1 & Hv2 & Hv3 & Hv4); [left; reflexivity|reflexivity|].
        exists (l0 ++ l). cbn [elems_of]. rewrite Hv1. cbn [bind]. rewrite Hv3. cbn [bind]. rewrite Hl1.
        split; [reflexivity|]. rewrite denote_list_cons, Hl2. cbn [denote_elem]. rewrite Hv2, Hv4. reflexivity.
  Qed.

  (** *** the semantic invariant *)
  Definition kind_okb (ty : vtype) (v : value) : bool :=
    match ty, v with
    | TString, VStr _ | TList, VLst _ | TPath, VPth _ _ => true
    | (TString | TList | TPath), _ => false
    | _, VOpaque => true
    | _, _ => false
    end.
  Definition strs (e : env) (ns : list name) : Prop :=
    forall m, In m ns -> exists dm, find e m = Some dm /\ d_type dm = TString.
  Definition pure (e : env) (d : dsum) : Prop := d_type d = TString /\ strs e (d_reach d).
  Definition good (a : aenv) (e : env) (n : name) (d : dsum) : Prop :=
    (exists v, d_val d = Some v /\ kind_okb (d_type d) v = true /\ asym a false n = Ok v /\
               (pure e d -> asym a true n = Ok v)) /\
    (forall m, In m (d_reach d) -> find e m <> None).
  Definition Good (a : aenv) (e : env) : Prop := forall n d, find e n = Some d -> good a e n d.

  Lemma data_type_cases acc ty :
    existsb (fun w => vtype_eqb ty (vtype_of_wstr w)) acc = true -> ty = TString \/ ty = TPath \/ ty = TList.
  Proof.
    intros H. apply existsb_exists in H as (w & _ & Hw). apply vtype_eqb_eq in Hw. subst ty.
    destruct w; cbn; auto.
  Qed.

  Lemma data_value_texts ty v n :
    kind_okb ty v = true -> ty = TString \/ ty = TPath \/ ty = TList ->
    (exists t, value_as_text roots false n v = Ok t /\ text_of_value roots v = Some t) /\
    (exists l, value_as_elements roots false n v = Ok l /\ elements_of_value roots v = Some l).
  Proof.
    intros Hk [ -> | [ -> | -> ] ]; destruct v; try discriminate Hk; cbn.
    - split; eexists; split; reflexivity.
    - split; [eexists; split; [destruct rl; reflexivity|reflexivity]|].
      eexists; split; [destruct rl; reflexivity|reflexivity].
    - split; eexists; split; reflexivity.
  Qed.

  Lemma data_ref_eval a e r :
    Good a e -> is_data_restr (r_restr r) = true -> ref_ok e r = true ->
    ref_text a e false r /\ ref_elems a e false r.
  Proof.
    intros HG Hd Hok. unfold ref_ok in Hok. destruct (find e (r_name r)) as [d|] eqn:Hf; [|discriminate].
    destruct (r_restr r) as [|dv iv|]; try discriminate Hd. destruct dv as [acc|]; [|discriminate Hd].
    cbn [restr_ok] in Hok. unfold di_ok in Hok. apply andb_true_iff in Hok as [Hvr _]. cbn [vr_ok] in Hvr.
    destruct (HG _ _ Hf) as [(v & Hv & Hk & Ha & _) _].
    destruct (data_value_texts _ v (r_name r) Hk (data_type_cases _ _ Hvr)) as [(t & Ht1 & Ht2) (l & Hl1 & Hl2)].
    unfold ref_text, ref_elems, val_of. rewrite Hf, Hv. split.
    - exists v, t. auto.
    - exists v, l. auto.
  Qed.

  Lemma str_str_di a e n d :
    Good a e -> find e n = Some d -> di_ok e (VArb [WString]) (Some (VArb [WString])) d = true ->
    exists t, pure e d /\ d_val d = Some (VStr t) /\
              asym a false n = Ok (VStr t) /\ asym a true n = Ok (VStr t).
  Proof.
    intros HG Hf Hok. unfold di_ok in Hok. apply andb_true_iff in Hok as [Hvr Hall].
    cbn in Hvr. rewrite orb_false_r in Hvr. apply vtype_eqb_eq in Hvr.
    assert (Hp : pure e d).
    { split; [exact Hvr|]. intros m Hm. rewrite forallb_forall in Hall. specialize (Hall m Hm).
      destruct (find e m) as [dm|]; [|discriminate]. exists dm. split; [reflexivity|].
      cbn in Hall. rewrite orb_false_r in Hall. apply vtype_eqb_eq in Hall. exact Hall. }
    destruct (HG _ _ Hf) as [(v & Hv & Hk & Ha & Hat) _].
    rewrite Hvr in Hk. destruct v as [t| | |]; try discriminate Hk.
    exists t. repeat split; auto; apply Hp.
  Qed.

  Lemma path_di a e n d rels ab :
    Good a e -> find e n = Some d -> vr_ok (VPathRel rels ab) d = true ->
    exists rl ss, d_val d = Some (VPth rl ss) /\ asym a false n = Ok (VPth rl ss).
  Proof.
    intros HG Hf Hvr. destruct (HG _ _ Hf) as [(v & Hv & Hk & Ha & _) _].
    cbn [vr_ok] in Hvr. destruct (d_type d); try discriminate Hvr. rewrite Hv in Hvr.
    destruct v as [| |rl ss|]; try discriminate Hvr. exists rl, ss. auto.
  Qed.

  Lemma str_str_ref a e r :
    Good a e -> is_str_str (r_restr r) = true -> ref_ok e r = true ->
    exists d t, find e (r_name r) = Some d /\ pure e d /\ d_val d = Some (VStr t) /\
                asym a false (r_name r) = Ok (VStr t) /\ asym a true (r_name r) = Ok (VStr t).
  Proof.
    intros HG Hs Hok. unfold ref_ok in Hok. destruct (find e (r_name r)) as [d|] eqn:Hf; [|discriminate].
    destruct (r_restr r) as [|dv iv|]; try discriminate Hs.
    destruct dv as [[|[] [|]]|]; try discriminate Hs.
    destruct iv as [[[|[] [|]]|]|]; try discriminate Hs.
    cbn [restr_ok] in Hok. destruct (str_str_di a e _ d HG Hf Hok) as (t & H).
    exists d, t. tauto.
  Qed.

  Lemma str_str_ref_text a e r m :
    Good a e -> is_str_str (r_restr r) = true -> ref_ok e r = true -> ref_text a e m r.
  Proof.
    intros HG Hs Hok. destruct (str_str_ref a e r HG Hs Hok) as (d & t & Hf & _ & Hv & H0 & H1).
    exists (VStr t), t. unfold val_of. rewrite Hf, Hv. destruct m; auto.
  Qed.

  (** a string fragment list whose references are all string-only strings, in either mode *)
  Lemma suffix_eval a e m sfx :
    Good a e -> forallb (wf_frag is_str_str) sfx = true ->
    (forall r, In r (frags_refs sfx) -> ref_ok e r = true) ->
    exists x, str_of_frags roots (asym a m) m sfx = Ok x /\ denote_str roots e sfx = Some x.
  Proof.
    intros HG Hwf Hok. apply str_eval. intros r Hr. apply str_str_ref_text; [exact HG| |apply Hok; exact Hr].
    rewrite forallb_forall in Hwf. unfold frags_refs in Hr. apply in_flat_map in Hr as (f & Hf & Hrf).
    specialize (Hwf f Hf). destruct f as [|r']; [destruct Hrf|]. destruct Hrf as [<-|[]]. exact Hwf.
  Qed.

  Lemma touch_eval a m rs :
    (forall r, In r rs -> exists v, asym a m (r_name r) = Ok v) -> touch_refs (asym a m) rs = Ok tt.
  Proof.
    induction rs as [|r rs IH]; intros H; [reflexivity|]. cbn [touch_refs].
    destruct (H r) as (v & Hv); [left; reflexivity|]. rewrite Hv. cbn [bind]. apply IH.
    intros r' Hr. apply H. right. exact Hr.
  Qed.

  Lemma path_eval a e p :
    Good a e -> wf_psdv p = true -> (forall r, In r (psdv_refs p) -> ref_ok e r = true) ->
    exists rl ss, path_of roots (asym a false) (asym a true) false p = Ok (VPth rl ss) /\
                  denote_path roots e p = Some (VPth rl ss).
  Proof.
    intros HG Hwf Hok. destruct p as [rl s|rl sfx|b sfx|r sfx dflt]; cbn [wf_psdv psdv_refs] in *.
    - exists rl, [s]. split; reflexivity.
    - destruct (suffix_eval a e false sfx HG Hwf Hok) as (x & Hx1 & Hx2).
      exists (Some rl), [x]. cbn [path_of denote_path]. rewrite Hx1, Hx2. split; reflexivity.
    - apply andb_true_iff in Hwf as [Hb Hsfx].
      destruct (suffix_eval a e false sfx HG Hsfx) as (x & Hx1 & Hx2).
      { intros r Hr. apply Hok. right. exact Hr. }
      assert (Hbok := Hok b (or_introl eq_refl)). unfold ref_ok in Hbok.
      destruct (find e (r_name b)) as [d|] eqn:Hf; [|discriminate].
      destruct (r_restr b) as [|dv iv|]; try discriminate Hb. destruct dv as [|rels ab]; [discriminate Hb|].
      cbn [restr_ok] in Hbok. unfold di_ok in Hbok. apply andb_true_iff in Hbok as [Hvr _].
      destruct (path_di a e _ d rels ab HG Hf Hvr) as (rl & ss & Hv & Ha).
      cbn [path_of denote_path]. rewrite Ha. cbn [bind]. rewrite Hx1. cbn [bind].
      unfold val_of. rewrite Hf, Hv, Hx2. unfold stack.
      destruct x; eexists _, _; split; reflexivity.
    - apply andb_true_iff in Hwf as [Hr Hsfx].
      destruct (suffix_eval a e false sfx HG Hsfx) as (x & Hx1 & Hx2).
      { intros r' Hr'. apply Hok. right. exact Hr'. }
      assert (Hrok := Hok r (or_introl eq_refl)). unfold ref_ok in Hrok.
      destruct (find e (r_name r)) as [d|] eqn:Hf; [|discriminate].
      destruct (r_restr r) as [| |parts]; try discriminate Hr.
      destruct parts as [|[[] [[|rels ab] [|]]] [|[[] [[[|[] [|]]|] [[[|[] [|]]|]|]]] [|]]]; try discriminate Hr.
      cbn [restr_ok] in Hrok. destruct (wstr_of_vtype (d_type d)) as [w|] eqn:Hw; [|discriminate].
      destruct w; cbn [find_part wstr_eqb] in Hrok.
      + (* a string: its value, then the suffix *)
        destruct (str_str_di a e _ d HG Hf Hrok) as (t & _ & Hv & H0 & H1).
        cbn [path_of denote_path]. rewrite H0. cbn [bind]. rewrite H1. cbn [bind value_as_text]. rewrite Hx1. cbn [bind].
        unfold val_of. rewrite Hf, Hv, Hx2.
        destruct (starts_with_slash (t ++ x)); eexists _, _; split; reflexivity.
      + (* a path: the suffix is stacked onto it *)
        unfold di_ok in Hrok. apply andb_true_iff in Hrok as [Hvr _].
        destruct (path_di a e _ d rels ab HG Hf Hvr) as (rl & ss & Hv & Ha).
        cbn [path_of denote_path]. rewrite Ha. cbn [bind]. rewrite Hx1. cbn [bind].
        unfold val_of. rewrite Hf, Hv, Hx2.
        destruct x; eexists _, _; split; reflexivity.
      + discriminate.
  Qed.

  (** E1: a well-formed container whose references are accepted evaluates, lazily and eagerly alike *)
  Lemma container_eval a e c :
    Good a e -> wf_container c = true -> (forall r, In r (sdv_refs (c_sdv c)) -> ref_ok e r = true) ->
    exists v, aev roots a false (c_sdv c) = Ok v /\ denote roots e (c_sdv c) = Some v /\
              kind_okb (c_type c) v = true.
  Proof.
    intros HG Hwf Hok. destruct c as [ty s]. cbn [c_type c_sdv] in *. unfold aev.
    destruct s as [fs|es|p|rs]; cbn [resolve_step denote sdv_refs] in *.
    - destruct ty; try discriminate Hwf. cbn in Hwf.
      destruct (str_eval a e false fs) as (x & Hx1 & Hx2).
      { intros r Hr. apply data_ref_eval; [exact HG| |apply Hok; exact Hr].
        rewrite forallb_forall in Hwf. unfold frags_refs in Hr. apply in_flat_map in Hr as (f & Hf & Hrf).
        specialize (Hwf f Hf). destruct f as [|r']; [destruct Hrf|]. destruct Hrf as [<-|[]]. exact Hwf. }
      exists (VStr x). rewrite Hx1, Hx2. repeat split.
    - destruct ty; try discriminate Hwf. cbn in Hwf. rewrite forallb_forall in Hwf.
      destruct (list_eval a e false es) as (l & Hl1 & Hl2).
      { intros x fs Hx -> r Hr. apply data_ref_eval; [exact HG| |].
        - specialize (Hwf _ Hx). cbn in Hwf. rewrite forallb_forall in Hwf.
          unfold frags_refs in Hr. apply in_flat_map in Hr as (f & Hf & Hrf).
          specialize (Hwf f Hf). destruct f as [|r']; [destruct Hrf|]. destruct Hrf as [<-|[]]. exact Hwf.
        - apply Hok. apply in_flat_map. exists (EStr fs). split; [exact Hx|exact Hr]. }
      { intros x r Hx ->. apply data_ref_eval; [exact HG| |].
        - exact (Hwf _ Hx).
        - apply Hok. apply in_flat_map. exists (ESym r). split; [exact Hx|left; reflexivity]. }
      exists (VLst l). rewrite Hl1, Hl2. repeat split.
    - destruct ty; try discriminate Hwf. cbn in Hwf.
      destruct (path_eval a e p HG Hwf Hok) as (rl & ss & H1 & H2).
      exists (VPth rl ss). rewrite H1, H2. repeat split.
    - rewrite (touch_eval a false rs).
      + exists VOpaque. repeat split. destruct ty; try discriminate Hwf; reflexivity.
      + intros r Hr. specialize (Hok r Hr). unfold ref_ok in Hok.
        destruct (find e (r_name r)) as [d|] eqn:Hf; [|discriminate].
        destruct (HG _ _ Hf) as [(v & _ & _ & Ha & _) _]. exists v. exact Ha.
  Qed.

  (** E2: a string whose references are all string-only strings does not depend on the mode *)
  Lemma string_eval_nodep a e fs :
    Good a e ->
    (forall r, In r (frags_refs fs) -> exists d, find e (r_name r) = Some d /\ pure e d) ->
    exists x, aev roots a true (SStr fs) = Ok (VStr x) /\ denote_str roots e fs = Some x.
  Proof.
    intros HG Hp. destruct (str_eval a e true fs) as (x & Hx1 & Hx2).
    - intros r Hr. destruct (Hp r Hr) as (d & Hf & Hpure).
      destruct (HG _ _ Hf) as [(v & Hv & Hk & _ & Ht) _]. specialize (Ht Hpure).
      destruct Hpure as [Hty _]. rewrite Hty in Hk. destruct v as [t| | |]; try discriminate Hk.
      exists (VStr t), t. unfold val_of. rewrite Hf, Hv. auto.
    - exists x. unfold aev. cbn [resolve_step]. rewrite Hx1. auto.
  Qed.

  (** *** tables produced by validation *)
  Inductive Inv : table -> env -> Prop :=
  | Inv_nil : Inv [] []
  | Inv_cons n c t e :
      Inv t e -> lookup t n = None -> wf_container c = true ->
      (forall r, In r (sdv_refs (c_sdv c)) -> ref_ok e r = true) ->
      Inv ((n, c) :: t) (define roots e n c).

  Lemma inv_aligned t e : Inv t e -> Aligned roots t e.
  Proof. induction 1; constructor; assumption. Qed.

  Lemma ref_ok_bound e r : ref_ok e r = true -> find e (r_name r) <> None.
  Proof. unfold ref_ok. destruct (find e (r_name r)); [discriminate|discriminate]. Qed.

  Lemma inv_closed t e : Inv t e -> Closed t.
  Proof.
    induction 1 as [|n c t e HI IH Hn Hwf Hok]; constructor; try assumption.
    intros r Hr Hl. apply (ref_ok_bound e r (Hok r Hr)).
    apply (aligned_find_none roots t e _ (inv_aligned t e HI) Hl).
  Qed.

  Lemma find_define e n c k :
    find (define roots e n c) k =
    if N.eqb n k then Some (DSum n (c_type c) (denote roots e (c_sdv c)) (reach_of e (sdv_refs (c_sdv c))))
    else find e k.
  Proof. reflexivity. Qed.

  Lemma find_define_other e n c k : find e n = None -> find e k <> None -> find (define roots e n c) k = find e k.
  Proof.
    intros Hn Hk. rewrite find_define. destruct (N.eqb n k) eqn:E; [|reflexivity].
    apply N.eqb_eq in E. subst k. contradiction.
  Qed.

  Lemma asym_cons_other a n x m k : N.eqb n k = false -> asym ((n, x) :: a) m k = asym a m k.
  Proof. intros E. unfold asym. cbn [alookup]. rewrite E. reflexivity. Qed.

  Lemma in_reach_of e rs m :
    In m (reach_of e rs) ->
    exists r, In r rs /\ (m = r_name r \/ exists d, find e (r_name r) = Some d /\ In m (d_reach d)).
  Proof.
    unfold reach_of. intros H. apply in_flat_map in H as (r & Hr & [<-|Hm]).
    - exists r. auto.
    - exists r. split; [exact Hr|]. right. destruct (find e (r_name r)) as [d|]; [|destruct Hm]. exists d. auto.
  Qed.
  Lemma reach_of_in_name e rs r : In r rs -> In (r_name r) (reach_of e rs).
  Proof. intros H. unfold reach_of. apply in_flat_map. exists r. split; [exact H|left; reflexivity]. Qed.
  Lemma reach_of_in_reach e rs r d m :
    In r rs -> find e (r_name r) = Some d -> In m (d_reach d) -> In m (reach_of e rs).
  Proof.
    intros H Hf Hm. unfold reach_of. apply in_flat_map. exists r. split; [exact H|]. right. rewrite Hf. exact Hm.
  Qed.

  Lemma inv_good t e : Inv t e -> Good (aeval roots t) e.
  Proof.
    induction 1 as [|n c t e HI IH Hn Hwf Hok]; [intros k d Hk; discriminate|].
    assert (Hfn : find e n = None) by (apply (aligned_find_none roots t e n (inv_aligned t e HI) Hn)).
    set (a := aeval roots t) in *.
    assert (Hbound : forall m, In m (reach_of e (sdv_refs (c_sdv c))) -> find e m <> None).
    { intros m Hm. apply in_reach_of in Hm as (r & Hr & [->|(d & Hf & Hd)]).
      - apply ref_ok_bound. apply Hok. exact Hr.
      - destruct (IH _ _ Hf) as [_ Hb]. apply Hb. exact Hd. }
    intros k d Hk. rewrite find_define in Hk. destruct (N.eqb n k) eqn:E.
    - apply N.eqb_eq in E. subst k. injection Hk as <-.
      destruct (container_eval a e c IH Hwf Hok) as (v & Hev & Hden & Hkind).
      split.
      + exists v. cbn [d_val d_type]. split; [exact Hden|]. split; [exact Hkind|]. split.
        * unfold asym. cbn [aeval alookup]. rewrite N.eqb_refl. exact Hev.
        * intros [Hty Hstrs]. cbn [d_type d_reach] in *.
          unfold asym. cbn [aeval alookup]. rewrite N.eqb_refl. fold a.
          destruct c as [ty s]. cbn [c_type c_sdv] in *. subst ty.
          destruct s as [fs| | |]; try discriminate Hwf. cbn [sdv_refs] in *.
          destruct (string_eval_nodep a e fs IH) as (x & Hx1 & Hx2).
          { intros r Hr. assert (Hb := ref_ok_bound e r (Hok r Hr)).
            destruct (find e (r_name r)) as [d'|] eqn:Hf; [|contradiction]. exists d'. split; [reflexivity|].
            assert (Hin : forall m, m = r_name r \/ In m (d_reach d') -> exists dm, find e m = Some dm /\ d_type dm = TString).
            { intros m Hm. assert (Hmr : In m (reach_of e (frags_refs fs))).
              { destruct Hm as [->|Hm]; [apply reach_of_in_name; exact Hr|].
                apply (reach_of_in_reach e _ r d' m Hr Hf Hm). }
              destruct (Hstrs m Hmr) as (dm & Hdm & Hty').
              rewrite (find_define_other e n _ m Hfn (Hbound m Hmr)) in Hdm. exists dm. auto. }
            split.
            - destruct (Hin (r_name r) (or_introl eq_refl)) as (dm & Hdm & Hty'). congruence.
            - intros m Hm. apply Hin. right. exact Hm. }
          cbn [denote] in Hden. rewrite Hx2 in Hden. injection Hden as <-. exact Hx1.
      + intros m Hm. cbn [d_reach] in Hm. rewrite find_define. destruct (N.eqb n m); [discriminate|].
        apply Hbound. exact Hm.
    - destruct (IH _ _ Hk) as [(v & Hv & Hkind & Ha0 & Ha1) Hb]. split.
      + exists v. split; [exact Hv|]. split; [exact Hkind|]. cbn [aeval]. fold a.
        rewrite !asym_cons_other by exact E. split; [exact Ha0|].
        intros [Hty Hstrs]. apply Ha1. split; [exact Hty|].
        intros m Hm. destruct (Hstrs m Hm) as (dm & Hdm & Hty').
        rewrite (find_define_other e n _ m Hfn (Hb m Hm)) in Hdm. exists dm. auto.
      + intros m Hm. rewrite find_define. destruct (N.eqb n m); [discriminate|]. apply Hb. exact Hm.
  Qed.
End Sound.
