(** C13 part 2: list-level lemmas about the building blocks of sources.py
    ([_limited], the pocket rotations, [produce]) and about the reference selection. *)
From Coq Require Import ZArith List Bool Lia ZifyBool.
From Exactly Require Import Model.LineNums Spec.C13b.
Import ListNotations.
Local Open Scope Z_scope.

Section L.
  Context {A : Type}.
  Implicit Types ls p : list A.

  (** *** enum_from / reference selection *)
  Lemma enum_from_bounds : forall ls s q, In q (enum_from s ls) -> s <= fst q < s + Z.of_nat (length ls).
  Proof.
    induction ls as [|l ls IH]; intros s q H; cbn in *; [tauto|].
    destruct H as [<-|H]; cbn; [lia|]. apply IH in H. lia.
  Qed.

  Lemma map_snd_enum_from : forall ls s, map snd (enum_from s ls) = ls.
  Proof. induction ls as [|l ls IH]; intros s; cbn; [reflexivity|]. now rewrite IH. Qed.

  Lemma filter_enum_ext : forall (f g : Z -> bool) ls s,
      (forall k, s <= k < s + Z.of_nat (length ls) -> f k = g k) ->
      filter (fun q : Z * A => f (fst q)) (enum_from s ls) = filter (fun q => g (fst q)) (enum_from s ls).
  Proof.
    intros f g ls s H. apply filter_ext_in. intros q Hq. apply H. now apply enum_from_bounds.
  Qed.

  Definition between (lo hi k : Z) : bool := (lo <=? k) && (k <=? hi).

  (** the lines numbered [s..hi] of a text whose first line has number [s] *)
  Lemma sel_upto : forall ls s hi,
      map snd (filter (fun q : Z * A => fst q <=? hi) (enum_from s ls)) = firstn (Z.to_nat (hi - s + 1)) ls.
  Proof.
    induction ls as [|l ls IH]; intros s hi; cbn.
    - now rewrite firstn_nil.
    - destruct (s <=? hi) eqn:E.
      + replace (Z.to_nat (hi - s + 1)) with (S (Z.to_nat (hi - (s + 1) + 1))) by lia.
        cbn. now rewrite IH.
      + replace (Z.to_nat (hi - s + 1)) with 0%nat by lia. cbn.
        rewrite (filter_enum_ext (fun k => k <=? hi) (fun _ => false)).
        * clear. generalize (s + 1). induction ls as [|x ls IH]; intros; cbn; auto.
        * intros. lia.
  Qed.

  (** the lines numbered [lo..hi] *)
  Lemma sel_between : forall ls s lo hi, s <= lo ->
      map snd (filter (fun q : Z * A => between lo hi (fst q)) (enum_from s ls))
      = firstn (Z.to_nat (hi - lo + 1)) (skipn (Z.to_nat (lo - s)) ls).
  Proof.
    induction ls as [|l ls IH]; intros s lo hi Hs.
    - cbn. now rewrite skipn_nil, firstn_nil.
    - destruct (Z.eq_dec s lo) as [->|Hne].
      + replace (Z.to_nat (lo - lo)) with 0%nat by lia. rewrite skipn_O.
        rewrite <- sel_upto. f_equal. apply (filter_enum_ext (between lo hi) (fun k => k <=? hi)).
        intros k Hk. unfold between. lia.
      + replace (Z.to_nat (lo - s)) with (S (Z.to_nat (lo - (s + 1)))) by lia.
        cbn [enum_from filter skipn fst]. unfold between at 1.
        replace (lo <=? s) with false by lia. cbn [andb]. apply IH. lia.
  Qed.

  Lemma spec_one_between : forall (r : range) ls lo hi,
      1 <= lo ->
      (forall k, 1 <= k <= Z.of_nat (length ls) -> in_range (Z.of_nat (length ls)) r k = between lo hi k) ->
      line_nums_spec [r] ls = firstn (Z.to_nat (hi - lo + 1)) (skipn (Z.to_nat (lo - 1)) ls).
  Proof.
    intros r ls lo hi Hlo H. unfold line_nums_spec. rewrite <- sel_between by assumption.
    f_equal.
    apply (filter_enum_ext (fun k => in_ranges (Z.of_nat (length ls)) [r] k) (between lo hi)).
    intros k Hk. unfold in_ranges. cbn. rewrite orb_false_r. apply H. lia.
  Qed.

  Lemma spec_one_empty : forall (r : range) ls,
      (forall k, 1 <= k <= Z.of_nat (length ls) -> in_range (Z.of_nat (length ls)) r k = false) ->
      line_nums_spec [r] ls = [].
  Proof.
    intros r ls H. rewrite (spec_one_between r ls 1 0); [reflexivity|lia|].
    intros k Hk. rewrite H by assumption. unfold between. lia.
  Qed.

  Lemma firstn_ge : forall (n : nat) ls, (length ls <= n)%nat -> firstn n ls = ls.
  Proof. intros. now apply firstn_all2. Qed.

  (** *** _limited *)
  Lemma limited_go_spec : forall ls size, 0 < size ->
      limited_go size ls = (firstn (Z.to_nat size) ls, skipn (Z.to_nat size) ls).
  Proof.
    induction ls as [|e ls IH]; intros size H; cbn [limited_go].
    - now rewrite firstn_nil, skipn_nil.
    - replace (Z.to_nat size) with (S (Z.to_nat (size - 1))) by lia.
      destruct (size - 1 =? 0) eqn:E.
      + replace (Z.to_nat (size - 1)) with 0%nat by lia. reflexivity.
      + rewrite IH by lia. reflexivity.
  Qed.

  Lemma limited_spec : forall ls size, 0 <= size ->
      limited size ls = (firstn (Z.to_nat size) ls, skipn (Z.to_nat size) ls).
  Proof.
    intros ls size H. unfold limited. destruct (size =? 0) eqn:E.
    - replace (Z.to_nat size) with 0%nat by lia. reflexivity.
    - apply limited_go_spec. lia.
  Qed.

  Lemma skip_spec : forall ls n, 0 <= n -> skip n ls = skipn (Z.to_nat n) ls.
  Proof. intros. unfold skip. now rewrite limited_spec. Qed.

  (** *** pocket rotations *)
  Lemma rotate_all_nil : forall p, rotate_all p [] = Some p.
  Proof. reflexivity. Qed.

  Lemma rotate_all_spec : forall ls p, p <> [] -> rotate_all p ls = Some (skipn (length ls) (p ++ ls)).
  Proof.
    induction ls as [|x ls IH]; intros p Hp; cbn [rotate_all length].
    - now rewrite app_nil_r.
    - destruct p as [|a p']; [congruence|]. cbn [rotate].
      rewrite IH by (destruct p'; discriminate).
      cbn [app skipn]. now rewrite <- app_assoc.
  Qed.

  Lemma rotate_all_spec' : forall ls p, p <> [] \/ ls = [] -> rotate_all p ls = Some (skipn (length ls) (p ++ ls)).
  Proof.
    intros ls p [H| ->]; [now apply rotate_all_spec|]. cbn. now rewrite app_nil_r.
  Qed.

  Lemma rotate_yielding_spec : forall ls p, p <> [] ->
      rotate_yielding p ls = Some (firstn (length ls) (tl (p ++ ls))).
  Proof.
    induction ls as [|x ls IH]; intros p Hp; cbn [rotate_yielding length].
    - reflexivity.
    - destruct p as [|a p']; [congruence|]. cbn [rotate].
      destruct (p' ++ [x]) as [|y q] eqn:E; [destruct p'; discriminate|].
      rewrite IH by discriminate. cbn [app tl]. f_equal.
      replace (p' ++ x :: ls) with ((p' ++ [x]) ++ ls) by now rewrite <- app_assoc.
      rewrite E. reflexivity.
  Qed.

  (** [yield pocket[0]] followed by the yielding rotation: the first [1 + len(lines)] elements of pocket ++ lines *)
  Lemma head_then_rotate_yielding : forall ls x p',
      match rotate_yielding (x :: p') ls with None => None | Some out => Some (x :: out) end
      = Some (firstn (S (length ls)) ((x :: p') ++ ls)).
  Proof. intros. rewrite rotate_yielding_spec by discriminate. reflexivity. Qed.

  Lemma produce_spec : forall p num, 0 <= num -> produce num p = firstn (Z.to_nat num) p.
  Proof.
    induction p as [|l p IH]; intros num H; cbn [produce].
    - now rewrite firstn_nil.
    - destruct (num =? 0) eqn:E.
      + replace (Z.to_nat num) with 0%nat by lia. reflexivity.
      + replace (Z.to_nat num) with (S (Z.to_nat (num - 1))) by lia. cbn. now rewrite IH by lia.
  Qed.

  Lemma forward_go_spec : forall taken p left, p <> [] \/ taken = [] ->
      forward_go p left taken = Some (skipn (length taken) (p ++ taken), left - Z.of_nat (length taken)).
  Proof.
    induction taken as [|x t IH]; intros p left H; cbn [forward_go length].
    - rewrite app_nil_r. cbn. f_equal. f_equal. lia.
    - destruct p as [|a p']; [destruct H; congruence|]. cbn [rotate].
      rewrite IH by (left; destruct p'; discriminate).
      cbn [app skipn]. rewrite <- app_assoc. cbn. f_equal. f_equal. lia.
  Qed.

  Lemma lnun_go_spec : forall ls upper p idx, p <> [] \/ ls = [] ->
      lnun_go upper p idx ls =
      if upper <? idx + Z.of_nat (length ls)
      then (if is_nil ls then Continue (p, idx) else Return)
      else Continue (skipn (length ls) (p ++ ls), idx + Z.of_nat (length ls)).
  Proof.
    induction ls as [|x ls IH]; intros upper p idx H; cbn [lnun_go length is_nil].
    - rewrite app_nil_r. cbn [skipn]. replace (idx + Z.of_nat 0) with idx by lia.
      now destruct (upper <? idx).
    - destruct p as [|a p']; [destruct H; congruence|]. cbn [rotate].
      destruct (upper <? idx + 1) eqn:E1.
      + replace (upper <? idx + Z.of_nat (S (length ls))) with true by lia. reflexivity.
      + rewrite IH by (left; destruct p'; discriminate).
        replace (idx + 1 + Z.of_nat (length ls)) with (idx + Z.of_nat (S (length ls))) by lia.
        destruct (upper <? idx + Z.of_nat (S (length ls))) eqn:E2.
        * destruct ls; cbn [is_nil length] in *; [lia|reflexivity].
        * cbn [app skipn]. now rewrite <- app_assoc.
  Qed.
End L.
