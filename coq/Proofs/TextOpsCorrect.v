(** C05: the implementation-shaped evaluators of Model/TextOps.v compute the whole-text semantics
    of Spec/C05.v, for all expressions and all texts (mutual induction over the four syntactic
    classes). *)
From Coq Require Import ZArith NArith List Bool Lia.
From Exactly Require Import Lib.Text Lib.TextLemmas Lib.Lines Model.Interval Model.LineNums Model.TextOps Spec.C13b Spec.C05
     Proofs.LineNumsExact
     Proofs.TextOpsEquals Proofs.TextOpsReplace Proofs.TextOpsStrip Proofs.TextOpsStripVariants.
Import ListNotations.

Scheme smatcher_mut := Induction for smatcher Sort Prop
  with lmatcher_mut := Induction for lmatcher Sort Prop
  with ttrans_mut := Induction for ttrans Sort Prop
  with tsource_mut := Induction for tsource Sort Prop.
Combined Scheme textops_mutind from smatcher_mut, lmatcher_mut, ttrans_mut, tsource_mut.

(** ** Small list facts *)
Lemma enumerate_map : forall (g : text -> text) ls n,
  enumerate_from text n (map g ls) = map (fun nl => (fst nl, g (snd nl))) (enumerate_from text n ls).
Proof. induction ls as [|l ls IH]; intros n; [reflexivity|]. cbn. now rewrite IH. Qed.

Lemma enumerate_in : forall ls n nl, In nl (enumerate_from text n ls) -> In (snd nl) ls.
Proof.
  induction ls as [|l ls IH]; intros n nl H; [contradiction|]. cbn in H. destruct H as [<-|H]; [now left|].
  right. eapply IH; exact H.
Qed.

Lemma forallb_map' : forall {A B} (f : B -> bool) (g : A -> B) l, forallb f (map g l) = forallb (fun x => f (g x)) l.
Proof. induction l as [|x l IH]; [reflexivity|]. cbn. now rewrite IH. Qed.

Lemma existsb_map' : forall {A B} (f : B -> bool) (g : A -> B) l, existsb f (map g l) = existsb (fun x => f (g x)) l.
Proof. induction l as [|x l IH]; [reflexivity|]. cbn. now rewrite IH. Qed.

Lemma filter_map' : forall {A B} (f : B -> bool) (g : A -> B) l, filter f (map g l) = map g (filter (fun x => f (g x)) l).
Proof. induction l as [|x l IH]; [reflexivity|]. cbn. destruct (f (g x)); cbn; now rewrite IH. Qed.

Lemma wf_lines_filter_enumerate : forall (q : Z * text -> bool) ls n, wf_lines ls = true ->
  wf_lines (map snd (filter q (enumerate_from text n ls))) = true.
Proof.
  induction ls as [|l ls IH]; intros n H; [reflexivity|].
  cbn [enumerate_from filter]. apply wf_lines_cons_inv in H as [[-> Hl]|[_ [Hl Hls]]].
  - cbn. destruct (q (n, l)); [now apply wf_lines_single | reflexivity].
  - destruct (q (n, l)).
    + cbn [map snd]. apply wf_lines_cons_full; [exact Hl | now apply IH].
    + now apply IH.
Qed.

Lemma wf_lines_filter_enum_from : forall (q : Z * text -> bool) ls n, wf_lines ls = true ->
  wf_lines (map snd (filter q (enum_from n ls))) = true.
Proof.
  induction ls as [|l ls IH]; intros n H; [reflexivity|].
  cbn [enum_from filter]. apply wf_lines_cons_inv in H as [[-> Hl]|[_ [Hl Hls]]].
  - cbn. destruct (q (n, l)); [now apply wf_lines_single | reflexivity].
  - destruct (q (n, l)).
    + cbn [map snd]. apply wf_lines_cons_full; [exact Hl | now apply IH].
    + now apply IH.
Qed.

(** [str.rstrip('\n')] *)
Lemma rstrip_nl_by : forall t, rstrip_nl t = rstrip_by is_nl t.
Proof. induction t as [|c t IH]; [reflexivity|]. cbn [rstrip_nl rstrip_by]. now rewrite IH. Qed.

Lemma rstrip_nl_no_nl : forall t, no_nl t = true -> rstrip_nl t = t.
Proof.
  induction t as [|c t IH]; intros H; [reflexivity|]. cbn in H. apply andb_true_iff in H as [H1 H2].
  cbn [rstrip_nl]. rewrite IH by exact H2. unfold not_nl in H1. apply negb_true_iff in H1. rewrite H1.
  destruct t; reflexivity.
Qed.

Lemma rstrip_nl_full : forall body, no_nl body = true -> rstrip_nl (body ++ [NL]) = body.
Proof.
  intros body H. rewrite rstrip_nl_by. rewrite rstrip_by_app_drop by reflexivity. rewrite <- rstrip_nl_by.
  now apply rstrip_nl_no_nl.
Qed.

Lemma no_nl_has_nl : forall t, no_nl t = true -> existsb (N.eqb NL) t = false.
Proof.
  induction t as [|c t IH]; intros H; [reflexivity|]. cbn in H. apply andb_true_iff in H as [H1 H2].
  cbn [existsb]. rewrite IH by exact H2. unfold not_nl in H1. apply negb_true_iff in H1. rewrite (N.eqb_sym NL c), H1. reflexivity.
Qed.

Section Correct.
  Variable re_search : nat -> text -> bool.
  Variable re_full : nat -> text -> bool.
  Variable re_sub : nat -> text -> text.
  Variable py_upper : text -> text.
  Variable py_lower : text -> text.
  Variable is_space : char -> bool.
  Variable mem_buff : N.
  Hypothesis Hsp : is_space NL = true.
  Hypothesis Hupper : case_map_ok py_upper.
  Hypothesis Hlower : case_map_ok py_lower.

  Notation EM := (eval_m re_search re_full re_sub py_upper py_lower is_space mem_buff).
  Notation EL := (eval_lm re_search re_full re_sub py_upper py_lower is_space mem_buff).
  Notation ET := (eval_t re_search re_full re_sub py_upper py_lower is_space mem_buff).
  Notation ES := (eval_src re_search re_full re_sub py_upper py_lower is_space mem_buff).
  Notation SM := (sem_m re_search re_full re_sub py_upper py_lower is_space).
  Notation SL := (sem_lm re_search re_full re_sub py_upper py_lower is_space).
  Notation ST := (sem_t re_search re_full re_sub py_upper py_lower is_space).
  Notation SS := (sem_src re_search re_full re_sub py_upper py_lower is_space).

  Lemma replacer_sub_line : forall preserve k l, line_ok l ->
    replacer re_sub preserve k l = sub_line re_sub preserve k l.
  Proof.
    intros preserve k l Hl. unfold replacer, sub_line. destruct preserve; [|reflexivity]. cbn [andb].
    destruct Hl as [H|H].
    - apply full_line_inv in H as [body [-> Hb]]. rewrite chop_nl_snoc. unfold has_nl, line_contents.
      rewrite existsb_app. cbn [existsb]. rewrite N.eqb_refl. rewrite orb_true_r. now rewrite rstrip_nl_full.
    - apply partial_line_no_nl in H as [_ H]. rewrite chop_nl_no_nl by exact H. unfold has_nl.
      now rewrite no_nl_has_nl.
  Qed.

  Lemma map_case_text : forall f, case_map_ok f -> forall ls, wf_lines ls = true ->
    wf_lines (map f ls) = true /\ concat (map f ls) = f (concat ls).
  Proof.
    intros f [Hnil [Hfull [Hpart Happ]]]. induction ls as [|l ls IH]; intros H; [split; [reflexivity | cbn; now rewrite Hnil]|].
    apply wf_lines_cons_inv in H as [[-> Hl]|[_ [Hl Hls]]].
    - cbn [map concat]. rewrite !app_nil_r. split; [|reflexivity]. apply wf_lines_single.
      destruct Hl as [Hl|Hl]; [left; now apply Hfull | right; now apply Hpart].
    - destruct (IH Hls) as [IH1 IH2]. cbn [map concat]. split.
      + apply wf_lines_cons_full; [now apply Hfull | exact IH1].
      + rewrite IH2. symmetry. now apply Happ.
  Qed.

  Theorem eval_correct :
    (forall m s, wf_lines (s_lines s) = true -> EM m s = SM m (text_of s)) /\
    (forall lm n c, EL lm n c = SL lm n c) /\
    (forall T s, wf_lines (s_lines s) = true ->
                 wf_lines (s_lines (ET T s)) = true /\ text_of (ET T s) = ST T (text_of s)) /\
    (forall e, wf_lines (s_lines (ES e)) = true /\ text_of (ES e) = SS e).
  Proof.
    apply (textops_mutind
             (fun m => forall s, wf_lines (s_lines s) = true -> EM m s = SM m (text_of s))
             (fun lm => forall n c, EL lm n c = SL lm n c)
             (fun T => forall s, wf_lines (s_lines s) = true ->
                                 wf_lines (s_lines (ET T s)) = true /\ text_of (ET T s) = ST T (text_of s))
             (fun e => wf_lines (s_lines (ES e)) = true /\ text_of (ES e) = SS e)).
    - (* SEmpty *)
      intros s Hwf. change (EM SEmpty s) with (is_empty_impl (s_lines s)).
      change (SM SEmpty (text_of s)) with (match text_of s with [] => true | _ => false end).
      unfold text_of. destruct (s_lines s) as [|l ls]; [reflexivity|].
      pose proof (line_ok_nonempty l (wf_lines_head_ok l ls Hwf)) as Hne.
      destruct l as [|c l]; [contradiction|]. reflexivity.
    - (* SEquals *)
      intros e [_ IHe] s Hwf. change (EM (SEquals e) s) with (equals_impl (ES e) s).
      change (SM (SEquals e) (text_of s)) with (text_eqb (text_of s) (SS e)).
      rewrite equals_all_strategies, IHe. apply text_eqb_sym.
    - (* SMatches *)
      intros full r s Hwf. reflexivity.
    - (* SNumLines *)
      intros im s Hwf. change (EM (SNumLines im) s) with (imatches (fun _ _ => false) im (Z.of_nat (length (s_lines s)))).
      change (SM (SNumLines im) (text_of s)) with (imatches (fun _ _ => false) im (Z.of_nat (length (lines_lf (text_of s))))).
      unfold text_of. now rewrite lines_lf_concat.
    - (* SLine *)
      intros q lm IHlm s Hwf.
      change (EM (SLine q lm) s) with (quantify q (fun e => EL lm (fst e) (snd e)) (model_iter (s_lines s))).
      unfold model_iter. rewrite enumerate_map. unfold FIRST_LINE_NUMBER.
      destruct q.
      + change (SM (SLine QAll lm) (text_of s))
          with (forallb (fun nl => SL lm (fst nl) (line_contents (snd nl))) (numbered_lines (text_of s))).
        unfold numbered_lines, text_of. rewrite lines_lf_concat by exact Hwf. cbn [quantify].
        rewrite forallb_map'. apply forallb_ext_in. intros nl _. cbn [fst snd]. apply IHlm.
      + change (SM (SLine QAny lm) (text_of s))
          with (existsb (fun nl => SL lm (fst nl) (line_contents (snd nl))) (numbered_lines (text_of s))).
        unfold numbered_lines, text_of. rewrite lines_lf_concat by exact Hwf. cbn [quantify].
        rewrite existsb_map'. apply existsb_ext_in. intros nl _. cbn [fst snd]. apply IHlm.
    - (* STransformed *)
      intros T IHT m IHm s Hwf. change (EM (STransformed T m) s) with (EM m (ET T s)).
      change (SM (STransformed T m) (text_of s)) with (SM m (ST T (text_of s))).
      destruct (IHT s Hwf) as [H1 H2]. rewrite IHm by exact H1. now rewrite H2.
    - (* SConst *) reflexivity.
    - (* SNot *)
      intros m IHm s Hwf. change (EM (SNot m) s) with (negb (EM m s)).
      change (SM (SNot m) (text_of s)) with (negb (SM m (text_of s))). now rewrite IHm.
    - (* SAnd *)
      intros a IHa b IHb s Hwf.
      change (EM (SAnd a b) s) with (if EM a (freeze s) then EM b (freeze s) else false).
      change (SM (SAnd a b) (text_of s)) with (SM a (text_of s) && SM b (text_of s)).
      rewrite (IHa (freeze s)) by exact Hwf. rewrite (IHb (freeze s)) by exact Hwf.
      change (text_of (freeze s)) with (text_of s). now destruct (SM a (text_of s)).
    - (* SOr *)
      intros a IHa b IHb s Hwf.
      change (EM (SOr a b) s) with (if EM a (freeze s) then true else EM b (freeze s)).
      change (SM (SOr a b) (text_of s)) with (SM a (text_of s) || SM b (text_of s)).
      rewrite (IHa (freeze s)) by exact Hwf. rewrite (IHb (freeze s)) by exact Hwf.
      change (text_of (freeze s)) with (text_of s). now destruct (SM a (text_of s)).
    - (* LContents *)
      intros m IHm n c. change (EL (LContents m) n c) with (EM m (str_src c)).
      change (SL (LContents m) n c) with (SM m c). rewrite IHm by apply wf_lines_lines_lf.
      unfold text_of, str_src. cbn [s_lines]. now rewrite concat_lines_lf.
    - (* LLineNum *) reflexivity.
    - (* LConst *) reflexivity.
    - (* LNot *)
      intros m IHm n c. change (EL (LNot m) n c) with (negb (EL m n c)).
      change (SL (LNot m) n c) with (negb (SL m n c)). now rewrite IHm.
    - (* LAnd *)
      intros a IHa b IHb n c. change (EL (LAnd a b) n c) with (if EL a n c then EL b n c else false).
      change (SL (LAnd a b) n c) with (SL a n c && SL b n c). rewrite IHa, IHb. now destruct (SL a n c).
    - (* LOr *)
      intros a IHa b IHb n c. change (EL (LOr a b) n c) with (if EL a n c then true else EL b n c).
      change (SL (LOr a b) n c) with (SL a n c || SL b n c). rewrite IHa, IHb. now destruct (SL a n c).
    - (* TIdentity *)
      intros s Hwf. split; [exact Hwf | reflexivity].
    - (* TReplace *)
      intros preserve k s Hwf.
      change (ET (TReplace preserve k) s)
        with (from_lines false (replace_lines (replacer re_sub preserve k) [] (s_lines s)) s).
      change (ST (TReplace preserve k) (text_of s))
        with (concat (map (sub_line re_sub preserve k) (lines_lf (text_of s)))).
      unfold text_of. cbn [from_lines s_lines].
      split; [apply replace_lines_wf|]. rewrite replace_lines_text. rewrite lines_lf_concat by exact Hwf.
      f_equal. apply map_ext_in. intros l Hl. apply replacer_sub_line.
      apply wf_lines_Forall in Hwf. rewrite Forall_forall in Hwf. now apply Hwf.
    - (* TReplaceAt *)
      intros sel IHsel preserve k s Hwf.
      change (ET (TReplaceAt sel preserve k) s)
        with (from_lines true
                (replace_lines (fun line => if EL sel (fst (snd line)) (snd (snd line))
                                            then replacer re_sub preserve k (fst line) else fst line)
                               [] (original_and_model_iter (s_lines s))) s).
      change (ST (TReplaceAt sel preserve k) (text_of s))
        with (concat (map (fun nl => if SL sel (fst nl) (line_contents (snd nl))
                                     then sub_line re_sub preserve k (snd nl) else snd nl) (numbered_lines (text_of s)))).
      unfold text_of. cbn [from_lines s_lines].
      split; [apply replace_lines_wf|]. rewrite replace_lines_text. unfold numbered_lines, original_and_model_iter.
      rewrite lines_lf_concat by exact Hwf. rewrite map_map. f_equal. apply map_ext_in. intros nl Hnl.
      cbn [fst snd]. unfold line_contents. rewrite IHsel. destruct (SL sel (fst nl) (rstrip_nl (snd nl))); [|reflexivity].
      apply replacer_sub_line. apply enumerate_in in Hnl.
      apply wf_lines_Forall in Hwf. rewrite Forall_forall in Hwf. now apply Hwf.
    - (* TStrip *)
      intros s Hwf. change (ET TStrip s) with (from_lines false (strip_space is_space (s_lines s)) s).
      change (ST TStrip (text_of s)) with (drop_trailing is_space (drop_leading is_space (text_of s))).
      unfold text_of. cbn [from_lines s_lines].
      split; [now apply strip_space_wf | now apply strip_space_text].
    - (* TStripTrailingSpace *)
      intros s Hwf. change (ET TStripTrailingSpace s) with (from_lines false (strip_trailing_space is_space (s_lines s)) s).
      change (ST TStripTrailingSpace (text_of s)) with (drop_trailing is_space (text_of s)).
      unfold text_of. cbn [from_lines s_lines].
      split; [now apply strip_trailing_space_wf | now apply strip_trailing_space_text].
    - (* TStripTrailingNewLines *)
      intros s Hwf. change (ET TStripTrailingNewLines s) with (from_lines false (strip_trailing_new_lines (s_lines s)) s).
      change (ST TStripTrailingNewLines (text_of s)) with (drop_trailing (N.eqb NL) (text_of s)).
      unfold text_of. cbn [from_lines s_lines].
      split; [now apply strip_trailing_new_lines_wf | now apply strip_trailing_new_lines_text].
    - (* TUpper *)
      intros s Hwf. change (ET TUpper s) with (from_lines false (map py_upper (s_lines s)) s).
      change (ST TUpper (text_of s)) with (py_upper (text_of s)).
      unfold text_of. cbn [from_lines s_lines]. now apply map_case_text.
    - (* TLower *)
      intros s Hwf. change (ET TLower s) with (from_lines false (map py_lower (s_lines s)) s).
      change (ST TLower (text_of s)) with (py_lower (text_of s)).
      unfold text_of. cbn [from_lines s_lines]. now apply map_case_text.
    - (* TFilter *)
      intros lm IHlm s Hwf.
      change (ET (TFilter lm) s)
        with (cached_from_lines mem_buff
                (map fst (filter (fun line => EL lm (fst (snd line)) (snd (snd line)))
                                 (original_and_model_iter (s_lines s))))).
      change (ST (TFilter lm) (text_of s))
        with (concat (map snd (filter (fun nl => SL lm (fst nl) (line_contents (snd nl))) (numbered_lines (text_of s))))).
      unfold text_of. cbn [cached_from_lines s_lines].
      unfold numbered_lines, original_and_model_iter. rewrite lines_lf_concat by exact Hwf.
      rewrite filter_map', map_map. cbn [fst snd].
      assert (E : filter (fun x : Z * text => EL lm (fst x) (rstrip_nl (snd x))) (enumerate_from text FIRST_LINE_NUMBER (s_lines s))
                  = filter (fun nl : Z * text => SL lm (fst nl) (line_contents (snd nl))) (enumerate_from text 1 (s_lines s))).
      { apply filter_ext_in'. intros nl _. apply IHlm. }
      rewrite E. split; [now apply wf_lines_filter_enumerate | reflexivity].
    - (* TFilterLineNums *)
      intros rs s Hwf.
      change (ET (TFilterLineNums rs) s)
        with (from_lines false (lines_or_index_error (line_nums_transform rs (s_lines s))) s).
      change (ST (TFilterLineNums rs) (text_of s)) with (concat (line_nums_spec rs (lines_lf (text_of s)))).
      rewrite line_nums_exact. unfold text_of. cbn [from_lines s_lines lines_or_index_error].
      rewrite lines_lf_concat by exact Hwf. split; [|reflexivity].
      unfold line_nums_spec. now apply wf_lines_filter_enum_from.
    - (* TSeq *)
      intros a IHa b IHb s Hwf. change (ET (TSeq a b) s) with (ET b (ET a s)).
      change (ST (TSeq a b) (text_of s)) with (ST b (ST a (text_of s))).
      destruct (IHa s Hwf) as [H1 H2]. destruct (IHb _ H1) as [H3 H4].
      split; [exact H3 | now rewrite H4, H2].
    - (* SrcStr *)
      intros t. change (ES (SrcStr t)) with (str_src t). change (SS (SrcStr t)) with t.
      unfold text_of, str_src. cbn [s_lines]. split; [apply wf_lines_lines_lf | apply concat_lines_lf].
    - (* SrcFile *)
      intros t. change (ES (SrcFile t)) with (file_src t). change (SS (SrcFile t)) with t.
      unfold text_of, file_src. cbn [s_lines]. split; [apply wf_lines_lines_lf | apply concat_lines_lf].
    - (* SrcTrans *)
      intros e [H1 H2] T IHT. change (ES (SrcTrans e T)) with (ET T (ES e)). change (SS (SrcTrans e T)) with (ST T (SS e)).
      destruct (IHT _ H1) as [H3 H4]. split; [exact H3 | now rewrite H4, H2].
  Qed.
End Correct.

(** ** The clauses of the property as corollaries *)
Section Corollaries.
  Variable re_search : nat -> text -> bool.
  Variable re_full : nat -> text -> bool.
  Variable re_sub : nat -> text -> text.
  Variable py_upper : text -> text.
  Variable py_lower : text -> text.
  Variable is_space : char -> bool.
  Variable mem_buff : N.
  Hypothesis Hlib : library_assumptions py_upper py_lower is_space.

  Notation EM := (eval_m re_search re_full re_sub py_upper py_lower is_space mem_buff).
  Notation ET := (eval_t re_search re_full re_sub py_upper py_lower is_space mem_buff).
  Notation ES := (eval_src re_search re_full re_sub py_upper py_lower is_space mem_buff).
  Notation SM := (sem_m re_search re_full re_sub py_upper py_lower is_space).
  Notation ST := (sem_t re_search re_full re_sub py_upper py_lower is_space).
  Notation SS := (sem_src re_search re_full re_sub py_upper py_lower is_space).

  Lemma all_correct :
    (forall m s, wf_lines (s_lines s) = true -> EM m s = SM m (text_of s)) /\
    (forall T s, wf_lines (s_lines s) = true -> wf_lines (s_lines (ET T s)) = true /\ text_of (ET T s) = ST T (text_of s)) /\
    (forall e, wf_lines (s_lines (ES e)) = true /\ text_of (ES e) = SS e).
  Proof.
    destruct Hlib as [H1 [H2 H3]].
    destruct (eval_correct re_search re_full re_sub py_upper py_lower is_space mem_buff H1 H2 H3) as [Hm [_ [Ht Hs]]].
    split; [exact Hm | split; [exact Ht | exact Hs]].
  Qed.

  Lemma matcher_correct_on_lines : forall (m : smatcher) (s : src), wf_lines (s_lines s) = true -> EM m s = SM m (text_of s).
  Proof. exact (proj1 all_correct). Qed.

  Lemma transformer_lines_wellformed : forall (T : ttrans) (s : src), wf_lines (s_lines s) = true ->
    wf_lines (s_lines (ET T s)) = true /\ text_of (ET T s) = ST T (text_of s).
  Proof. exact (proj1 (proj2 all_correct)). Qed.

  Lemma matcher_correct : forall (m : smatcher) (e : tsource), EM m (ES e) = SM m (SS e).
  Proof.
    intros m e. destruct (proj2 (proj2 all_correct) e) as [Hwf Ht]. rewrite matcher_correct_on_lines by exact Hwf. now rewrite Ht.
  Qed.

  Lemma transformer_correct : forall (T : ttrans) (e : tsource), text_of (ET T (ES e)) = ST T (SS e).
  Proof.
    intros T e. destruct (proj2 (proj2 all_correct) e) as [Hwf Hte]. destruct (transformer_lines_wellformed T _ Hwf) as [_ E].
    now rewrite E, Hte.
  Qed.

  Lemma source_kind_irrelevant : forall t : text,
    (forall m, EM m (file_src t) = EM m (str_src t)) /\
    (forall T, text_of (ET T (file_src t)) = text_of (ET T (str_src t))).
  Proof.
    intros t. pose proof (wf_lines_lines_lf t) as Hwf. split.
    - intros m. rewrite (matcher_correct_on_lines m (file_src t)) by exact Hwf.
      rewrite (matcher_correct_on_lines m (str_src t)) by exact Hwf. reflexivity.
    - intros T. destruct (transformer_lines_wellformed T (file_src t) Hwf) as [_ ->].
      destruct (transformer_lines_wellformed T (str_src t) Hwf) as [_ ->]. reflexivity.
  Qed.
End Corollaries.

Lemma replace_resplits_lines : forall (A : Type) (replacer : A -> text) (lines : list A),
  replace_lines replacer [] lines = lines_lf (concat (map replacer lines)).
Proof. intros. now rewrite replace_lines_spec. Qed.

(** The memory buffer size (in-memory vs on-disk representation of frozen sources) never changes a
    verdict or a transformed text. *)
Lemma mem_buff_irrelevant :
  forall re_search re_full re_sub py_upper py_lower is_space,
    library_assumptions py_upper py_lower is_space ->
    forall (mem1 mem2 : N) (e : tsource),
      (forall m, eval_m re_search re_full re_sub py_upper py_lower is_space mem1 m
                        (eval_src re_search re_full re_sub py_upper py_lower is_space mem1 e)
                 = eval_m re_search re_full re_sub py_upper py_lower is_space mem2 m
                          (eval_src re_search re_full re_sub py_upper py_lower is_space mem2 e)) /\
      (forall T, text_of (eval_t re_search re_full re_sub py_upper py_lower is_space mem1 T
                                 (eval_src re_search re_full re_sub py_upper py_lower is_space mem1 e))
                 = text_of (eval_t re_search re_full re_sub py_upper py_lower is_space mem2 T
                                   (eval_src re_search re_full re_sub py_upper py_lower is_space mem2 e))).
Proof.
  intros re_search re_full re_sub py_upper py_lower is_space Hlib mem1 mem2 e. split.
  - intros m. rewrite !(matcher_correct re_search re_full re_sub py_upper py_lower is_space _ Hlib). reflexivity.
  - intros T. rewrite !(transformer_correct re_search re_full re_sub py_upper py_lower is_space _ Hlib). reflexivity.
Qed.
