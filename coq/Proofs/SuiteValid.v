(** The suite-hierarchy reader (C16) accepts a hierarchy exactly when it is declaratively valid.

    [Model.Suite.read] mirrors the real reader: one global [visited] set, every path of a suites
    section checked against it (and added) before any sub-suite is read.  [Spec.C16.spec_valid] is
    the independent reading: unfold the reference graph from the root as a tree (plain pre-order,
    no bookkeeping); valid iff every referenced file resolves and parses and no suite file occurs
    twice in the unfolding.

    Proof idea.  Both functions recurse with the same fuel discipline (fuel [n] for a file, [n-1]
    for the files it lists), so they are related AT EQUAL FUEL, by induction on the fuel; no
    fuel-adequacy argument is needed for the equivalence itself.  The invariant for
    [read fuel fs v p = inr (h, v')], under the precondition [In p v] (the parent registers a
    sub-suite before it is read; the root is registered by [read_root]):
      - [unfold fuel fs p = Some (preorder_paths h)],
      - [preorder_paths h] has no duplicates,
      - the only element of [preorder_paths h] that was already in [v] is [p] itself,
      - [v'] is, as a set, [v] plus [preorder_paths h].
    Conversely, if [unfold fuel fs p = Some l] with [l] duplicate free and meeting [v] only in [p],
    the reader accepts with [preorder_paths h = l].  The reader detects a repeated file at another
    moment than a pre-order walk would (all siblings are registered up front), which is why the
    invariant for a list of siblings [qs] read from [w] says "elements of the unfolding already in
    [w] are among the siblings [qs] themselves".

    Fuel independence of the specification ([spec_valid_fuel_independent]) is derived from the
    equivalence and [read_fuel_enough]: any fuel above [length fs] gives the same verdict, so
    [spec_valid = false] is never an artefact of the fuel in [unfold]. *)
From Coq Require Import ZArith NArith List Bool Lia.
From Exactly Require Import Model.Outcome Model.Suite Spec.C16 Proofs.SuiteReader Proofs.SuiteRun.
Import ListNotations.

(** the suite files of a hierarchy, a suite before the suites it lists, those in listing order *)
Fixpoint preorder_paths (h : hierarchy) : list fname :=
  match h with H p subs _ => p :: flat_map preorder_paths subs end.

(** the nested fixpoint of [unfold], as a function of the unfolding of one file *)
Fixpoint unfold_list (u : fname -> option (list fname)) (l : list fname) : option (list fname) :=
  match l with
  | [] => Some []
  | q :: l' =>
      match u q, unfold_list u l' with
      | Some a, Some b => Some (a ++ b)
      | _, _ => None
      end
  end.

Lemma unfold_unfold fuel fs p :
  unfold (S fuel) fs p =
  match lookup fs p with
  | Some (SGood ss cs) =>
      match resolve_all ss, resolve_all cs with
      | Some subs, Some _ => option_map (cons p) (unfold_list (unfold fuel fs) subs)
      | _, _ => None
      end
  | _ => None
  end.
Proof.
  cbn [unfold]. destruct (lookup fs p) as [[|ss cs]|]; try reflexivity.
  destruct (resolve_all ss) as [subs|]; [|reflexivity].
  destruct (resolve_all cs) as [c|]; [|reflexivity].
  f_equal. induction subs as [|q subs IHs]; cbn [unfold_list]; [reflexivity|].
  rewrite IHs. reflexivity.
Qed.

(** *** lists *)
Lemma nodupb_NoDup l : nodupb l = true <-> NoDup l.
Proof.
  induction l as [|x l IH]; cbn [nodupb].
  - split; [constructor|reflexivity].
  - rewrite andb_true_iff, negb_true_iff, IH. split.
    + intros [Hx Hl]. constructor; [|exact Hl]. intros Hin. apply mem_N_In in Hin. unfold mem_N in Hin. congruence.
    + intros Hnd. inversion Hnd as [|? ? Hx Hl]; subst. split; [|exact Hl].
      destruct (existsb (N.eqb x) l) eqn:E; [|reflexivity]. exfalso. apply Hx. apply mem_N_In. exact E.
Qed.

Lemma nodup_app (a b : list fname) :
  NoDup (a ++ b) <-> NoDup a /\ NoDup b /\ (forall x, In x a -> In x b -> False).
Proof.
  induction a as [|y a IH]; cbn [app].
  - split.
    + intros Hb. split; [constructor|]. split; [exact Hb|intros ? []].
    + intros (_ & Hb & _). exact Hb.
  - split.
    + intros Hnd. inversion Hnd as [|? ? Hy Hab]; subst. apply IH in Hab as (Ha & Hb & Hd).
      split; [|split].
      * constructor; [|exact Ha]. intros Hin. apply Hy, in_or_app. left; exact Hin.
      * exact Hb.
      * intros x [<-|Hx] Hxb; [apply Hy, in_or_app; right; exact Hxb|exact (Hd x Hx Hxb)].
    + intros (Ha & Hb & Hd). inversion Ha as [|? ? Hy Ha']; subst. constructor.
      * intros Hin. apply in_app_or in Hin as [Hin|Hin]; [exact (Hy Hin)|].
        apply (Hd y); [left; reflexivity|exact Hin].
      * apply IH. split; [exact Ha'|]. split; [exact Hb|]. intros x Hx. apply Hd. right; exact Hx.
Qed.

(** *** the suites section: [resolve_suites] = [resolve_all] + "new and pairwise distinct" *)
Lemma check_double_sound paths : forall visited v',
  check_double visited paths = Some v' ->
  NoDup paths /\ (forall q, In q paths -> ~ In q visited) /\
  (forall x, In x v' <-> In x visited \/ In x paths).
Proof.
  induction paths as [|p ps IH]; cbn [check_double]; intros visited v' E.
  - injection E as <-. split; [constructor|]. split; [intros ? []|]. intros x. cbn [In]. tauto.
  - destruct (mem_N p visited) eqn:M; [discriminate|].
    assert (Hp : ~ In p visited) by (intros Hin; apply mem_N_In in Hin; congruence).
    destruct (IH _ _ E) as (Hnd & Hnew & Heq).
    split; [|split].
    + constructor; [|exact Hnd]. intros Hin. apply (Hnew p Hin). left; reflexivity.
    + intros q [<-|Hq]; [exact Hp|]. intros Hv. apply (Hnew q Hq). right; exact Hv.
    + intros x. rewrite Heq. cbn [In]. tauto.
Qed.

Lemma check_double_complete paths : forall visited,
  NoDup paths -> (forall q, In q paths -> ~ In q visited) ->
  exists v', check_double visited paths = Some v'.
Proof.
  induction paths as [|p ps IH]; cbn [check_double]; intros visited Hnd Hnew.
  - eexists; reflexivity.
  - inversion Hnd as [|? ? Hp Hps]; subst.
    destruct (mem_N p visited) eqn:M.
    + exfalso. apply (Hnew p); [left; reflexivity|apply mem_N_In; exact M].
    + apply IH; [exact Hps|]. intros q Hq [<-|Hv]; [exact (Hp Hq)|].
      apply (Hnew q); [right; exact Hq|exact Hv].
Qed.

Lemma resolve_suites_sound is_ : forall visited ps v1,
  resolve_suites visited is_ = inr (ps, v1) ->
  resolve_all is_ = Some ps /\ NoDup ps /\ (forall q, In q ps -> ~ In q visited) /\
  (forall x, In x v1 <-> In x visited \/ In x ps).
Proof.
  induction is_ as [|i is_ IH]; cbn [resolve_suites resolve_all]; intros visited ps v1 E.
  - injection E as <- <-. split; [reflexivity|]. split; [constructor|]. split; [intros ? []|].
    intros x. cbn [In]. tauto.
  - destruct (resolve_instr i) as [paths|]; [|discriminate].
    destruct (check_double visited paths) as [visited'|] eqn:C; [|discriminate].
    destruct (resolve_suites visited' is_) as [e|[rest v]] eqn:R; [discriminate|].
    injection E as <- <-.
    destruct (check_double_sound _ _ _ C) as (Hnd & Hnew & Heq).
    destruct (IH _ _ _ R) as (Hall & Hnd' & Hnew' & Heq').
    rewrite Hall. split; [reflexivity|]. split; [|split].
    + apply nodup_app. split; [exact Hnd|]. split; [exact Hnd'|].
      intros x Hx Hx'. apply (Hnew' x Hx'). apply Heq. right; exact Hx.
    + intros q Hq Hv. apply in_app_or in Hq as [Hq|Hq]; [exact (Hnew q Hq Hv)|].
      apply (Hnew' q Hq), Heq. left; exact Hv.
    + intros x. rewrite Heq', Heq, in_app_iff. tauto.
Qed.

Lemma resolve_suites_complete is_ : forall visited ps,
  resolve_all is_ = Some ps -> NoDup ps -> (forall q, In q ps -> ~ In q visited) ->
  exists v1, resolve_suites visited is_ = inr (ps, v1).
Proof.
  induction is_ as [|i is_ IH]; cbn [resolve_suites resolve_all]; intros visited ps E Hnd Hnew.
  - injection E as <-. eexists; reflexivity.
  - destruct (resolve_instr i) as [paths|]; [|discriminate].
    destruct (resolve_all is_) as [rest|] eqn:A; [|discriminate].
    injection E as <-.
    apply nodup_app in Hnd as (Hnd1 & Hnd2 & Hdisj).
    destruct (check_double_complete paths visited Hnd1) as [visited' C].
    { intros q Hq. apply Hnew, in_or_app. left; exact Hq. }
    rewrite C.
    destruct (check_double_sound _ _ _ C) as (_ & _ & Heq).
    destruct (IH visited' rest eq_refl Hnd2) as [v1 R].
    { intros q Hq Hv. apply Heq in Hv as [Hv|Hv]; [|exact (Hdisj q Hv Hq)].
      apply (Hnew q); [apply in_or_app; right; exact Hq|exact Hv]. }
    rewrite R. eexists; reflexivity.
Qed.

(** the cases section: no check against [visited] *)
Lemma resolve_cases_all cs :
  resolve_cases cs = match resolve_all cs with Some c => inr c | None => inl ENotAccessible end.
Proof.
  induction cs as [|i cs IH]; cbn [resolve_cases resolve_all]; [reflexivity|].
  destruct (resolve_instr i) as [paths|]; [|reflexivity].
  rewrite IH. destruct (resolve_all cs); reflexivity.
Qed.

(** *** the unfolding starts with the file itself *)
Lemma unfold_head fuel fs p l : unfold fuel fs p = Some l -> In p l.
Proof.
  destruct fuel as [|fuel]; [discriminate|]. rewrite unfold_unfold.
  destruct (lookup fs p) as [[|ss cs]|]; try discriminate.
  destruct (resolve_all ss) as [subs|]; [|discriminate].
  destruct (resolve_all cs) as [c|]; [|discriminate].
  destruct (unfold_list (unfold fuel fs) subs) as [m|]; [|discriminate].
  cbn [option_map]. intros E. injection E as <-. left; reflexivity.
Qed.

Lemma unfold_list_heads (u : fname -> option (list fname)) :
  (forall q a, u q = Some a -> In q a) ->
  forall qs m, unfold_list u qs = Some m -> incl qs m.
Proof.
  intros Hu. induction qs as [|q qs IH]; cbn [unfold_list]; intros m E; [intros ? []|].
  destruct (u q) as [a|] eqn:Ua; [|discriminate].
  destruct (unfold_list u qs) as [b|]; [|discriminate].
  injection E as <-. intros x [<-|Hx]; apply in_or_app; [left; exact (Hu _ _ Ua)|right; exact (IH b eq_refl x Hx)].
Qed.

Lemma unfold_list_heads_nodup (u : fname -> option (list fname)) :
  (forall q a, u q = Some a -> In q a) ->
  forall qs m, unfold_list u qs = Some m -> NoDup m -> NoDup qs.
Proof.
  intros Hu. induction qs as [|q qs IH]; cbn [unfold_list]; intros m E Hnd; [constructor|].
  destruct (u q) as [a|] eqn:Ua; [|discriminate].
  destruct (unfold_list u qs) as [b|] eqn:Ub; [|discriminate].
  injection E as <-. apply nodup_app in Hnd as (_ & Hndb & Hdisj).
  constructor; [|exact (IH b eq_refl Hndb)].
  intros Hq. apply (Hdisj q); [exact (Hu _ _ Ua)|]. exact (unfold_list_heads u Hu qs b Ub q Hq).
Qed.

(** *** accepted => the result is the duplicate-free unfolding (at equal fuel) *)
Lemma read_sound fuel fs : forall v p h v',
  read fuel fs v p = inr (h, v') -> In p v ->
  unfold fuel fs p = Some (preorder_paths h) /\ NoDup (preorder_paths h) /\
  (forall x, In x (preorder_paths h) -> In x v -> x = p) /\
  (forall x, In x v' <-> In x v \/ In x (preorder_paths h)).
Proof.
  induction fuel as [|fuel IH]; intros v p h v' E Hpv; [discriminate|].
  rewrite read_unfold in E. rewrite unfold_unfold.
  destruct (lookup fs p) as [[|ss cs]|]; try discriminate.
  destruct (resolve_suites v ss) as [e|[subs v1]] eqn:R; [discriminate|].
  rewrite resolve_cases_all in E.
  destruct (resolve_all cs) as [case_paths|]; [|discriminate].
  destruct (read_subs (read fuel fs) subs v1) as [e|[hs v2]] eqn:S; [discriminate|].
  injection E as <- <-.
  destruct (resolve_suites_sound _ _ _ _ R) as (Hall & Hnd & Hnew & Heq1).
  rewrite Hall. cbn [preorder_paths].
  assert (Hsubs : forall qs w hs' w',
             read_subs (read fuel fs) qs w = inr (hs', w') -> NoDup qs -> incl qs w ->
             unfold_list (unfold fuel fs) qs = Some (flat_map preorder_paths hs') /\
             NoDup (flat_map preorder_paths hs') /\
             (forall x, In x (flat_map preorder_paths hs') -> In x w -> In x qs) /\
             incl qs (flat_map preorder_paths hs') /\
             (forall x, In x w' <-> In x w \/ In x (flat_map preorder_paths hs'))).
  { induction qs as [|q qs IHqs]; cbn [read_subs unfold_list]; intros w hs' w' E' Hndq Hqw.
    - injection E' as <- <-. cbn [flat_map]. split; [reflexivity|]. split; [constructor|].
      split; [intros ? []|]. split; [intros ? []|]. intros x. cbn [In]. tauto.
    - destruct (read fuel fs w q) as [e|[h1 w1]] eqn:Rq; [discriminate|].
      destruct (read_subs (read fuel fs) qs w1) as [e|[hs1 w2]] eqn:Rs; [discriminate|].
      injection E' as <- <-. cbn [flat_map].
      inversion Hndq as [|? ? Hq Hndqs]; subst.
      destruct (IH _ _ _ _ Rq) as (Hua & Hnda & Holda & Heqa).
      { apply Hqw. left; reflexivity. }
      destruct (IHqs _ _ _ Rs Hndqs) as (Hub & Hndb & Holdb & Hheadsb & Heqb).
      { intros x Hx. apply Heqa. left. apply Hqw. right; exact Hx. }
      rewrite Hua, Hub.
      pose proof (unfold_head _ _ _ _ Hua) as Hqa.
      split; [reflexivity|]. split; [|split; [|split]].
      + apply nodup_app. split; [exact Hnda|]. split; [exact Hndb|].
        intros x Hxa Hxb.
        assert (Hxqs : In x qs). { apply Holdb; [exact Hxb|apply Heqa; right; exact Hxa]. }
        assert (Hxq : x = q). { apply Holda; [exact Hxa|apply Hqw; right; exact Hxqs]. }
        subst x. exact (Hq Hxqs).
      + intros x Hx Hw. apply in_app_or in Hx as [Hx|Hx].
        * left. symmetry. apply Holda; assumption.
        * right. apply Holdb; [exact Hx|apply Heqa; left; exact Hw].
      + intros x [<-|Hx]; apply in_or_app; [left; exact Hqa|right; apply Hheadsb, Hx].
      + intros x. rewrite Heqb, Heqa, in_app_iff. tauto. }
  destruct (Hsubs _ _ _ _ S Hnd) as (Hu & Hndm & Hold & Hheads & Heq2).
  { intros x Hx. apply Heq1. right; exact Hx. }
  rewrite Hu. cbn [option_map]. split; [reflexivity|].
  assert (Hpm : ~ In p (flat_map preorder_paths hs)).
  { intros Hin. apply (Hnew p); [|exact Hpv]. apply Hold; [exact Hin|]. apply Heq1. left; exact Hpv. }
  split; [constructor; assumption|]. split.
  - intros x [<-|Hx] Hv; [reflexivity|]. exfalso. apply (Hnew x); [|exact Hv].
    apply Hold; [exact Hx|apply Heq1; left; exact Hv].
  - intros x. rewrite Heq2, Heq1. cbn [In]. split.
    + intros [[Hx|Hx]|Hx]; [left; exact Hx|right; right; apply Hheads, Hx|right; right; exact Hx].
    + intros [Hx|[<-|Hx]]; [left; left; exact Hx|left; left; exact Hpv|right; exact Hx].
Qed.

(** *** a duplicate-free unfolding that meets [visited] only in the file itself => accepted *)
Lemma read_complete fuel fs : forall v p l,
  unfold fuel fs p = Some l -> NoDup l -> In p v -> (forall x, In x l -> In x v -> x = p) ->
  exists h v', read fuel fs v p = inr (h, v') /\ preorder_paths h = l.
Proof.
  induction fuel as [|fuel IH]; intros v p l E Hnd Hpv Hold; [discriminate|].
  rewrite unfold_unfold in E. rewrite read_unfold.
  destruct (lookup fs p) as [[|ss cs]|]; try discriminate.
  destruct (resolve_all ss) as [subs|] eqn:A; [|discriminate].
  rewrite resolve_cases_all.
  destruct (resolve_all cs) as [case_paths|]; [|discriminate].
  destruct (unfold_list (unfold fuel fs) subs) as [m|] eqn:U; [|discriminate].
  cbn [option_map] in E. injection E as <-.
  inversion Hnd as [|? ? Hpm Hndm]; subst.
  pose proof (unfold_list_heads _ (unfold_head fuel fs) _ _ U) as Hheads.
  pose proof (unfold_list_heads_nodup _ (unfold_head fuel fs) _ _ U Hndm) as Hnds.
  destruct (resolve_suites_complete ss v subs A Hnds) as [v1 R].
  { intros q Hq Hv. assert (Hqp : q = p) by (apply Hold; [right; apply Hheads, Hq|exact Hv]).
    subst q. apply Hpm, Hheads, Hq. }
  rewrite R.
  destruct (resolve_suites_sound _ _ _ _ R) as (_ & _ & Hnew & Heq1).
  assert (Hsubs : forall qs w m',
             unfold_list (unfold fuel fs) qs = Some m' -> NoDup m' -> incl qs w ->
             (forall x, In x m' -> In x w -> In x qs) ->
             exists hs w', read_subs (read fuel fs) qs w = inr (hs, w') /\ flat_map preorder_paths hs = m').
  { induction qs as [|q qs IHqs]; cbn [unfold_list read_subs]; intros w m' U' Hndm' Hqw Holdw.
    - injection U' as <-. exists [], w. split; reflexivity.
    - destruct (unfold fuel fs q) as [a|] eqn:Ua; [|discriminate].
      destruct (unfold_list (unfold fuel fs) qs) as [b|] eqn:Ub; [|discriminate].
      injection U' as <-.
      apply nodup_app in Hndm' as (Hnda & Hndb & Hdisj).
      pose proof (unfold_head _ _ _ _ Ua) as Hqa.
      pose proof (unfold_list_heads _ (unfold_head fuel fs) _ _ Ub) as Hheadsb.
      destruct (IH w q a Ua Hnda) as (h1 & w1 & Rq & Hpre).
      { apply Hqw. left; reflexivity. }
      { intros x Hxa Hxw. destruct (Holdw x) as [Exq|Hxqs];
          [apply in_or_app; left; exact Hxa|exact Hxw|symmetry; exact Exq|].
        exfalso. apply (Hdisj x Hxa). apply Hheadsb, Hxqs. }
      rewrite Rq.
      destruct (read_sound _ _ _ _ _ _ Rq) as (_ & _ & _ & Heqa). { apply Hqw; left; reflexivity. }
      rewrite Hpre in Heqa.
      destruct (IHqs w1 b eq_refl Hndb) as (hs1 & w2 & Rs & Hpres).
      { intros x Hx. apply Heqa. left. apply Hqw. right; exact Hx. }
      { intros x Hxb Hxw1. apply Heqa in Hxw1 as [Hxw|Hxa]; [|exfalso; exact (Hdisj x Hxa Hxb)].
        destruct (Holdw x) as [Exq|Hxqs]; [apply in_or_app; right; exact Hxb|exact Hxw| |exact Hxqs].
        exfalso. subst x. exact (Hdisj q Hqa Hxb). }
      rewrite Rs. exists (h1 :: hs1), w2. split; [reflexivity|]. cbn [flat_map]. rewrite Hpre, Hpres. reflexivity. }
  destruct (Hsubs subs v1 m U Hndm) as (hs & v2 & S & Hpre).
  { intros x Hx. apply Heq1. right; exact Hx. }
  { intros x Hxm Hxv1. apply Heq1 in Hxv1 as [Hxv|Hxs]; [|exact Hxs]. exfalso.
    assert (Hxp : x = p) by (apply Hold; [right; exact Hxm|exact Hxv]). subst x. exact (Hpm Hxm). }
  rewrite S. exists (H p hs case_paths), v2. split; [reflexivity|]. cbn [preorder_paths]. rewrite Hpre. reflexivity.
Qed.

(** *** the theorems about [read_root] *)

(** An accepted hierarchy is the unfolding of the reference graph, and lists every suite file once. *)
Theorem accepted_is_unfolding fs root h :
  read_root fs root = inr h ->
  unfold (S (length fs)) fs root = Some (preorder_paths h) /\ NoDup (preorder_paths h).
Proof.
  unfold read_root. intros E.
  destruct (read (S (length fs)) fs [root] root) as [e|[h' v']] eqn:R; [discriminate|].
  injection E as ->.
  destruct (read_sound _ _ _ _ _ _ R) as (Hu & Hnd & _); [left; reflexivity|].
  split; assumption.
Qed.

(** A valid hierarchy is accepted, and the accepted hierarchy is the unfolding. *)
Theorem valid_is_accepted fs root l :
  unfold (S (length fs)) fs root = Some l -> NoDup l ->
  exists h, read_root fs root = inr h /\ preorder_paths h = l.
Proof.
  intros U Hnd. unfold read_root.
  destruct (read_complete _ fs [root] root l U Hnd) as (h & v' & R & Hpre).
  - left; reflexivity.
  - intros x _ [<-|[]]. reflexivity.
  - rewrite R. exists h. split; [reflexivity|exact Hpre].
Qed.

Theorem reader_accepts_iff_valid fs root :
  (exists h, read_root fs root = inr h) <-> spec_valid fs root = true.
Proof.
  unfold spec_valid. split.
  - intros [h E]. destruct (accepted_is_unfolding _ _ _ E) as (-> & Hnd). apply nodupb_NoDup, Hnd.
  - destruct (unfold (S (length fs)) fs root) as [l|] eqn:U; [|discriminate].
    intros Hnd. apply nodupb_NoDup in Hnd.
    destruct (valid_is_accepted _ _ _ U Hnd) as (h & E & _). exists h. exact E.
Qed.

(** In boolean form, as it is used by [check_c16]: INVALID_SUITE iff not valid. *)
Corollary run_invalid_iff_not_valid rep fs root outcome :
  run_invalid (run_suite rep fs root outcome) = negb (spec_valid fs root).
Proof.
  unfold run_suite. destruct (read_root fs root) as [e|h] eqn:E; cbn [run_invalid].
  - destruct (spec_valid fs root) eqn:V; [|reflexivity].
    apply reader_accepts_iff_valid in V as [h Eh]. congruence.
  - assert (V : spec_valid fs root = true) by (apply reader_accepts_iff_valid; exists h; exact E).
    rewrite V. reflexivity.
Qed.

(** *** the verdict of the specification does not depend on its fuel
    [unfold] is totalised by fuel; [spec_valid] uses [S (length fs)].  Any larger fuel gives the
    same verdict: so [spec_valid fs root = false] always has a real reason (a file that does not
    resolve or parse, a file occurring twice, or a cycle, whose unfolding contains a repetition for
    every sufficiently large fuel), never the fuel chosen in the specification. *)
Definition spec_valid_fuel (n : nat) (fs : fsys) (root : fname) : bool :=
  match unfold n fs root with Some l => nodupb l | None => false end.

Lemma read_accepts_iff_fuel n fs root :
  (exists h v', read n fs [root] root = inr (h, v')) <-> spec_valid_fuel n fs root = true.
Proof.
  unfold spec_valid_fuel. split.
  - intros (h & v' & R).
    destruct (read_sound _ _ _ _ _ _ R) as (-> & Hnd & _); [left; reflexivity|]. apply nodupb_NoDup, Hnd.
  - destruct (unfold n fs root) as [l|] eqn:U; [|discriminate].
    intros Hnd. apply nodupb_NoDup in Hnd.
    destruct (read_complete _ fs [root] root l U Hnd) as (h & v' & R & _).
    + left; reflexivity.
    + intros x _ [<-|[]]. reflexivity.
    + exists h, v'. exact R.
Qed.

(** more fuel does not change a result other than "out of fuel" *)
Lemma read_fuel_mono fuel fs : forall v p r,
  read fuel fs v p = r -> r <> inl EOutOfFuel -> read (S fuel) fs v p = r.
Proof.
  induction fuel as [|fuel IH]; intros v p r E Hne.
  - cbn [read] in E. congruence.
  - rewrite read_unfold in E. rewrite read_unfold.
    destruct (lookup fs p) as [[|ss cs]|]; try exact E.
    destruct (resolve_suites v ss) as [e|[subs v1]]; [exact E|].
    destruct (resolve_cases cs) as [e|case_paths]; [exact E|].
    assert (Hsubs : forall qs w r', read_subs (read fuel fs) qs w = r' -> r' <> inl EOutOfFuel ->
                                    read_subs (read (S fuel) fs) qs w = r').
    { induction qs as [|q qs IHqs]; cbn [read_subs]; intros w r' E' Hne'; [exact E'|].
      destruct (read fuel fs w q) as [e|[h1 w1]] eqn:Rq.
      - rewrite (IH _ _ _ Rq); [exact E'|]. subst r'. intros X. apply Hne'. injection X as ->. reflexivity.
      - rewrite (IH _ _ _ Rq) by discriminate.
        destruct (read_subs (read fuel fs) qs w1) as [e|[hs1 w2]] eqn:Rs.
        + rewrite (IHqs _ _ Rs); [exact E'|]. subst r'. intros X. apply Hne'. injection X as ->. reflexivity.
        + rewrite (IHqs _ _ Rs) by discriminate. exact E'. }
    destruct (read_subs (read fuel fs) subs v1) as [e|[hs v2]] eqn:S.
    + rewrite (Hsubs _ _ _ S); [exact E|]. subst r. intros X. apply Hne. injection X as ->. reflexivity.
    + rewrite (Hsubs _ _ _ S) by discriminate. exact E.
Qed.

Lemma read_fuel_mono_plus k fuel fs v p r :
  read fuel fs v p = r -> r <> inl EOutOfFuel -> read (k + fuel) fs v p = r.
Proof.
  intros E Hne. induction k as [|k IHk]; [exact E|]. cbn [Nat.add]. apply read_fuel_mono; assumption.
Qed.

Theorem spec_valid_fuel_independent fs root n :
  length fs < n -> spec_valid_fuel n fs root = spec_valid fs root.
Proof.
  intros Hn.
  assert (Hne : read (S (length fs)) fs [root] root <> inl EOutOfFuel).
  { apply (read_fuel_enough _ _ []).
    - constructor.
    - intros a [].
    - intros [].
    - apply incl_refl.
    - cbn [length]. lia. }
  pose proof (read_fuel_mono_plus (n - S (length fs)) _ _ _ _ _ eq_refl Hne) as Hr.
  replace (n - S (length fs) + S (length fs)) with n in Hr by lia.
  change (spec_valid fs root) with (spec_valid_fuel (S (length fs)) fs root).
  apply eq_true_iff_eq.
  rewrite <- !read_accepts_iff_fuel, Hr. reflexivity.
Qed.

(** *** the processing order is the declarative one
    [spec_processed] (Spec/C16.v) has the recursion shape of [unfold] and carries the case lists.
    Again at equal fuel: whatever the reader accepts, its [listing] (= [processed], by
    [processed_is_listing]) is what the specification computes from the file system alone. *)
Fixpoint processed_list (u : fname -> option (list (fname * fname))) (l : list fname)
  : option (list (fname * fname)) :=
  match l with
  | [] => Some []
  | q :: l' =>
      match u q, processed_list u l' with
      | Some a, Some b => Some (a ++ b)
      | _, _ => None
      end
  end.

Lemma spec_processed_unfold fuel fs p :
  spec_processed (S fuel) fs p =
  match lookup fs p with
  | Some (SGood ss cs) =>
      match resolve_all ss, resolve_all cs with
      | Some subs, Some cases =>
          option_map (fun from_subs => from_subs ++ map (fun c => (p, c)) cases)
                     (processed_list (spec_processed fuel fs) subs)
      | _, _ => None
      end
  | _ => None
  end.
Proof.
  cbn [spec_processed]. destruct (lookup fs p) as [[|ss cs]|]; try reflexivity.
  destruct (resolve_all ss) as [subs|]; [|reflexivity].
  destruct (resolve_all cs) as [c|]; [|reflexivity].
  f_equal. induction subs as [|q subs IHs]; cbn [processed_list]; [reflexivity|].
  rewrite IHs. reflexivity.
Qed.

Lemma read_listing fuel fs : forall v p h v',
  read fuel fs v p = inr (h, v') -> spec_processed fuel fs p = Some (listing h).
Proof.
  induction fuel as [|fuel IH]; intros v p h v' E; [discriminate|].
  rewrite read_unfold in E. rewrite spec_processed_unfold.
  destruct (lookup fs p) as [[|ss cs]|]; try discriminate.
  destruct (resolve_suites v ss) as [e|[subs v1]] eqn:R; [discriminate|].
  rewrite resolve_cases_all in E.
  destruct (resolve_all cs) as [case_paths|]; [|discriminate].
  destruct (read_subs (read fuel fs) subs v1) as [e|[hs v2]] eqn:S; [discriminate|].
  injection E as <- <-.
  destruct (resolve_suites_sound _ _ _ _ R) as (Hall & _).
  rewrite Hall. cbn [listing].
  assert (Hsubs : forall qs w hs' w',
             read_subs (read fuel fs) qs w = inr (hs', w') ->
             processed_list (spec_processed fuel fs) qs = Some (flat_map listing hs')).
  { induction qs as [|q qs IHqs]; cbn [read_subs processed_list]; intros w hs' w' E'.
    - injection E' as <- <-. reflexivity.
    - destruct (read fuel fs w q) as [e|[h1 w1]] eqn:Rq; [discriminate|].
      destruct (read_subs (read fuel fs) qs w1) as [e|[hs1 w2]] eqn:Rs; [discriminate|].
      injection E' as <- <-. rewrite (IH _ _ _ _ Rq), (IHqs _ _ _ Rs). reflexivity. }
  rewrite (Hsubs _ _ _ _ S). reflexivity.
Qed.

Theorem processing_order_is_declarative fs root h :
  read_root fs root = inr h -> spec_processed (S (length fs)) fs root = Some (processed h).
Proof.
  unfold read_root. intros E.
  destruct (read (S (length fs)) fs [root] root) as [e|[h' v']] eqn:R; [discriminate|].
  injection E as ->. rewrite processed_is_listing. exact (read_listing _ _ _ _ _ _ R).
Qed.

(** hence a declaratively valid hierarchy always has a declarative processing order *)
Corollary valid_has_processing_order fs root :
  spec_valid fs root = true -> exists l, spec_processed (S (length fs)) fs root = Some l.
Proof.
  intros V. apply reader_accepts_iff_valid in V as [h E].
  exists (processed h). exact (processing_order_is_declarative _ _ _ E).
Qed.
