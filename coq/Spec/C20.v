(** Property C20 — specification, read from the statement alone.

    "Every instruction name accepted in a test-case phase or suite section, and every type, actor, directive,
     configuration parameter, builtin symbol, concept and suite reporter, has a help entry that `exactly help ...`
     displays successfully; nothing is listed by the help that the program does not accept.  In the generated HTML
     reference manual every internal cross-reference points at an anchor that exists exactly once."

    Vocabulary:
      accepted     the names the running program accepts (per phase / suite section / entity type)
      documented   the names the help lists for it
      agree        accepted and documented are the same set
      a help run   argv of `exactly help ...`, its exit code, whether stdout was non-empty, whether an exception escaped
 *)
From Coq Require Import List Bool String ZArith.
From Exactly Require Import Lib.Harness Model.Help.
Import ListNotations.
Local Open Scope string_scope.

(** *** The declarative reading *)
Definition agree (accepted documented : list string) : Prop := forall x, In x accepted <-> In x documented.

Definition displayed_successfully (r : help_run) : Prop :=
  hr_exit r = 0%Z /\ hr_nonempty r = true /\ hr_exception r = false.

(** the help command lines that ask for one documented thing *)
Definition request_for_instruction (phase name : string) : list string := [phase; name].
Definition request_for_suite_instruction (kw : keywords) (section name : string) : list string :=
  [kw_suite kw; section; name].
Definition request_for_entity (type name : string) : list string := [type; name].

Definition has_successful_run (runs : list help_run) (argv : list string) : Prop :=
  exists r, In r runs /\ hr_argv r = argv /\ displayed_successfully r.

(** every internal cross-reference points at an anchor that exists exactly once *)
Definition no_dead_links (ids hrefs : list string) : Prop :=
  forall h, In h hrefs -> count_occ string_dec ids h = 1.

(** In one way of running a case: every probed name is accepted iff the help lists it, and nothing is accepted that the
    help does not list. *)
Definition mode_ok (documented : list string) (m : mode_obs) : Prop :=
  (forall n, In n (mo_probed m) -> (In n (mo_accepted m) <-> In n documented)) /\
  (forall n, In n (mo_accepted m) -> In n documented).

Definition phase_ok (i : inventory) (p : phase_inv) : Prop :=
  agree (pi_accepted p) (pi_help_struct p) /\
  (forall n, In n (pi_accepted p) -> has_successful_run (inv_requests i) (request_for_instruction (pi_name p) n)) /\
  (forall m, In m (pi_modes p) -> mode_ok (pi_help_struct p) m) /\
  (* ... and what `exactly help PHASE instructions` / `exactly help instructions` actually display *)
  agree (pi_accepted p) (pi_help_rendered p) /\ agree (pi_accepted p) (pi_help_rendered_all p).

(** instructions of suite sections: documented by the section itself or by the phase it refers to *)
Definition suite_ok (i : inventory) (s : suite_inv) : Prop :=
  agree (si_accepted s) (suite_documented i s) /\
  (forall n, In n (si_accepted s) ->
    has_successful_run (inv_requests i) (request_for_suite_instruction (inv_kw i) (si_name s) n) \/
    exists ph, In ph (si_corresponds s) /\ has_successful_run (inv_requests i) (request_for_instruction ph n)) /\
  (forall m, In m (si_modes s) -> mode_ok (suite_documented i s) m).

Definition entity_ok (i : inventory) (e : entity_inv) : Prop :=
  agree (ei_accepted e) (ei_help_struct e) /\
  (forall n, In n (ei_accepted e) -> has_successful_run (inv_requests i) (request_for_entity (ei_type e) n)) /\
  (forall m, In m (ei_modes e) -> mode_ok (ei_help_struct e) m) /\
  (* ... and what `exactly help TYPE` actually displays *)
  agree (ei_accepted e) (ei_help_rendered e).

(** The whole property, over an inventory of the program. *)
Definition C20_holds (i : inventory) : Prop :=
  (forall p, In p (inv_phases i) -> phase_ok i p) /\
  (forall s, In s (inv_suite_sections i) -> suite_ok i s) /\
  (forall e, In e (inv_entities i) -> entity_ok i e) /\
  (forall t, In t (inv_entity_types_program i) -> exists e, In e (inv_entities i) /\ ei_type e = t) /\
  (* the HTML manual *)
  no_dead_links (inv_html_ids i) (inv_html_hrefs i).

(** *** Boolean versions, decided by the kernel on the regenerated inventory *)
Definition subsetb (l1 l2 : list string) : bool := forallb (fun x => mem x l2) l1.
Definition agreeb (l1 l2 : list string) : bool := subsetb l1 l2 && subsetb l2 l1.

Definition argv_eqb (a b : list string) : bool := list_eqb String.eqb a b.

Definition displayed_successfullyb (r : help_run) : bool :=
  Z.eqb (hr_exit r) 0 && hr_nonempty r && negb (hr_exception r).
Definition has_successful_runb (runs : list help_run) (argv : list string) : bool :=
  existsb (fun r => argv_eqb (hr_argv r) argv && displayed_successfullyb r) runs.

Fixpoint countb (x : string) (l : list string) : nat :=
  match l with [] => 0 | y :: l' => (if String.eqb y x then 1 else 0) + countb x l' end.
Definition no_dead_linksb (ids hrefs : list string) : bool := forallb (fun h => Nat.eqb (countb h ids) 1) hrefs.

Definition mode_okb (documented : list string) (m : mode_obs) : bool :=
  forallb (fun n => Bool.eqb (mem n (mo_accepted m)) (mem n documented)) (mo_probed m) &&
  subsetb (mo_accepted m) documented.

Definition phase_okb (i : inventory) (p : phase_inv) : bool :=
  agreeb (pi_accepted p) (pi_help_struct p) &&
  forallb (fun n => has_successful_runb (inv_requests i) (request_for_instruction (pi_name p) n)) (pi_accepted p) &&
  forallb (mode_okb (pi_help_struct p)) (pi_modes p) &&
  agreeb (pi_accepted p) (pi_help_rendered p) && agreeb (pi_accepted p) (pi_help_rendered_all p).

Definition suite_okb (i : inventory) (s : suite_inv) : bool :=
  agreeb (si_accepted s) (suite_documented i s) &&
  forallb (fun n => has_successful_runb (inv_requests i) (request_for_suite_instruction (inv_kw i) (si_name s) n)
                    || existsb (fun ph => has_successful_runb (inv_requests i) (request_for_instruction ph n))
                               (si_corresponds s))
          (si_accepted s) &&
  forallb (mode_okb (suite_documented i s)) (si_modes s).

Definition entity_okb (i : inventory) (e : entity_inv) : bool :=
  agreeb (ei_accepted e) (ei_help_struct e) &&
  forallb (fun n => has_successful_runb (inv_requests i) (request_for_entity (ei_type e) n)) (ei_accepted e) &&
  forallb (mode_okb (ei_help_struct e)) (ei_modes e) &&
  agreeb (ei_accepted e) (ei_help_rendered e).

Definition C20_holdsb (i : inventory) : bool :=
  forallb (phase_okb i) (inv_phases i) &&
  forallb (suite_okb i) (inv_suite_sections i) &&
  forallb (entity_okb i) (inv_entities i) &&
  forallb (fun t => existsb (fun e => String.eqb (ei_type e) t) (inv_entities i)) (inv_entity_types_program i) &&
  no_dead_linksb (inv_html_ids i) (inv_html_hrefs i).

(** *** The tie between the model and the regenerated inventory (T): the derivation modelled in Model/Help.v,
    applied to the observed parser dictionaries, reproduces what the help lists and what the parser accepts. *)
Definition phase_tieb (i : inventory) (p : phase_inv) : bool :=
  let d := obs_dict (pi_dict p) in
  Bool.eqb (pi_has_dict p) (pi_has_help_instr p) &&
  list_eqb String.eqb (listed_names obs_doc_name d) (pi_help_struct p) &&
  list_eqb String.eqb (help_keys obs_doc_name d) (pi_help_keys p) &&
  agreeb (pi_help_struct p) (pi_help_rendered p) &&
  agreeb (pi_help_struct p) (pi_help_rendered_all p) &&
  (if pi_has_dict p
   then forallb (fun c => Bool.eqb (parser_accepts d c) (mem c (pi_accepted p))) (inv_candidates i)
   else match pi_accepted p with [] => true | _ => false end) &&
  subsetb (pi_accepted p) (inv_candidates i) &&
  forallb (fun m => subsetb (mo_accepted m) (mo_probed m)) (pi_modes p).

Definition suite_tieb (i : inventory) (s : suite_inv) : bool :=
  let d := obs_dict (si_own_dict s) in
  list_eqb String.eqb (listed_names obs_doc_name d) (si_help_struct s) &&
  list_eqb String.eqb (help_keys obs_doc_name d) (si_help_keys s) &&
  forallb (fun c => match model_accepts_suite i (si_name s) c with
                    | Some b => Bool.eqb b (mem c (si_accepted s))
                    | None => negb (mem c (si_accepted s))
                    end) (inv_candidates i) &&
  subsetb (si_accepted s) (inv_candidates i).

Definition entity_tieb (e : entity_inv) : bool :=
  agreeb (ei_help_struct e) (ei_help_rendered e) &&
  forallb (fun m => subsetb (mo_accepted m) (mo_probed m)) (ei_modes e).

(** every enumerated help run: the model of the argument parser predicts its exit code, and the enumeration's own
    idea of "asks for something that exists" is the model's *)
Definition request_tieb (i : inventory) (r : help_run) : bool :=
  let m := parse_help (inv_kw i) (app_of i) (hr_argv r) in
  (hr_exception r || Z.eqb (exit_of i m) (hr_exit r)) &&
  Bool.eqb (match m with POk _ => true | PHelpError => false end) (hr_expected_valid r).

Definition inventory_tieb (i : inventory) : bool :=
  forallb (phase_tieb i) (inv_phases i) &&
  forallb (suite_tieb i) (inv_suite_sections i) &&
  forallb entity_tieb (inv_entities i) &&
  forallb (request_tieb i) (inv_requests i) &&
  Z.eqb (inv_exit_ok i) 0 && negb (Z.eqb (inv_exit_invalid_usage i) 0).

(** *** Help command lines that name a documented entry (used by the reachability theorem) *)
Inductive names_entry (kw : keywords) (a : app_help) : list string -> Prop :=
| NE_phase : forall h, In h (ah_phases a) -> names_entry kw a [sh_name h]
| NE_instruction : forall h keys n, In h (ah_phases a) -> sh_instructions h = Some keys -> In n keys ->
                                    names_entry kw a [sh_name h; n]
| NE_entity_list : forall t names, In (t, names) (ah_entities a) -> names_entry kw a [t]
| NE_entity : forall t names n words, In (t, names) (ah_entities a) -> In n names -> words <> [] ->
                                      join_sp words = n -> names_entry kw a (t :: words)
| NE_suite_section : forall h, In h (ah_suite_sections a) -> names_entry kw a [kw_suite kw; sh_name h]
| NE_suite_instruction : forall h keys n, In h (ah_suite_sections a) -> sh_instructions h = Some keys -> In n keys ->
                                          names_entry kw a [kw_suite kw; sh_name h; n].

(** side conditions under which no name shadows another on the help command line (decidable; checked on the live
    inventory by the kernel) *)
Definition NoDupb (l : list string) : bool :=
  (fix go (l : list string) := match l with [] => true | x :: r => negb (mem x r) && go r end) l.

Definition well_named (kw : keywords) (a : app_help) : bool :=
  let reserved := [kw_help kw; kw_htmldoc kw; kw_case kw; kw_suite kw; kw_symbol kw] in
  let types := map fst (ah_entities a) in
  let phases := map sh_name (ah_phases a) in
  let sections := map sh_name (ah_suite_sections a) in
  NoDupb (reserved ++ types ++ phases) &&
  NoDupb sections &&
  forallb (fun s => String.eqb (lower s) s) (reserved ++ types ++ phases) &&
  negb (mem (kw_instructions kw) phases).

(** *** Cases of the differential correspondence run (D) *)
Inductive case :=
| CHelp (argv : list string) (obs : parse_result) (obs_exit : Z) (obs_nonempty obs_exception : bool)
| CAcceptCase (phase name : string) (obs_accepted : bool)
| CAcceptSuite (section name : string) (obs_accepted : bool)
| CLookup (pattern : string) (keys : list string) (obs : lookup_result)
| CEntity (type name : string) (obs_accepted : bool)
| CHref (h : string) (obs_count : nat)
| CTarget (x : cross_ref) (obs_anchor : string)
| CModeInstr (mode phase name : string) (obs_accepted : bool)
| CModeEntity (mode type name : string) (obs_accepted : bool)
| CModeSuite (mode section name : string) (obs_accepted : bool).

Definition request_eqb (x y : request) : bool :=
  match x, y with
  | RProgram, RProgram | RHelpHelp, RHelpHelp | RHtmlDoc, RHtmlDoc | RCaseCli, RCaseCli | RCaseSpec, RCaseSpec
  | RSuiteCli, RSuiteCli | RSuiteSpec, RSuiteSpec | RSymbol, RSymbol | RInstructionSet, RInstructionSet => true
  | REntityList a, REntityList b => String.eqb a b
  | REntity t n i, REntity t' n' i' => String.eqb t t' && String.eqb n n' && Bool.eqb i i'
  | RSuiteSection a, RSuiteSection b => String.eqb a b
  | RSuiteInstruction a, RSuiteInstruction b => String.eqb a b
  | RPhase a, RPhase b => String.eqb a b
  | RPhaseInstructionList a, RPhaseInstructionList b => String.eqb a b
  | RInstruction n i, RInstruction n' i' => String.eqb n n' && Bool.eqb i i'
  | RInstructionSearch n ps, RInstructionSearch n' ps' => String.eqb n n' && list_eqb String.eqb ps ps'
  | _, _ => false
  end.

Definition parse_result_eqb (x y : parse_result) : bool :=
  match x, y with
  | POk a, POk b => request_eqb a b
  | PHelpError, PHelpError => true
  | _, _ => false
  end.

Definition lookup_result_eqb (x y : lookup_result) : bool :=
  match x, y with
  | Found k e, Found k' e' => String.eqb k k' && Bool.eqb e e'
  | NoMatch, NoMatch => true
  | MultipleMatches l, MultipleMatches l' => list_eqb String.eqb l l'
  | _, _ => false
  end.

(** does the command line ask for something the help LISTS or the program ACCEPTS (decided on the observed lists, not
    on the model of the parser)?  Such a request must be displayed successfully. *)
Definition asks_for_listed (i : inventory) (argv : list string) : bool :=
  match argv with
  | [x] => existsb (fun p => String.eqb (pi_name p) x) (inv_phases i)
           || existsb (fun e => String.eqb (ei_type e) x) (inv_entities i)
  | [x; n] => existsb (fun p => String.eqb (pi_name p) x && (mem n (pi_help_struct p) || mem n (pi_accepted p)))
                      (inv_phases i)
              || existsb (fun e => String.eqb (ei_type e) x && (mem n (ei_help_struct e) || mem n (ei_accepted e)))
                         (inv_entities i)
              || (String.eqb x (kw_suite (inv_kw i)) && existsb (fun s => String.eqb (si_name s) n) (inv_suite_sections i))
  | [x; s; n] => String.eqb x (kw_suite (inv_kw i))
                 && existsb (fun si => String.eqb (si_name si) s && mem n (si_help_struct si)) (inv_suite_sections i)
  | _ => false
  end.

(** [check_case i c] = (correspondence: model = observed implementation,  property on the OBSERVED behaviour) *)
Definition check_case (i : inventory) (c : case) : bool * bool :=
  match c with
  | CHelp argv obs obs_exit obs_nonempty obs_exception =>
      let m := parse_help (inv_kw i) (app_of i) argv in
      (parse_result_eqb m obs && (obs_exception || Z.eqb (exit_of i m) obs_exit),
       (* a request for something the help lists is displayed successfully *)
       if asks_for_listed i argv
       then Z.eqb obs_exit 0 && obs_nonempty && negb obs_exception
       else true)
  | CAcceptCase phase name obs_accepted =>
      (match model_accepts_case i phase name with Some b => Bool.eqb b obs_accepted | None => false end,
       (* accepted by the running parser iff listed by the help of that phase *)
       match find_phase i phase with
       | Some p => Bool.eqb obs_accepted (mem name (pi_help_struct p)) &&
                   Bool.eqb obs_accepted (mem name (pi_help_rendered p)) &&        (* `exactly help PHASE instructions` *)
                   Bool.eqb obs_accepted (mem name (pi_help_rendered_all p))      (* `exactly help instructions` *)
       | None => false
       end)
  | CAcceptSuite section name obs_accepted =>
      (match model_accepts_suite i section name with Some b => Bool.eqb b obs_accepted | None => false end,
       match find_suite_section i section with
       | Some s => Bool.eqb obs_accepted (mem name (suite_documented i s))
       | None => false
       end)
  | CLookup pattern keys obs =>
      (lookup_result_eqb (lookup pattern keys) obs,
       (* a key is always found by its own name *)
       if mem pattern keys then match obs with Found _ true => true | _ => false end else true)
  | CEntity type name obs_accepted =>
      match find (fun e => String.eqb (ei_type e) type) (inv_entities i) with
      | Some e => (Bool.eqb obs_accepted (mem name (ei_accepted e)),      (* the run agrees with the inventory *)
                   Bool.eqb obs_accepted (mem name (ei_help_struct e)) &&   (* accepted iff listed by the help ... *)
                   Bool.eqb obs_accepted (mem name (ei_help_rendered e)))   (* ... and displayed by `exactly help TYPE` *)
      | None => (false, false)
      end
  | CHref h obs_count =>
      (Nat.eqb (countb h (inv_html_ids i)) obs_count && mem h (inv_html_hrefs i),
       Nat.eqb obs_count 1)
  | CTarget x obs_anchor =>
      (String.eqb (html_target x) obs_anchor, true)   (* ties HtmlTargetRenderer to its model; no property clause *)
  | CModeInstr mode phase name obs_accepted =>
      match find_phase i phase with
      | Some p =>
          match find (fun m => String.eqb (mo_mode m) mode) (pi_modes p) with
          | Some m => (Bool.eqb obs_accepted (mem name (mo_accepted m)) && mem name (mo_probed m),  (* run = inventory *)
                       Bool.eqb obs_accepted (mem name (pi_help_struct p)))   (* accepted in this way iff listed *)
          | None => (false, false)
          end
      | None => (false, false)
      end
  | CModeEntity mode type name obs_accepted =>
      match find (fun e => String.eqb (ei_type e) type) (inv_entities i) with
      | Some e =>
          match find (fun m => String.eqb (mo_mode m) mode) (ei_modes e) with
          | Some m => (Bool.eqb obs_accepted (mem name (mo_accepted m)) && mem name (mo_probed m),
                       Bool.eqb obs_accepted (mem name (ei_help_struct e)))
          | None => (false, false)
          end
      | None => (false, false)
      end
  | CModeSuite mode section name obs_accepted =>
      match find_suite_section i section with
      | Some s =>
          match find (fun m => String.eqb (mo_mode m) mode) (si_modes s) with
          | Some m => (Bool.eqb obs_accepted (mem name (mo_accepted m)) && mem name (mo_probed m),
                       Bool.eqb obs_accepted (mem name (suite_documented i s)))
          | None => (false, false)
          end
      | None => (false, false)
      end
  end.
