(** Specification side of C12: the documented meaning of a PATH argument (an independent, declarative
    reading of the reference manual: "PATH-STRING is relative to the directory specified by RELATIVITY /
    the default relativity root; -rel SYMBOL and a leading path symbol: relative to the symbol's path;
    -rel-cd of a symbol is the directory current when the symbol is REFERENCED; a file or directory to
    create or modify accepts only the act, tmp and current directories"), the case types of the
    correspondence check and the boolean predicates evaluated on the implementation's OBSERVED behaviour. *)
From Coq Require Import NArith List Bool String Ascii.
From Exactly Require Import Lib.Harness Model.Paths.
Import ListNotations.
Local Open Scope N_scope.

(** * The documented meaning *)

(** source-level definitions: what the test case says *)
Inductive sdef :=
| SDString (fs : list frag)     (* def string N = <fragments> *)
| SDPath (a : parg)             (* def path N = [RELATIVITY] PATH-STRING *)
| SDList                        (* def list N = ... *)
| SDOther.                      (* a definition of a type that is neither string, path nor list *)

(** A path denotes a root directory followed by components, or an absolute path. *)
Inductive meaning :=
| MRel (r : relopt) (sfx : list text)
| MAbs (p : ppath).

(** The components of a POSIX path string: empty components and "." are no-ops. *)
Definition components (s : text) : list text := filter keep_part (split_on SLASH s).

Definition extend (m : meaning) (cs : list text) : meaning :=
  match m with
  | MRel r sfx => MRel r (sfx ++ cs)
  | MAbs p => MAbs (PP (pp_root p) (pp_parts p ++ cs))
  end.

(** "Joined": the root's components followed by the suffix components - never anything else. *)
Definition denote (e : env) (m : meaning) : ppath :=
  match m with
  | MRel r sfx => PP (pp_root (root_of e r)) (pp_parts (root_of e r) ++ sfx)
  | MAbs p => p
  end.

Definition meaning_rel (m : meaning) : option relopt := match m with MRel r _ => Some r | MAbs _ => None end.

Inductive smeaning := SMStr (s : text) | SMPath (m : meaning) | SMNone.

Section SpecArg.
  Variable look : sym -> smeaning.

  (** substitution of string symbols; None if some symbol is not a string *)
  Fixpoint subst (fs : list frag) : option text :=
    match fs with
    | [] => Some []
    | FConst s :: fs' => option_map (app s) (subst fs')
    | FSym n :: fs' => match look n with
                       | SMStr s => option_map (app s) (subst fs')
                       | _ => None
                       end
    end.

  Definition starts_with_slash_frag (fs : list frag) : bool :=
    match fs with
    | [] => true
    | FConst k :: _ => str_abs k
    | FSym _ :: _ => false
    end.

  (** [dflt]: default relativity of the argument; [here]: directory of the source file (only for def) *)
  Definition spec_arg (dflt : relopt) (here : option text) (a : parg) : option meaning :=
    let fs := match pa_str a with Some t => st_frags t | None => [] end in
    match pa_rel a with
    | ROpt r => option_map (fun s => MRel r (components s)) (subst fs)
    | RSym n => match look n with
                | SMPath m => option_map (fun s => extend m (components s)) (subst fs)
                | _ => None
                end
    | RHere => match here with
               | Some h => option_map (fun s => extend (MAbs (parse_pp h)) (components s)) (subst fs)
               | None => None
               end
    | RUnknownOpt => None
    | RNone =>
        match fs with
        | FSym n :: rest =>
            match look n with
            | SMPath m => if starts_with_slash_frag rest
                          then option_map (fun s => extend m (components s)) (subst rest)
                          else None
            | _ => option_map (fun s => if str_abs s then MAbs (parse_pp s) else MRel dflt (components s)) (subst fs)
            end
        | _ => option_map (fun s => if str_abs s then MAbs (parse_pp s) else MRel dflt (components s)) (subst fs)
        end
    end.
End SpecArg.

(** meaning of a symbol; definitions newest first; a definition sees the older ones.  [def path] has
    default relativity -rel-cd and accepts -rel-here *)
Fixpoint spec_sym (here : text) (defs : list (sym * sdef)) (n : sym) : smeaning :=
  match defs with
  | [] => SMNone
  | (m, d) :: rest =>
      if N.eqb m n then
        match d with
        | SDString fs => match subst (spec_sym here rest) fs with Some s => SMStr s | None => SMNone end
        | SDPath a => match spec_arg (spec_sym here rest) RCwd (Some here) a with Some mm => SMPath mm | None => SMNone end
        | _ => SMNone
        end
      else spec_sym here rest n
  end.

(** the documented meaning of argument [a] (default relativity [dflt]) after the definitions [defs] (oldest first) *)
Definition spec_meaning (here : text) (defs : list (sym * sdef)) (dflt : relopt) (a : parg) : option meaning :=
  spec_arg (spec_sym here (rev defs)) dflt None a.

(** The relativities a file or directory to create or modify may have. *)
Definition creation_rel_ok (r : option relopt) : bool :=
  match r with
  | Some RAct | Some RTmp | Some RCwd => true
  | _ => false
  end.

(** A symbol that brings a path symbol of forbidden relativity (home, act-home, result, absolute) into an
    argument - as the path it is relative to, as a leading reference, or as a path component through any
    number of string symbols that concatenate several references: "a path symbol whose value is relative
    to a home directory or the result directory, or is absolute - however many symbol definitions it is
    routed through - is rejected before execution". *)
Definition frag_syms (fs : list frag) : list sym :=
  flat_map (fun f => match f with FSym k => [k] | FConst _ => [] end) fs.

Definition arg_syms (a : parg) : list sym :=
  (match pa_rel a with RSym k => [k] | _ => [] end) ++
  (match pa_str a with Some t => frag_syms (st_frags t) | None => [] end).

Fixpoint illegal_in_sym (here : text) (defs : list (sym * sdef)) (n : sym) : bool :=
  match defs with
  | [] => false
  | (m, d) :: rest =>
      if N.eqb m n then
        match d with
        | SDString fs => existsb (illegal_in_sym here rest) (frag_syms fs)
        | SDPath a =>
            (match spec_arg (spec_sym here rest) RCwd (Some here) a with
             | Some mm => negb (creation_rel_ok (meaning_rel mm))
             | None => false
             end) || existsb (illegal_in_sym here rest) (arg_syms a)
        | _ => false
        end
      else illegal_in_sym here rest n
  end.

(** [defs] oldest first *)
Definition illegal_in_arg (here : text) (defs : list (sym * sdef)) (a : parg) : bool :=
  existsb (illegal_in_sym here (rev defs)) (arg_syms a).

(** * Cases of the correspondence check *)
Inductive dkind := DKSyntax | DKReject | DKCrash.

(** what was observed for the argument *)
Inductive aobs :=
| ASyntaxError                      (* SingleInstructionInvalidArgumentException *)
| AParseCrash                       (* another exception while parsing *)
| AParsedOnly                       (* parsed; a definition had failed, so nothing more was done *)
| ARejected                         (* symbol validation: VALIDATION_ERROR *)
| AValidationCrash                  (* an exception in symbol validation *)
| AResolveCrash                     (* an exception in resolve / value_of_any_dependency *)
| AResolved (rel : option relopt) (sfx : text) (v1 v2 : text).
    (* relativity and path_suffix_str of the resolved value, and its absolute path with the first / second current directory *)

Record obs := Obs { o_defs : option (nat * dkind); o_arg : aobs }.

Record pcase := PCase {
  pc_here : text;
  pc_defs : list (sym * sdef);
  pc_conf : conf;                (* read from the live configuration object of the argument *)
  pc_creates : bool;             (* the argument names a file or directory to create or modify *)
  pc_arg : parg;
  pc_env1 : env;
  pc_env2 : env;
  pc_obs : obs }.

(** * The model's run of a case *)
Definition compile_def (here : text) (d : sdef) : option value :=
  match d with
  | SDString fs => Some (VString fs)
  | SDPath a => match parse_path (def_conf here) a with
                | PParsed s => Some (VPath s)
                | _ => None
                end
  | SDList => Some VList
  | SDOther => Some VOther
  end.

Fixpoint run_defs (here : text) (tbl : table) (i : nat) (defs : list (sym * sdef)) : option (nat * dkind) * table :=
  match defs with
  | [] => (None, tbl)
  | (n, d) :: rest =>
      match compile_def here d with
      | None => (Some (i, DKSyntax), tbl)
      | Some v =>
          match validate_def tbl n v with
          | (VAccept, tbl') => run_defs here tbl' (S i) rest
          | (VReject, _) => (Some (i, DKReject), tbl)
          | (VCrash, _) => (Some (i, DKCrash), tbl)
          end
      end
  end.

Definition run_arg (c : conf) (a : parg) (e1 e2 : env) (tbl : table) (defs_ok : bool) : aobs :=
  match parse_path c a with
  | PSyntaxError => ASyntaxError
  | PCrash => AParseCrash
  | PParsed s =>
      if defs_ok then
        match validate_refs tbl (sdv_refs s) with
        | VReject => ARejected
        | VCrash => AValidationCrash
        | VAccept =>
            match resolve tbl s with
            | Err _ => AResolveCrash
            | Ok d => AResolved (ddv_relativity d) (part_value (ddv_suffix d)) (pp_str (ddv_value e1 d)) (pp_str (ddv_value e2 d))
            end
        end
      else AParsedOnly
  end.

Definition model_run (c : pcase) : obs :=
  let (df, tbl) := run_defs (pc_here c) [] 0 (pc_defs c) in
  Obs df (run_arg (pc_conf c) (pc_arg c) (pc_env1 c) (pc_env2 c) tbl (match df with None => true | Some _ => false end)).

(** * Equality of observations *)
Definition orel_eqb (a b : option relopt) : bool := option_eqb relopt_eqb a b.
Definition dkind_eqb (a b : dkind) : bool :=
  match a, b with DKSyntax, DKSyntax | DKReject, DKReject | DKCrash, DKCrash => true | _, _ => false end.

Definition aobs_eqb (a b : aobs) : bool :=
  match a, b with
  | ASyntaxError, ASyntaxError | AParseCrash, AParseCrash | AParsedOnly, AParsedOnly | ARejected, ARejected
  | AValidationCrash, AValidationCrash | AResolveCrash, AResolveCrash => true
  | AResolved r s v1 v2, AResolved r' s' v1' v2' => orel_eqb r r' && text_eqb s s' && text_eqb v1 v1' && text_eqb v2 v2'
  | _, _ => false
  end.

Definition obs_eqb (a b : obs) : bool :=
  option_eqb (fun x y => Nat.eqb (fst x) (fst y) && dkind_eqb (snd x) (snd y)) (o_defs a) (o_defs b) &&
  aobs_eqb (o_arg a) (o_arg b).

(** * The property on the OBSERVED behaviour *)

(** (S1) a relativity option outside the accepted set of the argument is a syntax error; for an argument that
    creates or modifies, the accepted set is {act, tmp, cd} whatever the configuration object says *)
Definition P_option (c : pcase) : bool :=
  match pa_rel (pc_arg c) with
  | ROpt r =>
      let acc := if pc_creates c then v_rels creation_variants else v_rels (c_acc (pc_conf c)) in
      if rel_in r acc then true
      else match o_arg (pc_obs c) with ASyntaxError => true | _ => false end
  | _ => true
  end.

(** (S2) a file or directory to create or modify: whatever is accepted has relativity act, tmp or cd -
    judged both by the relativity the implementation reports and by the documented meaning of the
    argument through every symbol definition *)
Definition P_creation (c : pcase) : bool :=
  if pc_creates c then
    match o_arg (pc_obs c) with
    | AResolved rel _ _ _ =>
        creation_rel_ok rel &&
        match spec_meaning (pc_here c) (pc_defs c) (c_default (pc_conf c)) (pc_arg c) with
        | Some m => creation_rel_ok (meaning_rel m)
        | None => true
        end &&
        negb (illegal_in_arg (pc_here c) (pc_defs c) (pc_arg c))
    | AValidationCrash | AResolveCrash =>
        (* a forbidden path symbol must be REJECTED (syntax error / VALIDATION_ERROR), not fail later *)
        negb (illegal_in_arg (pc_here c) (pc_defs c) (pc_arg c))
    | _ => true
    end
  else true.

(** (S3) what is resolved is the documented root joined with the suffix, for both current directories
    (so -rel-cd follows the directory current at the time of use) *)
Definition P_resolves (c : pcase) : bool :=
  match o_arg (pc_obs c) with
  | AResolved rel _ v1 v2 =>
      match spec_meaning (pc_here c) (pc_defs c) (c_default (pc_conf c)) (pc_arg c) with
      | Some m =>
          text_eqb v1 (pp_str (denote (pc_env1 c) m)) && text_eqb v2 (pp_str (denote (pc_env2 c) m))
      | None => true
      end
  | _ => true
  end.

Definition P_C12 (c : pcase) : bool := P_option c && P_creation c && P_resolves c.

Definition check_case (c : pcase) : bool * bool :=
  (obs_eqb (model_run c) (pc_obs c), P_C12 c).

(** how a tabulated creating instruction reaches a path symbol *)
Inductive via := ViaRelSym | ViaLeadRef.

(** * Checks of the tables regenerated from the running code (coq/Gen/C12_tables.v) *)
Definition variants_eqb (a b : variants) : bool :=
  Bool.eqb (v_abs a) (v_abs b) &&
  forallb (fun r => Bool.eqb (rel_in r (v_rels a)) (rel_in r (v_rels b))) all_relopts.

Definition conf_eqb (a b : conf) : bool :=
  variants_eqb (c_acc a) (c_acc b) && relopt_eqb (c_default a) (c_default b) &&
  Bool.eqb (c_suffix_required a) (c_suffix_required b) && option_eqb text_eqb (c_here a) (c_here b).

(** every configuration of an argument that creates or modifies is the creation configuration *)
Definition creating_confs_ok (t : list (text * bool * conf)) : bool :=
  forallb (fun e : text * bool * conf => match e with
                    | (_, creates, cf) => if creates then conf_eqb cf (creation_conf (c_suffix_required cf)) else true
                    end) t.

Definition has_conf (t : list (text * bool * conf)) (label : text) (creates : bool) : bool :=
  existsb (fun e : text * bool * conf => match e with (l, c, _) => text_eqb l label && Bool.eqb c creates end) t.

Definition conf_of_label (t : list (text * bool * conf)) (label : text) : option conf :=
  match find (fun e : text * bool * conf => match e with (l, _, _) => text_eqb l label end) t with
  | Some (_, _, cf) => Some cf
  | None => None
  end.

Definition root_row_ok (e : env) (row : relopt * (text * text * (relopt * bool))) : bool :=
  match row with
  | (r, (name, root, (rt, pre))) =>
      text_eqb (opt_name r) name && option_eqb relopt_eqb (option_of_name name) (Some r) &&
      text_eqb (pp_str (root_of e r)) root && relopt_eqb rt r && Bool.eqb pre (rel_is_hds r)
  end.

Definition behaviour_row_ok (row : text * (list (relopt * bool) * list ((via * nat * option relopt) * bool))) : bool :=
  match row with
  | (_, (opts, syms)) =>
      forallb (fun e => Bool.eqb (snd e) (rel_in (fst e) (v_rels creation_variants))) opts &&
      forallb (fun r => existsb (fun e => relopt_eqb (fst e) r) opts) all_relopts &&
      forallb (fun e : via * nat * option relopt * bool => match e with ((_, _, rel), ok) => Bool.eqb ok (creation_rel_ok rel) end) syms &&
      forallb (fun rel => forallb (fun v => forallb (fun d =>
          existsb (fun e : via * nat * option relopt * bool => match e with ((v', d', rel'), _) =>
                              (match v, v' with ViaRelSym, ViaRelSym | ViaLeadRef, ViaLeadRef => true | _, _ => false end)
                              && Nat.eqb d d' && orel_eqb rel rel' end) syms) [1; 2; 3]%nat) [ViaRelSym; ViaLeadRef])
        (None :: map Some all_relopts)
  end.

(** the rows the tables must contain (written here by hand: completeness of the regenerated tables) *)
Definition text_of_string (s : String.string) : text :=
  map (fun a => Ascii.N_of_ascii a) (String.list_ascii_of_string s).

Definition label_file_dst : text := text_of_string "file:destination"%string.
Definition label_dir_dst : text := text_of_string "dir:destination"%string.
Definition label_copy_dst : text := text_of_string "copy:destination"%string.
Definition label_def_path : text := text_of_string "def:path"%string.
Definition probe_here : text := text_of_string "/SRC/suite/dir"%string.

Definition creation_labels : list text :=
  flat_map (fun ph => map (fun l => text_of_string ph ++ [58] ++ l) [label_file_dst; label_dir_dst; label_copy_dst])
           ["setup"; "before-assert"; "assert"; "cleanup"]%string.

(** * Instruction level: the argument inside a complete instruction line, parsed by the instruction parser
    of a phase and validated (nothing is resolved) *)
Inductive iobs := ISyntaxError | IParseCrash | IParsedOnly | IRejected | IValidationCrash | IAccepted.

Record icase := ICase {
  ic_here : text;
  ic_defs : list (sym * sdef);
  ic_conf : conf;                  (* live configuration object of the argument role *)
  ic_creates : bool;
  ic_arg : parg;
  ic_obs_defs : option (nat * dkind);
  ic_obs : iobs }.

Definition iobs_eqb (a b : iobs) : bool :=
  match a, b with
  | ISyntaxError, ISyntaxError | IParseCrash, IParseCrash | IParsedOnly, IParsedOnly | IRejected, IRejected
  | IValidationCrash, IValidationCrash | IAccepted, IAccepted => true
  | _, _ => false
  end.

Definition model_irun (c : icase) : option (nat * dkind) * iobs :=
  let (df, tbl) := run_defs (ic_here c) [] 0 (ic_defs c) in
  (df,
   match parse_path (ic_conf c) (ic_arg c) with
   | PSyntaxError => ISyntaxError
   | PCrash => IParseCrash
   | PParsed s =>
       match df with
       | Some _ => IParsedOnly
       | None => match validate_refs tbl (sdv_refs s) with
                 | VAccept => IAccepted
                 | VReject => IRejected
                 | VCrash => IValidationCrash
                 end
       end
   end).

Definition P_icase (c : icase) : bool :=
  (match pa_rel (ic_arg c) with
   | ROpt r =>
       let acc := if ic_creates c then v_rels creation_variants else v_rels (c_acc (ic_conf c)) in
       if rel_in r acc then true else match ic_obs c with ISyntaxError => true | _ => false end
   | _ => true
   end) &&
  (if ic_creates c then
     match ic_obs c with
     | IAccepted => match spec_meaning (ic_here c) (ic_defs c) (c_default (ic_conf c)) (ic_arg c) with
                    | Some m => creation_rel_ok (meaning_rel m)
                    | None => true
                    end && negb (illegal_in_arg (ic_here c) (ic_defs c) (ic_arg c))
     | IValidationCrash => negb (illegal_in_arg (ic_here c) (ic_defs c) (ic_arg c))
     | _ => true
     end
   else true).

Definition check_icase (c : icase) : bool * bool :=
  (let m := model_irun c in
   option_eqb (fun x y => Nat.eqb (fst x) (fst y) && dkind_eqb (snd x) (snd y)) (fst m) (ic_obs_defs c) && iobs_eqb (snd m) (ic_obs c),
   P_icase c).

(** * Program level: a complete test case run by the main program *)
Inductive everdict := EPass | ESyntax | EValidation | EHard | EOther.
Inductive ekind := EKCreate | EKRead.

(** lexical normalisation (the file system has no symbolic links in these cases): "x/.." cancels *)
Fixpoint norm_parts (stack : list text) (ps : list text) : list text :=
  match ps with
  | [] => rev stack
  | p :: ps' =>
      if text_eqb p [DOT; DOT] then norm_parts (match stack with [] => [] | _ :: s => s end) ps'
      else norm_parts (p :: stack) ps'
  end.
Definition normalize (p : ppath) : ppath := PP (pp_root p) (norm_parts [] (pp_parts p)).

Record ecase := ECase {
  ec_kind : ekind;
  ec_here : text;
  ec_defs : list (sym * sdef);
  ec_conf : conf;                      (* live configuration of the argument role *)
  ec_arg : parg;
  ec_env : env;                        (* the directories of the run; the directory current when the instruction runs *)
  ec_files : list (text * N);          (* EKRead: normalised absolute path of every readable source file -> its tag *)
  (* observed *)
  ec_verdict : everdict;
  ec_created : list text;              (* EKCreate: every path under the scratch root whose last component is the marker *)
  ec_read : option N;                  (* EKRead: tag of the contents that were read *)
  ec_home_changed : bool }.            (* snapshot of both home directories differs *)

Definition everdict_eqb (a b : everdict) : bool :=
  match a, b with
  | EPass, EPass | ESyntax, ESyntax | EValidation, EValidation | EHard, EHard | EOther, EOther => true
  | _, _ => false
  end.

Definition lookup_file (fs : list (text * N)) (p : text) : option N :=
  match find (fun e => text_eqb (fst e) p) fs with Some (_, t) => Some t | None => None end.

(** all definitions and the argument are parsed first (syntax), then symbols are validated in order *)
Fixpoint compile_defs (here : text) (defs : list (sym * sdef)) : option (list (sym * value)) :=
  match defs with
  | [] => Some []
  | (n, d) :: rest =>
      match compile_def here d, compile_defs here rest with
      | Some v, Some l => Some ((n, v) :: l)
      | _, _ => None
      end
  end.

(** expected (verdict, created paths, tag read) - [None] in the last component: not determined by this model
    (the source file does not exist: some error is reported) *)
Definition model_erun (c : ecase) : everdict * list text * option N * bool :=
  match compile_defs (ec_here c) (ec_defs c), parse_path (ec_conf c) (ec_arg c) with
  | None, _ => (ESyntax, [], None, true)
  | _, PSyntaxError => (ESyntax, [], None, true)
  | _, PCrash => (EOther, [], None, true)
  | Some vals, PParsed s =>
      match validate_defs [] vals with
      | (VReject, _) => (EValidation, [], None, true)
      | (VCrash, _) => (EOther, [], None, true)
      | (VAccept, tbl) =>
          match validate_refs tbl (sdv_refs s) with
          | VReject => (EValidation, [], None, true)
          | VCrash => (EOther, [], None, true)
          | VAccept =>
              match resolve tbl s with
              | Err _ => (EOther, [], None, true)
              | Ok d =>
                  let p := pp_str (normalize (ddv_value (ec_env c) d)) in
                  match ec_kind c with
                  | EKCreate => (EPass, [p], None, true)
                  | EKRead => match lookup_file (ec_files c) p with
                              | Some t => (EPass, [], Some t, true)
                              | None => (EOther, [], None, false)      (* a missing source: verdict not modelled *)
                              end
                  end
              end
          end
      end
  end.

Definition is_prefix_parts (a b : list text) : bool :=
  (fix go (x y : list text) := match x, y with
                               | [], _ => true
                               | p :: x', q :: y' => text_eqb p q && go x' y'
                               | _ :: _, [] => false
                               end) a b.

Definition P_ecase (c : ecase) : bool :=
  let m := spec_meaning (ec_here c) (ec_defs c) (c_default (ec_conf c)) (ec_arg c) in
  (* the home directories are left unchanged *)
  negb (ec_home_changed c) &&
  match ec_kind c with
  | EKCreate =>
      (match pa_rel (ec_arg c) with
       | ROpt r => if rel_in r (v_rels creation_variants) then true else everdict_eqb (ec_verdict c) ESyntax
       | _ => true
       end) &&
      (if illegal_in_arg (ec_here c) (ec_defs c) (ec_arg c)
       then (match ec_verdict c with ESyntax | EValidation => true | _ => false end) &&
            match ec_created c with [] => true | _ => false end
       else true) &&
      match m with
      | Some mm =>
          if creation_rel_ok (meaning_rel mm) then
            (* what was created is the root joined with the suffix *)
            match ec_verdict c with
            | EPass => list_eqb text_eqb (ec_created c) [pp_str (normalize (denote (ec_env c) mm))]
            | _ => true
            end
          else
            (* rejected before execution (syntax error or VALIDATION_ERROR): nothing was created *)
            (match ec_verdict c with ESyntax | EValidation => true | _ => false end) &&
            match ec_created c with [] => true | _ => false end
      | None => true
      end
  | EKRead =>
      match m, ec_verdict c with
      | Some mm, EPass => option_eqb N.eqb (ec_read c) (lookup_file (ec_files c) (pp_str (normalize (denote (ec_env c) mm))))
      | _, _ => true
      end
  end.

Definition check_ecase (c : ecase) : bool * bool :=
  (match model_erun c with
   | (v, created, rd, determined) =>
       if determined then
         everdict_eqb v (ec_verdict c) && list_eqb text_eqb created (ec_created c) && option_eqb N.eqb rd (ec_read c)
       else negb (everdict_eqb (ec_verdict c) EPass)
   end,
   P_ecase c).

(** * Notions used in the theorem statements (Props/C12.v) *)

(** no PATH-STRING that went into the value is absolute - the guard of the known finding KF-C12-1 *)
Fixpoint ddv_parts_rel (d : ddv) : bool :=
  match d with
  | DRel _ p => negb (str_abs (part_value p))
  | DAbs _ => true
  | DStacked b p => ddv_parts_rel b && negb (str_abs (part_value p))
  end.

(** the components of all the PATH-STRINGs that went into the value, in order *)
Fixpoint suffix_parts (d : ddv) : list text :=
  match d with
  | DRel _ p => components (part_value p)
  | DAbs p => components (part_value p)
  | DStacked b p => suffix_parts b ++ components (part_value p)
  end.

(** root directory joined with components *)
Definition under (root : ppath) (cs : list text) : ppath := PP (pp_root root) (pp_parts root ++ cs).

(** the PATH-STRING of the argument itself, after substitution of string symbols *)
Definition own_string (tbl : table) (a : parg) : option text :=
  match pa_str a with
  | Some t => match concat_frags (rvalue_of_sym tbl) (st_frags t) with Ok s => Some s | Err _ => None end
  | None => None
  end.
Definition own_string_abs (tbl : table) (a : parg) : bool :=
  match own_string tbl a with Some s => str_abs s | None => false end.

(** a symbol table as symbol validation builds it: every definition was validated against the older ones *)
Fixpoint wf (tbl : table) : Prop :=
  match tbl with
  | [] => True
  | (n, v) :: rest => wf rest /\ contains rest n = false /\ validate_refs rest (value_refs v) = VAccept
  end.

(** [n] is a path symbol whose definition leads, through any number of definitions by -rel SYMBOL or a
    leading symbol reference, to a definition with relativity [r] ([None]: absolute) *)
Inductive Chain : table -> sym -> option relopt -> Prop :=
| chain_const : forall tbl n d rest, lookup tbl n = Some (VPath (SConst d), rest) -> Chain tbl n (ddv_relativity d)
| chain_opt : forall tbl n r p rest, lookup tbl n = Some (VPath (SRelOpt r p), rest) -> Chain tbl n (Some r)
| chain_here : forall tbl n root p rest, lookup tbl n = Some (VPath (SRelHere root p), rest) -> Chain tbl n None
| chain_rel_sym : forall tbl n m acc p rest r,
    lookup tbl n = Some (VPath (SRelSym m acc p), rest) -> Chain rest m r -> Chain tbl n r
| chain_ref : forall tbl n m acc p dflt rest r,
    lookup tbl n = Some (VPath (SRef m acc p dflt), rest) -> Chain rest m r -> Chain tbl n r.

(** the path symbols an argument goes through *)
Definition path_symbol_of (s : sdv) : option sym :=
  match s with
  | SRelSym n _ _ => Some n
  | SRef n _ _ _ => Some n
  | _ => None
  end.

(** the guard on an argument: a relativity given explicitly comes with a PATH-STRING that is not absolute
    ("If PATH-STRING is an absolute path, then RELATIVITY must not be given"); -rel-here is left out *)
Definition explicit_ok (tbl : table) (a : parg) : bool :=
  match pa_rel a with
  | RNone => true
  | RHere => false
  | _ => negb (own_string_abs tbl a)
  end.


(** the guard on every path definition, in the table it is defined in *)
Fixpoint defs_explicit_ok (here : text) (tbl : table) (defs : list (sym * sdef)) : bool :=
  match defs with
  | [] => true
  | (n, d) :: rest =>
      (match d with SDPath a => explicit_ok tbl a | _ => true end) &&
      match compile_def here d with
      | Some v => defs_explicit_ok here ((n, v) :: tbl) rest
      | None => true
      end
  end.


(** * Instructions with TWO path arguments (copy SRC DST; file DST = -contents-of SRC), possibly sharing symbols *)
Record i2case := I2Case {
  i2_here : text;
  i2_defs : list (sym * sdef);
  i2_src_conf : conf;
  i2_src : parg;
  i2_dst_conf : conf;              (* live configuration of the destination *)
  i2_dst : parg;
  i2_dst_first : bool;             (* the instruction reports the destination's references first *)
  i2_obs_defs : option (nat * dkind);
  i2_obs : iobs }.

Definition two_refs (dst_first : bool) (ssrc sdst : sdv) : list (sym * restr) :=
  if dst_first then sdv_refs sdst ++ sdv_refs ssrc else sdv_refs ssrc ++ sdv_refs sdst.

Definition model_i2run (c : i2case) : option (nat * dkind) * iobs :=
  let (df, tbl) := run_defs (i2_here c) [] 0 (i2_defs c) in
  (df,
   match parse_path (i2_src_conf c) (i2_src c), parse_path (i2_dst_conf c) (i2_dst c) with
   | PParsed ssrc, PParsed sdst =>
       match df with
       | Some _ => IParsedOnly
       | None => match validate_refs tbl (two_refs (i2_dst_first c) ssrc sdst) with
                 | VAccept => IAccepted
                 | VReject => IRejected
                 | VCrash => IValidationCrash
                 end
       end
   | PSyntaxError, _ | _, PSyntaxError => ISyntaxError
   | _, _ => IParseCrash
   end).

Definition option_clause (creates : bool) (cf : conf) (a : parg) (is_syntax_error : bool) : bool :=
  match pa_rel a with
  | ROpt r =>
      let acc := if creates then v_rels creation_variants else v_rels (c_acc cf) in
      if rel_in r acc then true else is_syntax_error
  | _ => true
  end.

(** a destination whose documented relativity is not act, tmp or cd must not be accepted - whatever else
    the instruction refers to *)
Definition P_i2case (c : i2case) : bool :=
  let syn := match i2_obs c with ISyntaxError => true | _ => false end in
  option_clause true (i2_dst_conf c) (i2_dst c) syn &&
  option_clause false (i2_src_conf c) (i2_src c) syn &&
  match i2_obs c with
  | IAccepted => match spec_meaning (i2_here c) (i2_defs c) (c_default (i2_dst_conf c)) (i2_dst c) with
                 | Some m => creation_rel_ok (meaning_rel m)
                 | None => true
                 end && negb (illegal_in_arg (i2_here c) (i2_defs c) (i2_dst c))
  | IValidationCrash => negb (illegal_in_arg (i2_here c) (i2_defs c) (i2_dst c))
  | _ => true
  end.

Definition check_i2case (c : i2case) : bool * bool :=
  (let m := model_i2run c in
   option_eqb (fun x y => Nat.eqb (fst x) (fst y) && dkind_eqb (snd x) (snd y)) (fst m) (i2_obs_defs c) && iobs_eqb (snd m) (i2_obs c),
   P_i2case c).

(** program level: the created file carries the contents of the source that was read *)
Record e2case := E2Case {
  e2_here : text;
  e2_defs : list (sym * sdef);
  e2_src_conf : conf;
  e2_src : parg;
  e2_dst_conf : conf;
  e2_dst : parg;
  e2_dst_first : bool;
  e2_env : env;
  e2_files : list (text * N);
  (* observed *)
  e2_verdict : everdict;
  e2_created : list text;
  e2_read : option N;
  e2_home_changed : bool }.

Definition model_e2run (c : e2case) : everdict * list text * option N * bool :=
  match compile_defs (e2_here c) (e2_defs c), parse_path (e2_src_conf c) (e2_src c), parse_path (e2_dst_conf c) (e2_dst c) with
  | None, _, _ => (ESyntax, [], None, true)
  | _, PSyntaxError, _ => (ESyntax, [], None, true)
  | _, _, PSyntaxError => (ESyntax, [], None, true)
  | Some vals, PParsed ssrc, PParsed sdst =>
      match validate_defs [] vals with
      | (VReject, _) => (EValidation, [], None, true)
      | (VCrash, _) => (EOther, [], None, true)
      | (VAccept, tbl) =>
          match validate_refs tbl (two_refs (e2_dst_first c) ssrc sdst) with
          | VReject => (EValidation, [], None, true)
          | VCrash => (EOther, [], None, true)
          | VAccept =>
              match resolve tbl ssrc, resolve tbl sdst with
              | Ok ds, Ok dd =>
                  match lookup_file (e2_files c) (pp_str (normalize (ddv_value (e2_env c) ds))) with
                  | Some t => (EPass, [pp_str (normalize (ddv_value (e2_env c) dd))], Some t, true)
                  | None => (EOther, [], None, false)
                  end
              | _, _ => (EOther, [], None, true)
              end
          end
      end
  | _, _, _ => (EOther, [], None, true)
  end.

Definition rejected_before_execution (v : everdict) : bool :=
  match v with ESyntax | EValidation => true | _ => false end.

Definition P_e2case (c : e2case) : bool :=
  let md := spec_meaning (e2_here c) (e2_defs c) (c_default (e2_dst_conf c)) (e2_dst c) in
  let ms := spec_meaning (e2_here c) (e2_defs c) (c_default (e2_src_conf c)) (e2_src c) in
  negb (e2_home_changed c) &&
  option_clause true (e2_dst_conf c) (e2_dst c) (everdict_eqb (e2_verdict c) ESyntax) &&
  option_clause false (e2_src_conf c) (e2_src c) (everdict_eqb (e2_verdict c) ESyntax) &&
  (if illegal_in_arg (e2_here c) (e2_defs c) (e2_dst c)
   then rejected_before_execution (e2_verdict c) && match e2_created c with [] => true | _ => false end
   else true) &&
  match md with
  | Some mm =>
      if creation_rel_ok (meaning_rel mm) then
        match e2_verdict c with
        | EPass => list_eqb text_eqb (e2_created c) [pp_str (normalize (denote (e2_env c) mm))] &&
                   match ms with
                   | Some m2 => option_eqb N.eqb (e2_read c) (lookup_file (e2_files c) (pp_str (normalize (denote (e2_env c) m2))))
                   | None => true
                   end
        | _ => true
        end
      else
        (* rejected before execution (syntax error or VALIDATION_ERROR); nothing was created *)
        rejected_before_execution (e2_verdict c) && match e2_created c with [] => true | _ => false end
  | None => true
  end.

Definition check_e2case (c : e2case) : bool * bool :=
  (match model_e2run c with
   | (v, created, rd, determined) =>
       if determined then
         everdict_eqb v (e2_verdict c) && list_eqb text_eqb created (e2_created c) && option_eqb N.eqb rd (e2_read c)
       else negb (everdict_eqb (e2_verdict c) EPass)
   end,
   P_e2case c).

(** * A case run as a MEMBER of a suite: the instruction (and the newer definitions) come from the suite
    file, which is parsed once and shared by all cases; the older definitions come from the case.  The
    judgement of the destination is the one of the case run alone.  Sandboxes of a suite run are not kept:
    [ec_created] lists what is visible afterwards (so: created OUTSIDE every sandbox), [ec_home_changed] is
    the snapshot of the home directory of the whole suite.  Generated members have no ".." and no absolute
    strings, so nothing may be visible. *)
Definition P_member (c : ecase) : bool :=
  let m := spec_meaning (ec_here c) (ec_defs c) (c_default (ec_conf c)) (ec_arg c) in
  negb (ec_home_changed c) &&
  option_clause true (ec_conf c) (ec_arg c) (everdict_eqb (ec_verdict c) ESyntax) &&
  (match ec_created c with [] => true | _ => false end) &&
  (if illegal_in_arg (ec_here c) (ec_defs c) (ec_arg c) then rejected_before_execution (ec_verdict c) else true) &&
  match m with
  | Some mm => if creation_rel_ok (meaning_rel mm) then true else rejected_before_execution (ec_verdict c)
  | None => true
  end.

Definition check_mcase (c : ecase) : bool * bool :=
  (match model_erun c with
   | (v, _, _, determined) => if determined then everdict_eqb v (ec_verdict c) else negb (everdict_eqb (ec_verdict c) EPass)
   end,
   P_member c).
