(** * Specification side of C18 and the predicates the correspondence check evaluates.

    Property statement (fixed): whatever text a test case contains, Exactly terminates with one of
    its documented outcomes and without an uncaught exception; errors that stem only from the text
    are reported as SYNTAX_ERROR or VALIDATION_ERROR (exit 65) with the offending source lines, or
    at the latest as HARD_ERROR when the instruction runs, and never as INTERNAL_ERROR. *)
From Coq Require Import ZArith NArith List Bool String.
From Exactly Require Import Lib.Harness Model.Outcome Model.Errors.
Import ListNotations.

(** ** The documented outcomes: (exit code, identifier) pairs of the outcome table (C02). *)
Definition all_proc_results : list proc_result :=
  map (fun s => Executed s false None) all_full_status ++ map AccessErr all_access_error ++ [InternalErr].

(** identifiers are observed as the printed line *)
Definition outcome_eqb (x : Z) (name : string) (ev : Z * ident) : bool :=
  Z.eqb x (fst ev) && String.eqb name (ident_name (snd ev)).

Definition documented (x : Z) (name : string) : bool :=
  existsb (fun r => outcome_eqb x name (exit_value r)) all_proc_results.

Definition ident_is_internal (name : string) : bool := String.eqb name "INTERNAL_ERROR".

(** ** What is observed of one run of the program on a test case file. *)
Record fobs := FObs {
  fo_exit : option Z;          (* exit code returned by MainProgram.execute; None: it did not return *)
  fo_ident : option string;    (* the outcome identifier printed as first line of stdout *)
  fo_uncaught : bool;          (* an exception escaped MainProgram.execute *)
  fo_timeout : bool;           (* the run was cut off by the harness' time limit *)
  fo_source_shown : bool       (* stderr shows at least one line of the test case *)
}.

(** The property, on an observation of a run whose environment is benign (every error stems from
    the text): a documented outcome, no escaping exception, termination, not INTERNAL_ERROR, and
    an exit-65 outcome (SYNTAX_ERROR, VALIDATION_ERROR, FILE_ACCESS_ERROR) shows source lines. *)
Definition P_C18 (o : fobs) : bool :=
  negb (fo_uncaught o) && negb (fo_timeout o) &&
  match fo_exit o, fo_ident o with
  | Some x, Some i =>
      documented x i && negb (ident_is_internal i) &&
      (if Z.eqb x 65 then fo_source_shown o else true)
  | _, _ => false
  end.

(** ** Fuzz case: what the real document parser did with the text, and the run. *)
Record fcase := FCase {
  fc_parse : option pyexc;     (* class of the exception the document parser raised, None: it returned a document *)
  fc_obs : fobs }.

Definition obs_of_pres (r : pres) : Z * ident := pres_exit r.

(** Correspondence: the routing model applied to what the parser did predicts the run's outcome:
    a parser exception is routed through [_Parser.apply], the accessor and the processor; a parsed
    document gives an executed result (whose status the model does not predict) - or, where the
    implementation violates the property, the model of the escaping exception is the same. *)
Definition check_fcase (c : fcase) : bool * bool :=
  let o := fc_obs c in
  ( match fc_parse c with
    | Some cls =>
        match route TPass SDocParser (Exc cls PNone), fo_exit o, fo_ident o with
        | Ret r, Some x, Some i => outcome_eqb x i (obs_of_pres r) && negb (fo_uncaught o)
        | Raise _, None, None => fo_uncaught o
        | _, _, _ => false
        end
    | None =>
        match fo_exit o, fo_ident o with
        | Some x, Some i => existsb (fun s => outcome_eqb x i (exit_value (Executed s false None))) all_full_status
                            && negb (fo_uncaught o)
        | None, None => fo_uncaught o || fo_timeout o
        | None, Some _ => fo_uncaught o     (* the exception escaped after the identifier was printed *)
        | _, _ => false
        end
    end,
    P_C18 o ).

(** ** Integer-expression case *)
Inductive iobs :=
| OValue (z : Z)
| ONotInt
| OEscapes (c : pyexc).

Definition iobs_eqb (m : icls) (o : iobs) : bool :=
  match m, o with
  | CValue a, OValue b => Z.eqb a b
  | CNotInt, ONotInt => true
  | CEscapes a, OEscapes b => pyexc_eqb a b
  | _, _ => false
  end.

(** [exit-code == E] with the null action to check (exit code 0) *)
Definition exit_code_eq_model (e : iexpr) : res pres :=
  match python_evaluate true e with
  | CValue z => Ret (RExecuted (if Z.eqb z 0 then PASS else FAIL))
  | CNotInt => Ret (RExecuted VALIDATION_ERROR)
  | CEscapes c => route TPass SInstrStep (Exc c PNone)
  | CUnmodelled => Ret RInternal
  end.

Record icase := ICase {
  ic_e : iexpr;
  ic_direct : iobs;                  (* the real python_evaluate on the rendered text *)
  ic_run : option (Z * string) }.     (* the real program on [assert] exit-code == TEXT (when run) *)

Definition check_icase (c : icase) : bool * bool :=
  ( iobs_eqb (python_evaluate true (ic_e c)) (ic_direct c) &&
    match ic_run c, exit_code_eq_model (ic_e c) with
    | None, _ => true
    | Some (x, i), Ret r => outcome_eqb x i (pres_exit r)
    | Some _, Raise _ => false
    end,
    match ic_direct c with OEscapes _ => false | _ => true end &&
    match ic_run c with
    | None => true
    | Some (x, i) => documented x i && negb (ident_is_internal i)
    end ).

(** ** Replacement-template case *)
Definition tres_eqb (a b : tres) : bool :=
  match a, b with
  | TOk, TOk | TReError, TReError | TIndexError, TIndexError | TOracleMiss, TOracleMiss => true
  | _, _ => false
  end.

Definition sres_eqb (a b : sres) : bool :=
  match a, b with
  | SOk, SOk | SUnknown, SUnknown => true
  | SFail x, SFail y => fail_status_eqb x y
  | SUncaught x, SUncaught y => pyexc_eqb x y
  | _, _ => false
  end.

Record tcase := TCase {
  tc_ngroups : N;
  tc_names : list ttext;
  tc_ident : list (ttext * bool);
  tc_tmpl : ttext;
  tc_re : tres;           (* what the real template parser did (through Pattern.sub) *)
  tc_step : sres }.       (* what the real [replace] transformer did on a one-line text, seen through execute_element's eyes *)

Definition check_tcase (c : tcase) : bool * bool :=
  ( tres_eqb (parse_template (tc_ngroups c) (tc_names c) (tc_ident c) (tc_tmpl c)) (tc_re c) &&
    sres_eqb (replace_step true (tc_ngroups c) (tc_names c) (tc_ident c) (tc_tmpl c)) (tc_step c),
    match tc_step c with
    | SOk | SFail FHard => true
    | _ => false
    end ).

(** ** Tables tied to the source *)
Fixpoint str_assoc {B} (k : string) (l : list (string * B)) : option B :=
  match l with
  | [] => None
  | (k', v) :: l' => if String.eqb k k' then Some v else str_assoc k l'
  end.

(** Two [try] statements are compared by WHAT THEY CATCH (for every modelled class: does some
    clause name a base class of it?), so that merging, splitting or reordering clauses - a harmless
    rewrite as far as catching goes - changes nothing; what a clause DOES with what it catches is
    tied by the behavioural tables below. *)
Definition try_catches (t : list (list pyexc)) (c : pyexc) : bool :=
  existsb (fun cs => existsb (subclass c) cs) t.
Definition try_same (a b : list (list pyexc)) : bool :=
  forallb (fun c => Bool.eqb (try_catches a c) (try_catches b c)) all_pyexc.
Definition tries_eqb (a b : list (list (list pyexc))) : bool := list_eqb try_same a b.

(** The [try] statements of each anchored function as the model has them (source order). *)
Definition model_chains : list (string * list (list (list pyexc))) :=
  [ ("extract_name", [classes_of chain_extract_name]);
    ("instr_parse", [classes_of chain_instr_parse]);
    ("seq_parsers", [classes_of chain_seq_parsers]);
    ("doc_parser", [classes_of chain_doc_parser]);
    ("parser_apply", [classes_of chain_parser_apply]);
    ("source_reader", [classes_of chain_source_reader]);
    ("accessor_apply", [classes_of (chain_accessor_apply ACC_SYNTAX_ERROR)]);
    ("processor", [classes_of chain_processor_outer; classes_of chain_processor_inner]);
    ("execute_element", [classes_of chain_execute_element]);
    ("action", [classes_of chain_action]);
    ("act_parse", [classes_of chain_act_parse]);
    ("executor", [classes_of chain_executor; classes_of chain_executor; classes_of chain_executor]);
    ("executor_before_assert", [classes_of chain_executor; classes_of chain_executor; classes_of chain_executor]);
    ("executor_cleanup", [classes_of chain_executor]);
    ("executor_sequence", [classes_of chain_executor]);
    ("suite_process_case", [classes_of chain_suite_process_case]);
    ("python_evaluate", [classes_of (chain_python_evaluate true)]);
    ("replace_sub", [classes_of (chain_replace_sub true)]) ]%string.

(** [gen]: per anchored function the try statements read from the source, or [None] when the harness
    could not read the function as described (renamed / restructured): such a "tie refused" is
    recorded in the evidence and does not fail the obligation - the behavioural tables below tie
    what the code does.  A function that WAS read must catch what the model says. *)
Definition chains_match (gen : list (string * option (list (list (list pyexc))))) : bool :=
  forallb (fun kv => match str_assoc (fst kv) gen with
                     | Some (Some t) => tries_eqb t (snd kv)
                     | Some None => true
                     | None => false
                     end) model_chains.

(** [gen]: for every modelled class, the modelled classes it is a subclass of ([issubclass]). *)
Definition subclass_matches (gen : list (pyexc * list pyexc)) : bool :=
  forallb (fun c => match find (fun kv => pyexc_eqb (fst kv) c) gen with
                    | Some kv => forallb (fun d => Bool.eqb (subclass c d) (existsb (pyexc_eqb d) (snd kv))) all_pyexc
                    | None => false
                    end) all_pyexc.

Definition res_pres_eqb (a b : res pres) : bool :=
  match a, b with
  | Ret x, Ret y => pres_eqb x y
  | Raise x, Raise y => pyexc_eqb (e_cls x) (e_cls y)
  | _, _ => false
  end.

(** [gen]: (site, status set by [conf], exception, what the real program did) *)
Definition route_matches (gen : list (site * tc_status * exc * res pres)) : bool :=
  forallb (fun row => match row with (s, m, e, o) => res_pres_eqb (route m s e) o end) gen.

(** python_evaluate / _StrReplacer._sub with each class raised inside: true = turned into
    NotAnIntegerException / HardErrorException *)
Definition pyeval_matches (gen : list (pyexc * bool)) : bool :=
  forallb (fun kv => Bool.eqb (snd kv)
                       (match handle (chain_python_evaluate true) (Exc (fst kv) PNone) with
                        | Raise e => pyexc_eqb (e_cls e) ENotAnInteger
                        | Ret _ => false
                        end)) gen.

Definition replace_sub_matches (gen : list (pyexc * bool)) : bool :=
  forallb (fun kv => Bool.eqb (snd kv)
                       (match handle (chain_replace_sub true) (Exc (fst kv) PNone) with
                        | Raise e => pyexc_eqb (e_cls e) EHardError
                        | Ret _ => false
                        end)) gen.
