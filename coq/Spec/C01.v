(** Declarative specification of the phased execution protocol (C01), and the predicates the
    correspondence check evaluates on the implementation's observed trace and result. *)
From Coq Require Import List Bool Arith.
From Exactly Require Import Lib.Harness Model.Outcome Model.Exec.
Import ListNotations.

(** A scheduled item: the event, and the failure it produces (if its behaviour is not OK). *)
Definition item := (event * option failure)%type.

Fixpoint sched_list (p : phase) (k : stepk) (prev : option prev_phase) (idx : nat) (is_ : list instr) : list item :=
  match is_ with
  | [] => []
  | i :: is' => (EInstr p k idx prev, option_map (Failure p k idx) (outcome (i k))) :: sched_list p k prev (S idx) is'
  end.
Definition sched_step (tc : testcase) (pk : phase * stepk) : list item :=
  sched_list (fst pk) (snd pk) None 0 (instrs_of tc (fst pk)).
Definition sched_steps (tc : testcase) (ss : list (phase * stepk)) : list item := flat_map (sched_step tc) ss.
Definition sched_cleanup (tc : testcase) (prev : prev_phase) : list item :=
  (ECleanupBegin prev, None) :: sched_list Cleanup SMain (Some prev) 0 (tc_cleanup tc).

(** The complete plan of a test case when nothing fails (cleanup excluded): validation of every
    phase, then the sandbox, then setup, act, before-assert, assert in that fixed order, each
    phase's instructions in file order. *)
Definition schedule (tc : testcase) : list item :=
  sched_steps tc block_validate ++ (ESandbox, None) :: sched_steps tc block_setup ++ sched_steps tc block_act ++
  (if tc_act_only tc then [] else sched_step tc (BeforeAssert, SMain) ++ sched_step tc (Assert, SMain)).

(** Take items up to and including the first failing one. *)
Fixpoint tuf (l : list item) : list item :=
  match l with
  | [] => []
  | it :: l' => it :: match snd it with Some _ => [] | None => tuf l' end
  end.
(** The first failure of a plan. *)
Fixpoint ffail (l : list item) : option failure :=
  match l with
  | [] => None
  | it :: l' => match snd it with Some f => Some f | None => ffail l' end
  end.

Definition in_validation (f : failure) : bool :=
  match f_step f with SActParse | SValSym | SValPre => true | _ => false end.
Definition is_main_of (p : phase) (f : failure) : bool :=
  match f_phase f, f_step f, p with
  | BeforeAssert, SMain, BeforeAssert => true
  | Assert, SMain, Assert => true
  | _, _, _ => false
  end.

(** Which phase ran last, as told to cleanup: decided by where the first failure is. *)
Definition prev_of (act_only : bool) (ff : option failure) : prev_phase :=
  match ff with
  | None => if act_only then PAct else PAssert
  | Some f =>
      match f_phase f, f_step f with
      | Act, SExecute => PAct
      | BeforeAssert, SMain => PBeforeAssert
      | Assert, SMain => PAssert
      | _, _ => PSetup
      end
  end.

(** The reference semantics of a partial execution: run the plan until the first failure; if that
    failure is in the validation block there is no sandbox and no cleanup; otherwise cleanup runs
    (until its own first failure) exactly once, told the phase that ran last.  The reported
    failure is the first failure, except that a failing cleanup step is named instead — unless
    the first failure is in before-assert/main (the executor then ignores a cleanup failure). *)
Definition spec_partial (tc : testcase) : list event * presult :=
  let sch := schedule tc in
  let pre := map fst (tuf sch) in
  let ff := ffail sch in
  match ff with
  | Some f =>
      if in_validation f then (pre, PResult (Some f) false false)
      else
        let cl := sched_cleanup tc (prev_of (tc_act_only tc) ff) in
        (pre ++ map fst (tuf cl),
         PResult (if is_main_of BeforeAssert f then Some f
                  else match ffail cl with Some f' => Some f' | None => Some f end)
                 true (is_main_of BeforeAssert f || is_main_of Assert f))
  | None =>
      let cl := sched_cleanup tc (prev_of (tc_act_only tc) None) in
      (pre ++ map fst (tuf cl), PResult (ffail cl) true true)
  end.

Definition spec_full (tc : testcase) : list event * fresult :=
  let c := sched_step tc (Conf, SMain) in
  match ffail c with
  | Some f => (map fst (tuf c), FResult (full_of_fail (f_status f)) (Some f) false false)
  | None =>
      match tc_status tc with
      | TSkip => (map fst c, FResult SKIPPED None false false)
      | mode =>
          let (t, pr) := spec_partial tc in
          (map fst c ++ t,
           FResult (translate_status mode (option_map f_status (pr_failure pr))) (pr_failure pr)
                   (pr_has_sds pr) (pr_has_atc_outcome pr))
      end
  end.

(** *** decidable equalities for the correspondence check *)
Definition phase_eqb (a b : phase) : bool :=
  match a, b with
  | Conf, Conf | Setup, Setup | Act, Act | BeforeAssert, BeforeAssert | Assert, Assert | Cleanup, Cleanup => true
  | _, _ => false
  end.
Definition stepk_eqb (a b : stepk) : bool :=
  match a, b with
  | SActParse, SActParse | SValSym, SValSym | SValPre, SValPre | SValPost, SValPost
  | SValExeInput, SValExeInput | SPrepare, SPrepare | SExecute, SExecute | SMain, SMain => true
  | _, _ => false
  end.
Definition prev_eqb (a b : prev_phase) : bool :=
  match a, b with
  | PSetup, PSetup | PAct, PAct | PBeforeAssert, PBeforeAssert | PAssert, PAssert => true
  | _, _ => false
  end.
Definition event_eqb (a b : event) : bool :=
  match a, b with
  | EInstr p k i pr, EInstr p' k' i' pr' => phase_eqb p p' && stepk_eqb k k' && Nat.eqb i i' && option_eqb prev_eqb pr pr'
  | ESandbox, ESandbox => true
  | ECleanupBegin p, ECleanupBegin p' => prev_eqb p p'
  | _, _ => false
  end.
Definition ok_instr : instr := fun _ => BOk.
Definition failing_at (k : stepk) (b : beh) : instr := fun k' => if stepk_eqb k k' then b else BOk.
Definition observable (e : event) : bool := match e with ECleanupBegin _ => false | _ => true end.

(** What the harness observes of one real execution with stub instructions. *)
Record c01_obs := C01Obs {
  o_trace : list event;                   (* calls recorded by the stubs, sandbox creation *)
  o_status : full_status;
  o_failing : option (phase * stepk);     (* failure_info.phase_step *)
  o_has_sds : bool;
  o_has_atc : bool }.
Record c01_case := C01Case { c_tc : testcase; c_obs : c01_obs }.

Definition failing_eqb (f : option failure) (o : option (phase * stepk)) : bool :=
  match f, o with
  | None, None => true
  | Some f, Some (p, k) => phase_eqb (f_phase f) p && stepk_eqb (f_step f) k
  | _, _ => false
  end.

(** The behaviour of the instruction an observed event belongs to *)
Definition beh_of_event (tc : testcase) (e : event) : beh :=
  match e with
  | EInstr p k idx _ => match nth_error (instrs_of tc p) idx with Some i => i k | None => BOk end
  | _ => BOk
  end.
Definition is_cleanup_main (e : event) : bool :=
  match e with EInstr Cleanup SMain _ _ => true | _ => false end.
Definition is_validation_event (e : event) : bool :=
  match e with EInstr _ (SActParse | SValSym | SValPre) _ _ => true | EInstr Conf _ _ _ => true | _ => false end.
Definition is_sandbox (e : event) : bool := match e with ESandbox => true | _ => false end.
Fixpoint all_before_ok (tc : testcase) (l : list event) : bool :=
  (* every event other than the last one behaves OK *)
  match l with
  | [] => true
  | [e] => true
  | e :: l' => match outcome (beh_of_event tc e) with None => all_before_ok tc l' | Some _ => false end
  end.
Fixpoint sorted_validation_first (seen_other : bool) (l : list event) : bool :=
  match l with
  | [] => true
  | e :: l' => if is_validation_event e then negb seen_other && sorted_validation_first seen_other l'
               else sorted_validation_first true l'
  end.

Definition prev_phase_eqb (a b : prev_phase) : bool :=
  match a, b with
  | PSetup, PSetup | PAct, PAct | PBeforeAssert, PBeforeAssert | PAssert, PAssert => true
  | _, _ => false
  end.

(** *** No step is skipped: the steps that must have been executed EARLIER for the same instruction.
    Before the main step of an instruction of [setup] / [cleanup]: its symbol validation and its
    pre-sandbox validation; of [before-assert] / [assert]: also its post-setup validation (which for
    [setup] itself runs after setup's main steps, and which [cleanup] does not have).  The steps of
    the action to check come in the fixed order parse, symbols, validate-pre-sds, validate-post-setup,
    validate-exe-input, prepare, execute: each is preceded by all the earlier ones.
    (Under --act the main steps of before-assert / assert are not executed: nothing is demanded.) *)
Definition is_step (p : phase) (k : stepk) (i : nat) (e : event) : bool :=
  match e with
  | EInstr p' k' i' _ => phase_eqb p p' && stepk_eqb k k' && Nat.eqb i i'
  | _ => false
  end.
Definition required_before (p : phase) (k : stepk) : list stepk :=
  match p, k with
  | (Setup | Cleanup), SMain => [SValSym; SValPre]
  | (BeforeAssert | Assert), SMain => [SValSym; SValPre; SValPost]
  | Act, SValSym => [SActParse]
  | Act, SValPre => [SActParse; SValSym]
  | Act, SValPost => [SActParse; SValSym; SValPre]
  | Act, SValExeInput => [SActParse; SValSym; SValPre; SValPost]
  | Act, SPrepare => [SActParse; SValSym; SValPre; SValPost; SValExeInput]
  | Act, SExecute => [SActParse; SValSym; SValPre; SValPost; SValExeInput; SPrepare]
  | _, _ => []
  end.
(** [seen]: the events before the current one (latest first) *)
Fixpoint nss_from (seen : list event) (l : list event) : bool :=
  match l with
  | [] => true
  | e :: l' =>
      match e with
      | EInstr p k i _ => forallb (fun k' => existsb (is_step p k' i) seen) (required_before p k)
      | _ => true
      end && nss_from (e :: seen) l'
  end.
Definition no_step_skipped (tr : list event) : bool := nss_from [] tr.

(** The property stated directly on the observed behaviour (independent of [partial_execute]):
    validation first; no step skipped; halts at the first failure; cleanup exactly once iff sandbox; never a
    success when an executed step failed; the named step is a failing executed step. *)
Definition P_C01 (tc : testcase) (o : c01_obs) : bool :=
  let tr := o_trace o in
  let non_cleanup := filter (fun e => negb (is_cleanup_main e)) tr in
  let cleanup_evs := filter is_cleanup_main tr in
  let failed_events := filter (fun e => match outcome (beh_of_event tc e) with Some _ => true | None => false end) tr in
  sorted_validation_first false tr &&
  (* no step of an instruction (of the action to check) is skipped before its main step (execute) *)
  no_step_skipped tr &&
  all_before_ok tc non_cleanup && all_before_ok tc cleanup_evs &&
  (* cleanup runs exactly once iff the sandbox exists (observable when [cleanup] is non-empty) *)
  Nat.eqb (length (filter (fun e => match e with EInstr Cleanup SMain 0 _ => true | _ => false end) tr))
          (if existsb is_sandbox tr && negb (match tc_cleanup tc with [] => true | _ => false end) then 1 else 0) &&
  Bool.eqb (o_has_sds o) (existsb is_sandbox tr) &&
  (* cleanup is told which phase ran last: decided by the first failing step outside cleanup *)
  (let first_fail := match filter (fun e => match outcome (beh_of_event tc e) with Some _ => true | None => false end) non_cleanup with
                     | EInstr p k i _ :: _ => Some (Failure p k i FHard)
                     | _ => None
                     end in
   let expected := prev_of (tc_act_only tc) first_fail in
   forallb (fun e => match e with
                     | EInstr Cleanup SMain _ (Some pv) => prev_phase_eqb pv expected
                     | _ => false
                     end) cleanup_evs) &&
  (* never a success when any executed step failed; failure names a failing executed step *)
  match failed_events with
  | [] => match o_failing o with None => true | Some _ => false end &&
          (full_status_eqb (o_status o) PASS || full_status_eqb (o_status o) XPASS || full_status_eqb (o_status o) SKIPPED)
  | _ => negb (full_status_eqb (o_status o) PASS || full_status_eqb (o_status o) XPASS || full_status_eqb (o_status o) SKIPPED) &&
         match o_failing o with
         | None => false
         | Some (p, k) =>
             existsb (fun e => match e with
                               | EInstr p' k' _ _ => phase_eqb p p' && stepk_eqb k k' &&
                                   (full_status_eqb (o_status o)
                                      (translate_status (tc_status tc) (outcome (beh_of_event tc e)))
                                    || full_status_eqb (o_status o) (match outcome (beh_of_event tc e) with Some s => full_of_fail s | None => PASS end))
                               | _ => false end) failed_events
         end
  end.

Definition check_c01 (c : c01_case) : bool * bool :=
  let (mt, mr) := full_execute (c_tc c) in
  let o := c_obs c in
  ( list_eqb event_eqb (filter observable mt) (o_trace o) &&
    full_status_eqb (fr_status mr) (o_status o) && failing_eqb (fr_failure mr) (o_failing o) &&
    Bool.eqb (fr_has_sds mr) (o_has_sds o) && Bool.eqb (fr_has_atc_outcome mr) (o_has_atc o),
    P_C01 (c_tc c) o ).
