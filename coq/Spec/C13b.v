(** Specification side of C13, part 2: [filter -line-nums RANGE...], and the predicates the
    correspondence check evaluates.

    Reference semantics (from the property statement and `help syntax TEXT-TRANSFORMER`,
    LINE-NUMBER-RANGE): line numbers start at 1; a negative number denotes a line number relative
    to the end (-1 is the last line number, -2 the second to last, ...); [N] is the single line
    number N, [:N] the line numbers from 1 to N, [N:] those starting from N, [N:M] those from N to
    M (including); a line is kept iff its number matches any of the ranges. *)
From Coq Require Import ZArith NArith List Bool.
From Exactly Require Import Lib.Harness Model.LineNums.
Import ListNotations.
Local Open Scope Z_scope.

(** the line number denoted by [n] in a text of [num_lines] lines *)
Definition abs_num (num_lines n : Z) : Z := if n <? 0 then num_lines + n + 1 else n.

(** line number [k] lies in range [r] of a text of [num_lines] lines *)
Definition in_range (num_lines : Z) (r : range) (k : Z) : bool :=
  match r with
  | RSingle n => k =? abs_num num_lines n
  | RLower lo => abs_num num_lines lo <=? k
  | RUpper hi => k <=? abs_num num_lines hi
  | RBoth lo hi => (abs_num num_lines lo <=? k) && (k <=? abs_num num_lines hi)
  end.

Definition in_ranges (num_lines : Z) (rs : list range) (k : Z) : bool :=
  existsb (fun r => in_range num_lines r k) rs.

Fixpoint enum_from {A} (n : Z) (ls : list A) : list (Z * A) :=
  match ls with [] => [] | l :: ls' => (n, l) :: enum_from (n + 1) ls' end.

(** the lines (in order) whose 1-based number lies in at least one of the ranges *)
Definition line_nums_spec {A} (rs : list range) (ls : list A) : list A :=
  map snd (filter (fun nl => in_ranges (Z.of_nat (length ls)) rs (fst nl)) (enum_from 1 ls)).

(** *** Notions for the intermediate theorems (range_merge.py and the segment walker) *)

Definition in_seg (k : Z) (s : from_to) : bool := (fst s <=? k) && (k <=? snd s).

(** the set of line numbers a [Partitioning] stands for: (-inf, h] for every head entry, [a, b]
    for every segment, [t, +inf) for every tail entry *)
Definition in_partitioning (p : partitioning) (k : Z) : bool :=
  existsb (fun h => k <=? h) (head_to p) || existsb (in_seg k) (segments p) || existsb (fun t => t <=? k) (tail_from p).

(** the set of line numbers that head / body / tail of a [MergedRanges] /
    [SegmentsWithPositiveIncreasingValues] stand for *)
Definition in_segments (head : option Z) (body : list from_to) (tail : option Z) (k : Z) : bool :=
  match head with Some h => k <=? h | None => false end
  || existsb (in_seg k) body
  || match tail with Some t => t <=? k | None => false end.

(** ... and a [MergedRanges] object as the transformers read it ([is_empty], [is_everything()]) *)
Definition in_merged (m : merged) (k : Z) : bool :=
  negb (m_is_empty m) && (is_everything m || in_segments (m_head m) (m_body m) (m_tail m) k).

(** What the walker [_TransformMethodOfSegments] needs ("positive increasing values"): after line
    number [n], every body segment [a, b] is non-empty and starts at least two after what precedes
    it (so that its predecessor line [a - 1] has not been passed yet), and the tail likewise. *)
Fixpoint chain (n : Z) (body : list from_to) (tail : option Z) : Prop :=
  match body with
  | [] => match tail with Some t => n + 2 <= t | None => True end
  | s :: body' => n + 2 <= fst s /\ fst s <= snd s /\ chain (snd s) body' tail
  end.

Definition walk_ok (head : option Z) (body : list from_to) (tail : option Z) : Prop :=
  match head with
  | Some h => 1 <= h /\ chain h body tail
  | None => chain 0 body tail
  end.

(** What [merge] needs from a [Partitioning] (and [_Partitioner] establishes): all values >= 1 *)
Definition part_ok (p : partitioning) : Prop :=
  Forall (fun h => 1 <= h) (head_to p) /\ Forall (fun s => 1 <= fst s) (segments p) /\ Forall (fun t => 1 <= t) (tail_from p).

(** *** Correspondence case: one transformer (one list of ranges), applied to several texts.
    A line is an identifier; an observation is the list of output lines, or [None] if the
    implementation raised an exception. *)
Record lncase := LNCase {
  ln_ranges : list range;
  ln_runs : list (list N * option (list N)) }.

Definition obs_eqb (a b : option (list N)) : bool := option_eqb (list_eqb N.eqb) a b.

Definition check_lnums_case (c : lncase) : bool * bool :=
  ( (* correspondence: the model computes what the implementation produced *)
    forallb (fun run => obs_eqb (line_nums_transform (ln_ranges c) (fst run)) (snd run)) (ln_runs c),
    (* property on the implementation: its output is exactly the lines of the reference semantics *)
    forallb (fun run => obs_eqb (snd run) (Some (line_nums_spec (ln_ranges c) (fst run)))) (ln_runs c) ).
