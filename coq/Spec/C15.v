(** Specification side of C15: an independent, declarative reading of the reference manual
    ("help syntax files-source / files-matcher / file-matcher / files-condition"), and the boolean
    check functions that the correspondence run evaluates.

    Part 1  [denote]: the tree a FILE-LIST denotes.  Compositional: a nested list is denoted on its
            own ([dir NAME = { .. }] denotes the directory whose contents is what the inner list
            denotes starting from nothing; [+=] continues from the existing contents).  [None]: the
            list does not denote a tree (a "must not exist" / "must be an existing .." condition of
            the manual is broken).
    Part 2  [spec_files]: the set of files a DIR-CONTENTS model consists of; [sem_fm] / [sem_fsm]:
            the value the manual gives a matcher on a tree.  [None] = the manual says HARD_ERROR
            for some file that is consulted ([contents] of a non-regular file, [dir-contents] of a
            non-directory); the semantics is strict (consults every file of the set) except where
            the manual documents laziness ([&&], [||]).  Nothing here mentions the order in which
            a directory is listed.  *)
From Coq Require Import NArith ZArith List Bool Arith.
From Exactly Require Import Lib.Harness Lib.Tree Model.Files.
Import ListNotations.

(* ------------------------------------------------------------------------------------------ *)
(** * Part 1: what a FILE-LIST denotes *)

(** The node at a path (reached through directories only), and the tree with that node replaced
    (used to say "nothing but the populated directory changes"). *)
Fixpoint get (p : path) (t : tree) : option tree :=
  match p with
  | [] => Some t
  | n :: p' => match t with
               | Dir es => match lookup n es with
                           | Some c => get p' c
                           | None => None
                           end
               | _ => None
               end
  end.

Fixpoint put (p : path) (new : tree) (t : tree) : tree :=
  match p with
  | [] => new
  | n :: p' => match t with
               | Dir es => match lookup n es with
                           | Some c => Dir (update n (put p' new c) es)
                           | None => t
                           end
               | _ => t
               end
  end.

(** Set the binding of [n] (replace, or add at the end). *)
Definition set_entry (n : name) (t : tree) (d : dirc) : dirc :=
  match lookup n d with
  | Some _ => update n t d
  | None => d ++ [(n, t)]
  end.

(** Apply [f] to what is at the relative path [p] of a directory with contents [d] ([None]: nothing
    there).  "Intermediate directories are created, if required"; an intermediate component that
    exists must be a directory. *)
Fixpoint at_path (p : path) (f : option tree -> option tree) (d : dirc) : option dirc :=
  match p with
  | [] => None
  | [n] => match f (lookup n d) with
           | Some t' => Some (set_entry n t' d)
           | None => None
           end
  | n :: p' =>
      match lookup n d with
      | Some (Dir sub) => match at_path p' f sub with
                          | Some sub' => Some (set_entry n (Dir sub') d)
                          | None => None
                          end
      | Some _ => None
      | None => match at_path p' f [] with
                | Some sub' => Some (set_entry n (Dir sub') d)
                | None => None
                end
      end
  end.

(** "A copy of the contents of PATH (recursive)": symbolic links of the source are replaced by
    what they lead to; a dangling link cannot be copied. *)
Fixpoint copy_of (t : tree) : option tree :=
  match t with
  | File c => Some (File c)
  | Link None => None
  | Link (Some t') => copy_of t'
  | Dir es =>
      match (fix go (es : dirc) : option dirc :=
               match es with
               | [] => Some []
               | p :: es' => match copy_of (snd p), go es' with
                             | Some c, Some r => Some ((fst p, c) :: r)
                             | _, _ => None
                             end
               end) es with
      | Some es' => Some (Dir es')
      | None => None
      end
  end.

(** Adding copies of the entries [src] to a directory: a name that exists is a clash. *)
Fixpoint add_copies (src : dirc) (d : dirc) : option dirc :=
  match src with
  | [] => Some d
  | (n, s) :: src' =>
      match lookup n d, copy_of s with
      | None, Some c => add_copies src' (d ++ [(n, c)])
      | _, _ => None
      end
  end.

Definition must_not_exist (new : option tree) : option tree -> option tree :=
  fun o => match o with None => new | Some _ => None end.

(** One FILE-SPEC applied to the directory contents [d]. *)
Fixpoint denote_entry (e : entry) (d : dirc) {struct e} : option dirc :=
  let p := posix_parts (entry_name e) in
  match e with
  | EFile _ None => at_path p (must_not_exist (Some (File []))) d
  | EFile _ (Some (Create, c)) => at_path p (must_not_exist (Some (File c))) d
  | EFile _ (Some (Append, c)) =>
      at_path p (fun o => match o with Some (File c0) => Some (File (c0 ++ c)) | _ => None end) d
  | EDir _ => at_path p (must_not_exist (Some (Dir []))) d
  | EDirList _ md es =>
      let inner := fix go (es : list entry) (d : dirc) : option dirc :=
                     match es with
                     | [] => Some d
                     | e' :: es' => match denote_entry e' d with
                                    | Some d' => go es' d'
                                    | None => None
                                    end
                     end in
      match md, p with
      | Append, [] => inner es d                         (* the populated directory itself (name ".") *)
      | Create, _ => at_path p (must_not_exist (option_map Dir (inner es []))) d
      | Append, _ => at_path p (fun o => match o with
                                         | Some (Dir sub) => option_map Dir (inner es sub)
                                         | _ => None
                                         end) d
      end
  | EDirCopy _ md src =>
      match md, p with
      | Append, [] => add_copies src d
      | Create, _ => at_path p (must_not_exist (option_map Dir (add_copies src []))) d
      | Append, _ => at_path p (fun o => match o with
                                         | Some (Dir sub) => option_map Dir (add_copies src sub)
                                         | _ => None
                                         end) d
      end
  end.

(** "Files are created/modified in the order listed." *)
Fixpoint denote (es : list entry) (d : dirc) : option dirc :=
  match es with
  | [] => Some d
  | e :: es' => match denote_entry e d with
                | Some d' => denote es' d'
                | None => None
                end
  end.

(** The instructions of a populate case: makers, and symbolic links put there by the harness. *)
Definition denote_instr (i : instr) (d : dirc) : option dirc :=
  match i with
  | IMake e => denote_entry e d
  | ISymlink p tgt => at_path p (must_not_exist (Some (Link tgt))) d
  end.

Fixpoint denote_instrs (is : list instr) (d : dirc) : option dirc :=
  match is with
  | [] => Some d
  | i :: is' => match denote_instr i d with
                | Some d' => denote_instrs is' d'
                | None => None
                end
  end.

(** A FILE-NAME that exactly may refuse when validating: the manual's "must not contain .." and
    "relative path", and the empty string / the path-list separators. *)
Definition refusable_name (s : name) : bool :=
  match s with [] => true | _ => false end
  || posix_abs s || mem_name DOTDOT (posix_parts s) || mem_char COLON s || mem_char SEMICOLON s.

Fixpoint entry_has_refusable_name (e : entry) : bool :=
  refusable_name (entry_name e)
  || match e with
     | EDirList _ _ sub =>
         (fix go (es : list entry) : bool :=
            match es with
            | [] => false
            | e' :: es' => entry_has_refusable_name e' || go es'
            end) sub
     | _ => false
     end.

Definition instr_has_refusable_name (i : instr) : bool :=
  match i with
  | IMake (EDirList _ _ sub) => existsb entry_has_refusable_name sub
  | _ => false
  end.

(** A FILE-NAME the manual forbids: absolute, or with a [..] component. *)
Definition escaping_name (s : name) : bool := posix_abs s || mem_name DOTDOT (posix_parts s).

Fixpoint entry_has_escaping_name (e : entry) : bool :=
  escaping_name (entry_name e)
  || match e with
     | EDirList _ _ sub =>
         (fix go (es : list entry) : bool :=
            match es with
            | [] => false
            | e' :: es' => entry_has_escaping_name e' || go es'
            end) sub
     | _ => false
     end.

Definition instr_has_escaping_name (i : instr) : bool :=
  match i with
  | IMake (EDirList _ _ sub) => existsb entry_has_escaping_name sub
  | _ => false
  end.

(* ------------------------------------------------------------------------------------------ *)
(** * Part 2: what the matchers mean *)

Section Sem.
  Variable O : oracles.

  (** an external answer: [None] also when the library / program reports HARD_ERROR *)
  Definition sem2 (o : option (option bool)) : option bool :=
    match o with Some (Some b) => Some b | _ => None end.

  Fixpoint sem_tm (m : tmatcher) (c : list N) : option bool :=
    match m with
    | TEmpty => Some (match c with [] => true | _ => false end)
    | TEquals c' => Some (text_eqb c c')
    | TOpaque k => sem2 (text_matches O k c)
    | TNot m' => option_map negb (sem_tm m' c)
    end.

  (** The files of [-recursive [-min-depth mn] [-max-depth mx]] below directory [t] (links to
      directories are followed), [d] = depth of the direct contents of [t]:
      a file is included iff its depth is at least [mn]; the contents of a sub directory is
      included iff the depth of the sub directory is not [mx] and it is not pruned. *)
  (** Is the entry a directory (links followed)?  Undefined (HARD_ERROR, deliberately raised by the
      generator) for a link whose resolution fails with something else than "no such file". *)
  Definition dir_test_spec (c : tree) (p : path) : option bool :=
    match resolve c with
    | Some (Dir _) => Some true
    | Some _ => Some false
    | None => match link_error O p with
              | Some false => Some false
              | _ => None
              end
    end.

  Fixpoint walk (prune : elem -> option bool) (mn mx : option nat) (t : tree) (rel abs : path) (d : nat)
           {struct t} : option (list elem) :=
    match t with
    | Dir es =>
        (fix go (es : dirc) : option (list elem) :=
           match es with
           | [] => Some []
           | p :: es' =>
               let e := Elem (rel ++ [fst p]) (abs ++ [fst p]) (snd p) in
               let here := if in_min mn d then [e] else [] in
               let below :=
                 match (if at_max mx d then Some false else dir_test_spec (snd p) (abs ++ [fst p])) with
                 | Some true =>
                     match prune e with
                     | Some false => walk prune mn mx (snd p) (rel ++ [fst p]) (abs ++ [fst p]) (S d)
                     | Some true => Some []
                     | None => None
                     end
                 | Some false => Some []
                 | None => None
                 end in
               match below, go es' with
               | Some b, Some r => Some (here ++ b ++ r)
               | _, _ => None
               end
           end) es
    | Link (Some t') => walk prune mn mx t' rel abs d
    | _ => Some []
    end.

  (** The model of a FILES-MATCHER: a directory, how its contents is collected, the selection
      ("the sub set of files matched by") and the pruning ("excludes contents of directories matched by"). *)
  Record smodel := SModel {
    sm_dir : tree; sm_abs : path; sm_cfg : gencfg;
    sm_sel : elem -> option bool;
    sm_prune : elem -> option bool }.

  Fixpoint strict_filter (sel : elem -> option bool) (l : list elem) : option (list elem) :=
    match l with
    | [] => Some []
    | e :: l' => match sel e, strict_filter sel l' with
                 | Some b, Some r => Some (if b then e :: r else r)
                 | _, _ => None
                 end
    end.

  Definition spec_files (M : smodel) : option (list elem) :=
    match (match sm_cfg M with
           | NonRec => Some (map (fun p => Elem [fst p] (sm_abs M ++ [fst p]) (snd p)) (children (sm_dir M)))
           | Rec mn mx => walk (sm_prune M) mn mx (sm_dir M) [] (sm_abs M) 0
           end) with
    | Some l => strict_filter (sm_sel M) l
    | None => None
    end.

  Fixpoint strict_forall (f : elem -> option bool) (l : list elem) : option bool :=
    match l with
    | [] => Some true
    | e :: l' => match f e, strict_forall f l' with
                 | Some b, Some r => Some (b && r)
                 | _, _ => None
                 end
    end.
  Fixpoint strict_exists (f : elem -> option bool) (l : list elem) : option bool :=
    match l with
    | [] => Some false
    | e :: l' => match f e, strict_exists f l' with
                 | Some b, Some r => Some (b || r)
                 | _, _ => None
                 end
    end.

  Definition and_then (a : option bool) (b : unit -> option bool) : option bool :=
    match a with Some true => b tt | r => r end.
  Definition or_else (a : option bool) (b : unit -> option bool) : option bool :=
    match a with Some false => b tt | r => r end.

  Definition has_rel (k : path) (l : list elem) : bool := existsb (fun e => path_eqb (e_rel e) k) l.

  (** A set of files: no two of them have the same relative path (always so for the contents of
      a directory; [matches] is left undefined otherwise). *)
  Fixpoint distinct_paths (l : list path) : bool :=
    match l with
    | [] => true
    | p :: l' => negb (mem_path p l') && distinct_paths l'
    end.
  Definition distinct_rels (l : list elem) : bool := distinct_paths (map e_rel l).

  Fixpoint sem_fm (m : fmatcher) (e : elem) {struct m} : option bool :=
    match m with
    | FConst b => Some b
    | FType TFile => Some (is_file (e_node e))       (* "symbolic links are followed (unless TYPE is symlink)" *)
    | FType TDir => Some (is_dir (e_node e))
    | FType TSymlink => Some (is_symlink (e_node e))
    | FName part pat => glob_str O pat (name_part part (last_name (e_abs e)))
    | FPath pat => glob_path O pat (e_abs e)
    | FNameRe part pat => re_str O pat (name_part part (last_name (e_abs e)))
    | FPathRe pat => re_path O pat (e_abs e)
    | FContents tm =>                                (* "HARD_ERROR for files that are not regular files" *)
        match resolve (e_node e) with
        | Some (File c) => sem_tm tm c
        | _ => None
        end
    | FRun prog => sem2 (run_exit0 O prog (e_abs e)) (* "matches iff its exit code is 0" *)
    | FDirContents cfg sm =>                         (* "HARD_ERROR for files that are not directories" *)
        if is_dir (e_node e)
        then sem_fsm sm (SModel (e_node e) (e_abs e) cfg (fun _ => Some true) (fun _ => Some false))
        else None
    | FNot a => option_map negb (sem_fm a e)
    | FAnd a b => and_then (sem_fm a e) (fun _ => sem_fm b e)
    | FOr a b => or_else (sem_fm a e) (fun _ => sem_fm b e)
    end
  with sem_fsm (m : fsmatcher) (M : smodel) {struct m} : option bool :=
    match m with
    | SConst b => Some b
    | SEmpty => option_map (fun l => match l with [] => true | _ => false end) (spec_files M)
    | SNumFiles op n => option_map (fun l => cmp_holds op (Z.of_nat (length l)) n) (spec_files M)
    | SEvery f => match spec_files M with Some l => strict_forall (sem_fm f) l | None => None end
    | SAny f => match spec_files M with Some l => strict_exists (sem_fm f) l | None => None end
    | SMatches full fc =>
        let keys := dedup (fc_names fc) in
        match spec_files M with
        | None => None
        | Some l =>
            if negb (distinct_rels l) then None else
            if full
            then (* "the set of files must contain no other files than those in FILES-CONDITION" *)
              if forallb (fun k => has_rel k l) keys && forallb (fun e => mem_path (e_rel e) keys) l
              then strict_forall (fun e => sem_fc fc (e_rel e) e) l
              else Some false
            else (* "the set of files contains every file in FILES-CONDITION" *)
              match strict_forall (fun e => if mem_path (e_rel e) keys then sem_fc fc (e_rel e) e else Some true) l with
              | Some b => Some (b && forallb (fun k => has_rel k l) keys)
              | None => None
              end
        end
    | SSelection f sm =>
        sem_fsm sm (SModel (sm_dir M) (sm_abs M) (sm_cfg M)
                           (fun e => and_then (sm_sel M e) (fun _ => sem_fm f e)) (sm_prune M))
    | SPrune f sm =>
        sem_fsm sm (SModel (sm_dir M) (sm_abs M) (sm_cfg M) (sm_sel M)
                           (fun e => or_else (sm_prune M e) (fun _ => sem_fm f e)))
    | SNot a => option_map negb (sem_fsm a M)
    | SAnd a b => and_then (sem_fsm a M) (fun _ => sem_fsm b M)
    | SOr a b => or_else (sem_fsm a M) (fun _ => sem_fsm b M)
    end
  (** "Multiple FILE-MATCHERs may be associated with a single file name ... combined using &&, in
      order of appearance" *)
  with sem_fc (fc : fcond) (key : path) (e : elem) {struct fc} : option bool :=
    match fc with
    | FCNil => Some true
    | FCName _ rest => sem_fc rest key e
    | FCNameM nm f rest =>
        if path_eqb (posix_parts nm) key
        then and_then (sem_fm f e) (fun _ => sem_fc rest key e)
        else sem_fc rest key e
    end.
End Sem.

(* ------------------------------------------------------------------------------------------ *)
(** * Part 3: the FILES-CONDITION that lists a tree (populate, then match) *)

(** [str.join('/')] of the components *)
Fixpoint join_path (p : path) : name :=
  match p with
  | [] => []
  | [n] => n
  | n :: p' => n ++ SLASH :: join_path p'
  end.

Definition type_of (t : tree) : ftype :=
  match t with File _ => TFile | Dir _ => TDir | Link _ => TSymlink end.

(** every file below [t] (not following links), depth first *)
Fixpoint listing (t : tree) (rel abs : path) : list elem :=
  match t with
  | Dir es =>
      (fix go (es : dirc) : list elem :=
         match es with
         | [] => []
         | p :: es' => Elem (rel ++ [fst p]) (abs ++ [fst p]) (snd p)
                         :: listing (snd p) (rel ++ [fst p]) (abs ++ [fst p]) ++ go es'
         end) es
  | _ => []
  end.

(** FILE-NAME : type TYPE, one line per file *)
Fixpoint cond_of (l : list elem) : fcond :=
  match l with
  | [] => FCNil
  | e :: l' => FCNameM (join_path (e_rel e)) (FType (type_of (e_node e))) (cond_of l')
  end.


(* ------------------------------------------------------------------------------------------ *)
(** * The check functions of the correspondence run *)

(** Equality of trees up to the order of directory entries (names are unique in observed trees). *)
Fixpoint tree_same (a b : tree) {struct a} : bool :=
  match a, b with
  | File c, File c' => name_eqb c c'
  | Dir es, Dir es' =>
      Nat.eqb (length es) (length es')
      && (fix go (es : dirc) : bool :=
            match es with
            | [] => true
            | p :: r => match lookup (fst p) es' with
                        | Some t' => tree_same (snd p) t'
                        | None => false
                        end && go r
            end) es
  | Link None, Link None => true
  | Link (Some t), Link (Some t') => tree_same t t'
  | _, _ => false
  end.

Fixpoint nodup_names (l : list name) : bool :=
  match l with
  | [] => true
  | n :: l' => negb (mem_name n l') && nodup_names l'
  end.

Definition status_eqb (a b : status) : bool :=
  match a, b with
  | SPass, SPass | SHardError, SHardError | SValidationError, SValidationError
  | SOutsideModel, SOutsideModel => true
  | _, _ => false
  end.

(** ** Populate case: instructions run on the empty act directory; observed: status of the case,
    the act directory afterwards, and "every file outside the act directory is as before". *)
Record pcase := PCase {
  pc_instrs : list instr;
  pc_status : status;
  pc_tree : dirc;
  pc_outside_unchanged : bool }.

(** Out of scope (decided from the INPUT alone): the instructions write through a symbolic link,
    put into the directory beforehand, that leads to an existing file or directory elsewhere. *)
Definition pcase_out_of_scope (c : pcase) : bool :=
  status_eqb (snd (run_instrs (pc_instrs c) (Dir []))) SOutsideModel.

Definition check_pcase (c : pcase) : bool * bool :=
  if pcase_out_of_scope c then (true, true) else
  let '(t, s) := run_instrs (pc_instrs c) (Dir []) in
  ( status_eqb s (pc_status c) && tree_same t (Dir (pc_tree c)) && tree_same (Dir (pc_tree c)) t,
    (* the property, on what the implementation did *)
    pc_outside_unchanged c
    && (if existsb instr_has_escaping_name (pc_instrs c)
        then (* rejected *)
          status_eqb (pc_status c) SValidationError || status_eqb (pc_status c) SHardError
        else true)
    && match pc_status c with
       | SPass => match denote_instrs (pc_instrs c) [] with
                  | Some d => tree_same (Dir d) (Dir (pc_tree c)) && tree_same (Dir (pc_tree c)) (Dir d)
                  | None => false
                  end
       | SHardError => true
       | SValidationError => existsb instr_has_refusable_name (pc_instrs c)
       | SOutsideModel => false
       end ).

(** ** Matcher case: [exists ROOT : FILE-MATCHER] on a tree made outside of exactly.  The tree is
    written with the entries of every directory in the order [os.scandir] gave; the glob tables
    hold the answers of Python for exactly the queries of the case. *)
Record mcase := MCase {
  mc_root_name : name;
  mc_root : tree;
  mc_matcher : fmatcher;
  mc_glob_str : list (nat * name * bool);
  mc_glob_path : list (nat * path * bool);
  mc_re_str : list (nat * name * bool);
  mc_re_path : list (nat * path * bool);
  mc_text : list (nat * list N * option bool);       (* [None]: the text matcher gave HARD_ERROR *)
  mc_run : list (nat * path * option bool);
  mc_linkerr : list (nat * path * bool);             (* key 0; for every link of the tree that does not resolve *)
  mc_verdict : verdict }.

Fixpoint tab_str (tab : list (nat * name * bool)) (k : nat) (s : name) : option bool :=
  match tab with
  | [] => None
  | (k', s', b) :: tab' => if Nat.eqb k k' && name_eqb s s' then Some b else tab_str tab' k s
  end.
Fixpoint tab_path (tab : list (nat * path * bool)) (k : nat) (s : path) : option bool :=
  match tab with
  | [] => None
  | (k', s', b) :: tab' => if Nat.eqb k k' && path_eqb s s' then Some b else tab_path tab' k s
  end.

Fixpoint tab_str2 (tab : list (nat * name * option bool)) (k : nat) (s : name) : option (option bool) :=
  match tab with
  | [] => None
  | (k', s', b) :: tab' => if Nat.eqb k k' && name_eqb s s' then Some b else tab_str2 tab' k s
  end.
Fixpoint tab_path2 (tab : list (nat * path * option bool)) (k : nat) (s : path) : option (option bool) :=
  match tab with
  | [] => None
  | (k', s', b) :: tab' => if Nat.eqb k k' && path_eqb s s' then Some b else tab_path2 tab' k s
  end.

Definition verdict_eqb (a b : verdict) : bool :=
  match a, b with
  | VPass, VPass | VFail, VFail | VHardError, VHardError | VValidationError, VValidationError
  | VMiss, VMiss | VFuel, VFuel => true
  | _, _ => false
  end.

Definition id_order : path -> dirc -> dirc := fun _ l => l.

Definition mc_oracles (c : mcase) : oracles :=
  Oracles (tab_str (mc_glob_str c)) (tab_path (mc_glob_path c)) (tab_str (mc_re_str c)) (tab_path (mc_re_path c))
          (tab_str2 (mc_text c)) (tab_path2 (mc_run c)) (tab_path (mc_linkerr c) 0).

Definition check_mcase (c : mcase) : bool * bool :=
  let O := mc_oracles c in
  let model := run_assert id_order O (mc_root_name c) (mc_root c) (mc_matcher c) in
  ( verdict_eqb model (mc_verdict c),
    if fm_valid (mc_matcher c)
    then match sem_fm O (mc_matcher c) (root_elem (mc_root c) [mc_root_name c]) with
         | Some true => verdict_eqb (mc_verdict c) VPass
         | Some false => verdict_eqb (mc_verdict c) VFail
         | None => (* the manual prescribes HARD_ERROR for a file that is consulted; a lazy
                      evaluation may also have reached a verdict before it *)
             verdict_eqb (mc_verdict c) VHardError || verdict_eqb (mc_verdict c) VPass
             || verdict_eqb (mc_verdict c) VFail
         end
    else true ).

(** ** Round-trip case: instructions that populate directory [rc_dir] (the run passed), followed in
    the same test case by  [dir-contents DIR : -recursive matches -full { PATH : type TYPE ... }]
    where the condition lists every file found in DIR afterwards.  Observed: the verdict. *)
Record rcase := RCase {
  rc_instrs : list instr;
  rc_dir : name;
  rc_cond : fcond;
  rc_verdict : verdict }.

Definition no_oracles : oracles :=
  Oracles (fun _ _ => None) (fun _ _ => None) (fun _ _ => None) (fun _ _ => None) (fun _ _ => None) (fun _ _ => None)
          (fun _ => None).

Definition check_rcase (c : rcase) : bool * bool :=
  match run_instrs (rc_instrs c) (Dir []) with
  | (t, SPass) =>
      match get [rc_dir c] t with
      | Some sub =>
          let m := FDirContents (Rec None None) (SMatches true (rc_cond c)) in
          let rels := map e_rel (listing sub [] [rc_dir c]) in
          ( verdict_eqb (run_assert id_order no_oracles (rc_dir c) sub m) (rc_verdict c),
            (* the condition names exactly the files of the populated directory, and it holds *)
            Nat.eqb (length (fc_names (rc_cond c))) (length rels)
            && forallb (fun r => mem_path r (fc_names (rc_cond c))) rels
            && verdict_eqb (rc_verdict c) VPass )
      | None => (false, false)
      end
  | _ => (false, false)
  end.

Inductive case := CP (c : pcase) | CM (c : mcase) | CR (c : rcase).
Definition check_case (c : case) : bool * bool :=
  match c with CP c => check_pcase c | CM c => check_mcase c | CR c => check_rcase c end.

(** Whether the declarative semantics is defined (statistics of the run). *)
Definition sem_defined (c : mcase) : bool :=
  match sem_fm (mc_oracles c) (mc_matcher c) (root_elem (mc_root c) [mc_root_name c]) with
  | Some _ => true
  | None => false
  end.
