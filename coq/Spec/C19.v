(** Declarative specification of C19 (timeouts), the case types of the correspondence check and
    the property predicate evaluated on the implementation's OBSERVED behaviour.

    Reading of the statement:
      (a) every OS process started on behalf of the test case is given the timeout IN FORCE when it
          is started: the value set by the last [timeout] instruction whose main step has run, else
          the default; [timeout = none] lifts the limit only from that point on;
      (b) a process that needs longer than that limit is terminated and the step that started it
          is reported as HARD_ERROR (nothing else of that phase runs);
      (c) cleanup still runs, the sandbox is removed;
      (d) after an expiry only cleanup runs, so Exactly returns within a bounded time. *)
From Coq Require Import List Bool Arith NArith.
From Exactly Require Import Lib.Harness Model.Outcome Model.Exec Model.World Model.Timeout Spec.C01.
Import ListNotations.

(** ** (a) The timeout in force, read off a trace: fold over the main steps that have run. *)
Definition instr_at (tc : tcase) (p : phase) (idx : nat) : option tinstr := nth_error (tinstrs_of tc p) idx.

Definition force_after (tc : tcase) (cur : tmo) (x : tev) : tmo :=
  match x with
  | TEv (EInstr p SMain idx _) => match instr_at tc p idx with Some (TSet v) => v | _ => cur end
  | _ => cur
  end.
(** [in_force tc pre]: the value of the last [timeout] instruction whose main is in [pre], else the default. *)
Definition in_force (tc : tcase) (pre : list tev) : tmo := fold_left (force_after tc) pre (t_default tc).

Definition tmo_eqb (a b : tmo) : bool := option_eqb N.eqb a b.

(** every call in the trace is handed the timeout in force at its position *)
Fixpoint calls_in_force (tc : tcase) (cur : tmo) (t : list tev) : bool :=
  match t with
  | [] => true
  | TCall c :: t' => tmo_eqb (c_timeout c) cur && calls_in_force tc cur t'
  | x :: t' => calls_in_force tc (force_after tc cur x) t'
  end.

Definition is_call (x : tev) : bool := match x with TCall _ => true | _ => false end.
Definition is_expired_call (x : tev) : bool :=
  match x with TCall c => expires (c_timeout c) (c_dur c) | _ => false end.
Definition is_main_ev (x : tev) : bool :=
  match x with TEv (EInstr _ (SMain | SExecute) _ _) => true | _ => false end.
Definition is_cleanup_main_ev (x : tev) : bool :=
  match x with TEv (EInstr Cleanup SMain _ _) => true | _ => false end.

(** ** What the harness observes of one real execution *)
Record ocall := OCall { oc_phase : phase; oc_idx : nat; oc_timeout : tmo }.
Definition failure3 := (phase * nat * fail_status)%type.
Record c19_obs := C19Obs {
  o_calls : list ocall;                (* processes started (site = phase, instruction index), timeout handed over *)
  o_failure : option failure3;         (* reported failing phase, instruction, status; None = PASS *)
  o_sandbox_left : bool }.             (* a sandbox directory exists after the run *)

Definition fail_status_eqb (a b : fail_status) : bool :=
  match a, b with
  | FSyntax, FSyntax | FValidation, FValidation | FFail, FFail | FHard, FHard | FInternal, FInternal => true
  | _, _ => false
  end.
Definition failure3_eqb (a b : failure3) : bool :=
  phase_eqb (fst (fst a)) (fst (fst b)) && Nat.eqb (snd (fst a)) (snd (fst b)) && fail_status_eqb (snd a) (snd b).
Definition ocall_eqb (chk : bool) (a b : ocall) : bool :=
  phase_eqb (oc_phase a) (oc_phase b) && Nat.eqb (oc_idx a) (oc_idx b) &&
  (negb chk || tmo_eqb (oc_timeout a) (oc_timeout b)).
Definition obs_eqb (chk : bool) (a b : c19_obs) : bool :=
  list_eqb (ocall_eqb chk) (o_calls a) (o_calls b) && option_eqb failure3_eqb (o_failure a) (o_failure b) &&
  Bool.eqb (o_sandbox_left a) (o_sandbox_left b).

(** ** The reference semantics, as expectations on the observation.
    Walk the instructions in the fixed order; at every process start site the next observed
    process must be that site's, with the timeout in force ([chk]: timeouts were observed);
    a process that needs longer than the limit makes its instruction a HARD_ERROR and ends the
    phase sequence; then cleanup; nothing else may have been started. *)
Fixpoint expect_spawns (chk : bool) (p : phase) (idx : nat) (cur : tmo) (ds : list N) (oc : list ocall)
  : option (list ocall * bool) :=
  match ds with
  | [] => Some (oc, false)
  | d :: ds' =>
      match oc with
      | [] => None
      | c :: oc' =>
          if ocall_eqb chk c (OCall p idx cur) then
            if expires cur d then Some (oc', true) else expect_spawns chk p idx cur ds' oc'
          else None
      end
  end.

Record walk := Walk { w_cur : tmo; w_stdin : option N; w_rest : list ocall; w_fail : option failure3 }.

Fixpoint expect_list (chk : bool) (p : phase) (idx : nat) (cur : tmo) (stdin : option N) (is_ : list tinstr)
  (oc : list ocall) : option walk :=
  match is_ with
  | [] => Some (Walk cur stdin oc None)
  | TSet v :: is' => expect_list chk p (S idx) v stdin is' oc
  | TStdin d :: is' => expect_list chk p (S idx) cur (Some d) is' oc
  | TPlain b :: is' =>
      match outcome b with
      | Some s => Some (Walk cur stdin oc (Some (p, idx, s)))
      | None => expect_list chk p (S idx) cur stdin is' oc
      end
  | TSpawn ds :: is' =>
      match expect_spawns chk p idx cur ds oc with
      | None => None
      | Some (oc', true) => Some (Walk cur stdin oc' (Some (p, idx, FHard)))
      | Some (oc', false) => expect_list chk p (S idx) cur stdin is' oc'
      end
  end.

(** cleanup: all of it (until its own first failure); its failure is reported instead of an earlier
    one, except after a failure of before-assert ([swallow]). *)
Definition expect_cleanup (chk : bool) (tc : tcase) (cur : tmo) (oc : list ocall) (first : option failure3)
  (swallow : bool) (o : c19_obs) : bool :=
  match expect_list chk Cleanup 0 cur None (t_cleanup tc) oc with
  | None => false
  | Some w =>
      match w_rest w with [] => true | _ => false end &&
      option_eqb failure3_eqb (o_failure o)
        (if swallow then first else match w_fail w with Some f => Some f | None => first end)
  end.

Definition P_C19 (chk keep : bool) (tc : tcase) (o : c19_obs) : bool :=
  (* never waits indefinitely: there is a finite default *)
  match t_default tc with Some _ => true | None => false end &&
  (* the sandbox is removed (unless --keep) *)
  Bool.eqb (o_sandbox_left o) keep &&
  match expect_list chk Setup 0 (t_default tc) None (t_setup tc) (o_calls o) with
  | None => false
  | Some w1 =>
      match w_fail w1 with
      | Some f => expect_cleanup chk tc (w_cur w1) (w_rest w1) (Some f) false o
      | None =>
          let act_ds := (if t_act_uses_stdin tc then match w_stdin w1 with Some d => [d] | None => [] end else [])
                        ++ t_act tc in
          match expect_spawns chk Act 0 (w_cur w1) act_ds (w_rest w1) with
          | None => false
          | Some (oc2, true) => expect_cleanup chk tc (w_cur w1) oc2 (Some (Act, 0, FHard)) false o
          | Some (oc2, false) =>
              if t_act_only tc then expect_cleanup chk tc (w_cur w1) oc2 None false o
              else
                match expect_list chk BeforeAssert 0 (w_cur w1) None (t_before_assert tc) oc2 with
                | None => false
                | Some w3 =>
                    match w_fail w3 with
                    | Some f => expect_cleanup chk tc (w_cur w3) (w_rest w3) (Some f) true o
                    | None =>
                        match expect_list chk Assert 0 (w_cur w3) None (t_assert tc) (w_rest w3) with
                        | None => false
                        | Some w4 => expect_cleanup chk tc (w_cur w4) (w_rest w4) (w_fail w4) false o
                        end
                    end
                end
          end
      end
  end.

(** ** The model's observation *)
Definition ocall_of (c : call) : ocall := OCall (c_phase c) (c_idx c) (c_timeout c).
Definition failure3_of (f : failure) : failure3 := (f_phase f, f_idx f, f_status f).
Definition model_obs (keep : bool) (tc : tcase) : c19_obs :=
  let (t, r) := texecute tc in
  C19Obs (map ocall_of (calls_of t)) (option_map failure3_of (pr_failure r)) (sandbox_left keep tc).

(** ** Case of the in-process correspondence run (timeouts observed at Popen.wait, no sleeping) *)
Record c19_case := C19Case { k_tc : tcase; k_keep : bool; k_obs : c19_obs }.
Definition check_c19 (c : c19_case) : bool * bool :=
  (obs_eqb true (model_obs (k_keep c) (k_tc c)) (k_obs c), P_C19 true (k_keep c) (k_tc c) (k_obs c)).

(** ** Case of a real run (children really sleep): the timeouts are not observed, their effects
    are; plus wall clock (milliseconds) and liveness of the children afterwards. *)
Definition slack_ms : N := 10000.  (* start-up of the interpreters (Exactly, children) + parsing + process creation, on a loaded machine *)
Record c19_real := C19Real { r_tc : tcase; r_keep : bool; r_obs : c19_obs; r_wall_ms : N; r_children_dead : bool }.
Definition check_c19_real (c : c19_real) : bool * bool :=
  let waits := total_wait (calls_of (fst (texecute (r_tc c)))) in
  (obs_eqb false (model_obs (r_keep c) (r_tc c)) (r_obs c),
   P_C19 false (r_keep c) (r_tc c) (r_obs c) && r_children_dead c &&
   N.leb (r_wall_ms c) (1000 * waits + slack_ms)).

(** ** Case run as part of [exactly suite ROOT]: the reporter shows the status of each case only, not
    the failing phase / instruction.  The timeouts handed to the processes are observed as in
    [check_c19]; the failing step is taken from the model when (and only when) the observed STATUS is
    the model's, so that the reference semantics can be evaluated on the observed processes. *)
Definition status_of (f : option failure3) : option fail_status := option_map snd f.
Definition check_c19_status (c : c19_case) : bool * bool :=
  let m := model_obs (k_keep c) (k_tc c) in
  let o := k_obs c in
  let same_status := option_eqb fail_status_eqb (status_of (o_failure m)) (status_of (o_failure o)) in
  (list_eqb (ocall_eqb true) (o_calls m) (o_calls o) && same_status &&
   Bool.eqb (o_sandbox_left m) (o_sandbox_left o),
   P_C19 true (k_keep c) (k_tc c)
         (C19Obs (o_calls o) (if same_status then o_failure m else o_failure o) (o_sandbox_left o))).

(** ** The test-case status ([conf] status = PASS | FAIL | SKIP).  The status REPORTED for a case is
    [Outcome.translate_status mode (status of the failing step)]: an expiry must be reported
    HARD_ERROR whatever the mode ([translate_status TFail (Some FHard) = HARD_ERROR]; only an assertion
    FAIL becomes XFAIL, only "no failure" becomes XPASS).  The harness hands over the identifier exactly
    as printed ([None]: --act without failure prints none); it is decoded here by inverting
    [translate_status] for the mode; an identifier that the mode cannot produce is a failure of both
    checks.  With SKIP nothing of the case runs: no process, no sandbox, SKIPPED. *)
Definition decode_ident (mode : Outcome.tc_status) (act_only : bool) (i : option full_status) : option (option fail_status) :=
  match i with
  | None => if act_only then Some None else None
  | Some PASS => match mode with TFail => None | _ => Some None end
  | Some XPASS => match mode with TFail => Some None | _ => None end
  | Some XFAIL => match mode with TFail => Some (Some FFail) | _ => None end
  | Some FAIL => match mode with TFail => None | _ => Some (Some FFail) end
  | Some HARD_ERROR => Some (Some FHard)
  | Some INTERNAL_ERROR => Some (Some FInternal)
  | Some VALIDATION_ERROR => Some (Some FValidation)
  | Some SYNTAX_ERROR => Some (Some FSyntax)
  | Some SKIPPED => None
  end.

Record c19_moded := C19Moded {
  md_mode : Outcome.tc_status;
  md_tc : tcase;
  md_keep : bool;
  md_calls : list ocall;
  md_site : option (phase * nat);      (* failing phase / instruction as reported (not by the suite reporter) *)
  md_ident : option full_status;       (* the exit identifier as printed *)
  md_sandbox_left : bool;
  md_status_only : bool }.             (* run by [exactly suite]: only the status is reported *)

Definition moded_obs (c : c19_moded) : option c19_obs :=
  match decode_ident (md_mode c) (t_act_only (md_tc c)) (md_ident c) with
  | None => None
  | Some st =>
      Some (C19Obs (md_calls c)
                   match st, md_site c with
                   | None, _ => None
                   | Some s, Some (p, i) => Some (p, i, s)
                   | Some s, None => Some (Setup, 0, s)
                   end
                   (md_sandbox_left c))
  end.

Definition check_c19_moded (c : c19_moded) : bool * bool :=
  match md_mode c with
  | TSkip =>
      let ok := match md_calls c with [] => true | _ => false end &&
                match md_ident c with Some SKIPPED => true | _ => false end && negb (md_sandbox_left c) in
      (ok, ok)
  | _ =>
      match moded_obs c with
      | None => (false, false)
      | Some o =>
          if md_status_only c then check_c19_status (C19Case (md_tc c) (md_keep c) o)
          else check_c19 (C19Case (md_tc c) (md_keep c) o)
      end
  end.

Record c19_real_moded := C19RealM { rm_case : c19_moded; rm_wall_ms : N; rm_children_dead : bool }.
Definition check_c19_real_moded (r : c19_real_moded) : bool * bool :=
  let c := rm_case r in
  match md_mode c with
  | TSkip => check_c19_moded c
  | _ => match moded_obs c with
         | None => (false, false)
         | Some o => check_c19_real (C19Real (md_tc c) (md_keep c) o (rm_wall_ms r) (rm_children_dead r))
         end
  end.
