(** Specification side of C14 - "a text has one value however it is consumed" - and the boolean
    predicates the correspondence check evaluates on the implementation's observed behaviour.

    The specification is independent of the access machinery: a source expression DENOTES one
    text ([den]); the property says that every way of consuming the source - as a whole string,
    line by line, as a file; before or after freezing; whatever the memory buffer size - shows
    exactly that text, divided into lines the way a text is divided into lines ([lines_lf]:
    after each "\n"). *)
From Coq Require Import NArith List Bool.
From Exactly Require Import Lib.Harness Lib.Text Model.StrSrc.
Import ListNotations.
Local Open Scope N_scope.

(** ** The value of a source expression (the state fields of the tree are ignored) *)
Fixpoint den (x : src) : text :=
  match x with
  | SStr s => s                                   (* a literal is its characters *)
  | SFile r => read_text r                        (* a text file / program output is what a text-mode read gives *)
  | SProg _ g _ ins => read_text (g 0%nat (concat (map den ins)))   (* the program's output for the text on its stdin
                                                                    (of its first run, if it differs from run to run) *)
  | SLines f _ _ _ u => concat (f (lines_lf (den u)))    (* a transformer works on the lines of the operand's text *)
  | SFilter f _ u => concat (f (lines_lf (den u)))
  | SRun g _ u => read_text (g (den u))           (* the program reads the text as a file, its output is read as a text file *)
  | SConcat _ ps => concat (map den ps)
  end.

(** ** What one observation must be, given the text [t] the source denotes *)
Definition obs_ok (t : text) (o : obs) : bool :=
  match o with
  | OStr s => text_eqb s t                        (* the characters *)
  | OLines ls => lines_eqb ls (lines_lf t)        (* the division into lines *)
  | OFile (FText r) => text_eqb r t               (* the file holds exactly the characters of the text *)
  | OFile (FBytes _) => false                     (* ... not bytes that are no text at all *)
  | ODep _ => true
  | OWritten (FText r) => text_eqb r t            (* write_to writes exactly the characters of the text *)
  | OWritten (FBytes _) => false
  | OFrozen => true
  | OExc => false                                 (* consuming the text must not fail *)
  end.

Definition obs_eqb (a b : obs) : bool :=
  match a, b with
  | OStr s, OStr s' => text_eqb s s'
  | OLines l, OLines l' => lines_eqb l l'
  | OFile (FText r), OFile (FText r') => text_eqb r r'
  | OFile (FBytes r), OFile (FBytes r') => text_eqb r r'
  | ODep _, ODep _ => true        (* an internal hint, not part of the text: not compared *)
  | OWritten (FText r), OWritten (FText r') => text_eqb r r'
  | OWritten (FBytes r), OWritten (FBytes r') => text_eqb r r'
  | OFrozen, OFrozen => true
  | OExc, OExc => true
  | _, _ => false
  end.

(** ** Matchers: the verdict is a function of the TEXT of the model *)
Definition sem_t (tr : trans) (t : text) : text := den (transform tr (SStr t)).

Fixpoint sem_m (m : smatcher) (t : text) : bool :=
  match m with
  | MNumLines c n => cmp_eval c (N.of_nat (length (lines_lf t))) n
  | MEmpty => match t with [] => true | _ => false end
  | MEquals e => text_eqb (den e) t
  | MNeg m1 => negb (sem_m m1 t)
  | MConj m1 m2 => sem_m m1 t && sem_m m2 t
  | MDisj m1 m2 => sem_m m1 t || sem_m m2 t
  | MOnTrans tr m1 => sem_m m1 (sem_t tr t)
  end.

(** The ways of writing one assertion that must give one verdict: M, ( M && M ), ( M || M ),
    M with the operand wrapped in [identity]. *)
Definition variants (m : smatcher) : list smatcher :=
  [m; MConj m m; MDisj m m; MOnTrans (TAtom TId) m].

Definition obool_eqb (a b : option bool) : bool := option_eqb Bool.eqb a b.

(** all verdicts are proper verdicts (nothing raised) and equal *)
Definition verdicts_agree (vs : list (option bool)) : bool :=
  match vs with
  | [] => false
  | None :: _ => false
  | Some v :: vs' => forallb (obool_eqb (Some v)) vs'
  end.

(** The three kinds of source a text can come from: a literal, a file, the output of a program -
    captured from stdout/stderr through the descriptor ([PFd]) or through a file of its own ([PFile]),
    the program printing the text itself or copying it from its stdin ([sin]). *)
Definition prog_kind (k : pkind) (sin : bool) (t : text) : src :=
  if sin then SProg k (det g_cat) cs0 [SStr t] else SProg k (det (g_const t)) cs0 [].
Definition kinds (k : pkind) (sin : bool) (t : text) : list src := [SStr t; SFile t; prog_kind k sin t].

Definition kind_verdicts (k : pkind) (sin : bool) (b extra : N) (te ta : text) (tr : option trans) : list (option bool) :=
  flat_map (fun e => map (fun x => fst (m_eval b extra (MEquals e) (build x tr))) (kinds k sin ta)) (kinds k sin te).

(** ** Sources whose program prints something different at every run
    Before freezing such a source has no single text.  freeze() guarantees that the contents is generated once
    and shared by all getters: every view taken AFTER the freeze shows one and the same text, whatever the order
    of consumption (as_str, as_lines, as_file, write_to). *)
Definition obs_text (o : obs) : option text :=
  match o with
  | OStr s => Some s
  | OLines ls => Some (concat ls)
  | OFile (FText r) => Some r
  | OWritten (FText r) => Some r
  | _ => None
  end.
Definition is_view (o : obs) : bool := match o with ODep _ | OFrozen => false | _ => true end.

Fixpoint after_freeze (os : list obs) : list obs :=
  match os with
  | [] => []
  | OFrozen :: os' => os'
  | _ :: os' => after_freeze os'
  end.

Definition one_text_after_freeze (os : list obs) : bool :=
  match filter is_view (after_freeze os) with
  | [] => true
  | o :: os' =>
      match obs_text o with
      | Some t => forallb (obs_ok t) (o :: os')
      | None => false
      end
  end.

(** ** Cases of the correspondence check *)
Inductive case :=
| CaseAccess (base : src) (t : option trans) (b : N) (accs : list access) (observed : list obs)
    (* the source [build base t] was created with mem_buff_size [b], accessed by [accs] in
       order; [observed] is what the real objects returned *)
| CaseAccessND (base : src) (t : option trans) (b : N) (accs : list access) (observed : list obs)
    (* the same for a source with a program that prints something different at every run *)
| CaseVerdict (base : src) (t : option trans) (b extra : N) (m : smatcher) (observed : list (option bool))
    (* the real verdicts ([None] = raised) of the [variants] of [m], each applied to a fresh source *)
| CaseKinds (k : pkind) (sin : bool) (te ta : text) (tr : option trans) (b extra : N) (observed : list (option bool)).
    (* the real verdicts of [equals EXPECTED] for expected text [te] and actual text [ta] (transformed
       by [tr]), each coming from a literal, a file, a program's output: 9 pairs *)

Definition check_case (c : case) : bool * bool :=
  match c with
  | CaseAccess base t b accs observed =>
      let x := build base t in
      ( list_eqb obs_eqb (fst (run b accs x)) observed,
        Nat.eqb (length observed) (length accs) && forallb (obs_ok (den x)) observed )
  | CaseAccessND base t b accs observed =>
      let x := build base t in
      ( list_eqb obs_eqb (fst (run b accs x)) observed,
        Nat.eqb (length observed) (length accs) && one_text_after_freeze observed )
  | CaseVerdict base t b extra m observed =>
      let x := build base t in
      ( list_eqb obool_eqb (map (fun m' => fst (m_eval b extra m' x)) (variants m)) observed,
        Nat.eqb (length observed) (length (variants m)) && verdicts_agree observed )
  | CaseKinds k sin te ta tr b extra observed =>
      ( list_eqb obool_eqb (kind_verdicts k sin b extra te ta tr) observed,
        Nat.eqb (length observed) 9 && verdicts_agree observed )
  end.
