(** Property C09 — specification side.

    Part 1: the documented string syntax, read from the reference manual (syntax elements STRING,
    RICH-STRING, SYMBOL-REFERENCE, LIST) and the property statement, written WITHOUT looking at how
    the implementation tokenises: a string is described by its STRUCTURE (a list of differently
    quoted fragments, a text-until-end-of-line, a here-document; a line is a list of such tokens
    with separators), [render_*] writes the structure as source text, [chars_*] / [denote*] say
    which characters it denotes.

    Part 2: the case types of the correspondence check and [check_case].  *)
From Coq Require Import NArith List Bool Arith.
From Exactly Require Import Lib.Harness Model.Tok.
Import ListNotations.
Local Open Scope N_scope.

(** * Part 1: the documented syntax *)

(** ** Fragments and tokens *)
Inductive qfrag :=
| Naked (cs : text)     (* CHARACTER...        : no white space, no quote characters, not empty *)
| Soft (cs : text)      (* "CHARACTER..."      : anything but the soft quote *)
| Hard (cs : text).     (* 'CHARACTER...'      : anything but the hard quote *)

(** A string token: fragments "side by side (without intervening white space)" *)
Definition stoken := list qfrag.

Definition render_frag (f : qfrag) : text :=
  match f with
  | Naked cs => cs
  | Soft cs => DQ :: cs ++ [DQ]
  | Hard cs => SQ :: cs ++ [SQ]
  end.
Definition chars_frag (f : qfrag) : text := match f with Naked cs | Soft cs | Hard cs => cs end.
Definition render_tok (t : stoken) : text := concat (map render_frag t).
Definition chars_tok (t : stoken) : text := concat (map chars_frag t).

(** white space in the sense of the manual: what Python (Unicode) calls white space; the
    separators the generator writes between tokens are the four ASCII ones *)
Definition is_sep (c : N) : bool := (c =? 32) || (c =? 9) || (c =? 13) || (c =? 10).
Definition is_sep_no_nl (c : N) : bool := (c =? 32) || (c =? 9) || (c =? 13).
Definition naked_char (c : N) : bool := negb (py_isspace c) && negb (c =? DQ) && negb (c =? SQ).

Definition wf_frag (f : qfrag) : bool :=
  match f with
  | Naked cs => nonempty cs && forallb naked_char cs
  | Soft cs => negb (existsb (N.eqb DQ) cs)
  | Hard cs => negb (existsb (N.eqb SQ) cs)
  end.
Definition wf_tok (t : stoken) : bool := nonempty t && forallb wf_frag t.

(** a token whose first character is a quote is a quoted token: it is never a reserved word,
    an option or a here-document marker *)
Definition tok_quoted (t : stoken) : bool := match t with Naked _ :: _ => false | _ => true end.

(** ** A sequence of tokens with separators *)
Definition sitems := list (stoken * text).    (* token, the white space after it *)

Fixpoint wf_items (l : sitems) : bool :=
  match l with
  | [] => true
  | [(t, s)] => wf_tok t && forallb is_sep s
  | (t, s) :: l' => wf_tok t && nonempty s && forallb is_sep s && wf_items l'
  end.
Definition render_items (l : sitems) : text := concat (map (fun ts => render_tok (fst ts) ++ snd ts) l).

(** what the tokeniser has to deliver for one token: quoted?, the characters, the source text *)
Definition spec_tokens (l : sitems) : list (bool * text * text) :=
  map (fun ts => (tok_quoted (fst ts), chars_tok (fst ts), render_tok (fst ts))) l.

(** an unterminated quote: [pre] well-formed fragments, then quote [q] and characters without [q]
    up to the end of the source *)
Record unterminated := Unterm { u_pre : stoken; u_q : N; u_cs : text }.
Definition render_unterm (u : unterminated) : text := render_tok (u_pre u) ++ u_q u :: u_cs u.
Definition wf_unterm (u : unterminated) : bool :=
  forallb wf_frag (u_pre u) && is_quote (u_q u) && negb (existsb (N.eqb (u_q u)) (u_cs u)).

(** ** Symbol references: @[NAME]@, NAME a non-empty sequence of alphanumerics and underscores *)
Section SpecWithAlnum.
  Variable alnum : N -> bool.
  Definition ident_char (c : N) : bool := alnum c || (c =? 95).
  Definition is_name (n : text) : Prop := n <> [] /\ Forall (fun c => ident_char c = true) n.
  Definition ref_text (n : text) : text := [AT; LBR] ++ n ++ [RBR; AT].

  (** a reference is written at offset [p] of [s] *)
  Definition occurs_at (s : text) (p : nat) : Prop :=
    exists n post, is_name n /\ (p <= length s)%nat /\ skipn p s = ref_text n ++ post.

  (** The decomposition of a text into constants and references, from left to right: the first
      reference is the leftmost one written in the text; what precedes it is a constant. *)
  Inductive Decomp : text -> list fragment -> Prop :=
  | D_nil : Decomp [] []
  | D_const : forall s, s <> [] -> (forall p, ~ occurs_at s p) -> Decomp s [FConst s]
  | D_ref0 : forall n post frs,
      is_name n -> Decomp post frs -> Decomp (ref_text n ++ post) (FSym n :: frs)
  | D_ref : forall pre n post frs,
      pre <> [] -> is_name n ->
      (forall p, (p < length pre)%nat -> ~ occurs_at (pre ++ ref_text n ++ post) p) ->
      Decomp post frs -> Decomp (pre ++ ref_text n ++ post) (FConst pre :: FSym n :: frs).

  (** the same as a program (used to evaluate the property on observed behaviour): look at every
      position from the left; [ref_split_Decomp] in Proofs/TokSplit.v shows it computes [Decomp] *)
  Fixpoint span_ident (s : text) : text * text :=
    match s with
    | c :: s' => if ident_char c then let '(n, r) := span_ident s' in (c :: n, r) else ([], s)
    | [] => ([], [])
    end.
  Definition ref_here (s : text) : option (text * text) :=
    match s with
    | a :: b :: s1 =>
        if (a =? AT) && (b =? LBR) then
          match span_ident s1 with
          | ((_ :: _) as n, c :: d :: r) => if (c =? RBR) && (d =? AT) then Some (n, r) else None
          | _ => None
          end
        else None
    | _ => None
    end.
  Definition flush (acc : text) : list fragment := match acc with [] => [] | _ => [FConst acc] end.
  Fixpoint ref_split_go (fuel : nat) (acc : text) (s : text) : list fragment :=
    match fuel with
    | O => []
    | S fuel' =>
        match s with
        | [] => flush acc
        | c :: s' =>
            match ref_here s with
            | Some (n, r) => flush acc ++ FSym n :: ref_split_go fuel' [] r
            | None => ref_split_go fuel' (acc ++ [c]) s'
            end
        end
    end.
  Definition ref_split (s : text) : list fragment := ref_split_go (S (length s)) [] s.

  (** ** Substitution *)
  Definition env := list (text * text).
  Fixpoint lookup (e : env) (n : text) : option text :=
    match e with
    | [] => None
    | (k, v) :: e' => if text_eqb k n then Some v else lookup e' n
    end.
  Fixpoint resolve (e : env) (frs : list fragment) : option text :=
    match frs with
    | [] => Some []
    | f :: frs' =>
        match (match f with FConst s => Some s | FSym n => lookup e n end), resolve e frs' with
        | Some a, Some b => Some (a ++ b)
        | _, _ => None
        end
    end.
  (** the text with every symbol reference replaced by the symbol's value *)
  Definition subst (e : env) (s : text) : option text := resolve e (ref_split s).

  Definition is_hard (f : qfrag) : bool := match f with Hard _ => true | _ => false end.

  (** "symbol references substituted everywhere except inside hard quotes".
      Reading A: hard-quoted characters are literal; all other characters of the token, joined
      across fragment boundaries, are subject to substitution. *)
  Fixpoint soft_runs (t : stoken) (cur : text) : list (bool * text) :=
    match t with
    | [] => match cur with [] => [] | _ => [(false, cur)] end
    | Hard cs :: t' => (match cur with [] => [] | _ => [(false, cur)] end) ++ (true, cs) :: soft_runs t' []
    | Naked cs :: t' | Soft cs :: t' => soft_runs t' (cur ++ cs)
    end.
  Fixpoint denote_runs (e : env) (rs : list (bool * text)) : option text :=
    match rs with
    | [] => Some []
    | (hard, cs) :: rs' =>
        match (if hard then Some cs else subst e cs), denote_runs e rs' with
        | Some a, Some b => Some (a ++ b)
        | _, _ => None
        end
    end.
  Definition denoteA (e : env) (t : stoken) : option text := denote_runs e (soft_runs t []).
  (** Reading B: substitution fragment by fragment (a reference must lie within one fragment). *)
  Definition denoteB (e : env) (t : stoken) : option text :=
    denote_runs e (map (fun f => (is_hard f, chars_frag f)) t).
  (** The two readings differ only on references written across a fragment boundary, which the
      manual does not speak about: the property predicate accepts both. *)
  Definition denotes (e : env) (t : stoken) (observed : text) : bool :=
    option_eqb text_eqb (denoteA e t) (Some observed) || option_eqb text_eqb (denoteB e t) (Some observed).

  (** all fragments are hard-quoted, or none is: every reading and the implementation agree *)
  Definition uniform_quoting (t : stoken) : bool := forallb is_hard t || forallb (fun f => negb (is_hard f)) t.

  (** ** Reserved words: "To use any of them as a string, it must be quoted." *)
  Definition spec_reserved : list text :=
    [[40]; [41]; [91]; [93]; [123]; [125]; [61]; [124]; [58]; [33]; [38; 38]; [124; 124]].
  Definition all_naked (t : stoken) : bool := forallb (fun f => match f with Naked _ => true | _ => false end) t.
  Definition is_reserved_word (t : stoken) : bool := all_naked t && existsb (text_eqb (chars_tok t)) spec_reserved.

  (** ** RICH-STRING *)
  Inductive heredoc_end :=
  | HEnd (after : option text)        (* MARKER line present; [Some a]: followed by new-line and [a] *)
  | HMissing (last : option text).    (* no MARKER line; [Some l]: a last line without new-line *)

  Inductive rich :=
  | RPlain (items : sitems) (u : option unterminated)   (* STRING: the first token *)
  | REol (gap txt : text) (after : option text)         (* :> TEXT-UNTIL-END-OF-LINE *)
  | RHere (marker trail : text) (lines : list text) (e : heredoc_end).

  Definition render_after (after : option text) : text := match after with None => [] | Some a => NL :: a end.
  Definition render_lines (ls : list text) : text := concat (map (fun l => l ++ [NL]) ls).
  Definition render_rich (r : rich) : text :=
    match r with
    | RPlain items u => render_items items ++ match u with None => [] | Some u => render_unterm u end
    | REol gap txt after => [58; 62] ++ gap ++ txt ++ render_after after
    | RHere marker trail lines e =>
        [60; 60] ++ marker ++ trail ++ [NL] ++ render_lines lines ++
        match e with
        | HEnd after => marker ++ render_after after
        | HMissing None => []
        | HMissing (Some l) => l
        end
    end.

  Definition no_nl (s : text) : bool := negb (existsb (N.eqb NL) s).
  Definition marker_char (c : N) : bool :=
    ((48 <=? c) && (c <=? 57)) || ((65 <=? c) && (c <=? 90)) || ((97 <=? c) && (c <=? 122)) || (c =? 95) || (c =? 45).
  Definition last_sep_nonempty (items : sitems) : bool :=
    match rev items with [] => true | (_, s) :: _ => nonempty s end.

  Definition wf_rich (r : rich) : bool :=
    match r with
    | RPlain items u =>
        wf_items items &&
        match u with
        | None => true        (* no token at all: the string is missing *)
        | Some u => wf_unterm u && last_sep_nonempty items
        end
    | REol gap txt after =>
        forallb is_sep_no_nl gap && no_nl txt &&
        (nonempty gap || negb (nonempty txt))
    | RHere marker trail lines e =>
        nonempty marker && forallb marker_char marker && forallb is_sep_no_nl trail &&
        forallb (fun l => no_nl l && negb (text_eqb l marker)) lines &&
        match e with
        | HMissing (Some l) => no_nl l && negb (text_eqb l marker) && nonempty l
        | _ => true
        end
    end.

  (** the first token of a RICH-STRING is an ordinary string: it does not look like a here-document
      start and is not the unquoted marker :> *)
  Definition plain_for_rich (t : stoken) : bool :=
    negb (starts_with_here_doc_prefix (render_tok t)) && (tok_quoted t || negb (text_eqb [58; 62] (chars_tok t))).

  (** What a rich string must give: an error, or a string; [lo..hi] is where the rest of the source
      may begin afterwards (at or after the end of the string's source, before the next token,
      not beyond the end of the line). *)
  Inductive expect :=
  | XFail
  | XTok (t : stoken) (lo hi : nat)        (* denotes as the token [t] *)
  | XText (s : text) (lo hi : nat).        (* denotes [subst env s] *)

  Fixpoint sep_span (s : text) : nat :=     (* separator characters before the first new-line *)
    match s with
    | c :: s' => if c =? NL then 0%nat else S (sep_span s')
    | [] => 0%nat
    end.

  Definition expect_rich (lead : text) (r : rich) : expect :=
    let l0 := length lead in
    match r with
    | RPlain [] _ => XFail
    | RPlain ((t, s) :: _) _ =>
        if is_reserved_word t then XFail
        else let lo := (l0 + length (render_tok t))%nat in XTok t lo (lo + sep_span s)%nat
    | REol gap txt after =>
        let e := (l0 + 2 + length gap + length txt)%nat in
        XText (strip_py txt) (e - (length txt - length (rstrip_py txt)))%nat e
    | RHere marker trail lines (HEnd after) =>
        let e := (l0 + 2 + length marker + length trail + 1 + length (render_lines lines) + length marker)%nat in
        XText (render_lines lines) e e
    | RHere _ _ _ (HMissing _) => XFail
    end.

  (** ** LIST: elements until end of line; a line ending in a lone backslash continues on the next *)
  Inductive litem :=
  | LTok (t : stoken) (sep : text)          (* an element and the white space (no new-line) after it *)
  | LCont (sp1 sp2 : text).                 (* backslash sp1 new-line sp2 *)
  Record slist := SList {
    sl_items : list litem;
    sl_paren : option text;                 (* [Some r]: a ")" and the rest [r] of that line stop the list *)
    sl_after : option text }.               (* [Some a]: new-line and [a] follow *)

  Definition render_litem (i : litem) : text :=
    match i with
    | LTok t sep => render_tok t ++ sep
    | LCont sp1 sp2 => [BSL] ++ sp1 ++ [NL] ++ sp2
    end.
  Definition render_slist (l : slist) : text :=
    concat (map render_litem (sl_items l)) ++
    match sl_paren l with None => [] | Some r => 41 :: r end ++ render_after (sl_after l).

  Definition is_backslash_tok (t : stoken) : bool := text_eqb (render_tok t) [BSL].

  (** separators: non-empty between two things on a line; a lone backslash element must be
      followed by something on its line (else it is the continuation sign) *)
  Fixpoint wf_litems (l : list litem) (end_ok : bool) : bool :=
    match l with
    | [] => true
    | LTok t sep :: l' =>
        wf_tok t && forallb is_sep_no_nl sep &&
        match l' with
        | [] => (nonempty sep || end_ok) && negb (is_backslash_tok t)
        | _ => nonempty sep
        end && wf_litems l' end_ok
    | LCont sp1 sp2 :: l' => forallb is_sep_no_nl sp1 && forallb is_sep_no_nl sp2 && wf_litems l' end_ok
    end.
  Definition list_tokens (l : slist) : list stoken :=
    flat_map (fun i => match i with LTok t _ => [t] | LCont _ _ => [] end) (sl_items l).
  Definition wf_slist (l : slist) : bool :=
    wf_litems (sl_items l) (match sl_paren l with None => true | Some _ => false end) &&
    negb (existsb (fun t => negb (tok_quoted t) && text_eqb (chars_tok t) [41]) (list_tokens l)) &&
    match sl_paren l with
    | None => true
    | Some r => no_nl r && match r with [] => true | c :: _ => is_sep_no_nl c end
    end.

  Definition list_must_fail (l : slist) : bool := existsb is_reserved_word (list_tokens l).

  (** where the rest of the source may begin after the list: not before the end of the last
      element, not after the end of the line (or the parenthesis) *)
  Fixpoint rstrip_seps_len (its : list litem) : nat :=   (* length of the rendering without trailing separators *)
    match its with
    | [] => 0%nat
    | i :: its' =>
        let r := rstrip_seps_len its' in
        match r, i with
        | O, LTok t _ => length (render_tok t)
        | O, LCont sp1 _ => (2 + length sp1)%nat
        | _, _ => (length (render_litem i) + r)%nat
        end
    end.
  Definition list_pos_range (lead : text) (l : slist) : nat * nat :=
    let body := concat (map render_litem (sl_items l)) in
    (match sl_items l with [] => 0%nat | _ => (length lead + rstrip_seps_len (sl_items l))%nat end,
     (length lead + length body)%nat).

  (** ** LIST symbols.  "A non-empty list is rendered by separating the elements with a single space"
      wherever a string is wanted (inside soft quotes, next to other characters); an element of a
      list that is exactly one NAKED reference to a list symbol is replaced by the elements of that
      list ("concatenated with the surrounding elements").  [lsyms] says which symbols are lists; the
      symbol table [env] holds their string rendering. *)
  Definition lsyms := list (text * list text).
  Fixpoint lookup_list (ls : lsyms) (n : text) : option (list text) :=
    match ls with
    | [] => None
    | (k, v) :: ls' => if text_eqb k n then Some v else lookup_list ls' n
    end.
  Fixpoint join_sp (els : list text) : text :=
    match els with
    | [] => []
    | [x] => x
    | x :: els' => x ++ 32 :: join_sp els'
    end.
  Definition lsyms_consistent (e : env) (ls : lsyms) : bool :=
    forallb (fun kv => option_eqb text_eqb (lookup e (fst kv)) (Some (join_sp (snd kv)))) ls.

  (** the written element [t] stands for several elements *)
  Definition splices (ls : lsyms) (t : stoken) : option (list text) :=
    if all_naked t then
      match ref_split (chars_tok t) with
      | [FSym n] => lookup_list ls n
      | _ => None
      end
    else None.

  (** the observed elements / arguments are exactly the written ones *)
  Fixpoint match_elements (e : env) (ls : lsyms) (ts : list stoken) (obs : list text) : bool :=
    match ts with
    | [] => match obs with [] => true | _ => false end
    | t :: ts' =>
        match splices ls t with
        | Some els =>
            Nat.leb (length els) (length obs) && list_eqb text_eqb (firstn (length els) obs) els &&
            match_elements e ls ts' (skipn (length els) obs)
        | None =>
            match obs with
            | o :: obs' => denotes e t o && match_elements e ls ts' obs'
            | [] => false
            end
        end
    end.

  (** program arguments: a list whose elements are rich strings; the cases use ordinary strings
      only (no here-document / :> element) and no path options *)
  Definition arg_option_like : list text :=
    [[45;101;120;105;115;116;105;110;103;45;102;105;108;101];
     [45;101;120;105;115;116;105;110;103;45;100;105;114];
     [45;101;120;105;115;116;105;110;103;45;112;97;116;104]].
  Definition wf_args (l : slist) : bool :=
    wf_slist l &&
    forallb (fun t => plain_for_rich t && negb (negb (tok_quoted t) && existsb (text_eqb (chars_tok t)) arg_option_like))
            (list_tokens l).

  (** ** Several strings within one instruction (FILE-LIST entries, arguments after a rich string ...):
      a sequence of segments read from ONE stream: keyword tokens, strings, text-until-end-of-line
      and here-documents, each followed by white space (after :> text and after a here-document: a
      new-line and more white space). *)
  Inductive sseg :=
  | GTok (t : stoken) (sep : text)                       (* a token that is consumed as it is *)
  | GStr (as_rich : bool) (t : stoken) (sep : text)      (* a STRING (parsed as STRING / as RICH-STRING) *)
  | GEol (gap txt : text) (nxt : option text)            (* :> gap txt [NL nxt] *)
  | GHere (marker trail : text) (lines : list text) (nxt : option text).

  Definition render_seg (g : sseg) : text :=
    match g with
    | GTok t sep | GStr _ t sep => render_tok t ++ sep
    | GEol gap txt nxt => [58; 62] ++ gap ++ txt ++ render_after nxt
    | GHere m tr ls nxt => [60; 60] ++ m ++ tr ++ [NL] ++ render_lines ls ++ m ++ render_after nxt
    end.
  Definition render_segs (l : list sseg) : text := concat (map render_seg l).

  Definition wf_seg (more : bool) (g : sseg) : bool :=
    match g with
    | GTok t sep => wf_tok t && forallb is_sep sep && (negb more || nonempty sep)
    | GStr as_rich t sep =>
        wf_tok t && forallb is_sep sep && (negb more || nonempty sep) && negb (is_reserved_word t) &&
        (negb as_rich || plain_for_rich t)
    | GEol gap txt nxt =>
        forallb is_sep_no_nl gap && no_nl txt && (nonempty gap || negb (nonempty txt)) &&
        match nxt with Some ws => forallb is_sep ws | None => negb more end
    | GHere m tr ls nxt =>
        nonempty m && forallb marker_char m && forallb is_sep_no_nl tr &&
        forallb (fun l => no_nl l && negb (text_eqb l m)) ls &&
        match nxt with Some ws => forallb is_sep ws | None => negb more end
    end.
  Fixpoint wf_segs (l : list sseg) (unterm_follows : bool) : bool :=
    match l with
    | [] => true
    | g :: l' => wf_seg (nonempty l' || unterm_follows) g && wf_segs l' unterm_follows
    end.
End SpecWithAlnum.

(** * Part 2: cases of the correspondence check *)

(** the alnum oracle of one case: the characters of the case for which str.isalnum() is true /
    false.  A character of the case outside both lists is an oracle miss: the case fails. *)
Record oracle := Oracle { al_true : list N; al_false : list N }.
Definition oracle_fn (o : oracle) (c : N) : bool := existsb (N.eqb c) (al_true o).
Definition oracle_covers (o : oracle) (s : text) : bool :=
  forallb (fun c => existsb (N.eqb c) (al_true o) || existsb (N.eqb c) (al_false o)) s &&
  forallb (fun c => negb (existsb (N.eqb c) (al_false o))) (al_true o).

Definition ttype_eqb (a b : ttype) : bool := match a, b with PLAIN, PLAIN | QUOTED, QUOTED => true | _, _ => false end.
Definition exn_eqb (a b : exn) : bool :=
  match a, b with
  | ExTokenSyntax, ExTokenSyntax | ExIndex, ExIndex | ExInvalidArg, ExInvalidArg | ExOutOfFuel, ExOutOfFuel
  | ExOther, ExOther => true
  | _, _ => false
  end.
Definition tokobs_eqb (a b : tokobs) : bool :=
  ttype_eqb (o_type a) (o_type b) && text_eqb (o_string a) (o_string b) && text_eqb (o_source a) (o_source b) &&
  Nat.eqb (o_pos a) (o_pos b) && Nat.eqb (o_tell a) (o_tell b).
Definition ts_end_eqb (a b : ts_end) : bool :=
  match a, b with
  | EndNull p t, EndNull p' t' | EndSyntaxError p t, EndSyntaxError p' t' => Nat.eqb p p' && Nat.eqb t t'
  | EndRaise e, EndRaise e' => exn_eqb e e'
  | _, _ => false
  end.
Definition fragment_eqb (a b : fragment) : bool :=
  match a, b with
  | FConst s, FConst s' | FSym s, FSym s' => text_eqb s s'
  | _, _ => false
  end.

(** the part of an observed token the property speaks about: quoted?, characters, source text *)
Definition obs_core (o : tokobs) : bool * text * text :=
  (match o_type o with QUOTED => true | PLAIN => false end, o_string o, o_source o).

(** what a parser did: fragments of the StringSdv, its value resolved by the implementation with
    the case's symbol table, the position of the stream afterwards; or the exception raised *)
Inductive parse_obs :=
| PObs (frs : list fragment) (resolved : text) (pos : nat)
| PExn (e : exn)
(** end to end ([KFile]): the contents of the file created by  file f.txt = RICH-STRING  and whether
    the instruction on the following line was executed too; or a SYNTAX_ERROR report and whether it
    names the line of that instruction *)
| PFile (contents : text) (next_ok : bool)
| PSyntax (line_ok : bool).

Inductive list_obs :=
| LObs (els : list element) (resolved : list text) (pos : nat)
| LExn (e : exn).

Inductive args_obs :=
| AObs (argv : list text)          (* the probe ran: its arguments *)
| ASyntax (line_ok : bool)         (* SYNTAX_ERROR reported (at the line of the instruction?) *)
| AOther.                          (* anything else *)

Definition element_eqb (a b : element) : bool :=
  match a, b with
  | ESym n, ESym n' => text_eqb n n'
  | EStr f, EStr f' => list_eqb fragment_eqb f f'
  | _, _ => false
  end.

(** one stream, a sequence of operations *)
Inductive sop := OTok | OString | ORich.
Definition op_of (g : sseg) : sop :=
  match g with GTok _ _ => OTok | GStr false _ _ => OString | GStr true _ _ => ORich | GEol _ _ _ | GHere _ _ _ _ => ORich end.

(** what one operation gave: the consumed head token (none if the head was null); the fragments of a
    string and its value as resolved by the implementation *)
Inductive sobs :=
| SoTok (core : option (bool * text * text))
| SoStr (frs : list fragment) (resolved : text).

(** end to end ([dir d = { file a0 = ... NL file a1 = ... NL }]): the contents of the created files *)
Inductive script_e2e := EFiles (contents : list text) (next_ok : bool) | ESyntax (line_ok : bool) | EOther.

Section RunScript.
  Variable al : N -> bool.
  (** the model: the operations one after the other on the stream *)
  Fixpoint run_ops (ops : list sop) (ts : tstream) : list (option (bool * text * text) + list fragment) * option exn :=
    match ops with
    | [] => ([], None)
    | op :: ops' =>
        match op with
        | OTok =>
            match ts_consume ts with
            | Raise ex => ([], Some ex)
            | Ok (hd, ts') =>
                let '(r, ex) := run_ops ops' ts' in
                (inl (match hd with
                      | Some t => Some (match t_type t with QUOTED => true | PLAIN => false end, t_string t, t_source t)
                      | None => None
                      end) :: r, ex)
            end
        | OString =>
            match parse_string al ts with
            | Raise ex => ([], Some ex)
            | Ok (frs, ts') => let '(r, ex) := run_ops ops' ts' in (inr frs :: r, ex)
            end
        | ORich =>
            match rich_string_parse al ts with
            | Raise ex => ([], Some ex)
            | Ok (frs, ts') => let '(r, ex) := run_ops ops' ts' in (inr frs :: r, ex)
            end
        end
    end.

  Definition core_eqb (a b : bool * text * text) : bool :=
    Bool.eqb (fst (fst a)) (fst (fst b)) && text_eqb (snd (fst a)) (snd (fst b)) && text_eqb (snd a) (snd b).

  (** correspondence of one operation *)
  Definition sobs_corr (e : env) (m : option (bool * text * text) + list fragment) (o : sobs) : bool :=
    match m, o with
    | inl c, SoTok c' => option_eqb core_eqb c c'
    | inr frs, SoStr frs' resolved => list_eqb fragment_eqb frs frs' && option_eqb text_eqb (resolve e frs') (Some resolved)
    | _, _ => false
    end.

  (** the documented reading of one segment *)
  Definition seg_value_ok (e : env) (g : sseg) (v : text) : bool :=
    match g with
    | GTok _ _ => false
    | GStr _ t _ => denotes al e t v
    | GEol _ txt _ => option_eqb text_eqb (subst al e (strip_py txt)) (Some v)
    | GHere _ _ ls _ => option_eqb text_eqb (subst al e (render_lines ls)) (Some v)
    end.
  Definition seg_ok (e : env) (g : sseg) (o : sobs) : bool :=
    match g, o with
    | GTok t _, SoTok (Some c) => core_eqb c (tok_quoted t, chars_tok t, render_tok t)
    | GTok _ _, _ => false
    | _, SoStr _ v => seg_value_ok e g v
    | _, SoTok _ => false
    end.
End RunScript.

Inductive pkind := KString | KRich | KFile.

(** [f.txt = ], what precedes the rich string of the end-to-end cases *)
Definition file_arg_prefix : text := [102; 46; 116; 120; 116; 32; 61; 32].

Inductive case :=
(** the whole token sequence of a source; [Some (lead, items, u)]: the source was written from
    this structure *)
| CTokens (src : text) (structure : option (text * sitems * option unterminated))
          (toks : list tokobs) (fin : ts_end)
(** parse_string_sdv / RichStringParser on a stream; [Some (lead, r)]: written from this structure *)
| CParse (k : pkind) (o : oracle) (e : env) (src : text) (structure : option (text * rich)) (obs : parse_obs)
(** parse_list ([is_args = false]) / the program-argument parser ([is_args = true]) at parser level *)
| CList (is_args : bool) (o : oracle) (e : env) (ls : lsyms) (src : text) (structure : option (text * slist * option unterminated))
        (obs : list_obs)
(** end to end: the argument vector a probe program received from  % probe ARG...  *)
| CArgs (via_list : bool) (o : oracle) (e : env) (ls : lsyms) (src : text) (structure : text * slist * option unterminated)
        (obs : args_obs)
(** a sequence of operations on one stream, written from segments (and possibly an unterminated quote
    at the end, read by a last STRING operation) *)
| CScript (o : oracle) (e : env) (src : text) (structure : text * list sseg * option unterminated)
          (obs : list sobs) (ex : option exn)
(** the same end to end: [file d-entry] contents created by  dir d = { ... }  *)
| CScriptE2E (o : oracle) (e : env) (src : text) (structure : text * list sseg * option unterminated) (obs : script_e2e)
(** symbol_syntax.split on a text *)
| CSplit (o : oracle) (s : text) (frs : list fragment).


Definition env_chars (e : env) : text := flat_map (fun kv => fst kv ++ snd kv) e.

Definition in_range (lo hi p : nat) : bool := Nat.leb lo p && Nat.leb p hi.

(** the values an element of a list stands for: a bare reference to a list symbol gives its
    elements, every other element one string *)
Definition resolve_element (e : env) (ls : lsyms) (el : element) : option (list text) :=
  match el with
  | ESym n => match lookup_list ls n with
              | Some els => Some els
              | None => match lookup e n with Some v => Some [v] | None => None end
              end
  | EStr frs => match resolve e frs with Some v => Some [v] | None => None end
  end.
Fixpoint all_some {A} (l : list (option A)) : option (list A) :=
  match l with
  | [] => Some []
  | Some a :: l' => match all_some l' with Some r => Some (a :: r) | None => None end
  | None :: _ => None
  end.

Fixpoint forallb2 {A B} (f : A -> B -> bool) (l : list A) (m : list B) : bool :=
  match l, m with
  | [], [] => true
  | a :: l', b :: m' => f a b && forallb2 f l' m'
  | _, _ => false
  end.

(** an unterminated quote after a list: directly after the items (no parenthesis, nothing else),
    separated from the last element *)
Definition wf_list_unterm (l : slist) (ut : option unterminated) : bool :=
  match ut with
  | None => true
  | Some u =>
      wf_unterm u && match sl_paren l with None => true | Some _ => false end &&
      match sl_after l with None => true | Some _ => false end &&
      match rev (sl_items l) with
      | LTok _ sep :: _ => nonempty sep
      | _ => true
      end
  end.

(** the model results of the rich-string operations only *)
Fixpoint filter_rich {A} (ops : list sop) (ms : list A) : list A :=
  match ops, ms with
  | ORich :: ops', m :: ms' => m :: filter_rich ops' ms'
  | _ :: ops', _ :: ms' => filter_rich ops' ms'
  | _, _ => []
  end.

Definition check_case (c : case) : bool * bool :=
  match c with
  | CTokens src st toks fin =>
      let '(mt, mf) := ts_run src in
      ( list_eqb tokobs_eqb mt toks && ts_end_eqb mf fin &&
        match st with
        | None => true
        | Some (lead, items, u) =>
            text_eqb src (lead ++ render_items items ++ match u with None => [] | Some u => render_unterm u end)
            && forallb is_sep lead && wf_items items
            && match u with None => true | Some u => wf_unterm u && (last_sep_nonempty items) end
        end,
        match st with
        | None => true
        | Some (lead, items, u) =>
            forallb2 (fun (a : tokobs) (b : bool * text * text) =>
                        Bool.eqb (match o_type a with QUOTED => true | PLAIN => false end) (fst (fst b))
                        && text_eqb (o_string a) (snd (fst b)) && text_eqb (o_source a) (snd b))
                     toks (spec_tokens items)
            && match u, fin with
               | None, EndNull _ _ => true
               | Some u, EndSyntaxError p _ =>
                   (* reported at the token that contains the quote: after the previous token, not
                      after the beginning of the offending one *)
                   in_range (match rev items with
                             | [] => 0%nat
                             | (_, s) :: _ => (length lead + (length (render_items items) - length s))%nat
                             end)
                            (length lead + length (render_items items))%nat p
               | _, _ => false
               end
        end )
  | CParse k o e src st obs =>
      let al := oracle_fn o in
      let model :=
        do ts <- ts_init src;
        do r <- (match k with
                 | KString => parse_string al ts
                 | KRich => rich_string_parse al ts
                 | KFile => do r1 <- ts_consume ts; do r2 <- ts_consume (snd r1); rich_string_parse al (snd r2)
                 end);
        Ok (fst r, ts_position (snd r)) in
      ( oracle_covers o (src ++ env_chars e) &&
        match model, obs with
        | Ok (frs, pos), PObs frs' resolved pos' =>
            list_eqb fragment_eqb frs frs' && Nat.eqb pos pos' && option_eqb text_eqb (resolve e frs') (Some resolved)
        | Raise ex, PExn ex' => exn_eqb ex ex'
        | Ok (frs, _), PFile contents _ => option_eqb text_eqb (resolve e frs) (Some contents)
        | Raise _, PSyntax _ => true
        | _, _ => false
        end &&
        match k, obs with KFile, PObs _ _ _ | KFile, PExn _ => false | KFile, _ => true | _, PFile _ _ | _, PSyntax _ => false | _, _ => true end &&
        match st with
        | None => true
        | Some (lead, r) =>
            text_eqb src (lead ++ render_rich r) &&
            (match k with KFile => text_eqb lead file_arg_prefix | _ => forallb is_sep lead end) && wf_rich r &&
            match k, r with
            | KString, RPlain _ _ => true
            | KString, _ => false
            | KRich, RPlain ((t, _) :: _) _ | KFile, RPlain ((t, _) :: _) _ => plain_for_rich t
            | KRich, _ | KFile, _ => true
            end
        end,
        match st with
        | None => true
        | Some (lead, r) =>
            match expect_rich lead r, obs with
            | XFail, PExn _ => true
            | XFail, PSyntax line_ok => line_ok
            | XTok t lo hi, PObs _ resolved pos => denotes al e t resolved && in_range lo hi pos
            | XText s lo hi, PObs _ resolved pos => option_eqb text_eqb (subst al e s) (Some resolved) && in_range lo hi pos
            | XTok t _ _, PFile contents next_ok => denotes al e t contents && next_ok
            | XText s _ _, PFile contents next_ok => option_eqb text_eqb (subst al e s) (Some contents) && next_ok
            | _, _ => false
            end
        end )
  | CList is_args o e ls src st obs =>
      let al := oracle_fn o in
      let model := do ts <- ts_init src;
                   do r <- (if is_args then args_parse al ts else list_parse al ts);
                   Ok (fst r, ts_position (snd r)) in
      ( oracle_covers o (src ++ env_chars e) && lsyms_consistent e ls &&
        match model, obs with
        | Ok (els, pos), LObs els' resolved pos' =>
            list_eqb element_eqb els els' && Nat.eqb pos pos' &&
            option_eqb (list_eqb text_eqb)
                       (match all_some (map (resolve_element e ls) els') with Some l => Some (concat l) | None => None end)
                       (Some resolved)
        | Raise ex, LExn ex' => exn_eqb ex ex'
        | _, _ => false
        end &&
        match st with
        | None => true
        | Some (lead, l, ut) =>
            text_eqb src (lead ++ render_slist l ++ match ut with None => [] | Some u => render_unterm u end) &&
            forallb is_sep_no_nl lead && (if is_args then wf_args l else wf_slist l) && wf_list_unterm l ut
        end,
        match st with
        | None => true
        | Some (lead, l, ut) =>
            if list_must_fail l || match ut with Some _ => true | None => false end
            then match obs with LExn _ => true | _ => false end
            else match obs with
                 | LObs _ resolved pos =>
                     match_elements al e ls (list_tokens l) resolved &&
                     let '(lo, hi) := list_pos_range lead l in in_range lo hi pos
                 | LExn _ => false
                 end
        end )
  | CArgs via_list o e ls src (lead, l, ut) obs =>
      let al := oracle_fn o in
      let model := do ts <- ts_init src; do r <- (if via_list then list_parse al ts else args_parse al ts); Ok (fst r) in
      ( oracle_covers o (src ++ env_chars e) && lsyms_consistent e ls &&
        text_eqb src (lead ++ render_slist l ++ match ut with None => [] | Some u => render_unterm u end) &&
        forallb is_sep_no_nl lead && (if via_list then wf_slist l else wf_args l) && wf_list_unterm l ut &&
        match model, obs with
        | Ok els, AObs argv =>
            option_eqb (list_eqb text_eqb)
                       (match all_some (map (resolve_element e ls) els) with Some r => Some (concat r) | None => None end)
                       (Some argv)
        | Raise _, ASyntax _ => true
        | _, _ => false
        end,
        if list_must_fail l || match ut with Some _ => true | None => false end
        then match obs with ASyntax line_ok => line_ok | _ => false end
        else match obs with
             | AObs argv => match_elements al e ls (list_tokens l) argv
             | _ => false
             end )
  | CScript o e src (lead, segs, ut) obs ex =>
      let al := oracle_fn o in
      let ops := map op_of segs ++ match ut with Some _ => [OString] | None => [] end in
      let model := match ts_init src with
                   | Raise x => ([], Some x)
                   | Ok ts => run_ops al ops ts
                   end in
      ( oracle_covers o (src ++ env_chars e) &&
        text_eqb src (lead ++ render_segs segs ++ match ut with None => [] | Some u => render_unterm u end) &&
        forallb is_sep lead && wf_segs segs (match ut with Some _ => true | None => false end) &&
        match ut with Some u => wf_unterm u | None => true end &&
        forallb2 (sobs_corr e) (fst model) obs && option_eqb exn_eqb (snd model) ex,
        match ut with
        | None => forallb2 (seg_ok al e) segs obs && match ex with None => true | Some _ => false end
        | Some _ => forallb2 (seg_ok al e) segs obs && match ex with None => false | Some _ => true end
        end )
  | CScriptE2E o e src (lead, segs, ut) obs =>
      let al := oracle_fn o in
      let ops := map op_of segs ++ match ut with Some _ => [OString] | None => [] end in
      let model := match ts_init src with
                   | Raise x => ([], Some x)
                   | Ok ts => run_ops al ops ts
                   end in
      let strings := flat_map (fun m => match m with inr frs => [frs] | inl _ => [] end) (fst model) in
      let rich_segs := filter (fun g => match g with GTok _ _ => false | GStr false _ _ => false | _ => true end) segs in
      ( oracle_covers o (src ++ env_chars e) &&
        text_eqb src (lead ++ render_segs segs ++ match ut with None => [] | Some u => render_unterm u end) &&
        forallb is_sep lead && wf_segs segs (match ut with Some _ => true | None => false end) &&
        match ut with Some u => wf_unterm u | None => true end &&
        match snd model, obs with
        | None, EFiles contents _ =>
            (* every second string of an entry is the contents (the first is the file name) *)
            forallb2 (fun frs v => option_eqb text_eqb (resolve e frs) (Some v))
                     (flat_map (fun m => match m with inr frs => [frs] | inl _ => [] end)
                               (filter_rich (map op_of segs) (fst model))) contents
        | Some _, ESyntax _ => true
        | _, _ => false
        end,
        match ut, obs with
        | None, EFiles contents next_ok => forallb2 (seg_value_ok al e) rich_segs contents && next_ok
        | Some _, ESyntax line_ok => line_ok
        | _, _ => false
        end )
  | CSplit o s frs =>
      let al := oracle_fn o in
      ( oracle_covers o s && list_eqb fragment_eqb (split al s) frs,
        list_eqb fragment_eqb frs (ref_split al s) )
  end.
