(** Specification side of C17: the declarative reading of the property statement, the concrete
    languages of the generated experiments, and the boolean checks evaluated on what the real
    program did. *)
From Coq Require Import String ZArith NArith List Bool Arith.
From Exactly Require Import Lib.Harness Model.Outcome Model.Exec Model.World Model.Suite Model.Cases Spec.C01 Spec.C02.
Import ListNotations.

(** * Declarative specification *)

(** (S1) "Phase contents written in a suite file are executed in every case listed directly in
    that suite - before the case's own instructions in every phase except cleanup, where they come
    after": the instructions of phase [p] of a case [tc] run under suite contents [s]. *)
Definition phase_of {I} (d : casedoc I) (p : phase) : list I :=
  match p with
  | Conf => d_conf d | Setup => d_setup d | Act => d_act d
  | BeforeAssert => d_before_assert d | Assert => d_assert d | Cleanup => d_cleanup d
  end.
Definition spec_phase {I} (s tc : casedoc I) (p : phase) : list I :=
  match p with
  | Cleanup => phase_of tc p ++ phase_of s p
  | _ => phase_of s p ++ phase_of tc p
  end.

(** (S2) "... and not in cases of its sub-suites", "run as part of a suite equals ... run alone
    with that suite given (or found as exactly.suite beside it)": whichever way a case is run, what
    is executed is determined by the case file and the ONE suite file concerned. *)
Definition spec_handling {I} (default : handling I) (r : raw_suite I) : handling I :=
  resolve_handling (parse_suite r) default.

(** (S3) "does not depend on which cases ran before it: environment changes, directory changes,
    timeouts, symbols and sandbox contents never carry over": every case behaves as if it were the
    only one, working on PRIVATE copies of the environment and the predefined symbols the program
    was started with, with the default timeout, in the directory the program was started in, with
    an empty sandbox of its own.  Reference semantics of one case, without any store or sharing: *)
Record local := L {
  l_env_instr : option env; l_env_setup : option env; l_timeout : option Z; l_syms : symtab;
  l_cwd : vdir; l_files : list (sds_dir * nat); l_sandbox : bool }.

Definition or_os (osenv : env) (e : option env) : env := match e with Some e => e | None => osenv end.
Definition local_view (osenv : env) (l : local) : view :=
  V (or_os osenv (l_env_instr l)) (or_os osenv (l_env_setup l)) (l_timeout l) (l_syms l) (l_cwd l) (l_files l).

Definition local_step (osenv : env) (l : local) (m : mutation) : local :=
  match m with
  | MEnvSet k v => L (Some (env_set k v (or_os osenv (l_env_instr l)))) (l_env_setup l) (l_timeout l) (l_syms l) (l_cwd l) (l_files l) (l_sandbox l)
  | MEnvUnset k => L (Some (env_unset k (or_os osenv (l_env_instr l)))) (l_env_setup l) (l_timeout l) (l_syms l) (l_cwd l) (l_files l) (l_sandbox l)
  | MActEnvSet k v => L (l_env_instr l) (Some (env_set k v (or_os osenv (l_env_setup l)))) (l_timeout l) (l_syms l) (l_cwd l) (l_files l) (l_sandbox l)
  | MActEnvUnset k => L (l_env_instr l) (Some (env_unset k (or_os osenv (l_env_setup l)))) (l_timeout l) (l_syms l) (l_cwd l) (l_files l) (l_sandbox l)
  | MTimeout t => L (l_env_instr l) (l_env_setup l) t (l_syms l) (l_cwd l) (l_files l) (l_sandbox l)
  | MSymPut n v => L (l_env_instr l) (l_env_setup l) (l_timeout l) (env_set n v (l_syms l)) (l_cwd l) (l_files l) (l_sandbox l)
  | MChdir c =>
      L (l_env_instr l) (l_env_setup l) (l_timeout l) (l_syms l)
        (match c with
         | COther n => VAbs (DOther n)
         | CCur d => if l_sandbox l then VCur d else l_cwd l
         end) (l_files l) (l_sandbox l)
  | MFile d name =>
      L (l_env_instr l) (l_env_setup l) (l_timeout l) (l_syms l) (l_cwd l)
        (if l_sandbox l then l_files l ++ [(d, name)] else l_files l) (l_sandbox l)
  end.

Definition spec_case {R} (sem : case_sem R) (environ : option env) (osenv : env) (syms : symtab)
           (timeout : option Z) (cwd : dir) : obs R :=
  let l0 := L environ environ timeout syms (VAbs cwd) [] false in
  let v1 := local_view osenv l0 in
  let (r1, m1) := cs_stage1 sem v1 in
  let l1 := fold_left (local_step osenv) m1 l0 in
  let e1 := local_view osenv l1 in
  match r1 with
  | inl r => OBS v1 e1 None None r
  | inr _ =>
      let l2 := L (l_env_instr l1) (l_env_setup l1) (l_timeout l1) syms (VCur (Some DAct)) [] true in
      let v2 := local_view osenv l2 in
      let (r2, m2) := cs_stage2 sem v2 in
      let e2 := local_view osenv (fold_left (local_step osenv) m2 l2) in
      OBS v1 e1 (Some v2) (Some e2) r2
  end.

(** what the program was started with, as seen through the shared configuration *)
Definition pristine_environ (st : store) (ec : exe_conf) : option env := option_map (get_env st) (ec_environ ec).
Definition pristine_syms (st : store) (ec : exe_conf) : symtab := get_sym st (ec_symbols ec).
Definition spec_obs {R} (ec : exe_conf) (s0 : cworld * store) (sem : case_sem R) : obs R :=
  spec_case sem (pristine_environ (snd s0) ec) (w_environ (cw_w (fst s0))) (pristine_syms (snd s0) ec)
            (ec_timeout ec) (w_cwd (cw_w (fst s0))).

(** * Equality tests *)
Definition tc_status_eqb (a b : Outcome.tc_status) : bool :=
  match a, b with TPass, TPass | TSkip, TSkip | TFail, TFail => true | _, _ => false end.

(** * Experiment 1: suite contents (real program, real instructions)

    Instructions of the generated files: a marker instruction [$ echo l >> LOG] (optionally failing
    afterwards: hard error, or FAIL in assert), [status = ..], [actor = ..], an act-phase line
    writing a marker. *)
Inductive akind := ADefault | ACommand | ASh | ANull.
Inductive cinstr := IMark (l : N) (b : beh) | IStatus (s : Outcome.tc_status) | IActor (a : akind) | IAct (l : N).

Definition status_of (conf : list cinstr) : Outcome.tc_status :=
  fold_left (fun st i => match i with IStatus s => s | _ => st end) conf TPass.
Definition actor_of (default : akind) (conf : list cinstr) : akind :=
  fold_left (fun a i => match i with IActor b => b | _ => a end) conf default.
Definition instr_of (i : cinstr) : instr :=
  fun k => match i, k with IMark _ b, SMain => b | _, _ => BOk end.
(** The actors as far as the generated act phases go: the default actor takes no line (null) or one
    command line; [command] exactly one; the source interpreter and null take anything. *)
Definition act_ok (a : akind) (n : nat) : bool :=
  match a with ADefault => Nat.leb n 1 | ACommand => Nat.eqb n 1 | ASh | ANull => true end.
Definition akind_of_id (a : actor_id) : akind := match a with 0%N => ADefault | 1%N => ACommand | 2%N => ASh | _ => ANull end.
Definition atc_of (default : akind) (conf act : list cinstr) : instr :=
  fun k => match k with
           | SActParse => if act_ok (actor_of default conf) (length act) then BOk else BSyntax
           | _ => BOk
           end.
Definition act_labels (a : akind) (act : list cinstr) : list N :=
  match a with
  | ANull => []
  | _ => flat_map (fun i => match i with IAct l => [l] | _ => [] end) act
  end.

Definition testcase_of (default : akind) (d : casedoc cinstr) : testcase :=
  to_testcase instr_of status_of (atc_of default) false d.

Definition labels_of_event (default : akind) (d : casedoc cinstr) (e : event) : list N :=
  match e with
  | EInstr Act SExecute _ _ => act_labels (actor_of default (d_conf d)) (d_act d)
  | EInstr p SMain idx _ =>
      match nth_error (phase_of d p) idx with Some (IMark l _) => [l] | _ => [] end
  | _ => []
  end.

(** identifier and markers of one processed case *)
Definition run_doc (hs : handling cinstr) (r : access_error + casedoc cinstr) : ident * list N :=
  match r with
  | inl e => (IdAccess e, [])
  | inr d =>
      let a := akind_of_id (hs_actor hs) in
      let (t, res) := full_execute (testcase_of a d) in
      (IdFull (fr_status res), flat_map (labels_of_event a d) t)
  end.

Definition source_tab := list (preproc * fname * casedoc cinstr).
Definition source_lookup (tab : source_tab) (p : preproc) (c : fname) : option (casedoc cinstr) :=
  match find (fun e => N.eqb (fst (fst e)) p && N.eqb (snd (fst e)) c) tab with
  | Some e => Some (snd e)
  | None => None
  end.
(** the oracle for read + preprocess + parse; a miss is reported separately ([source_hit]) *)
Definition source_of (tab : source_tab) (p : preproc) (c : fname) : access_error + casedoc cinstr :=
  match source_lookup tab p c with Some d => inr d | None => inl FILE_ACCESS_ERROR end.
Definition source_hit (tab : source_tab) (hs : option (handling cinstr)) (c : fname) : bool :=
  match hs with
  | Some hs => match source_lookup tab (hs_preproc hs) c with Some _ => true | None => false end
  | None => true
  end.

Definition files_of_tab (tab : list (fname * raw_suite cinstr)) (p : fname) : suite_state cinstr :=
  match find (fun e => N.eqb (fst e) p) tab with Some e => SSGood (snd e) | None => SSMissing end.
Definition assoc_N {A} (tab : list (fname * A)) (p : fname) : option A :=
  match find (fun e => N.eqb (fst e) p) tab with Some e => Some (snd e) | None => None end.

Definition default_handling : handling cinstr := HS 0%N 0%N [].

Record suite_case := SuiteCase {
  k_fs : fsys; k_root : fname;                             (* the hierarchy on disk (input format of C16) *)
  k_contents : list (fname * raw_suite cinstr);            (* phase contents of every suite file *)
  k_sources : source_tab;                                  (* oracle: each case under each preprocessor in use *)
  k_beside : list (fname * fname);                         (* case -> the exactly.suite beside it *)
  k_obs_suite : list (fname * fname * (ident * list N));   (* `exactly suite`: suite, case, identifier, markers *)
  k_obs_alone : list (fname * option fname * (ident * list N)) }. (* `exactly [--suite S] CASE` *)

(* identifiers are compared as printed: SYNTAX_ERROR of the file and of the act phase read alike *)
Definition idlog_eqb (a b : ident * list N) : bool :=
  String.eqb (ident_name (fst a)) (ident_name (fst b)) && list_eqb N.eqb (snd a) (snd b).

Definition model_suite_run (k : suite_case) : option (list (fname * fname * (ident * list N))) :=
  match read_root (k_fs k) (k_root k) with
  | inl _ => None
  | inr h =>
      Some (map (fun e => match e with
                          | (s, c, Some hs) => (s, c, run_doc hs (accessor (source_of (k_sources k)) hs c))
                          | (s, c, None) => (s, c, (IdFull INTERNAL_ERROR, []))
                          end)
                (case_runs (files_of_tab (k_contents k)) default_handling h))
  end.
Definition model_alone (k : suite_case) (c : fname) (explicit : option fname) : option (ident * list N) :=
  match standalone_handling (files_of_tab (k_contents k)) default_handling explicit (assoc_N (k_beside k) c) with
  | Some hs => Some (run_doc hs (accessor (source_of (k_sources k)) hs c))
  | None => None
  end.

(** ownership of markers, computed from the generated files themselves *)
Definition marks_of (l : list cinstr) : list N :=
  flat_map (fun i => match i with IMark l _ => [l] | IAct l => [l] | _ => [] end) l.
Definition doc_marks (d : casedoc cinstr) (p : phase) : list N := marks_of (phase_of d p).
Definition suite_doc_of (k : suite_case) (s : fname) : casedoc cinstr :=
  match assoc_N (k_contents k) s with
  | Some r => sd_case_phases (parse_suite r)
  | None => CD [] [] [] [] [] []
  end.
Definition case_docs_of (k : suite_case) (c : fname) : list (casedoc cinstr) :=
  map snd (filter (fun e => N.eqb (snd (fst e)) c) (k_sources k)).
Definition memN (x : N) (l : list N) : bool := existsb (N.eqb x) l.
Definition all_phases := [Setup; Act; BeforeAssert; Assert; Cleanup].

Fixpoint index_of (x : N) (l : list N) : option nat :=
  match l with
  | [] => None
  | y :: l' => if N.eqb x y then Some 0 else option_map S (index_of x l')
  end.
(** every occurring marker of [first] is written before every occurring marker of [second] *)
Definition all_before (log first second : list N) : bool :=
  forallb (fun x => forallb (fun y => match index_of x log, index_of y log with
                                      | Some i, Some j => Nat.ltb i j
                                      | _, _ => true
                                      end) second) first.
Definition count_N (x : N) (l : list N) : nat := length (filter (N.eqb x) l).

(** the identifier is one that the status in force allows *)
Definition status_allows (st : Outcome.tc_status) (i : ident) : bool :=
  match i with
  | IdAccess _ => true
  | IdFull s =>
      match st with
      | TSkip => full_status_eqb s SKIPPED
      | TPass => negb (full_status_eqb s SKIPPED || full_status_eqb s XPASS || full_status_eqb s XFAIL)
      | TFail => negb (full_status_eqb s SKIPPED || full_status_eqb s PASS || full_status_eqb s FAIL)
      end
  end.
(** identifiers of executions that got past the act phase *)
Definition act_was_run (i : ident) : bool :=
  match i with
  | IdFull (PASS | FAIL | XPASS | XFAIL) => true
  | _ => false
  end.

(** The property on ONE observed run of case [c] under suite [s] (any of the three ways), judged
    against the declarative merge order [spec_phase] alone:
    only markers of [s] and of [c] are written; in every phase the suite's come first, except in
    cleanup where they come last; when the case passes every marker of setup / before-assert /
    assert / cleanup of both is written exactly once;
    conf: the suite's settings first, the case's after them, so that the case's status / actor wins:
    the identifier is one the status in force allows;
    act: the act phase is the suite's act contents followed by the case's: if the actor in force
    does not accept that many lines the identifier is SYNTAX_ERROR, otherwise — when the execution
    got past the act phase — the act markers written are exactly those of the suite's lines followed
    by those of the case's lines (none under the null actor). *)
Definition contents_ok (k : suite_case) (s : option fname) (c : fname) (o : ident * list N) : bool :=
  let sd := match s with Some s => suite_doc_of k s | None => CD [] [] [] [] [] [] end in
  let cds := case_docs_of k c in
  let log := snd o in
  forallb (fun x => existsb (fun p => memN x (doc_marks sd p) || existsb (fun cd => memN x (doc_marks cd p)) cds) all_phases) log &&
  forallb (fun p => let sm := doc_marks sd p in
                    let cm := flat_map (fun cd => doc_marks cd p) cds in
                    match p with Cleanup => all_before log cm sm | _ => all_before log sm cm end) all_phases &&
  (if ident_eqb (fst o) (IdFull PASS) then
     forallb (fun p => match p with
                       | Act => true
                       | _ => forallb (fun x => Nat.eqb (count_N x log) 1) (doc_marks sd p) &&
                              existsb (fun cd => forallb (fun x => Nat.eqb (count_N x log) 1) (doc_marks cd p)) cds
                       end) all_phases
   else true) &&
  existsb (fun cd =>
             let conf := spec_phase sd cd Conf in
             let st := status_of conf in
             let a := actor_of ADefault conf in
             let act := spec_phase sd cd Act in
             status_allows st (fst o) &&
             match st with
             | TSkip => true
             | _ =>
                 if act_ok a (length act) then
                   if act_was_run (fst o)
                   then list_eqb N.eqb (filter (fun x => memN x (marks_of act)) log) (act_labels a act)
                   else true
                 else ident_eqb (fst o) (IdFull SYNTAX_ERROR)
             end) cds.

Definition check_suite_case (k : suite_case) : bool * bool :=
  ( (* correspondence *)
    match model_suite_run k with
    | Some runs =>
        list_eqb (fun a b => N.eqb (fst (fst a)) (fst (fst b)) && N.eqb (snd (fst a)) (snd (fst b)) && idlog_eqb (snd a) (snd b))
                 runs (k_obs_suite k)
    | None => false
    end &&
    forallb (fun e => match model_alone k (fst (fst e)) (snd (fst e)) with
                      | Some m => idlog_eqb m (snd e)
                      | None => false
                      end) (k_obs_alone k) &&
    match read_root (k_fs k) (k_root k) with
    | inr h => forallb (fun e => source_hit (k_sources k) (snd e) (snd (fst e)))
                       (case_runs (files_of_tab (k_contents k)) default_handling h)
    | inl _ => false
    end,
    (* the property, on the observations alone *)
    forallb (fun e => contents_ok k (Some (fst (fst e))) (snd (fst e)) (snd e)) (k_obs_suite k) &&
    forallb (fun e => let c := fst (fst e) in
                      let s := match snd (fst e) with Some s => Some s | None => assoc_N (k_beside k) c end in
                      contents_ok k s c (snd e) &&
                      (* the same as in the suite run, for every listing of the case in that suite *)
                      forallb (fun r => match s with
                                        | Some s' => if N.eqb (fst (fst r)) s' && N.eqb (snd (fst r)) c
                                                     then idlog_eqb (snd r) (snd e) else true
                                        | None => true
                                        end) (k_obs_suite k))
            (k_obs_alone k) ).

(** * Experiments 2 and 3: histories of cases that change settings, followed by cases that observe

    A generated case: the symbols it defines / refers to (in this order), what it does before the
    sandbox exists (stub instructions only), what it does in [setup].  Experiment 2 writes it with
    real instructions ([def], [env], [timeout], [cd], [file], probes run by the shell); experiment 3
    as stub instructions that mutate what they are handed. *)
Inductive usage := UDef (n v : nat) | URef (n : nat).   (* define symbol n with value v / refer to symbol n *)
Record script := SC { sc_usages : list usage; sc_m1 : list mutation; sc_m2 : list mutation }.

(** symbol validation: definitions enter the table in order; the first reference to a symbol not
    in the table, or definition of one that is, stops the case (VALIDATION_ERROR) *)
Fixpoint validate_usages (tab : symtab) (us : list usage) : bool * list mutation :=
  match us with
  | [] => (true, [])
  | UDef n v :: us' => match env_get n tab with
                       | Some _ => (false, [])          (* defined already: an error too *)
                       | None => let (ok, ms) := validate_usages (env_set n v tab) us' in (ok, MSymPut n v :: ms)
                       end
  | URef n :: us' => match env_get n tab with
                     | Some _ => validate_usages tab us'
                     | None => (false, [])
                     end
  end.
Definition defs_of (us : list usage) : list mutation :=
  flat_map (fun u => match u with UDef n v => [MSymPut n v] | URef _ => [] end) us.

Definition sem_of_script (s : script) : case_sem full_status :=
  CS (fun v => let (ok, ms) := validate_usages (v_syms v) (sc_usages s) in
               if ok then (inr tt, ms ++ sc_m1 s) else (inl VALIDATION_ERROR, ms))
     (fun v => (PASS, defs_of (sc_usages s) ++ sc_m2 s)).

(** what the harness could observe of a view ([None] = not observable at that point) *)
Record oview := OV {
  ov_env : option env; ov_act_env : option env; ov_timeout : option (option Z);
  ov_syms : option (list nat);              (* the names in the symbol table *)
  ov_sym_vals : option (list (nat * nat));  (* values some instruction resolved symbols to (a part of the table) *)
  ov_cwd : option vdir; ov_files : option (list (sds_dir * nat)) }.

Definition pair_nat_eqb (a b : nat * nat) : bool := Nat.eqb (fst a) (fst b) && Nat.eqb (snd a) (snd b).
Definition file_eqb (a b : sds_dir * nat) : bool := sds_dir_eqb (fst a) (fst b) && Nat.eqb (snd a) (snd b).
Definition set_eqb {A} (eqb : A -> A -> bool) (a b : list A) : bool :=
  Nat.eqb (length a) (length b) && forallb (fun x => existsb (eqb x) b) a && forallb (fun x => existsb (eqb x) a) b.
Definition dir_eqb' (a b : dir) : bool := dir_eqb a b.
Definition vdir_eqb (a b : vdir) : bool :=
  match a, b with
  | VCur x, VCur y => option_eqb sds_dir_eqb x y
  | VAbs x, VAbs y => dir_eqb x y
  | _, _ => false
  end.
Definition opt_match {A B} (f : A -> B -> bool) (model : A) (o : option B) : bool :=
  match o with Some x => f model x | None => true end.
Definition view_matches (v : view) (o : oview) : bool :=
  opt_match (set_eqb pair_nat_eqb) (v_env v) (ov_env o) &&
  opt_match (set_eqb pair_nat_eqb) (v_act_env v) (ov_act_env o) &&
  opt_match (option_eqb Z.eqb) (v_timeout v) (ov_timeout o) &&
  opt_match (set_eqb Nat.eqb) (map fst (v_syms v)) (ov_syms o) &&
  opt_match (fun syms l => forallb (fun p => option_eqb Nat.eqb (env_get (fst p) syms) (Some (snd p))) l) (v_syms v) (ov_sym_vals o) &&
  opt_match vdir_eqb (v_cwd v) (ov_cwd o) &&
  opt_match (set_eqb file_eqb) (v_files v) (ov_files o).
Definition oview_eqb (a b : oview) : bool :=
  option_eqb (set_eqb pair_nat_eqb) (ov_env a) (ov_env b) &&
  option_eqb (set_eqb pair_nat_eqb) (ov_act_env a) (ov_act_env b) &&
  option_eqb (option_eqb Z.eqb) (ov_timeout a) (ov_timeout b) &&
  option_eqb (set_eqb Nat.eqb) (ov_syms a) (ov_syms b) &&
  option_eqb (set_eqb pair_nat_eqb) (ov_sym_vals a) (ov_sym_vals b) &&
  option_eqb vdir_eqb (ov_cwd a) (ov_cwd b) &&
  option_eqb (set_eqb file_eqb) (ov_files a) (ov_files b).

(** one case as observed: identifier, end of stage 1, begin and end of stage 2, and what further
    instructions (those a suite supplies in before-assert, assert, cleanup) saw after [setup] *)
Record ocase := OC { oc_result : full_status; oc_end1 : option oview; oc_view2 : option oview; oc_end2 : option oview;
                     oc_more : list oview }.
Definition ocase_eqb (a b : ocase) : bool :=
  full_status_eqb (oc_result a) (oc_result b) && option_eqb oview_eqb (oc_end1 a) (oc_end1 b) &&
  option_eqb oview_eqb (oc_view2 a) (oc_view2 b) && option_eqb oview_eqb (oc_end2 a) (oc_end2 b) &&
  list_eqb oview_eqb (oc_more a) (oc_more b).
Definition obs_matches (m : obs full_status) (o : ocase) : bool :=
  full_status_eqb (o_result m) (oc_result o) &&
  opt_match view_matches (o_end1 m) (oc_end1 o) &&
  match o_view2 m, oc_view2 o with
  | Some v, Some ov => view_matches v ov
  | None, None => true
  | Some _, None => true      (* not observed *)
  | None, Some _ => false     (* the implementation built a sandbox where the model has none *)
  end &&
  match o_end2 m, oc_end2 o with
  | Some v, Some ov => view_matches v ov
  | None, None => true
  | Some _, None => true
  | None, Some _ => false
  end &&
  forallb (fun ov => match o_end2 m with Some v => view_matches v ov | None => false end) (oc_more o).

Record hist_case := HistCase {
  hc_osenv : env;                         (* os.environ of the process (the variables the experiment looks at) *)
  hc_environ : option env;                (* the environment dictionary of the shared configuration, if any *)
  hc_syms : list nat;                     (* the predefined symbols of the shared configuration (those looked at) *)
  hc_timeout : option Z;
  hc_scripts : list script;               (* the cases, in the order they were run in one process *)
  hc_obs : list ocase;                    (* ... as observed *)
  hc_alone : list ocase;                  (* every case of the list run alone, first, on fresh shared objects / in a fresh process *)
  hc_final : option (option env * list nat);   (* the shared dictionary and symbols after the run (if observable) *)
  hc_proc_ok : bool }.                    (* cwd and os.environ of the process are, after the run, what they were *)

Definition hist_initial (h : hist_case) : exe_conf * (cworld * store) :=
  (EC (match hc_environ h with Some _ => Some 0 | None => None end) (hc_timeout h) 0,
   (CW (W (DOther 0) (hc_osenv h) [] 0) [],
    ST (match hc_environ h with Some e => [e] | None => [] end) [map (fun n => (n, 0)) (hc_syms h)])).

Definition check_hist_case (h : hist_case) : bool * bool :=
  let (ec, s0) := hist_initial h in
  let '(cw', st', os) := run_cases real_policy false ec (map sem_of_script (hc_scripts h)) s0 in
  ( (* correspondence: the model predicts every observation, and the final shared state *)
    Nat.eqb (length os) (length (hc_obs h)) &&
    forallb (fun p => obs_matches (fst p) (snd p)) (combine os (hc_obs h)) &&
    match hc_final h with
    | Some (e, sy) =>
        option_eqb (set_eqb pair_nat_eqb) (match ec_environ ec with Some r => Some (get_env st' r) | None => None end) e &&
        set_eqb Nat.eqb (map fst (get_sym st' (ec_symbols ec))) sy
    | None => true
    end,
    (* the property, on the observations alone: every case behaved as when run alone; nothing is left *)
    Nat.eqb (length (hc_obs h)) (length (hc_alone h)) &&
    forallb (fun p => ocase_eqb (fst p) (snd p)) (combine (hc_obs h) (hc_alone h)) &&
    match hc_final h with
    | Some (e, sy) => option_eqb (set_eqb pair_nat_eqb) e (hc_environ h) && set_eqb Nat.eqb sy (hc_syms h)
    | None => true
    end &&
    hc_proc_ok h ).

(** * Experiment 4: suite-supplied instructions of every family, with symbol references in every
    syntactic position, over cases that define those symbols differently (also wrongly) and set
    their own [conf]

    No instruction semantics is modelled here.  What the model says about such a run is the
    conjunction of [C17_standalone_equals_in_suite], [C17_every_case_as_if_first_partial] and
    [C17_stateless_suite_objects_independent]: what a case does and results in as part of the suite
    run is what it does and results in alone with that suite given.  The prediction for every case is
    therefore its observation (identifier, lines written by probe instructions; both as numbers)
    when run alone with [--suite] in a fresh process; the property predicate is the same equality. *)
Record diff_case := DiffCase {
  df_in_run : list (N * list N);      (* the cases of one run in one process, in order *)
  df_alone : list (N * list N) }.     (* the same cases, each alone in a fresh process *)
Definition check_diff_case (d : diff_case) : bool * bool :=
  let eq := list_eqb (fun a b => N.eqb (fst a) (fst b) && list_eqb N.eqb (snd a) (snd b)) (df_in_run d) (df_alone d) in
  (eq, eq).

(** * All experiments *)
Inductive c17_case := KSuite (k : suite_case) | KHist (h : hist_case) | KDiff (d : diff_case).
Definition check_c17 (c : c17_case) : bool * bool :=
  match c with
  | KSuite k => check_suite_case k
  | KHist h => check_hist_case h
  | KDiff d => check_diff_case d
  end.
