(** * Specification side of C06 (expression grammar) and the predicates of the correspondence check.

    The documented grammar (reference manual, "Syntax elements"; README multi-line examples):

      operand  ::=  PRIMITIVE | SYMBOL | "!" operand | "(" expr_0 ")"
      expr_k   ::=  expr_{k+1} ( OP_k expr_{k+1} )*          k = 0 .. number of levels - 1
      expr_L   ::=  operand

    for matchers  OP_0 = "||", OP_1 = "&&", prefix "!";  for text transformers OP_0 = "|", no prefix.

    A *rendering* of an expression is given by a decorated tree [dexpr]: the tree, plus where
    parentheses (also redundant ones) are written, plus how many line breaks precede each token.
    [render] writes it as tokens, [erase] forgets the decoration, [wf_d] says that operands of a
    level-k operator are written at a level above k or in parentheses, [permitted] says which line
    breaks are allowed.  The property: every permitted rendering is read as [erase] of it, modulo
    [flatten] (see DESIGN.md section 6 C06 for why modulo [flatten]). *)
From Coq Require Import NArith List Bool Arith.
From Exactly Require Import Lib.Harness Model.Expr.
Import ListNotations.
Local Open Scope N_scope.

(** ** Decorated trees *)
Inductive dexpr :=
| DWord (nl : nat) (w : N)                             (* [nl] line breaks, then a primitive / symbol *)
| DPre (nl : nat) (op : N) (d : dexpr)                 (* [nl] line breaks, prefix operator, operand *)
| DPar (nl : nat) (d : dexpr) (nl_close : nat)         (* line breaks, "(", d, line breaks, ")" *)
| DInf (op : N) (d0 : dexpr) (ds : list (nat * dexpr)) (* d0 { line breaks, op, d_i } *).

Definition nls (n : nat) : list tok := repeat TNL n.

Fixpoint render (d : dexpr) : list tok :=
  match d with
  | DWord nl w => nls nl ++ [TW false w]
  | DPre nl op d1 => nls nl ++ TW false op :: render d1
  | DPar nl d1 nc => nls nl ++ TW false W_LP :: render d1 ++ nls nc ++ [TW false W_RP]
  | DInf op d0 ds => render d0 ++ flat_map (fun p => nls (fst p) ++ TW false op :: render (snd p)) ds
  end.

Fixpoint erase (d : dexpr) : expr :=
  match d with
  | DWord _ w => ELeaf w
  | DPre _ op d1 => EPre op (erase d1)
  | DPar _ d1 _ => erase d1
  | DInf op d0 ds => EInf op (erase d0 :: map (fun p => erase (snd p)) ds)
  end.

(** number of line breaks before the first token *)
Fixpoint leading_nl (d : dexpr) : nat :=
  match d with
  | DWord nl _ => nl
  | DPre nl _ _ => nl
  | DPar nl _ _ => nl
  | DInf _ d0 _ => leading_nl d0
  end.

(** ** The same reading modulo associativity of one operator: a child that is a node of the same
    operator is merged into its parent. *)
Definition flat_ops (op : N) (e : expr) : list expr :=
  match e with
  | EInf op' xs => if op =? op' then xs else [e]
  | _ => [e]
  end.

Fixpoint flatten (e : expr) : expr :=
  match e with
  | ELeaf w => ELeaf w
  | EPre op e1 => EPre op (flatten e1)
  | EInf op es => EInf op (flat_map (fun x => flat_ops op (flatten x)) es)
  end.

Section Grammar.
  Variable g : grammar.

  Definition n_levels : nat := length (g_levels g).

  (** the precedence level of an infix operator *)
  Fixpoint level_in (levels : list (list N)) (op : N) : option nat :=
    match levels with
    | [] => None
    | l :: ls => if mem op l then Some O else option_map S (level_in ls op)
    end.
  Definition level_of (op : N) : option nat := level_in (g_levels g) op.

  Definition is_infix (w : N) : bool := match level_of w with Some _ => true | None => false end.
  Definition is_leaf_word (w : N) : bool :=
    match g_class g w with WPrim => true | WSym => true | _ => false end.

  (** [wf_d k d]: [d] may stand, without parentheses, where an expression of level [k] is expected *)
  Fixpoint wf_d (k : nat) (d : dexpr) : bool :=
    match d with
    | DWord _ w => is_leaf_word w
    | DPre _ op d1 => mem op (g_prefix g) && wf_d n_levels d1
    | DPar _ d1 _ => wf_d 0 d1
    | DInf op d0 ds =>
        match level_of op with
        | Some j => (k <=? j)%nat && negb (match ds with [] => true | _ => false end)
                    && wf_d (S j) d0 && forallb (fun p => wf_d (S j) (snd p)) ds
        | None => false
        end
    end.

  (** ** Permitted line breaks (fixed in DESIGN.md section 6 C06, L1-L6, from the README examples and
      probes of the real parser).  A line break may precede EVERY token, except an infix operator
      of an operand chain that is
        (a) the lowest-level chain of a whole expression outside parentheses, or
        (b) the chain, at level j+1, of a second or later operand of a level-j operator.
      [lay free k d]: [free] tells whether the operators of a chain at exactly level [k] may
      stand first on a line; chains at higher levels reached as FIRST operands always may. *)
  Fixpoint lay (free : bool) (k : nat) (d : dexpr) : bool :=
    match d with
    | DWord _ _ => true
    | DPre _ _ d1 => lay true n_levels d1
    | DPar _ d1 _ => lay true 0 d1
    | DInf op d0 ds =>
        match level_of op with
        | Some j =>
            let free_here := if (j =? k)%nat then free else true in
            (free_here || forallb (fun p => (fst p =? 0)%nat) ds)
            && lay true (S j) d0
            && forallb (fun p => lay false (S j) (snd p)) ds
        | None => false
        end
    end.

  (** what may follow an expression read at level [k]: anything whose first token (line breaks
      skipped) is not an unquoted infix operator of level >= k *)
  Definition follow_ok (k : nat) (rest : list tok) : bool :=
    match skip_nl rest with
    | TW false w :: _ => match level_of w with Some j => (j <? k)%nat | None => true end
    | _ => true
    end.

  (** a full expression / a simple expression (no infix operator outside parentheses), optionally
      required to start on the current line *)
  Definition rendering_ok (simple must_be_on_current_line : bool) (d : dexpr) : bool :=
    let k := if simple then n_levels else O in
    wf_d k d && lay false k d && (negb must_be_on_current_line || (leading_nl d =? 0)%nat).

  (** ** The documented reading of a token sequence WITHOUT line breaks: plain recursive descent
      over the grammar above, left-nested binary nodes, then [flatten].  Used to judge what the
      implementation accepted on arbitrary (also malformed) input. *)
  Section RefLevels.
    Variable operand : list tok -> option (expr * list tok).
    Fixpoint ref_chain (n : nat) (next : list tok -> option (expr * list tok)) (cur : list N)
             (acc : expr) (ts : list tok) : option (expr * list tok) :=
      match n with
      | O => None
      | S n' =>
          match ts with
          | TW false op :: r =>
              if mem op cur then
                match next r with
                | Some (e, r') => ref_chain n' next cur (EInf op [acc; e]) r'
                | None => None
                end
              else Some (acc, ts)
          | _ => Some (acc, ts)
          end
      end.
    Fixpoint ref_levels (n : nat) (levels : list (list N)) (ts : list tok) : option (expr * list tok) :=
      match levels with
      | [] => operand ts
      | cur :: next =>
          match ref_levels n next ts with
          | Some (e, r) => ref_chain n (ref_levels n next) cur e r
          | None => None
          end
      end.
  End RefLevels.

  Fixpoint ref_operand (fuel : nat) (ts : list tok) : option (expr * list tok) :=
    match fuel with
    | O => None
    | S f =>
        match ts with
        | TW false w :: r =>
            if w =? W_LP then
              match ref_levels (ref_operand f) f (g_levels g) r with
              | Some (e, TW false w' :: r') => if w' =? W_RP then Some (e, r') else None
              | _ => None
              end
            else if mem w (g_prefix g) then
              match ref_operand f r with
              | Some (e, r') => Some (EPre w e, r')
              | None => None
              end
            else if is_leaf_word w then Some (ELeaf w, r)
            else None
        | _ => None
        end
    end.

  Definition strip_nl (ts : list tok) : list tok :=
    filter (fun t => match t with TNL => false | _ => true end) ts.

  (** the whole sequence, line breaks ignored, read as a full / simple expression *)
  Definition ref_parse (simple : bool) (ts : list tok) : option expr :=
    let ts' := strip_nl ts in
    let f := S (length ts') in
    match (if simple then ref_operand f ts' else ref_levels (ref_operand f) f (g_levels g) ts') with
    | Some (e, []) => Some (flatten e)
    | _ => None
    end.
End Grammar.

(** ** Meaning: boolean semantics of matcher expressions, and the operands that lazy left-to-right
    evaluation evaluates (all leaves, in order, up to and including the first decisive operand). *)
Section Meaning.
  Variable lv : N -> bool.
  Fixpoint sem (e : expr) : bool :=
    match e with
    | ELeaf w => lv w
    | EPre _ e1 => negb (sem e1)
    | EInf op es => if op =? W_AND then forallb sem es else existsb sem es
    end.

  Section Ev.
    Variable evaluated : expr -> list N.
    Fixpoint evaluated_upto (decisive : bool) (es : list expr) : list N :=
      match es with
      | [] => []
      | e :: r => evaluated e ++ (if Bool.eqb (sem e) decisive then [] else evaluated_upto decisive r)
      end.
  End Ev.
  Fixpoint evaluated (e : expr) : list N :=
    match e with
    | ELeaf w => [w]
    | EPre _ e1 => evaluated e1
    | EInf op es => evaluated_upto evaluated (negb (op =? W_AND)) es
    end.
End Meaning.

(** "|" composes left to right: the leaves, in order of appearance, applied one after the other *)
Fixpoint leaves (e : expr) : list N :=
  match e with
  | ELeaf w => [w]
  | EPre _ e1 => leaves e1
  | EInf _ es => flat_map leaves es
  end.
Definition pipe_sem {text : Type} (leaf_fun : N -> text -> text) (e : expr) (x : text) : text :=
  fold_left (fun model w => leaf_fun w model) (leaves e) x.

(** the leaves of a matching trace, in order (a node without children is a leaf) *)
Fixpoint trace_leaves (t : trace) : list N :=
  match t with
  | TR l _ [] => [l]
  | TR _ _ cs => flat_map trace_leaves cs
  end.

(** ** Decidable equalities for the check *)
Definition tok_eqb (a b : tok) : bool :=
  match a, b with
  | TNL, TNL => true
  | TW q w, TW q' w' => Bool.eqb q q' && (w =? w')
  | _, _ => false
  end.
Fixpoint expr_eqb (a b : expr) : bool :=
  match a, b with
  | ELeaf w, ELeaf w' => w =? w'
  | EPre o e, EPre o' e' => (o =? o') && expr_eqb e e'
  | EInf o es, EInf o' es' =>
      (o =? o') && (fix go (l1 l2 : list expr) : bool :=
                      match l1, l2 with
                      | [], [] => true
                      | x :: l1', y :: l2' => expr_eqb x y && go l1' l2'
                      | _, _ => false
                      end) es es'
  | _, _ => false
  end.
Fixpoint trace_eqb (a b : trace) : bool :=
  match a, b with
  | TR l v cs, TR l' v' cs' =>
      (l =? l') && Bool.eqb v v' && (fix go (l1 l2 : list trace) : bool :=
                                        match l1, l2 with
                                        | [], [] => true
                                        | x :: l1', y :: l2' => trace_eqb x y && go l1' l2'
                                        | _, _ => false
                                        end) cs cs'
  end.

(** [consumed ts rest]: the prefix of [ts] before the suffix [rest] *)
Fixpoint consumed (ts rest : list tok) : option (list tok) :=
  if list_eqb tok_eqb ts rest then Some []
  else match ts with
       | [] => None
       | t :: ts' => option_map (cons t) (consumed ts' rest)
       end.

(** ** Cases of the correspondence check *)
Inductive obs_parse :=
| OErr                                   (* SingleInstructionInvalidArgumentException *)
| OOk (e : expr) (rest : list tok).      (* the structure read back, and the unconsumed tokens *)

Inductive obs_eval :=
| VMatch (leaf_values : list (N * bool)) (t : trace)
    (* truth value of every leaf on the model value used; the matching trace observed *)
| VTrans (leaf_funs : list (N * (bool * list (N * N)))) (input output : list N)
    (* per leaf: is_identity_transformer, its action on characters; the text given and obtained *)
| VFilter (rows : list (list (N * bool) * N)) (output : list N).
    (* the expression (a line matcher, or an integer matcher under [line-num]) used as [filter E] on a
       text: per line the truth of every leaf on that line and the line's content (an identifier);
       the contents of the lines of the output *)

(** [filter E] keeps the lines on which E, evaluated by [holds] with the line's leaf values, is true *)
Definition filter_lines (holds : (N -> bool) -> bool) (rows : list (list (N * bool) * N)) : list N :=
  map snd (filter (fun row => holds (fun w => match (fix look (t : list (N * bool)) : option bool :=
                                                          match t with
                                                          | [] => None
                                                          | (k, v) :: r => if k =? w then Some v else look r
                                                          end) (fst row) with Some b => b | None => false end)) rows).

Record case := Case {
  c_matcher : bool;          (* matcher grammar (integer, line, text, file, files) / text transformer *)
  c_simple : bool;           (* GrammarParsers.simple / .full *)
  c_must_cur : bool;         (* parsers(must_be_on_current_line) *)
  c_tokens : list tok;
  c_gen : option (dexpr * list tok);   (* tokens = render d ++ follow, when generated that way *)
  c_obs : obs_parse;
  c_eval : list obs_eval }.  (* successive applications of the SAME parsed object *)

Definition grammar_of (c : case) : grammar := if c_matcher c then matcher_grammar else transformer_grammar.

Fixpoint lookup {A} (tbl : list (N * A)) (w : N) : option A :=
  match tbl with
  | [] => None
  | (k, v) :: r => if k =? w then Some v else lookup r w
  end.
Definition covered {A} (tbl : list (N * A)) (e : expr) : bool :=
  forallb (fun w => match lookup tbl w with Some _ => true | None => false end) (leaves e).
Definition lv_of (tbl : list (N * bool)) (w : N) : bool :=
  match lookup tbl w with Some b => b | None => false end.
Definition subst_char (m : list (N * N)) (c : N) : N :=
  match lookup m c with Some c' => c' | None => c end.
Definition lf_of (tbl : list (N * (bool * list (N * N)))) (w : N) (x : list N) : list N :=
  match lookup tbl w with Some (_, m) => map (subst_char m) x | None => x end.
Definition lid_of (tbl : list (N * (bool * list (N * N)))) (w : N) : bool :=
  match lookup tbl w with Some (b, _) => b | None => false end.

(** the parser as it is (after commit 24bf1ff: only ")" closes a parenthesis) *)
Definition model_parse (c : case) : res expr :=
  if c_simple c then parse_simple (grammar_of c) true (c_must_cur c) (c_tokens c)
  else parse_full (grammar_of c) true (c_must_cur c) (c_tokens c).

(** correspondence: the model (the parser as it is) gives what the implementation gave *)
Definition corr_case (c : case) : bool :=
  match model_parse c, c_obs c with
  | Ok e r, OOk e' r' =>
      expr_eqb e e' && list_eqb tok_eqb r r' &&
      forallb (fun v =>
                 match v with
                 | VMatch tbl t => covered tbl e' && trace_eqb (eval (lv_of tbl) e') t
                 | VTrans tbl x y =>
                     covered tbl e' && list_eqb N.eqb (transform (list N) (lf_of tbl) (lid_of tbl) e' x) y
                 | VFilter rows y =>
                     forallb (fun row => covered (fst row) e') rows &&
                     list_eqb N.eqb y (filter_lines (fun lv => tr_value (eval lv e')) rows)
                 end) (c_eval c)
  | Err _, OErr => true
  | _, _ => false
  end.

(** the property, on what the implementation was OBSERVED to do *)
Definition prop_case (c : case) : bool :=
  let g := grammar_of c in
  (* (1) a permitted rendering is read completely, as its tree (modulo flatten) *)
  match c_gen c with
  | Some (d, follow) =>
      list_eqb tok_eqb (c_tokens c) (render d ++ follow) &&
      (if rendering_ok g (c_simple c) (c_must_cur c) d
          && follow_ok g (if c_simple c then n_levels g else O) follow
       then match c_obs c with
            | OOk e' rest => list_eqb tok_eqb rest follow && expr_eqb (flatten e') (flatten (erase d))
            | OErr => false
            end
       else true)
  | None => true
  end &&
  (* (2) whatever was accepted is a well-formed expression with that structure: the consumed
         tokens, line breaks ignored, read by the documented grammar, give the same tree *)
  match c_obs c with
  | OErr => true
  | OOk e' rest =>
      match consumed (c_tokens c) rest with
      | Some pre =>
          match ref_parse g (c_simple c) pre with
          | Some e'' => expr_eqb e'' (flatten e')
          | None => false
          end
      | None => false
      end &&
      (* (3) the value is the value of that structure, operands evaluated lazily left to right;
             "|" composes left to right *)
      forallb (fun v =>
                 match v with
                 | VMatch tbl t =>
                     covered tbl e' && Bool.eqb (tr_value t) (sem (lv_of tbl) e')
                     && list_eqb N.eqb (trace_leaves t) (evaluated (lv_of tbl) e')
                 | VTrans tbl x y => covered tbl e' && list_eqb N.eqb y (pipe_sem (lf_of tbl) e' x)
                 | VFilter rows y =>
                     (* the value of E inside [filter] is the value computed from its structure, line by line *)
                     forallb (fun row => covered (fst row) e') rows &&
                     list_eqb N.eqb y (filter_lines (fun lv => sem lv e') rows)
                 end) (c_eval c)
  end.

Definition check_case (c : case) : bool * bool := (corr_case c, prop_case c).

(** statistics only: is clause (1) of [prop_case] applicable (the case is a permitted rendering with
    an admissible continuation)?  [fst] is false for those cases. *)
Definition is_permitted_case (c : case) : bool * bool :=
  let g := grammar_of c in
  (match c_gen c with
   | Some (d, follow) =>
       negb (rendering_ok g (c_simple c) (c_must_cur c) d
             && follow_ok g (if c_simple c then n_levels g else O) follow)
   | None => true
   end, true).

(** ** End-to-end cases: a whole test case run by the real main program; the expression stands in
    an instruction ([exit-code E], [contents f : E], [contents f : every line : E], [exists f : E],
    [dir-contents d : E], [contents f : -transformed-by E equals TEXT]); observed: the verdict. *)
Inductive verdict := VPass | VFail | VSyntax | VOther.
Definition verdict_eqb (a b : verdict) : bool :=
  match a, b with
  | VPass, VPass | VFail, VFail | VSyntax, VSyntax | VOther, VOther => true
  | _, _ => false
  end.

Inductive espec :=
| SMatch (leaf_values : list (N * bool))
    (* truth of every leaf on the model of the case (exit code, file, line, directory) *)
| STrans (leaf_funs : list (N * (bool * list (N * N)))) (input expected : list N).
    (* the file contents and the text of the [equals] assertion *)

Record ecase := ECase {
  e_matcher : bool;
  e_simple : bool;
  e_tokens : list tok;
  e_gen : option dexpr;
  e_spec : espec;
  e_verdict : verdict }.

Definition of_bool (b : bool) : verdict := if b then VPass else VFail.

(** verdict predicted by the model of the parser and of the combinators *)
Definition model_verdict (c : ecase) : verdict :=
  let g := if e_matcher c then matcher_grammar else transformer_grammar in
  match (if e_simple c then parse_simple g true false (e_tokens c) else parse_full g true false (e_tokens c)) with
  | Ok e rest =>
      match skip_nl rest with
      | [] =>
          match e_spec c with
          | SMatch tbl => if covered tbl e then of_bool (tr_value (eval (lv_of tbl) e)) else VOther
          | STrans tbl x y =>
              if covered tbl e then of_bool (list_eqb N.eqb (transform (list N) (lf_of tbl) (lid_of tbl) e x) y)
              else VOther
          end
      | _ => VSyntax      (* the rest of the line / the next line is rejected by the instruction / document parser *)
      end
  | _ => VSyntax
  end.

(** verdict the documented meaning of a tree gives *)
Definition spec_verdict (s : espec) (e : expr) : verdict :=
  match s with
  | SMatch tbl => if covered tbl e then of_bool (sem (lv_of tbl) e) else VOther
  | STrans tbl x y => if covered tbl e then of_bool (list_eqb N.eqb (pipe_sem (lf_of tbl) e x) y) else VOther
  end.

Definition check_ecase (c : ecase) : bool * bool :=
  let g := if e_matcher c then matcher_grammar else transformer_grammar in
  ( verdict_eqb (model_verdict c) (e_verdict c),
    (* a permitted rendering gives the verdict of its tree; anything else is rejected, or is
       (line breaks ignored) a well-formed expression and gives the verdict of that expression *)
    match e_gen c with
    | Some d => list_eqb tok_eqb (e_tokens c) (render d)
    | None => true
    end &&
    if match e_gen c with Some d => rendering_ok g (e_simple c) false d | None => false end
    then match e_gen c with
         | Some d => verdict_eqb (e_verdict c) (spec_verdict (e_spec c) (erase d))
         | None => false
         end
    else verdict_eqb (e_verdict c) VSyntax ||
         match ref_parse g (e_simple c) (e_tokens c) with
         | Some e' => verdict_eqb (e_verdict c) (spec_verdict (e_spec c) e')
         | None => false
         end ).

(** ** Contexts that take a SIMPLE expression as the last argument of a primitive ([line-num IM],
    [contents TM], [filter LM], [every line : LM], [dir-contents FSM], [-selection FM FSM], ...):
    in [CTX ARG op REST] the operator does not belong to ARG — the structure is [( CTX ARG ) op REST].
    The primitive's [parse_arguments] runs the simple parser of the argument's type on the same token
    stream; the outer parser continues where it stopped.  So the model is the composition: the inner
    simple parser on what follows the context, then the outer parser on the context (one primitive
    word, [W_CTX]) followed by what the inner parser left. *)
Definition W_CTX : N := 150.

Record ctxcase := CtxCase {
  x_outer_matcher : bool;
  x_inner_matcher : bool;
  x_tokens : list tok;                       (* what follows the context primitive *)
  x_gen : option (dexpr * list tok);         (* x_tokens = render d ++ post *)
  x_obs : option (expr * expr * list tok) }. (* argument read back, outer structure with the context as
                                                [ELeaf W_CTX], unconsumed tokens; None = syntax error *)

Definition gram (matcher : bool) : grammar := if matcher then matcher_grammar else transformer_grammar.

Definition model_ctx (c : ctxcase) : option (expr * expr * list tok) :=
  match parse_simple (gram (x_inner_matcher c)) true false (x_tokens c) with
  | Ok e_in r_in =>
      match parse_full (gram (x_outer_matcher c)) true false (TW false W_CTX :: r_in) with
      | Ok e_out r_out => Some (e_in, e_out, r_out)
      | _ => None
      end
  | _ => None
  end.

Definition check_ctxcase (c : ctxcase) : bool * bool :=
  let gi := gram (x_inner_matcher c) in
  let go := gram (x_outer_matcher c) in
  ( match model_ctx c, x_obs c with
    | Some (a, b, r), Some (a', b', r') => expr_eqb a a' && expr_eqb b b' && list_eqb tok_eqb r r'
    | None, None => true
    | _, _ => false
    end,
    match x_gen c with
    | Some (d, post) =>
        list_eqb tok_eqb (x_tokens c) (render d ++ post) &&
        match x_obs c with
        | Some (e_in, e_out, r) =>
            (* the argument is the simple expression, whatever follows it ... *)
            (if rendering_ok gi true false d then expr_eqb (flatten e_in) (flatten (erase d))
             else match ref_parse gi true (render d) with
                  | Some e => expr_eqb e (flatten e_in)
                  | None => false
                  end) &&
            (* ... and what follows it is read by the outer grammar with the context as ONE operand *)
            match consumed (TW false W_CTX :: post) r with
            | Some pre => match ref_parse go false pre with
                          | Some e => expr_eqb e (flatten e_out)
                          | None => false
                          end
            | None => false
            end
        | None => negb (rendering_ok gi true false d)   (* a permitted rendering must be accepted *)
        end
    | None => true
    end ).
