(** Specification side of C16 and the predicates evaluated on implementation output. *)
From Coq Require Import ZArith NArith List Bool.
From Exactly Require Import Lib.Harness Model.Outcome Model.Suite.
Import ListNotations.

(** The documented notion of a successful case: it ended PASS, SKIPPED or XFAIL. *)
Definition successful (r : proc_result) : bool :=
  match r with
  | Executed s _ _ => full_status_eqb s PASS || full_status_eqb s SKIPPED || full_status_eqb s XFAIL
  | _ => false
  end.

(** Declarative listing: sub-suites (in listing order) before the suite that lists them, the
    suite's own cases in listing order. *)
Fixpoint listing (h : hierarchy) : list (fname * fname) :=
  match h with
  | H p subs cs => flat_map listing subs ++ map (fun c => (p, c)) cs
  end.

(** *** Declarative validity of a hierarchy, independent of the reader's [visited] bookkeeping:
    unfold the reference graph from the root as a tree; the run is valid iff every referenced file
    is accessible and parsable and no suite file occurs twice in the unfolding (a cycle makes the
    unfolding infinite: the fuel, larger than the longest repetition-free chain, runs out). *)
Fixpoint resolve_all (is_ : list ref_instr) : option (list fname) :=
  match is_ with
  | [] => Some []
  | i :: is' =>
      match resolve_instr i, resolve_all is' with
      | Some ps, Some rest => Some (ps ++ rest)
      | _, _ => None
      end
  end.

Fixpoint unfold (fuel : nat) (fs : fsys) (p : fname) : option (list fname) :=
  match fuel with
  | O => None
  | S fuel' =>
      match lookup fs p with
      | Some (SGood ss cs) =>
          match resolve_all ss, resolve_all cs with
          | Some subs, Some _ =>
              let go :=
                (fix go (l : list fname) : option (list fname) :=
                   match l with
                   | [] => Some []
                   | q :: l' =>
                       match unfold fuel' fs q, go l' with
                       | Some a, Some b => Some (a ++ b)
                       | _, _ => None
                       end
                   end) in
              option_map (cons p) (go subs)
          | _, _ => None
          end
      | _ => None
      end
  end.

Fixpoint nodupb (l : list N) : bool :=
  match l with [] => true | x :: l' => negb (existsb (N.eqb x) l') && nodupb l' end.

Definition spec_valid (fs : fsys) (root : fname) : bool :=
  match unfold (S (length fs)) fs root with Some l => nodupb l | None => false end.

(** *** Declarative processing order, independent of the reader: same recursion shape as [unfold].
    Per suite file: first what its sub-suites process, the sub-suites in the order the suites section
    lists them ([resolve_all]: instructions in file order, the matches of a glob sorted by path —
    [resolve_instr]); then the suite's own cases [(p, c)], [c] in the order the cases section lists
    them (same rule).  [None]: a file does not resolve / parse, or the fuel ran out (cycle); for a
    valid hierarchy the fuel [S (length fs)] suffices (Proofs/SuiteValid.v). *)
Fixpoint spec_processed (fuel : nat) (fs : fsys) (p : fname) : option (list (fname * fname)) :=
  match fuel with
  | O => None
  | S fuel' =>
      match lookup fs p with
      | Some (SGood ss cs) =>
          match resolve_all ss, resolve_all cs with
          | Some subs, Some cases =>
              let go :=
                (fix go (l : list fname) : option (list (fname * fname)) :=
                   match l with
                   | [] => Some []
                   | q :: l' =>
                       match spec_processed fuel' fs q, go l' with
                       | Some a, Some b => Some (a ++ b)
                       | _, _ => None
                       end
                   end) in
              option_map (fun from_subs => from_subs ++ map (fun c => (p, c)) cases) (go subs)
          | _, _ => None
          end
      | _ => None
      end
  end.

(** *** end-to-end case: a hierarchy on disk, the outcome constructed for every case, and what
    the real program did. *)
Definition pairN_eqb := pair_eqb N.eqb N.eqb.

Record c16_case := C16Case {
  sc_reporter : reporter;
  sc_fs : fsys;
  sc_root : fname;
  sc_outcomes : list (fname * proc_result);      (* by case file *)
  sc_obs_exit : Z;
  sc_obs_invalid : bool;                         (* INVALID_SUITE reported (progress) / no XML (junit) *)
  sc_obs_final_ok : option bool;                 (* progress reporter: final identifier OK / ERROR *)
  sc_obs_processed : list (fname * fname);       (* (suite, case) in the order the reporter shows them *)
  sc_obs_executed : list fname;                  (* marker lines written by cases that reached [setup] *)
  sc_obs_junit : option (nat * nat * nat * list junit_child) }. (* tests, failures, errors, child per case *)

Definition outcome_of (tab : list (fname * proc_result)) (s c : fname) : proc_result :=
  match find (fun e => N.eqb (fst e) c) tab with Some e => snd e | None => InternalErr end.

Definition junit_child_eqb (a b : junit_child) : bool :=
  match a, b with JNone, JNone | JFailure, JFailure | JError, JError => true | _, _ => false end.

Definition reaches_setup (r : proc_result) : bool :=
  match r with Executed _ true _ => true | _ => false end.

Definition check_c16 (c : c16_case) : bool * bool :=
  let out := outcome_of (sc_outcomes c) in
  let model := run_suite (sc_reporter c) (sc_fs c) (sc_root c) out in
  let results := map (fun p => out (fst p) (snd p)) (sc_obs_processed c) in
  let jr := junit_report (map (fun p => out (fst p) (snd p)) (run_processed model)) in
  ( (* correspondence *)
    Z.eqb (run_exit model) (sc_obs_exit c) && Bool.eqb (run_invalid model) (sc_obs_invalid c) &&
    list_eqb pairN_eqb (run_processed model) (sc_obs_processed c) &&
    list_eqb N.eqb (map snd (filter (fun p => reaches_setup (out (fst p) (snd p))) (run_processed model))) (sc_obs_executed c) &&
    match sc_reporter c, sc_obs_junit c with
    | JUnit, Some (t, f, e, ch) =>
        Nat.eqb t (j_tests jr) && Nat.eqb f (j_failures jr) && Nat.eqb e (j_errors jr) &&
        list_eqb junit_child_eqb ch (j_children jr)
    | JUnit, None => run_invalid model
    | Progress, _ =>
        (* the final identifier of the progress reporter: OK / ERROR, none when the suite is invalid *)
        option_eqb Bool.eqb (sc_obs_final_ok c)
          (if run_invalid model then None
           else Some (snd (progress_final (map (fun p => out (fst p) (snd p)) (run_processed model)))))
    end,
    (* the property, on what the implementation did, independent of the model of the reader:
       the run is INVALID exactly when the hierarchy is (declaratively) invalid; an INVALID run has
       nothing processed/executed; a valid one processed the cases in the declarative order
       ([spec_processed]) and is consistent with the verdicts *)
    Bool.eqb (sc_obs_invalid c) (negb (spec_valid (sc_fs c) (sc_root c))) &&
    if sc_obs_invalid c then
      Z.eqb (sc_obs_exit c) 3 && match sc_obs_processed c with [] => true | _ => false end &&
      match sc_obs_executed c with [] => true | _ => false end
    else
      (* the cases were processed in the declarative order: sub-suites first, then the suite's own
         cases, in listing order, glob matches sorted by path *)
      match spec_processed (S (length (sc_fs c))) (sc_fs c) (sc_root c) with
      | Some l => list_eqb pairN_eqb (sc_obs_processed c) l
      | None => false
      end &&
      let n_bad := length (filter (fun r => negb (successful r)) results) in
      match sc_reporter c with
      | Progress =>
          match sc_obs_final_ok c with
          | Some ok => Bool.eqb ok (Nat.eqb n_bad 0) && Z.eqb (sc_obs_exit c) (if ok then 0 else 4)
          | None => false
          end
      | JUnit =>
          match sc_obs_junit c with
          | Some (t, f, e, ch) =>
              Nat.eqb t (length results) && Nat.eqb (f + e) n_bad && Nat.eqb (length ch) (length results) &&
              forallb (fun rc => Bool.eqb (negb (successful (fst rc))) (negb (junit_child_eqb (snd rc) JNone)))
                      (combine results ch)
          | None => false
          end
      end ).
