(** * Specification side of C10 and the predicates the correspondence check evaluates.

    The statement (properties.jsonl C10), read against the reference manual ("help syntax PROGRAM": "Arguments,
    stdin and transformations are appended to the arguments, stdin and transformations of the referenced
    program"; "[a shell command] is passed as a single string to the operating system's shell"; act phase: "the
    stdin set in the setup phase is appended to the stdin of the PROGRAM"):

    (D1) what a PROGRAM denotes, [denote]: a command denotes its driver, its arguments, its stdin parts and its
         transformations; a reference to a program symbol denotes what the DEFINITION of that symbol denotes - read
         in the definitions that precede it - with the reference's own arguments, stdin parts and transformations
         appended.  No fuel, no re-resolution: structural recursion over the list of definitions.
    (D2) the process gets ([run_case_with denote], i.e. the process semantics of Model/Prog.v with (D1) as the
         meaning of programs): argv = driver :: values of the arguments (a string is one argument; a list symbol is
         spliced); a shell command is ONE string; stdin = the program's parts in order, then the stdin of [setup]
         (act phase only); cwd = the current directory.
    (D3) its exit code / stdout (transformed, first accumulated transformation first) / stderr are what is stored in
         result/ and what exit-code, stdout, stderr see.
    (D4) [spec_verdict]: non-zero exit code of a program run as an instruction = FAIL in [assert], HARD_ERROR
         elsewhere, nothing with -ignore-exit-code.

    [P_C10] evaluates (D1)-(D4) against the OBSERVED behaviour of the real program (what was handed to the process
    executor, what the child process itself reported, the files in result/, the verdict).  The model
    ([run_case], resolution as the code does it) is compared with the same observation: correspondence. *)
From Coq Require Import NArith List Bool.
From Exactly Require Import Lib.Harness Model.Prog.
Import ListNotations.
Local Open Scope N_scope.

(** ** (D1) *)
Definition extend (r : rprog) (a : acc src) : rprog :=
  RProg (r_driver r) (r_args r ++ a_args a) (r_stdin r ++ a_stdin a) (r_tr r ++ a_tr a).

Definition of_command (c : command) (a : acc src) : rprog :=
  RProg (c_driver c) (c_args c ++ a_args a) (a_stdin a) (a_tr a).

Fixpoint denote_name (defs : table) (n : name) : res rprog :=
  match defs with
  | [] => Err (EUnknownSymbol n)
  | (m, v) :: older =>
      if m =? n then
        match v with
        | VData _ => Err (EWrongType n)
        | VProg (PCmd c a) => Ok (of_command c a)
        | VProg (PRef n' a) => rbind (denote_name older n') (fun r => Ok (extend r a))
        end
      else denote_name older n
  end.

Definition denote (defs : table) (p : program) : res rprog :=
  match p with
  | PCmd c a => Ok (of_command c a)
  | PRef n a => rbind (denote_name defs n) (fun r => Ok (extend r a))
  end.

(** ** (D4) *)
Definition spec_verdict (in_assert ignore : bool) (code : N) : status :=
  if ignore || (code =? 0) then StPass else if in_assert then StFail else StHard.

(** ** (D2), (D3): the expected behaviour of a case *)
Definition spec_run_case : nat -> text -> table -> tcase -> list outcome -> res result :=
  run_case_with denote assemble_in_order.

(** ** Observations *)
Record child := Child { ch_argv : list text; ch_stdin : text; ch_cwd : text }.
Record pobs := PObs {
  po_exe : executable;         (* the Executable handed to the process executor *)
  po_stdin : option text;      (* contents of the file handed over as stdin (None: DEVNULL) *)
  po_cwd : text;               (* current directory when the process was started *)
  po_child : option child }.   (* what the started process itself reported *)
Record obs := Obs {
  ob_verdict : N;              (* 0 PASS, 1 FAIL, 2 HARD_ERROR, other: anything else *)
  ob_phase : N;                (* the "In [phase]" line of the error report as [phase_code]; 0 if there is none *)
  ob_procs : list pobs;
  ob_act : option outcome;     (* result/exit-code, result/stdout, result/stderr *)
  ob_source : option text;     (* contents of the file given to the source interpreter *)
  ob_caps : list (N * text) }.  (* the capture files that exist after the run *)

Record ccase := Case {
  cc_fuel : nat;
  cc_cwd : text;
  cc_tbl0 : table;
  cc_case : tcase;
  cc_oracle : list outcome;
  cc_scripts : list text;      (* the paths by which probe scripts are started *)
  cc_obs : obs }.

Definition texts_eqb := list_eqb text_eqb.

Definition exe_eqb (a b : executable) : bool :=
  match a, b with
  | ExShell s, ExShell t => text_eqb s t
  | ExArgv l, ExArgv m => texts_eqb l m
  | _, _ => false
  end.

Definition outcome_eqb (a b : outcome) : bool :=
  (o_code a =? o_code b) && text_eqb (o_out a) (o_out b) && text_eqb (o_err a) (o_err b).

Definition status_code (s : status) : N := match s with StPass => 0 | StFail => 1 | StHard => 2 end.

Fixpoint list_match {A B} (f : A -> B -> bool) (l : list A) (m : list B) : bool :=
  match l, m with
  | [], [] => true
  | x :: l', y :: m' => f x y && list_match f l' m'
  | _, _ => false
  end.

Fixpoint assoc_cap (k : N) (l : list (N * text)) : option text :=
  match l with
  | [] => None
  | (k', t) :: l' => if k' =? k then Some t else assoc_cap k l'
  end.

Definition pstart_matches (p : pstart) (o : pobs) : bool :=
  exe_eqb (ps_exe p) (po_exe o) && option_eqb text_eqb (ps_stdin p) (po_stdin o) && text_eqb (ps_cwd p) (po_cwd o).

Definition result_matches (r : result) (o : obs) : bool :=
  (status_code (rs_verdict r) =? ob_verdict o) && (rs_phase r =? ob_phase o) &&
  list_match pstart_matches (rs_starts r) (ob_procs o) &&
  option_eqb outcome_eqb (rs_act r) (ob_act o) &&
  option_eqb text_eqb (rs_source r) (ob_source o) &&
  forallb (fun kt => match assoc_cap (fst kt) (ob_caps o) with
                     | Some t => text_eqb t (snd kt)
                     | None => false
                     end) (rs_caps r).

(** What an interpreted script sees of an argument vector: the vector from the script's own path on
    (interpreter and interpreter options are consumed by the interpreter). *)
Fixpoint script_view (scripts : list text) (l : list text) : list text :=
  match l with
  | [] => []
  | x :: l' => if existsb (text_eqb x) scripts then l else script_view scripts l'
  end.

(** The words of a shell command line that consists only of characters the shell leaves alone (letters, digits,
    [. _ / = , + - : { }]) and blanks: what [sh -c] gives the program as argv.  [None]: the line contains something
    else (quotes, escapes, [$], ...) - its splitting is the shell's business and is not judged. *)
Definition shell_plain_char (c : N) : bool :=
  ((48 <=? c) && (c <=? 58)) || ((65 <=? c) && (c <=? 90)) || ((97 <=? c) && (c <=? 122)) ||
  existsb (N.eqb c) [46; 95; 47; 61; 44; 43; 45; 123; 125].
Fixpoint split_blanks (cur : text) (s : text) : list text :=
  match s with
  | [] => match cur with [] => [] | _ => [rev cur] end
  | c :: s' => if c =? 32 then (match cur with [] => [] | _ => [rev cur] end) ++ split_blanks [] s'
               else split_blanks (c :: cur) s'
  end.
Definition shell_words (s : text) : option (list text) :=
  if forallb (fun c => shell_plain_char c || (c =? 32)) s then Some (split_blanks [] s) else None.

(** The child really received what was handed over: argv (for a shell command only when the line is plain, see
    [shell_words]; otherwise its splitting is the shell's), stdin, current directory. *)
Definition child_ok (scripts : list text) (o : pobs) : bool :=
  match po_child o with
  | None => false
  | Some c =>
      match po_exe o with
      | ExArgv l => texts_eqb (script_view scripts l) (ch_argv c)
      | ExShell s => match shell_words s with
                     | Some ws => texts_eqb (script_view scripts ws) (ch_argv c)
                     | None => true
                     end
      | ExShellList _ => false
      end &&
      text_eqb (match po_stdin o with Some t => t | None => [] end) (ch_stdin c) &&
      text_eqb (po_cwd o) (ch_cwd c)
  end.

Definition P_C10_gen (assemble : list part -> option text) (c : ccase) : bool :=
  match run_case_with denote assemble (cc_fuel c) (cc_cwd c) (cc_tbl0 c) (cc_case c) (cc_oracle c) with
  | Ok r => result_matches r (cc_obs c) && forallb (child_ok (cc_scripts c)) (ob_procs (cc_obs c))
  | Err _ => false
  end.

Definition P_C10 : ccase -> bool := P_C10_gen assemble_in_order.

Definition check_case (c : ccase) : bool * bool :=
  ( match run_case (cc_fuel c) (cc_cwd c) (cc_tbl0 c) (cc_case c) (cc_oracle c) with
    | Ok r => result_matches r (cc_obs c)
    | Err _ => false
    end,
    P_C10 c ).
