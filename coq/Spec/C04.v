(** Predicates evaluated on implementation observations for C04 (and C03). *)
From Coq Require Import List Bool Arith ZArith.
From Exactly Require Import Lib.Harness Model.Outcome Model.Exec Model.World Spec.C01.
Import ListNotations.

Definition w0 : world := W (DOther 0) [(1, 1)] [] 0.

(** *** stub executions (same plans as C01), with and without keep, with chdir effects *)
Record c04_case := C04Case {
  d_tc : testcase;
  d_keep : bool;
  d_chdir_events : list event;          (* main steps of stubs that change the current directory *)
  d_obs_cwd_restored : bool;
  d_obs_environ_same : bool;
  d_obs_created : nat;                  (* number of sandbox roots created *)
  d_obs_exist_after : nat;              (* number of those that still exist afterwards *)
  d_obs_has_sds : bool;
  d_obs_cwd_is_act_at_first_post_sds_step : option bool;  (* None: no step after sandbox creation observed *)
  d_obs_layout_ok : option bool }.      (* at act/execute: root has exactly act tmp result internal(+its sub dirs) *)

Definition eff_of (l : list event) : effects :=
  fun e => if existsb (event_eqb e) l then EffChdir (DOther 7) else EffNone.

Definition check_c04 (c : c04_case) : bool * bool :=
  let '(w', t, r) := execute_in_world (d_keep c) (d_tc c) (eff_of (d_chdir_events c)) w0 in
  ( (* correspondence with the world model *)
    Bool.eqb (dir_eqb (w_cwd w') (w_cwd w0)) (d_obs_cwd_restored c) &&
    Bool.eqb (list_eqb (pair_eqb Nat.eqb Nat.eqb) (w_environ w') (w_environ w0)) (d_obs_environ_same c) &&
    Nat.eqb (length (w_roots w')) (d_obs_exist_after c) &&
    Nat.eqb (if fr_has_sds r then 1 else 0) (d_obs_created c) &&
    Bool.eqb (fr_has_sds r) (d_obs_has_sds c),
    (* the property on the observation *)
    d_obs_cwd_restored c && d_obs_environ_same c &&
    Nat.eqb (d_obs_created c) (if d_obs_has_sds c then 1 else 0) &&
    Nat.eqb (d_obs_exist_after c) (if d_keep c && d_obs_has_sds c then 1 else 0) &&
    match d_obs_cwd_is_act_at_first_post_sds_step c with Some b => b | None => true end &&
    match d_obs_layout_ok c with Some b => b | None => true end ).

(** *** real test cases through the main program *)
Record c04_real := C04Real {
  e_keep : bool;
  e_expect_sds : bool;                 (* by construction: execution gets past validation *)
  e_expect_act_completed : bool;       (* by construction: the act phase completes *)
  e_obs_cwd_restored : bool;
  e_obs_environ_same : bool;
  e_obs_dirs_left : nat;               (* directories left under the sandbox root *)
  e_obs_reported_path_is_left_dir : option bool;   (* --keep: the printed path is the directory that is left *)
  e_obs_layout_ok : option bool;       (* --keep: act tmp result internal present *)
  e_obs_result_files_exact : option bool;  (* --keep & act completed: result/ = {stdout, stderr, exitcode} with the action's output *)
  e_obs_tmp_untouched : option bool;   (* --keep: tmp/ contains only what the case itself put there *)
  e_obs_starts_in_act : option bool }. (* the first instruction of [setup] printed its cwd: it is <sandbox>/act *)

Definition opt_true (o : option bool) := match o with Some b => b | None => true end.

Definition check_c04_real (c : c04_real) : bool * bool :=
  let expected_left := if e_keep c && e_expect_sds c then 1 else 0 in
  ( Nat.eqb (e_obs_dirs_left c) expected_left,
    e_obs_cwd_restored c && e_obs_environ_same c && Nat.eqb (e_obs_dirs_left c) expected_left &&
    opt_true (e_obs_reported_path_is_left_dir c) && opt_true (e_obs_layout_ok c) &&
    opt_true (e_obs_result_files_exact c) && opt_true (e_obs_tmp_untouched c) &&
    opt_true (e_obs_starts_in_act c) &&
    (if e_expect_sds c then match e_obs_starts_in_act c with Some _ => true | None => false end else true) &&
    (* when something must be observable it is *)
    (if e_keep c && e_expect_sds c then
       match e_obs_reported_path_is_left_dir c, e_obs_layout_ok c with Some _, Some _ => true | _, _ => false end
     else true) &&
    (if e_keep c && e_expect_act_completed c then
       match e_obs_result_files_exact c with Some _ => true | None => false end
     else true) ).

(** *** C03: a defective instruction inserted into an otherwise valid case with side effects in
    every phase. *)
Inductive defect_stage := DefParse | DefInclude | DefActParse | DefSymbols | DefPreSds.
Record c03_case := C03Case {
  g_stage : defect_stage;               (* which stage must detect the defect (by its class) *)
  g_obs_exit : Z;
  g_obs_ident : ident;
  g_obs_markers : nat;                  (* side-effect markers written by setup/act/before-assert/assert/cleanup *)
  g_obs_sandbox_dirs : nat }.           (* directories created under the sandbox root *)

(** the model's prediction: a source whose whole-file parse fails, or a test case with one fault
    in the validation block *)
Definition model_source (st : defect_stage) : source :=
  let bad k : instr := fun k' => if stepk_eqb k k' then BValErr else BOk in
  let ok : instr := fun _ => BOk in
  match st with
  | DefParse => Src true true true false (TC [] [ok] ok [ok] [ok] [ok] TPass false)
  | DefInclude => Src true true false true (TC [] [ok] ok [ok] [ok] [ok] TPass false)
  | DefActParse => Src true true true true (TC [] [ok] (fun k => if stepk_eqb k SActParse then BSyntax else BOk) [ok] [ok] [ok] TPass false)
  | DefSymbols => Src true true true true (TC [] [ok] ok [ok] [ok] [ok; bad SValSym] TPass false)
  | DefPreSds => Src true true true true (TC [] [ok] ok [ok] [ok] [ok; bad SValPre] TPass false)
  end.

Definition check_c03 (c : c03_case) : bool * bool :=
  let '(w', t, r) := process false (model_source (g_stage c)) (fun _ => EffNone) w0 in
  let (code, id) := exit_value r in
  ( Z.eqb code (g_obs_exit c) && ident_eqb id (g_obs_ident c) &&
    Nat.eqb (length (w_roots w')) (g_obs_sandbox_dirs c) &&
    Nat.eqb (length (filter (fun e => negb (is_validation_event e)) t)) (g_obs_markers c),
    Z.eqb (g_obs_exit c) 65 &&
    (ident_eqb (g_obs_ident c) (IdFull SYNTAX_ERROR) || ident_eqb (g_obs_ident c) (IdAccess ACC_SYNTAX_ERROR) ||
     ident_eqb (g_obs_ident c) (IdAccess FILE_ACCESS_ERROR) || ident_eqb (g_obs_ident c) (IdFull VALIDATION_ERROR)) &&
    Nat.eqb (g_obs_markers c) 0 && Nat.eqb (g_obs_sandbox_dirs c) 0 ).

(** *** the [symbol] command on a (valid or invalid) case with side effects in every phase *)
Record c03_sym := C03Sym {
  y_stage : option defect_stage;        (* None: a valid case *)
  y_obs_markers : nat;
  y_obs_sandbox_dirs : nat }.

Definition valid_source : source :=
  let ok : instr := fun _ => BOk in Src true true true true (TC [] [ok] ok [ok] [ok] [ok] TPass false).

Definition check_c03_sym (c : c03_sym) : bool * bool :=
  let (t, _) := symbol_command (match y_stage c with Some st => model_source st | None => valid_source end) in
  ( Nat.eqb (length (filter (fun e => negb (is_validation_event e)) t)) (y_obs_markers c) && Nat.eqb (y_obs_sandbox_dirs c) 0,
    Nat.eqb (y_obs_markers c) 0 && Nat.eqb (y_obs_sandbox_dirs c) 0 ).

(** *** C03 for a case run as one of the cases of a suite (`exactly suite`): the instruction that is
    defective for this case stands in the suite file (its instruction objects are shared by all
    the cases of the suite), the definitions or home files that make it defective are the case's own.
    The case's outcome is the status the suite reports for it; markers are those written by this
    case; sandboxes are those created beyond the one of each valid case. *)
Record c03_suite := C03Suite {
  u_stage : defect_stage;
  u_obs_ident : ident;
  u_obs_markers : nat;
  u_obs_extra_sandboxes : nat }.

Definition check_c03_suite (c : c03_suite) : bool * bool :=
  let '(w', t, r) := process false (model_source (u_stage c)) (fun _ => EffNone) w0 in
  let (code, id) := exit_value r in
  ( ident_eqb id (u_obs_ident c) &&
    Nat.eqb (length (w_roots w')) (u_obs_extra_sandboxes c) &&
    Nat.eqb (length (filter (fun e => negb (is_validation_event e)) t)) (u_obs_markers c),
    (ident_eqb (u_obs_ident c) (IdFull SYNTAX_ERROR) || ident_eqb (u_obs_ident c) (IdAccess ACC_SYNTAX_ERROR) ||
     ident_eqb (u_obs_ident c) (IdAccess FILE_ACCESS_ERROR) || ident_eqb (u_obs_ident c) (IdFull VALIDATION_ERROR)) &&
    Nat.eqb (u_obs_markers c) 0 && Nat.eqb (u_obs_extra_sandboxes c) 0 ).
