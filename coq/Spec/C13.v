(** Specification side of C13 and the predicates the correspondence check evaluates. *)
From Coq Require Import ZArith NArith List Bool.
From Exactly Require Import Lib.Harness Model.Interval.
Import ListNotations.
Local Open Scope Z_scope.

Definition itv_eqb (a b : itv) : bool :=
  match a, b with
  | Emp, Emp => true
  | NE l1 u1, NE l2 u2 => option_eqb Z.eqb l1 l2 && option_eqb Z.eqb u1 u2
  | _, _ => false
  end.

(** Boolean form of [Sound] *)
Definition sound_b (h : bool) (w : wi) (x : Z) : bool := if h then mem x (pos w) else mem x (inv w).

(** *** Integer-matcher case: expression, the (pos, inv) pair the implementation computed, and
    the truth value the real matcher gave for each probed integer. *)
Record icase := ICase {
  ic_m : imatcher;
  ic_impl : wi;
  ic_truth : list (Z * bool) }.

Definition no_ioracle (k : nat) (x : Z) : bool := false.

Definition check_icase (c : icase) : bool * bool :=
  let model := interval_of_imatcher true (ic_m c) in
  ( (* correspondence: same pair, same truth values *)
    itv_eqb (pos model) (pos (ic_impl c)) && itv_eqb (inv model) (inv (ic_impl c)) &&
    forallb (fun xh => Bool.eqb (imatches no_ioracle (ic_m c) (fst xh)) (snd xh)) (ic_truth c),
    (* property on the implementation: its pair is sound for its own matcher *)
    forallb (fun xh => sound_b (snd xh) (ic_impl c) (fst xh)) (ic_truth c) ).

(** *** Line-matcher case.  Lines are content identifiers; a matcher of unknown class number [k]
    accepts the contents listed in [nth k lc_otab]. *)
Record lcase := LCase {
  lc_m : lmatcher;
  lc_lines : list N;
  lc_otab : list (list N);
  lc_impl_pos : itv;            (* interval_of_matcher(m) *)
  lc_impl_truth : list bool;    (* the real matcher applied to (n, line) for every line *)
  lc_impl_out : list N }.       (* output of the real filter transformer *)

Definition tab_loracle (otab : list (list N)) (k : nat) (n : Z) (l : N) : bool :=
  existsb (N.eqb l) (nth k otab []).

Fixpoint select {A} (bs : list bool) (xs : list A) : list A :=
  match bs, xs with
  | b :: bs', x :: xs' => if b then x :: select bs' xs' else select bs' xs'
  | _, _ => []
  end.

Definition check_lcase (c : lcase) : bool * bool :=
  let lo := tab_loracle (lc_otab c) in
  let numbered := enumerate_from N 1 (lc_lines c) in
  ( itv_eqb (pos (interval_of_lmatcher true (lc_m c))) (lc_impl_pos c) &&
    list_eqb N.eqb (filter_impl N no_ioracle lo true (lc_m c) (lc_lines c)) (lc_impl_out c) &&
    list_eqb Bool.eqb (map (fun nl => lmatches N no_ioracle lo (lc_m c) (fst nl) (snd nl)) numbered) (lc_impl_truth c),
    (* property: the filter output is exactly the lines the real matcher accepts, and every
       accepted line number lies in the interval the implementation computed *)
    list_eqb N.eqb (lc_impl_out c) (select (lc_impl_truth c) (lc_lines c)) &&
    Nat.eqb (length (lc_impl_truth c)) (length (lc_lines c)) &&
    forallb (fun nh => implb (snd nh) (mem (fst nh) (lc_impl_pos c)))
            (combine (map fst numbered) (lc_impl_truth c)) ).
