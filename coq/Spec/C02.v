(** The documented outcome table (typed in from the property statement, README.rst and the
    reference manual section "Exit codes"), and the predicates used on implementation output. *)
From Coq Require Import ZArith List Bool String.
From Exactly Require Import Lib.Harness Model.Outcome.
Import ListNotations.
Local Open Scope Z_scope.

(** Outcome of the assert phase / of the execution as far as the verdict table is concerned:
    [None] = everything (incl. all assertions) passed; [Some FFail] = an assertion failed;
    other [Some] = something prevented or interrupted execution. *)
Definition doc_verdict (mode : tc_status) (outcome : option fail_status) : full_status :=
  match mode, outcome with
  | TSkip, _ => SKIPPED
  | TPass, None => PASS
  | TPass, Some FFail => FAIL
  | TFail, None => XPASS
  | TFail, Some FFail => XFAIL
  | _, Some FSyntax => SYNTAX_ERROR
  | _, Some FValidation => VALIDATION_ERROR
  | _, Some FHard => HARD_ERROR
  | _, Some FInternal => INTERNAL_ERROR
  end.

Definition doc_exit_full (s : full_status) : Z :=
  match s with
  | PASS | SKIPPED => 0
  | FAIL => 32
  | XFAIL | XPASS => 33
  | SYNTAX_ERROR | VALIDATION_ERROR => 65
  | HARD_ERROR => 128
  | INTERNAL_ERROR => 129
  end.

Definition doc_exit (i : ident) : Z :=
  match i with IdFull s => doc_exit_full s | IdAccess _ => 65 end.

Definition documented_codes : list Z := [0; 32; 33; 65; 128; 129].

(** The verdict a processing result stands for *)
Definition verdict_ident (r : proc_result) : ident :=
  match r with
  | Executed s _ _ => IdFull s
  | AccessErr a => IdAccess a
  | InternalErr => IdFull INTERNAL_ERROR
  end.

(** The documented reporting behaviour of the whole process, stated independently of the reporter
    classes: [passes_through] = "--act and execution completed". *)
Definition passes_through (m : mode) (r : proc_result) : option Z :=
  match m, r with
  | Act, Executed (PASS | FAIL | XPASS | XFAIL) _ (Some c) => Some c
  | _, _ => None
  end.

Definition atc_output_visible (m : mode) (r : proc_result) : bool :=
  match m, r with Act, Executed _ _ (Some _) => true | _, _ => false end.

Definition doc_program_output (m : mode) (r : proc_result) : report_t :=
  let i := verdict_ident r in
  let atc_out := if atc_output_visible m r then [OAtcOut] else [] in
  match passes_through m r with
  | Some c => Report c atc_out None true                  (* the action's own exit code, no identifier *)
  | None =>
      match m with
      | Normal => Report (doc_exit i) [OIdent (ident_name i)] None false
      | Keep => Report (doc_exit i)
                       (match r with Executed _ true _ => [OSdsPath] | _ => [] end) (Some (ident_name i)) false
      | Act => Report (doc_exit i) atc_out (Some (ident_name i)) (atc_output_visible m r)
      end
  end.

Definition report_eqb (a b : report_t) : bool :=
  Z.eqb (r_exit a) (r_exit b) && list_eqb out_item_eqb (r_out a) (r_out b) &&
  option_eqb String.eqb (r_err_ident a) (r_err_ident b) && Bool.eqb (r_atc_err a) (r_atc_err b).

(** *** case type of the end-to-end correspondence: how a real test case was constructed to end,
    and what the real program did. *)
Record c02_case := C02Case {
  cc_mode : mode;
  cc_result : proc_result;      (* the processing result this case is constructed to produce *)
  cc_obs : report_t }.          (* exit code, classified stdout lines, identifier on stderr *)

Definition check_c02 (c : c02_case) : bool * bool :=
  ( report_eqb (program_output (cc_mode c) (cc_result c)) (cc_obs c),
    report_eqb (doc_program_output (cc_mode c) (cc_result c)) (cc_obs c) ).

(** invalid usage *)
Definition check_usage (obs : report_t) : bool * bool :=
  ( report_eqb report_invalid_usage obs,
    Z.eqb (r_exit obs) 64 && forallb (fun o => match o with OIdent _ => false | _ => true end) (r_out obs) &&
    match r_err_ident obs with None => true | Some _ => false end ).

(** keys for the completeness of regenerated tables *)
Definition proc_result_eqb (a b : proc_result) : bool :=
  match a, b with
  | Executed s1 h1 c1, Executed s2 h2 c2 => full_status_eqb s1 s2 && Bool.eqb h1 h2 && option_eqb Z.eqb c1 c2
  | AccessErr x, AccessErr y => access_error_eqb x y
  | InternalErr, InternalErr => true
  | _, _ => false
  end.
Definition sample_atc : list (option Z) := [None; Some 0; Some 7; Some 255].
(** A completely executed case always has an outcome of the action to check (the real reporter
    dereferences it unconditionally); such results are outside the domain. *)
Definition wf_result (r : proc_result) : bool :=
  match r with Executed s _ None => negb (full_execution_complete s) | _ => true end.
Definition all_results : list proc_result :=
  filter wf_result
    (flat_map (fun s => flat_map (fun h => map (fun c => Executed s h c) sample_atc) [true; false]) all_full_status)
  ++ map AccessErr all_access_error ++ [InternalErr].
Definition all_report_keys : list (mode * proc_result) :=
  flat_map (fun m => map (fun r => (m, r)) all_results) all_mode.
