(** Specification side of C08 (symbols) and the predicates the correspondence check evaluates.

    The specification is an independent reading of the property statement: ONE left-to-right pass over
    the instructions in execution order with an environment of *already evaluated* definitions
    (eager values, eager sets of transitively referenced names) - no lazy look-ups, no recursion
    through a table, no fuel:
      - a definition is accepted iff its name is new (builtins included) and each of its references
        is accepted; a reference is accepted iff the name is in the environment (= defined strictly
        earlier in execution order) and the restriction of the context holds for the definition it
        names and - where the context demands it - for every definition reachable from it;
      - the value of a string is the concatenation of its fragments, a list is the concatenation of
        the element lists of its elements (a list-typed reference contributes its elements, any other
        reference one element), a list inside a string is its elements joined by single spaces, a
        path inside a string or list is its absolute rendering. *)
From Coq Require Import List Bool Arith NArith.
From Exactly Require Import Lib.Harness Model.Exec Model.Symbols.
Import ListNotations.

Section Spec.
  Variable roots : rel -> text.

  (** what is known about a definition once it has been evaluated *)
  Record dsum := DSum {
    d_name : name;
    d_type : vtype;
    d_val : option value;       (* None: not evaluable (never for an accepted definition) *)
    d_reach : list name }.      (* every name referenced by the definition, directly or indirectly *)
  Definition env := list dsum.

  Fixpoint find (e : env) (n : name) : option dsum :=
    match e with
    | [] => None
    | d :: e' => if N.eqb (d_name d) n then Some d else find e' n
    end.

  Fixpoint all_some {A} (l : list (option A)) : option (list A) :=
    match l with
    | [] => Some []
    | None :: _ => None
    | Some a :: l' => match all_some l' with Some r => Some (a :: r) | None => None end
    end.

  (** *** Values *)
  Definition text_of_value (v : value) : option text :=
    match v with
    | VStr t => Some t
    | VLst l => Some (join_with [SPACE] l)
    | VPth rl ss => Some (path_text roots rl ss)
    | VOpaque => None
    end.
  Definition elements_of_value (v : value) : option (list text) :=
    match v with
    | VLst l => Some l
    | _ => option_map (fun t => [t]) (text_of_value v)
    end.
  Definition val_of (e : env) (n : name) : option value :=
    match find e n with Some d => d_val d | None => None end.

  Definition denote_frag (e : env) (f : frag) : option text :=
    match f with
    | FConst t => Some t
    | FSym r => match val_of e (r_name r) with Some v => text_of_value v | None => None end
    end.
  Definition denote_str (e : env) (fs : list frag) : option text :=
    option_map (@concat N) (all_some (map (denote_frag e) fs)).
  Definition denote_elem (e : env) (x : elem) : option (list text) :=
    match x with
    | EStr fs => option_map (fun t => [t]) (denote_str e fs)
    | ESym r => match val_of e (r_name r) with Some v => elements_of_value v | None => None end
    end.
  Definition denote_list (e : env) (es : list elem) : option (list text) :=
    option_map (@concat text) (all_some (map (denote_elem e) es)).

  Definition stack (rl : option rel) (ss : list text) (s : text) : value :=
    match s with [] => VPth rl ss | _ => VPth rl (ss ++ [s]) end.
  Definition denote_path (e : env) (p : psdv) : option value :=
    match p with
    | PConst rl s => Some (VPth rl [s])
    | PRelOpt rl sfx => option_map (fun s => VPth (Some rl) [s]) (denote_str e sfx)
    | PRelSym b sfx =>
        match val_of e (r_name b), denote_str e sfx with
        | Some (VPth rl ss), Some s => Some (stack rl ss s)
        | _, _ => None
        end
    | PRef r sfx dflt =>
        match val_of e (r_name r), denote_str e sfx with
        | Some (VPth rl ss), Some s => Some (match s with [] => VPth rl ss | _ => VPth rl (ss ++ [lstrip_slash s]) end)
        | Some (VStr t), Some s =>
            Some (if starts_with_slash (t ++ s) then VPth None [t ++ s] else VPth (Some dflt) [t ++ s])
        | _, _ => None
        end
    end.
  Definition denote (e : env) (s : sdv) : option value :=
    match s with
    | SStr fs => option_map VStr (denote_str e fs)
    | SLst es => option_map VLst (denote_list e es)
    | SPth p => denote_path e p
    | SOther _ => Some VOpaque
    end.

  (** *** Acceptance *)
  Definition vr_ok (v : vrestr) (d : dsum) : bool :=
    match v with
    | VArb acc => existsb (fun w => vtype_eqb (d_type d) (vtype_of_wstr w)) acc
    | VPathRel rels abs_ok =>
        match d_type d, d_val d with
        | TPath, Some (VPth (Some r) _) => existsb (rel_eqb r) rels
        | TPath, Some (VPth None _) => abs_ok
        | _, _ => false
        end
    end.
  Definition di_ok (e : env) (dv : vrestr) (iv : option vrestr) (d : dsum) : bool :=
    vr_ok dv d &&
    match iv with
    | None => true
    | Some v => forallb (fun m => match find e m with Some dm => vr_ok v dm | None => false end) (d_reach d)
    end.
  Definition restr_ok (e : env) (r : restr) (d : dsum) : bool :=
    match r with
    | RVT expected => existsb (vtype_eqb (d_type d)) expected
    | RDI dv iv => di_ok e dv iv d
    | ROr parts =>
        match wstr_of_vtype (d_type d) with
        | None => false
        | Some w => match find_part w parts with Some (dv, iv) => di_ok e dv iv d | None => false end
        end
    end.
  Definition ref_ok (e : env) (r : ref) : bool :=
    match find e (r_name r) with
    | None => false
    | Some d => restr_ok e (r_restr r) d
    end.

  Definition reach_of (e : env) (rs : list ref) : list name :=
    flat_map (fun r => r_name r :: match find e (r_name r) with Some d => d_reach d | None => [] end) rs.
  Definition define (e : env) (n : name) (c : container) : env :=
    DSum n (c_type c) (denote e (c_sdv c)) (reach_of e (sdv_refs (c_sdv c))) :: e.
  Definition env_of_table (t : table) : env :=
    fold_right (fun nc e => define e (fst nc) (snd nc)) [] t.

  Definition instr_ok (e : env) (i : instr) : bool :=
    match i with
    | IDef n c => negb (existsb (fun d => N.eqb (d_name d) n) e) && forallb (ref_ok e) (sdv_refs (c_sdv c))
    | IUse refs _ => forallb (ref_ok e) refs
    | IStop _ => true
    end.
  Definition env_after (e : env) (i : instr) : env :=
    match i with IDef n c => define e n c | _ => e end.
  Fixpoint accept_from (e : env) (is_ : list instr) : bool :=
    match is_ with
    | [] => true
    | i :: is' => instr_ok e i && accept_from (env_after e i) is'
    end.

  (** the instructions in execution order *)
  Definition exec_order (tc : tcase) : list instr :=
    t_setup tc ++ t_act tc ++ t_before_assert tc ++ t_assert tc ++ t_cleanup tc.
  Definition spec_accept (builtins : table) (tc : tcase) : bool :=
    accept_from (env_of_table builtins) (exec_order tc).

  (** *** What an accepted test case must be seen to evaluate *)
  Definition denote_vals (e : env) (vs : list sdv) : option (list text) :=
    option_map (@concat text)
      (all_some (map (fun s => match denote e s with
                               | Some VOpaque => Some []
                               | Some v => elements_of_value v
                               | None => None
                               end) vs)).
  (** One phase: every instruction up to the first one that stops the phase evaluates its values in
      the environment of ALL definitions before it.  Returns (environment after the WHOLE phase,
      stopped?, expected observations). *)
  Fixpoint expect_phase (p : phase) (e : env) (idx : nat) (stopped : bool) (is_ : list instr)
    : env * bool * list (phase * nat * option (list text)) :=
    match is_ with
    | [] => (e, stopped, [])
    | i :: is' =>
        let '(e', st, o) := expect_phase p (env_after e i) (S idx)
                                         (stopped || match i with IStop _ => true | _ => false end) is' in
        (e', st,
         match i with
         | IUse _ (v :: vs) => if stopped then o else (p, idx, denote_vals e (v :: vs)) :: o
         | _ => o
         end)
    end.
  (** setup, act, before-assert, assert run until the first failing instruction; cleanup always runs
      (until its own first failing instruction) and sees every definition of the earlier phases *)
  Definition spec_expected (builtins : table) (tc : tcase) : list (phase * nat * option (list text)) :=
    let e0 := env_of_table builtins in
    let '(e1, s1, o1) := expect_phase Setup e0 0 false (t_setup tc) in
    let '(e2, s2, o2) := expect_phase Act e1 0 s1 (t_act tc) in
    let '(e3, s3, o3) := expect_phase BeforeAssert e2 0 s2 (t_before_assert tc) in
    let '(e4, s4, o4) := expect_phase Assert e3 0 s3 (t_assert tc) in
    let '(_, _, o5) := expect_phase Cleanup e4 0 false (t_cleanup tc) in
    o1 ++ o2 ++ o3 ++ o4 ++ o5.
End Spec.

(** ** Well-formedness of what the parsers attach (checked on every live case by the harness):
    the type recorded for a definition is the type of its value; references inside strings, lists
    and paths carry the restrictions the parsers give them. *)
Definition str_str : vrestr * option vrestr := (VArb [WString], Some (VArb [WString])).
Definition vrestr_eqb (a b : vrestr) : bool :=
  match a, b with
  | VArb x, VArb y => list_eqb wstr_eqb x y
  | VPathRel r1 a1, VPathRel r2 a2 => list_eqb rel_eqb r1 r2 && Bool.eqb a1 a2
  | _, _ => false
  end.
Definition is_str_str (r : restr) : bool :=
  match r with
  | RDI (VArb [WString]) (Some (VArb [WString])) => true
  | _ => false
  end.
Definition is_data_restr (r : restr) : bool :=
  match r with
  | RDI (VArb _) _ => true
  | _ => false
  end.
Definition is_path_restr (r : restr) : bool :=
  match r with
  | RDI (VPathRel _ _) None => true
  | _ => false
  end.
Definition is_path_or_string_restr (r : restr) : bool :=
  match r with
  | ROr [(WPath, (VPathRel _ _, None)); (WString, (VArb [WString], Some (VArb [WString])))] => true
  | _ => false
  end.
Definition wf_frag (chk : restr -> bool) (f : frag) : bool :=
  match f with FConst _ => true | FSym r => chk (r_restr r) end.
Definition wf_psdv (p : psdv) : bool :=
  match p with
  | PConst _ _ => true
  | PRelOpt _ sfx => forallb (wf_frag is_str_str) sfx
  | PRelSym b sfx => is_path_restr (r_restr b) && forallb (wf_frag is_str_str) sfx
  | PRef r sfx _ => is_path_or_string_restr (r_restr r) && forallb (wf_frag is_str_str) sfx
  end.
Definition wf_container (c : container) : bool :=
  match c_type c, c_sdv c with
  | TString, SStr fs => forallb (wf_frag is_data_restr) fs
  | TList, SLst es => forallb (fun e => match e with
                                        | EStr fs => forallb (wf_frag is_data_restr) fs
                                        | ESym r => is_data_restr (r_restr r)
                                        end) es
  | TPath, SPth p => wf_psdv p
  | (TString | TList | TPath), _ => false
  | _, SOther _ => true
  | _, _ => false
  end.
Definition wf_val (s : sdv) : bool :=
  match s with
  | SStr fs => forallb (wf_frag is_data_restr) fs
  | SLst es => wf_container (Cont TList s)
  | SPth p => wf_psdv p
  | SOther _ => true
  end.
Definition ovrestr_eqb (a b : option vrestr) : bool := option_eqb vrestr_eqb a b.
Definition restr_eqb (a b : restr) : bool :=
  match a, b with
  | RVT x, RVT y => list_eqb vtype_eqb x y
  | RDI d1 i1, RDI d2 i2 => vrestr_eqb d1 d2 && ovrestr_eqb i1 i2
  | ROr p1, ROr p2 =>
      list_eqb (fun x y => wstr_eqb (fst x) (fst y) && vrestr_eqb (fst (snd x)) (fst (snd y)) &&
                           ovrestr_eqb (snd (snd x)) (snd (snd y))) p1 p2
  | _, _ => false
  end.
Definition ref_eqb (a b : ref) : bool := N.eqb (r_name a) (r_name b) && restr_eqb (r_restr a) (r_restr b).
(** the values an instruction resolves are built from the references it reports *)
Definition wf_instr (i : instr) : bool :=
  match i with
  | IDef _ c => wf_container c
  | IUse refs vals => forallb wf_val vals &&
                      forallb (fun r => existsb (ref_eqb r) refs) (flat_map sdv_refs vals)
  | IStop _ => true
  end.
Definition wf_tcase (tc : tcase) : bool := forallb wf_instr (exec_order tc).
(** the builtin symbols: distinct names, constant values *)
Fixpoint builtins_ok (t : table) : bool :=
  match t with
  | [] => true
  | (n, c) :: t' =>
      negb (contains t' n) && wf_container c && match sdv_refs (c_sdv c) with [] => true | _ => false end &&
      builtins_ok t'
  end.

(** ** The case of the correspondence check *)
Definition verdict_eqb (a b : verdict) : bool :=
  match a, b with
  | VdValidation, VdValidation | VdPass, VdPass | VdFail, VdFail | VdHard, VdHard | VdInternal, VdInternal => true
  | _, _ => false
  end.
Definition obs_eqb (a b : observation) : bool :=
  match a, b with
  | (p, i, ts), (p', i', ts') => phase_eqb' p p' && Nat.eqb i i' && list_eqb text_eqb ts ts'
  end.

Record c08_obs := C08Obs {
  ob_verdict : verdict;
  ob_failing : option (option (phase * nat));  (* None: the location could not be read from the report *)
  ob_sandbox : bool;
  ob_values : list observation }.
(** ** Where the references of a text are (symbol_syntax.split; C09 proves this algorithm equal to the
    leftmost decomposition of the text into constants and [@[NAME]@] references, NAME a non-empty
    identifier - [C09_split_correct]).  Mirrored here for ASCII so that the fragments the harness hands to
    the model are checked against the SOURCE TEXT of every string value: a stray "@[", "]@", "@[bad-name]@"
    is constant text and does not hide the reference that follows it. *)
Definition is_ident_char (c : N) : bool :=
  ((48 <=? c) && (c <=? 57) || (65 <=? c) && (c <=? 90) || (97 <=? c) && (c <=? 122) || (c =? 95))%N.
Fixpoint take_ident (s : text) : text :=
  match s with c :: s' => if is_ident_char c then c :: take_ident s' else [] | [] => [] end.
Fixpoint find_begin (s : text) : option nat :=
  match s with
  | a :: ((b :: _) as s') =>
      if (a =? 64)%N && (b =? 91)%N then Some 0
      else match find_begin s' with Some k => Some (S k) | None => None end
  | _ => None
  end.
Definition starts_with_end (s : text) : bool :=
  match s with a :: b :: _ => (a =? 93)%N && (b =? 64)%N | _ => false end.
(** the first reference of [s]: (text before it, name, text after it) *)
Fixpoint first_reference (fuel : nat) (before : text) (s : text) : option (text * text * text) :=
  match fuel with
  | O => None
  | S fuel' =>
      match find_begin s with
      | None => None
      | Some k =>
          let after_begin := skipn (k + 2) s in
          let nm := take_ident after_begin in
          let after_name := skipn (length nm) after_begin in
          if match nm with [] => false | _ => true end && starts_with_end after_name
          then Some (before ++ firstn k s, nm, skipn 2 after_name)
          else first_reference fuel' (before ++ firstn (k + 2 + length nm) s) after_name
      end
  end.
Fixpoint split_text (fuel : nat) (s : text) : list (text + text) :=
  match fuel with
  | O => []
  | S fuel' =>
      match s with
      | [] => []
      | _ => match first_reference (S (length s)) [] s with
             | None => [inl s]
             | Some (pre, nm, rest) =>
                 (match pre with [] => [] | _ => [inl pre] end) ++ inr nm :: split_text fuel' rest
             end
      end
  end.
Definition split_ok (x : text * list (text + text)) : bool :=
  list_eqb (fun a b => match a, b with
                       | inl u, inl v | inr u, inr v => text_eqb u v
                       | _, _ => false
                       end)
           (split_text (S (length (fst x))) (fst x)) (snd x).

Record c08_case := C08Case {
  cc_roots : list text;          (* directories: cwd, home, act-home, act, tmp, result (in [rel_code] order) *)
  cc_builtins : table;
  cc_layout : layout;            (* the sections in file order *)
  cc_splits : list (text * list (text + text));
                                 (* every string value of the file: its text, and the constants (inl) and
                                    reference names (inr) the harness built the model term from *)
  cc_obs : c08_obs }.

Definition roots_of (l : list text) (r : rel) : text := nth (rel_code r) l [SLASH].

Definition failing_eqb (a b : option (phase * nat)) : bool :=
  option_eqb (fun x y => phase_eqb' (fst x) (fst y) && Nat.eqb (snd x) (snd y)) a b.

(** The property evaluated on the implementation's OBSERVED behaviour (specification + observation only). *)
Definition P_C08 (roots : rel -> text) (builtins : table) (tc : tcase) (o : c08_obs) : bool :=
  if spec_accept roots builtins tc then
    negb (verdict_eqb (ob_verdict o) VdValidation) &&
    negb (verdict_eqb (ob_verdict o) VdInternal) &&
    ob_sandbox o &&
    match all_some (map (fun x : phase * nat * option (list text) =>
                           match x with (p, i, Some ts) => Some (p, i, ts) | (_, _, None) => None end)
                        (spec_expected roots builtins tc)) with
    | Some expected => list_eqb obs_eqb expected (ob_values o)
    | None => false
    end
  else
    (* any violation is reported as VALIDATION_ERROR before anything executes *)
    verdict_eqb (ob_verdict o) VdValidation && negb (ob_sandbox o) &&
    match ob_values o with [] => true | _ => false end.

Definition outcome_matches (m : outcome) (o : c08_obs) : bool :=
  verdict_eqb (o_verdict m) (ob_verdict o) &&
  match ob_failing o with None => true | Some f => failing_eqb (o_failing m) f end &&
  Bool.eqb (o_sandbox m) (ob_sandbox o) &&
  list_eqb obs_eqb (o_values m) (ob_values o).

(** ** The type a reference must have is decided by its syntactic POSITION inside a composite value
    (reference manual: STRING, LIST, PATH syntax; parse_string.py, parse_list.py, parse_path.py):
      - a fragment of a string, an element of a list (naked reference or fragment of a string element):
        any value with a string rendering (string, path or list), nothing demanded of indirect references;
      - a path given WITHOUT relativity option whose first fragment is a reference that is the whole
        argument or is followed by text starting with '/': that reference is a path (any relativity) or a
        string; every OTHER reference of a path argument - the path suffix after -rel-X / -rel SYMBOL,
        a reference that is not first, a first reference followed by other text or by another
        reference - is a path component: a string all of whose indirect references are strings;
      - the SYMBOL of -rel SYMBOL: a path (any relativity).
    [canon_*] re-attaches these restrictions; the restrictions read from the live parsers must coincide
    with them (correspondence), and the property predicate is evaluated with them (so that a parser
    that demands less at some position is a VIOLATION, not merely a broken tie). *)
Definition any_data : restr := RDI (VArb [WString; WPath; WList]) None.
Definition all_rels : list rel := [RCwd; RHdsCase; RHdsAct; RAct; RTmp; RResult].
Definition def_path_base : restr := RDI (VPathRel all_rels true) None.
Definition def_path_or_str : restr :=
  ROr [(WPath, (VPathRel all_rels true, None)); (WString, (VArb [WString], Some (VArb [WString])))].
Definition str_only_restr : restr := RDI (VArb [WString]) (Some (VArb [WString])).
Definition canon_frag (r : restr) (f : frag) : frag :=
  match f with FConst _ => f | FSym x => FSym (Ref (r_name x) r) end.
Definition canon_psdv (p : psdv) : psdv :=
  match p with
  | PConst _ _ => p
  | PRelOpt rl sfx => PRelOpt rl (map (canon_frag str_only_restr) sfx)
  | PRelSym b sfx => PRelSym (Ref (r_name b) def_path_base) (map (canon_frag str_only_restr) sfx)
  | PRef x sfx d => PRef (Ref (r_name x) def_path_or_str) (map (canon_frag str_only_restr) sfx) d
  end.
Definition canon_sdv (s : sdv) : sdv :=
  match s with
  | SStr fs => SStr (map (canon_frag any_data) fs)
  | SLst es => SLst (map (fun e => match e with
                                   | EStr fs => EStr (map (canon_frag any_data) fs)
                                   | ESym x => ESym (Ref (r_name x) any_data)
                                   end) es)
  | SPth p => SPth (canon_psdv p)
  | SOther _ => s
  end.
Definition canon_instr (i : instr) : instr :=
  match i with
  | IDef n c => IDef n (Cont (c_type c) (canon_sdv (c_sdv c)))
  | IUse refs (v :: vs) => let vals := map canon_sdv (v :: vs) in IUse (flat_map sdv_refs vals) vals
  | _ => i
  end.
Definition canon_tcase (tc : tcase) : tcase :=
  TCase (map canon_instr (t_setup tc)) (map canon_instr (t_act tc)) (map canon_instr (t_before_assert tc))
        (map canon_instr (t_assert tc)) (map canon_instr (t_cleanup tc)).
Definition refs_of_instr (i : instr) : list ref :=
  match i with
  | IDef _ c => sdv_refs (c_sdv c)
  | IUse refs vals => refs ++ flat_map sdv_refs vals
  | IStop _ => []
  end.
Definition canon_ok (tc : tcase) : bool :=
  forallb (fun i => list_eqb ref_eqb (refs_of_instr i) (refs_of_instr (canon_instr i))) (exec_order tc).

(** Correspondence: the observation is what the model of the code as it is predicts - or, where the two
    differ (inputs of the known finding KF-C08-1 only), what the repaired executor would do, so that a
    repair of that defect does not break the tie. *)
Definition check_case (c : c08_case) : bool * bool :=
  let roots := roots_of (cc_roots c) in
  let tc := assemble (cc_layout c) in
  let o := cc_obs c in
  ( wf_tcase tc && builtins_ok (cc_builtins c) && canon_ok tc && forallb split_ok (cc_splits c) &&
    (outcome_matches (sym_execute roots (cc_builtins c) tc) o ||
     outcome_matches (sym_execute_gen true roots (cc_builtins c) tc) o),
    P_C08 roots (cc_builtins c) (canon_tcase tc) o ).
