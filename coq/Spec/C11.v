(** * Specification side of C11 and the predicates the correspondence check evaluates.

    The specification is an independent reading of the property statement:
      - there are two environment variable sets, plain total maps [name -> option text], both
        initially the environment exactly was started with; a current directory; a timeout;
      - [env] changes the named set(s) - whatever the phase -; a [${name}] reference in the value
        is replaced by the value [name] has in the set being changed (before the change), by the
        empty string if it has none; [cd] to an existing directory changes the current directory;
        [timeout] changes the timeout; nothing else changes anything (in particular not a child
        process that changes its own directory);
      - the process of the act phase sees the act set, every other process the non-act set; every
        process sees the current directory and the timeout in force - including the program an
        [env NAME = -stdout-from PROGRAM] instruction runs to compute its value (for THAT process
        only the directory and the timeout are specified, not its environment: the manual gives
        it the environment of the set being changed);
      - what is in force at a point of the execution is the result of the instructions executed
        before that point, in execution order (setup, act, before-assert, assert, cleanup; an
        instruction that fails ends the phases before cleanup). *)
From Coq Require Import NArith List Bool Arith.
From Exactly Require Import Lib.Harness Model.Settings.
Import ListNotations.
Local Open Scope N_scope.

(** ** Substitution of [${name}] references, declaratively *)
Definition name_char (c : N) : Prop :=
  (97 <= c <= 122) \/ (65 <= c <= 90) \/ (48 <= c <= 57) \/ c = 95.

Definition is_name (nm : name) : Prop := nm <> [] /\ Forall name_char nm.

(** the text [${nm}] *)
Definition reference (nm : name) : text := 36 :: 123 :: nm ++ [125].

(** [s] has a reference starting at offset [i] *)
Definition ref_at (s : text) (i : nat) : Prop :=
  exists nm rest, is_name nm /\ (i <= length s)%nat /\ skipn i s = reference nm ++ rest.

Definition value_of (look : name -> option text) (nm : name) : text :=
  match look nm with Some v => v | None => [] end.

(** left-to-right, non-overlapping: the leftmost reference is replaced, then the text after it *)
Inductive Expands (look : name -> option text) : text -> text -> Prop :=
| Exp_none : forall s, (forall i, ~ ref_at s i) -> Expands look s s
| Exp_ref : forall pre nm rest out,
    is_name nm ->
    (forall i, (i < length pre)%nat -> ~ ref_at (pre ++ reference nm ++ rest) i) ->
    Expands look rest out ->
    Expands look (pre ++ reference nm ++ rest) (pre ++ value_of look nm ++ out).

(** the same as a function (used by the executable specification below; proved to satisfy
    [Expands], which is proved functional, in Proofs/SettingsExpand.v) *)
Definition name_charb (c : N) : bool :=
  ((97 <=? c) && (c <=? 122)) || ((65 <=? c) && (c <=? 90)) || ((48 <=? c) && (c <=? 57)) || (c =? 95).

Fixpoint take_name (s : text) : name :=
  match s with
  | c :: s' => if name_charb c then c :: take_name s' else []
  | [] => []
  end.

(** does [s] start with a reference?  its name *)
Definition ref_here (s : text) : option name :=
  match s with
  | c1 :: c2 :: s' =>
      if (c1 =? 36) && (c2 =? 123) then
        let nm := take_name s' in
        match nm, skipn (length nm) s' with
        | _ :: _, c3 :: _ => if c3 =? 125 then Some nm else None
        | _, _ => None
        end
      else None
  | _ => None
  end.

(** [skip]: number of characters still belonging to the reference just replaced *)
Fixpoint expand_from (look : name -> option text) (skip : nat) (s : text) : text :=
  match s with
  | [] => []
  | c :: s' =>
      match skip with
      | S k => expand_from look k s'
      | O => match ref_here s with
             | Some nm => value_of look nm ++ expand_from look (2 + length nm) s'
             | None => c :: expand_from look 0 s'
             end
      end
  end.

Definition expand_spec (look : name -> option text) (s : text) : text := expand_from look 0 s.

(** ** The specification state machine *)
Definition smap := name -> option text.

Record sstate := SState {
  ss_act : smap;
  ss_nonact : smap;
  ss_timeout : timeout;
  ss_cwd : path }.

Definition upd (m : smap) (n : name) (v : option text) : smap :=
  fun k => if text_eqb k n then v else m k.

Definition smodify (md : modifier) (m : smap) : smap :=
  match md with
  | MSet n v => upd m n (Some (expand_spec m v))
  | MUnset n => upd m n None
  end.

(** the effect of one instruction; [None] = the instruction fails (and has no effect) *)
Definition sstep (dirs : list path) (o : op) (s : sstate) : option sstate :=
  match o with
  | OEnv t md =>
      Some (SState (if has_act t then smodify md (ss_act s) else ss_act s)
                   (if has_non_act t then smodify md (ss_nonact s) else ss_nonact s)
                   (ss_timeout s) (ss_cwd s))
  | OEnvProg t n v =>
      (* the value is what the program printed; which environment that program is given is not
         specified here (documented: that of the set being changed) *)
      let md := MSet n v in
      Some (SState (if has_act t then smodify md (ss_act s) else ss_act s)
                   (if has_non_act t then smodify md (ss_nonact s) else ss_nonact s)
                   (ss_timeout s) (ss_cwd s))
  | OCd b suffix =>
      match walk (base_dir (ss_cwd s) b) suffix with
      | Some d => if existsb (path_eqb d) dirs
                  then Some (SState (ss_act s) (ss_nonact s) (ss_timeout s) d) else None
      | None => None
      end
  | OTimeout t => Some (SState (ss_act s) (ss_nonact s) t (ss_cwd s))
  | OChildCd _ _ => Some s
  | OProbe => Some s
  end.

(** the instructions in execution order, up to the first that fails: the state then, and
    whether one failed *)
Fixpoint sfold (dirs : list path) (ops : list op) (s : sstate) : sstate * bool :=
  match ops with
  | [] => (s, false)
  | o :: ops' => match sstep dirs o s with
                 | Some s' => sfold dirs ops' s'
                 | None => (s, true)
                 end
  end.

Definition sinitial (c : config) : sstate :=
  SState (get (c_default c)) (get (c_default c)) (c_timeout c) sds_act.

Definition if_reached (r : sstate * bool) : option sstate :=
  if snd r then None else Some (fst r).

(** the state in force when the instruction / process at [pt] starts; [None]: an earlier
    instruction failed, so the specification does not expect [pt] to be reached at all *)
Definition spec_before (c : config) (h : history) (pt : point) : option sstate :=
  let dirs := c_dirs c in
  match pt with
  | PtInstr PSetup i => if_reached (sfold dirs (firstn i (h_setup h)) (sinitial c))
  | PtAct => if_reached (sfold dirs (h_setup h) (sinitial c))
  | PtInstr PBeforeAssert i =>
      if_reached (sfold dirs (h_setup h ++ firstn i (h_before_assert h)) (sinitial c))
  | PtInstr PAssert i =>
      if_reached (sfold dirs (h_setup h ++ h_before_assert h ++ firstn i (h_assert h)) (sinitial c))
  | PtInstr PCleanup i =>
      (* cleanup starts from wherever the earlier phases ended or halted *)
      let s := fst (sfold dirs (h_setup h ++ h_before_assert h ++ h_assert h) (sinitial c)) in
      if_reached (sfold dirs (firstn i (h_cleanup h)) s)
  end.

(** the instructions before a point of the phases before cleanup, in execution order *)
Definition instructions_before (h : history) (pt : point) : list op :=
  match pt with
  | PtInstr PSetup i => firstn i (h_setup h)
  | PtAct => h_setup h
  | PtInstr PBeforeAssert i => h_setup h ++ firstn i (h_before_assert h)
  | PtInstr PAssert i => h_setup h ++ h_before_assert h ++ firstn i (h_assert h)
  | PtInstr PCleanup i => h_setup h ++ h_before_assert h ++ h_assert h
  end.

Definition in_cleanup (pt : point) : bool :=
  match pt with PtInstr PCleanup _ => true | _ => false end.

Definition sets_timeout (o : op) : bool := match o with OTimeout _ => true | _ => false end.
Definition is_cd (o : op) : bool := match o with OCd _ _ => true | _ => false end.

Definition no_timeout (ops : list op) : Prop := forallb (fun o => negb (sets_timeout o)) ops = true.
Definition no_cd (ops : list op) : Prop := forallb (fun o => negb (is_cd o)) ops = true.

(** what a process started at [pt] sees *)
Record sobs := SObs { so_env : smap; so_cwd : path; so_timeout : timeout }.

Definition spec_view (pt : point) (s : sstate) : sobs :=
  SObs (match pt with PtAct => ss_act s | PtInstr _ _ => ss_nonact s end) (ss_cwd s) (ss_timeout s).

(** an observed (or model) observation agrees with the specification's *)
Definition obs_agrees (so : sobs) (o : obs) : Prop :=
  (o_role o = RProcess -> forall n, get (o_env o) n = so_env so n) /\
  o_cwd o = so_cwd so /\ o_timeout o = so_timeout so.

(** two histories have the same instructions before [pt] (in execution order) *)
Definition agree_before (pt : point) (h h' : history) : Prop :=
  match pt with
  | PtInstr PSetup i => firstn i (h_setup h) = firstn i (h_setup h')
  | PtAct => h_setup h = h_setup h'
  | PtInstr PBeforeAssert i =>
      h_setup h = h_setup h' /\ firstn i (h_before_assert h) = firstn i (h_before_assert h')
  | PtInstr PAssert i =>
      h_setup h = h_setup h' /\ h_before_assert h = h_before_assert h' /\ firstn i (h_assert h) = firstn i (h_assert h')
  | PtInstr PCleanup i =>
      h_setup h = h_setup h' /\ h_before_assert h = h_before_assert h' /\ h_assert h = h_assert h' /\
      firstn i (h_cleanup h) = firstn i (h_cleanup h')
  end.

Definition obs_equiv (o o' : obs) : Prop :=
  (o_role o = RProcess -> o_role o' = RProcess -> forall n, get (o_env o) n = get (o_env o') n) /\
  o_cwd o = o_cwd o' /\ o_timeout o = o_timeout o'.

(** execution order of the points: setup instructions, the act process, before-assert, assert,
    cleanup instructions *)
Definition pt_rank (pt : point) : nat :=
  match pt with
  | PtInstr PSetup _ => 0 | PtAct => 1 | PtInstr PBeforeAssert _ => 2 | PtInstr PAssert _ => 3 | PtInstr PCleanup _ => 4
  end.
Definition pt_index (pt : point) : nat := match pt with PtInstr _ i => i | PtAct => 0 end.
Definition pt_ltb (a b : point) : bool :=
  (pt_rank a <? pt_rank b)%nat || ((pt_rank a =? pt_rank b)%nat && (pt_index a <? pt_index b)%nat).

(** ** Boolean predicates for the correspondence run *)
Definition timeout_eqb : timeout -> timeout -> bool := option_eqb N.eqb.

(** all names on which the comparison of environments is made: those of the initial
    environment, those the history mentions, those observed *)
Definition op_names (o : op) : list name :=
  match o with
  | OEnv _ (MSet n _) | OEnv _ (MUnset n) | OEnvProg _ n _ => [n]
  | _ => []
  end.

Definition history_names (h : history) : list name :=
  flat_map op_names (h_setup h ++ h_before_assert h ++ h_assert h ++ h_cleanup h).

Definition obs_agreesb (names : list name) (so : sobs) (o : obs) : bool :=
  match o_role o with
  | RProcess => forallb (fun n => option_eqb text_eqb (get (o_env o) n) (so_env so n)) (names ++ map fst (o_env o))
  | RValue _ => true     (* the environment of a value-computing program is not judged *)
  end
  && path_eqb (o_cwd o) (so_cwd so) && timeout_eqb (o_timeout o) (so_timeout so).

(** The property predicate on OBSERVED behaviour: every process that was observed saw exactly
    what the specification says is in force at its point.  (Which points are reached is not this
    property's business; the correspondence part compares that.) *)
Definition P_C11 (c : config) (h : history) (observed : list (point * obs)) : bool :=
  let names := map fst (c_default c) ++ history_names h in
  forallb (fun po => match spec_before c h (fst po) with
                     | Some s => obs_agreesb names (spec_view (fst po) s) (snd po)
                     | None => true
                     end) observed.

Definition phase_eqb (p q : phase_id) : bool :=
  match p, q with
  | PSetup, PSetup | PBeforeAssert, PBeforeAssert | PAssert, PAssert | PCleanup, PCleanup => true
  | _, _ => false
  end.

Definition point_eqb (a b : point) : bool :=
  match a, b with
  | PtAct, PtAct => true
  | PtInstr p i, PtInstr q j => phase_eqb p q && Nat.eqb i j
  | _, _ => false
  end.

(** same variables with the same values (dictionary order is not observable) *)
Definition env_equivb (e1 e2 : env) : bool :=
  forallb (fun kv => option_eqb text_eqb (get e2 (fst kv)) (get e1 (fst kv))) e1 &&
  forallb (fun kv => option_eqb text_eqb (get e1 (fst kv)) (get e2 (fst kv))) e2.

Definition role_eqb (a b : role) : bool :=
  match a, b with
  | RProcess, RProcess => true
  | RValue j, RValue k => Nat.eqb j k
  | _, _ => false
  end.

Definition obs_eqb (a b : obs) : bool :=
  env_equivb (o_env a) (o_env b) && path_eqb (o_cwd a) (o_cwd b) && timeout_eqb (o_timeout a) (o_timeout b) &&
  role_eqb (o_role a) (o_role b).

(** did some instruction fail (the phases before cleanup halted, or cleanup did)? *)
Definition some_instruction_fails (c : config) (h : history) : bool :=
  let main := sfold (c_dirs c) (h_setup h ++ h_before_assert h ++ h_assert h) (sinitial c) in
  snd main || snd (sfold (c_dirs c) (h_cleanup h) (fst main)).

Record case := Case {
  k_cfg : config;
  k_hist : history;
  k_obs : list (point * obs);     (* what the probe processes of the real run reported, in order *)
  k_failed : bool }.              (* the real run did not end with PASS *)

Definition check_case (k : case) : bool * bool :=
  ( match run (k_cfg k) (k_hist k) with
    | (t, Done) => list_eqb (pair_eqb point_eqb obs_eqb) t (k_obs k)
    | _ => false
    end && Bool.eqb (some_instruction_fails (k_cfg k) (k_hist k)) (k_failed k),
    P_C11 (k_cfg k) (k_hist k) (k_obs k) ).

(** *** Direct cases for [_expand_vars] (a second, dense stream: no processes involved) *)
Record xcase := XCase {
  x_value : text;
  x_env : env;
  x_impl : text }.     (* what the real _expand_vars returned *)

Definition check_xcase (k : xcase) : bool * bool :=
  ( option_eqb text_eqb (expand_vars (x_value k) (x_env k)) (Some (x_impl k)),
    text_eqb (expand_spec (get (x_env k)) (x_value k)) (x_impl k) ).
