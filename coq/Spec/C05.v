(** * Specification side of C05: what the reference manual says a text matcher / text transformer
    means, as functions of the WHOLE text (no line iterators, no sources, no strategies), and the
    case type + boolean check evaluated by the correspondence harness.

    Reference manual (help syntax TEXT-MATCHER / TEXT-TRANSFORMER / LINE-MATCHER):
      is-empty        "Matches iff the text is empty."
      equals          "Matches iff the text is equal to TEXT-SOURCE."
      matches [-full] "Matches iff REGEX matches any part of the text.  If -full is given, then REGEX
                       must match the full text."
      num-lines       "Matches iff the number of lines of the text matches INTEGER-MATCHER."
      every/any line  "Matches iff every/any line satisfies LINE-MATCHER."  A line is its number
                      (from 1) and its text contents; "the line separator is not included".
      -transformed-by "Applies TEXT-MATCHER to the original text transformed by TEXT-TRANSFORMER."
      ! && ||         negation, conjunction, disjunction.
      filter          "Keeps lines matched by MATCHER, and discards lines not matched."
                      -line-nums RANGE... "A line matches iff it's line number matches any LINE-NUMBER-RANGE";
                      "Negative numbers denote line numbers relative to the end. -1 is the last line number"
      grep            "Shortcut for filter contents matches."
      replace         "Replaces every string matching REGEX (on a single line) with STRING. ... Every
                       line ends with "\n", except the last line, which may or may not end with "\n".
                       If -preserve-new-lines is given, this "\n" is excluded from the replacement."
                      -at LINE-MATCHER "Limits replacement to lines matching LINE-MATCHER."
      char-case       "Converts all cased characters to lowercase / uppercase."
      strip           "Removes all whitespace at the beginning and end of the text";
                      -trailing-space "... at the end of the text";
                      -trailing-new-lines "Removes every "\n" at the end of the text."
      identity        "Gives output that is identical to the input."
      T1 | T2         "The output of the text-transformer to the left is given as input to the
                       text-transformer to the right." *)
From Coq Require Import ZArith NArith List Bool.
From Exactly Require Import Lib.Harness Lib.Text Model.Interval Model.LineNums Model.TextOps Spec.C13b.
Import ListNotations.

Fixpoint dropwhile {A} (p : A -> bool) (l : list A) : list A :=
  match l with
  | [] => []
  | x :: l' => if p x then dropwhile p l' else l
  end.
Definition drop_leading (p : char -> bool) (t : text) : text := dropwhile p t.
Definition drop_trailing (p : char -> bool) (t : text) : text := rev (dropwhile p (rev t)).

Section Sem.
  Variable re_search : nat -> text -> bool.
  Variable re_full : nat -> text -> bool.
  Variable re_sub : nat -> text -> text.
  Variable py_upper : text -> text.
  Variable py_lower : text -> text.
  Variable is_space : char -> bool.

  (** The lines of a text, numbered from 1: (number, line including its "\n" if it has one). *)
  Definition numbered_lines (t : text) : list (Z * text) := enumerate_from text 1 (lines_lf t).
  Definition line_contents (l : text) : text := rstrip_nl l.
  Definition has_nl (l : text) : bool := existsb (N.eqb NL) l.

  (** substitution on one line *)
  Definition sub_line (preserve_new_lines : bool) (k : nat) (l : text) : text :=
    if preserve_new_lines && has_nl l then re_sub k (line_contents l) ++ [NL] else re_sub k l.

  Fixpoint sem_m (m : smatcher) (t : text) {struct m} : bool :=
    match m with
    | SEmpty => match t with [] => true | _ => false end
    | SEquals e => text_eqb t (sem_src e)
    | SMatches full r => if full then re_full r t else re_search r t
    | SNumLines im => imatches (fun _ _ => false) im (Z.of_nat (length (lines_lf t)))
    | SLine QAll lm => forallb (fun nl => sem_lm lm (fst nl) (line_contents (snd nl))) (numbered_lines t)
    | SLine QAny lm => existsb (fun nl => sem_lm lm (fst nl) (line_contents (snd nl))) (numbered_lines t)
    | STransformed T m' => sem_m m' (sem_t T t)
    | SConst b => b
    | SNot m' => negb (sem_m m' t)
    | SAnd a b => sem_m a t && sem_m b t
    | SOr a b => sem_m a t || sem_m b t
    end
  with sem_lm (lm : lmatcher) (n : Z) (contents : text) {struct lm} : bool :=
    match lm with
    | LContents m => sem_m m contents
    | LLineNum im => imatches (fun _ _ => false) im n
    | LConst b => b
    | LNot m => negb (sem_lm m n contents)
    | LAnd a b => sem_lm a n contents && sem_lm b n contents
    | LOr a b => sem_lm a n contents || sem_lm b n contents
    end
  with sem_t (T : ttrans) (t : text) {struct T} : text :=
    match T with
    | TIdentity => t
    | TReplace preserve k => concat (map (sub_line preserve k) (lines_lf t))
    | TReplaceAt sel preserve k =>
        concat (map (fun nl => if sem_lm sel (fst nl) (line_contents (snd nl))
                               then sub_line preserve k (snd nl) else snd nl) (numbered_lines t))
    | TStrip => drop_trailing is_space (drop_leading is_space t)
    | TStripTrailingSpace => drop_trailing is_space t
    | TStripTrailingNewLines => drop_trailing (N.eqb NL) t
    | TUpper => py_upper t
    | TLower => py_lower t
    | TFilter lm =>
        concat (map snd (filter (fun nl => sem_lm lm (fst nl) (line_contents (snd nl))) (numbered_lines t)))
    | TFilterLineNums rs =>
        (* the lines whose 1-based number lies in at least one RANGE, negative numbers counting from the end
           (Spec/C13b.v [line_nums_spec], [in_ranges]) *)
        concat (line_nums_spec rs (lines_lf t))
    | TSeq a b => sem_t b (sem_t a t)
    end
  with sem_src (e : tsource) {struct e} : text :=
    match e with
    | SrcStr t => t
    | SrcFile t => t
    | SrcTrans e' T => sem_t T (sem_src e')
    end.
End Sem.

(** What the theorems assume of [str.upper] / [str.lower] (Python library, not exactly's code): the
    conversion respects the division of a text into lines - the conversion of a line is a line of the
    same kind, and the conversion of [line ++ rest] is the concatenation of the conversions.  (The
    harness checks this on every text it converts.) *)
Definition case_map_ok (f : text -> text) : Prop :=
  f [] = [] /\
  (forall l, is_full_line l = true -> is_full_line (f l) = true) /\
  (forall l, is_partial_line l = true -> is_partial_line (f l) = true) /\
  (forall l t, is_full_line l = true -> f (l ++ t) = f l ++ f t).

Definition library_assumptions (py_upper py_lower : text -> text) (is_space : char -> bool) : Prop :=
  is_space NL = true /\ case_map_ok py_upper /\ case_map_ok py_lower.

(** ** Oracle tables computed by the harness with the real Python library for the queries of one
    case.  A query that is not in the table evaluates to an OPAQUE constant: [vm_compute] cannot
    reduce a verdict that depends on it to [true]/[false], the shard summary is then not a pair of
    numbers and the run is reported as a harness error (fail-closed) - never a default value. *)
Definition oracle_miss_bool : bool. Proof. exact false. Qed.
Definition oracle_miss_text : text. Proof. exact []. Qed.

Record oracle_tables := OT {
  ot_re : list (list (text * (bool * bool)));   (* per pattern: text -> (search, fullmatch) *)
  ot_sub : list (list (text * text));           (* per (pattern, replacement): text -> sub *)
  ot_case : list (text * (text * text)) }.      (* text -> (upper, lower) *)

Fixpoint assoc {B} (t : text) (l : list (text * B)) : option B :=
  match l with
  | [] => None
  | (k, v) :: l' => if text_eqb k t then Some v else assoc t l'
  end.

Definition tab_search (ot : oracle_tables) (r : nat) (t : text) : bool :=
  match assoc t (nth r (ot_re ot) []) with Some v => fst v | None => oracle_miss_bool end.
Definition tab_full (ot : oracle_tables) (r : nat) (t : text) : bool :=
  match assoc t (nth r (ot_re ot) []) with Some v => snd v | None => oracle_miss_bool end.
Definition tab_sub (ot : oracle_tables) (k : nat) (t : text) : text :=
  match assoc t (nth k (ot_sub ot) []) with Some v => v | None => oracle_miss_text end.
Definition tab_upper (ot : oracle_tables) (t : text) : text :=
  match assoc t (ot_case ot) with Some v => fst v | None => oracle_miss_text end.
Definition tab_lower (ot : oracle_tables) (t : text) : text :=
  match assoc t (ot_case ot) with Some v => snd v | None => oracle_miss_text end.

(** Python [str.isspace] of one character (Unicode White_Space + the four information
    separators); the harness checks it against the interpreter for every character it uses. *)
Definition py_is_space (c : char) : bool :=
  existsb (N.eqb c)
          [9; 10; 11; 12; 13; 28; 29; 30; 31; 32; 133; 160; 5760; 8192; 8193; 8194; 8195; 8196; 8197;
           8198; 8199; 8200; 8201; 8202; 8232; 8233; 8239; 8287; 12288]%N.

(** ** Cases *)
Inductive case :=
  (* transformer applied to a source: the line iterator of the result.  (The flags
     may_depend_on_external_resources before / after freeze() are NOT part of the comparison: they
     select the strategy of [equals], which by C05_equals_all_strategies cannot change a verdict, so a
     change of them is harmless for this property; the harness reports them as information only.) *)
| CaseT (ot : oracle_tables) (mem : N) (T : ttrans) (e : tsource) (obs_lines : list text)
  (* transformer applied by the whole program ([file f = SOURCE -transformed-by T]): the file *)
| CaseTText (ot : oracle_tables) (mem : N) (T : ttrans) (e : tsource) (obs_text : text)
  (* matcher applied to a source: the verdict *)
| CaseM (ot : oracle_tables) (mem : N) (m : smatcher) (e : tsource) (obs : bool)
  (* ONE matcher applied to SEVERAL files by the whole program
     ([dir-contents D : every|any file : contents M]): the aggregated verdict *)
| CaseMFiles (ot : oracle_tables) (mem : N) (q : quant) (m : smatcher) (files : list text) (obs : bool).

Definition m_eval_t ot mem := eval_t (tab_search ot) (tab_full ot) (tab_sub ot) (tab_upper ot) (tab_lower ot) py_is_space mem.
Definition m_eval_m ot mem := eval_m (tab_search ot) (tab_full ot) (tab_sub ot) (tab_upper ot) (tab_lower ot) py_is_space mem.
Definition m_eval_src ot mem := eval_src (tab_search ot) (tab_full ot) (tab_sub ot) (tab_upper ot) (tab_lower ot) py_is_space mem.
Definition s_sem_t ot := sem_t (tab_search ot) (tab_full ot) (tab_sub ot) (tab_upper ot) (tab_lower ot) py_is_space.
Definition s_sem_m ot := sem_m (tab_search ot) (tab_full ot) (tab_sub ot) (tab_upper ot) (tab_lower ot) py_is_space.
Definition s_sem_src ot := sem_src (tab_search ot) (tab_full ot) (tab_sub ot) (tab_upper ot) (tab_lower ot) py_is_space.

(** The flags of the model, for the harness's informational comparison *)
Definition model_flags (c : case) : bool * bool :=
  match c with
  | CaseT ot mem T e _ | CaseTText ot mem T e _ =>
      let s := m_eval_t ot mem T (m_eval_src ot mem e) in (s_ext s, s_fext s)
  | CaseM _ _ _ _ _ | CaseMFiles _ _ _ _ _ _ => (false, false)
  end.

Definition check_flags (cf : case * (bool * bool)) : bool * bool :=
  (Bool.eqb (fst (model_flags (fst cf))) (fst (snd cf)) && Bool.eqb (snd (model_flags (fst cf))) (snd (snd cf)), true).

(** (correspondence: model = observed implementation, property: documented meaning = observed) *)
Definition check_case (c : case) : bool * bool :=
  match c with
  | CaseT ot mem T e obs_lines =>
      let s := m_eval_t ot mem T (m_eval_src ot mem e) in
      ( lines_eqb (s_lines s) obs_lines,
        text_eqb (concat obs_lines) (s_sem_t ot T (s_sem_src ot e)) )
  | CaseTText ot mem T e obs_text =>
      ( text_eqb (text_of (m_eval_t ot mem T (m_eval_src ot mem e))) obs_text,
        text_eqb obs_text (s_sem_t ot T (s_sem_src ot e)) )
  | CaseM ot mem m e obs =>
      ( Bool.eqb (m_eval_m ot mem m (m_eval_src ot mem e)) obs,
        Bool.eqb (s_sem_m ot m (s_sem_src ot e)) obs )
  | CaseMFiles ot mem q m files obs =>
      let agg (p : text -> bool) := match q with QAll => forallb p files | QAny => existsb p files end in
      ( Bool.eqb (agg (fun t => m_eval_m ot mem m (file_src t))) obs,
        Bool.eqb (agg (fun t => s_sem_m ot m t)) obs )
  end.
