(** Specification side of C07 and the predicates the correspondence check evaluates.

    The declarative reading of a test-case file ([flat]): go through the lines of the file in order;
    a header line names the phase that governs what follows (before any header: the default phase, [act]
    at top level); every other position starts an element of the governing phase, parsed by that phase's
    element parser; an inclusion directive is replaced by the reading of the named file, started in the
    including file's current phase, and does not change that phase.  The result is ONE sequence of
    (phase, element) pairs in reading order; the contents of a phase are the elements tagged with it
    ([sections_of]).  There is no dictionary, no merging and no list of visited files in this reading other
    than the chain of files being read (needed to say what "cyclic" means). *)
From Coq Require Import NArith List Bool Arith.
From Exactly Require Import Lib.Harness Model.Doc.
Import ListNotations.
Local Open Scope N_scope.

Definition tagged := list (sec * element).

Definition rbind {A B} (r : res A) (f : A -> res B) : res B :=
  match r with Ok a => f a | Err e => Err e end.

Section Spec.
  Variable iparse : sec -> text -> list text -> ires.
  Variable fs : N -> text -> fsres.
  Variable contents : N -> option (list text).

  Fixpoint flat_loop (inc : sec -> lineseq -> text -> res tagged)
           (fuel : nat) (fi : fileinfo) (cur : sec) (n : N) (ls : list text) : res tagged :=
    match fuel with
    | O => Err EFuel
    | S fuel' =>
        match ls with
        | [] => Ok []
        | l0 :: rest =>
            if at_eof ls then Ok []
            else if is_header_line l0 then
              match header_of l0 with
              | HSec s => flat_loop inc fuel' fi s (n + 1) rest
              | _ => Err (ESource None (LineSeq n [l0]) (fi_path fi) (fi_chain fi))
              end
            else
              match elem_step iparse cur n l0 rest with
              | SElem k src consumed =>
                  rbind (flat_loop inc fuel' fi cur (n + N.of_nat consumed) (skipn consumed ls))
                        (fun out => Ok ((cur, Element k src (fi_path fi) (fi_chain fi) (elem_desc cur l0 rest)) :: out))
              | SIncl src tok =>
                  rbind (inc cur src tok)
                        (fun spliced => rbind (flat_loop inc fuel' fi cur (n + 1) rest)
                                              (fun out => Ok (spliced ++ out)))
              | SErr src => Err (ESource (Some cur) src (fi_path fi) (fi_chain fi))
              | SCrash => Err ECrash
              | SOracle => Err EOracle
              end
        end
    end.

  (** [chain_ids]: resolved identities of the files being read, outermost first *)
  Fixpoint flat_include (depth : nat) (chain_ids : list N) (fi : fileinfo) (cur : sec) (src : lineseq) (tok : text)
    : res tagged :=
    match depth with
    | O => Err EFuel
    | S depth' =>
        let chain' := fi_chain fi ++ [Loc (fi_path fi) src] in
        match fs (fi_dir fi) tok with
        | FsMiss => Err EOracle
        | FsEntry display None => Err (EAccess (Some cur) display chain' Missing)
        | FsEntry display (Some (fid, dir')) =>
            if existsb (N.eqb fid) chain_ids then Err (EAccess (Some cur) display chain' Cyclic)
            else match contents fid with
                 | None => Err EOracle
                 | Some ls =>
                     let fi' := FileInfo display chain' dir' in
                     flat_loop (flat_include depth' (chain_ids ++ [fid]) fi') (S (length ls)) fi' cur 1 ls
                 end
        end
    end.

  Definition flat_root (depth : nat) (root : N) (path : text) (dir : N) (ls : list text) : res tagged :=
    let fi := FileInfo path [] dir in
    flat_loop (flat_include depth [root] fi) (S (length ls)) fi SAct 1 ls.
End Spec.

Definition sections_of (out : tagged) (s : sec) : list element :=
  map snd (filter (fun p => sec_eqb (fst p) s) out).

(** * Boolean equalities *)
Definition lines_eqb : list text -> list text -> bool := list_eqb text_eqb.
Definition lineseq_eqb (a b : lineseq) : bool := (ls_first a =? ls_first b) && lines_eqb (ls_lines a) (ls_lines b).
Definition loc_eqb (a b : loc) : bool := text_eqb (l_path a) (l_path b) && lineseq_eqb (l_src a) (l_src b).
Definition ekind_eqb (a b : ekind) : bool :=
  match a, b with KInstr, KInstr | KComment, KComment | KEmpty, KEmpty => true | _, _ => false end.
Definition element_eqb (a b : element) : bool :=
  ekind_eqb (e_kind a) (e_kind b) && lineseq_eqb (e_src a) (e_src b) && text_eqb (e_path a) (e_path b) &&
  list_eqb loc_eqb (e_chain a) (e_chain b) && option_eqb text_eqb (e_desc a) (e_desc b).
Definition why_eqb (a b : access_why) : bool :=
  match a, b with Missing, Missing | Cyclic, Cyclic => true | _, _ => false end.
Definition error_eqb (a b : error) : bool :=
  match a, b with
  | ESource s1 src1 p1 c1, ESource s2 src2 p2 c2 =>
      option_eqb sec_eqb s1 s2 && lineseq_eqb src1 src2 && text_eqb p1 p2 && list_eqb loc_eqb c1 c2
  | EAccess s1 p1 c1 w1, EAccess s2 p2 c2 w2 =>
      option_eqb sec_eqb s1 s2 && text_eqb p1 p2 && list_eqb loc_eqb c1 c2 && why_eqb w1 w2
  | ECrash, ECrash => true
  | _, _ => false    (* EFuel and EOracle are never equal to an observation *)
  end.

(** * Observation of the implementation: the six phase contents in the order of [all_secs], or the error *)
Inductive obs := OOk (secs : list (list element)) | OErr (e : error).

Definition obs_of_doc (r : res rawdoc) : obs :=
  match r with Ok d => OOk (map d all_secs) | Err e => OErr e end.
Definition obs_of_flat (r : res tagged) : obs :=
  match r with Ok out => OOk (map (sections_of out) all_secs) | Err e => OErr e end.
Definition obs_eqb (a b : obs) : bool :=
  match a, b with
  | OOk x, OOk y => list_eqb (list_eqb element_eqb) x y
  | OErr x, OErr y => error_eqb x y
  | _, _ => false
  end.

(** * Tables standing for the oracles in a concrete case *)
(** the instruction oracle of a case: per position (file, 0-based line, column) the answers of the phases'
    instruction parsers for the text that starts there; a query is answered by the entry whose text it is *)
Definition otable := list (N * nat * nat * list (sec * ires)).
Definition ires_of_table (files : list (N * list text)) (tab : otable) (s : sec) (r0 : text) (rest : list text) : ires :=
  match find (fun e => match e with
                       | (fid, i, c, _) =>
                           match find (fun f => fst f =? fid) files with
                           | Some f => text_eqb (skipn c (nth i (snd f) [])) r0 && list_eqb text_eqb (skipn (S i) (snd f)) rest
                           | None => false
                           end
                       end) tab with
  | Some (_, _, _, answers) =>
      match find (fun a => sec_eqb (fst a) s) answers with Some a => snd a | None => IMiss end
  | None => IMiss
  end.
Definition fs_of_table (tab : list (N * text * fsres)) (dir : N) (tok : text) : fsres :=
  match find (fun e => (fst (fst e) =? dir) && text_eqb (snd (fst e)) tok) tab with
  | Some e => snd e
  | None => FsMiss
  end.
Definition contents_of_table (tab : list (N * list text)) (fid : N) : option (list text) :=
  match find (fun e => fst e =? fid) tab with Some e => Some (snd e) | None => None end.

(** * "Carries the line number and text of the source lines it actually came from, together with the chain
      of including files" — checked against the files, independently of the reader. *)
Fixpoint is_suffix_fuel (fuel : nat) (a b : text) : bool :=   (* a is a suffix of b *)
  if text_eqb a b then true
  else match fuel, b with S f, _ :: b' => is_suffix_fuel f a b' | _, _ => false end.
Definition is_suffix (a b : text) : bool := is_suffix_fuel (length b) a b.

(** lines [first .. first+len-1] (1-based) of a file *)
Definition file_lines (fl : list text) (first : N) (len : nat) : option (list text) :=
  if first =? 0 then None
  else let i := N.to_nat (first - 1) in
       if (i + len <=? length fl)%nat then Some (firstn len (skipn i fl)) else None.

(** an error report may show a line without surrounding white space / without a preceding description *)
Definition came_from (reported actual : text) : bool := is_suffix (rstrip reported) (rstrip actual).

(** the recorded source of an element of phase [s] against the lines [fl] of the file it names: the lines
    [first .. first+len-1] exist and are the recorded ones — exactly for comments and empty lines, un-escaped
    for [act], and for an instruction of another phase the first recorded line is a suffix of the actual line
    (the instruction's text starts after white space / a description) *)
Definition src_ok (fl : list text) (s : sec) (k : ekind) (src : lineseq) : bool :=
  match file_lines fl (ls_first src) (length (ls_lines src)), ls_lines src with
  | Some actual, r0 :: rrest =>
      match k, s with
      | KInstr, SAct => lines_eqb (ls_lines src) (map un_escape actual)
      | KInstr, _ => is_suffix r0 (hd [] actual) && lines_eqb rrest (tl actual)
      | KComment, _ => lines_eqb (ls_lines src) actual && forallb is_comment_line actual
      | KEmpty, _ => lines_eqb (ls_lines src) actual && forallb is_empty_line actual
      end
  | _, _ => false
  end.

Fixpoint is_prefix (a b : text) : bool :=   (* a is a prefix of b *)
  match a, b with
  | [], _ => true
  | x :: a', y :: b' => (x =? y) && is_prefix a' b'
  | _ :: _, [] => false
  end.

(** the lines shown by an error report against the actual lines: each [came_from] its line; the LAST line of a
    report of several lines may stop where the parser stopped (a prefix of the actual line) *)
Fixpoint err_lines_ok (first : bool) (rep act : list text) : bool :=
  match rep, act with
  | [], [] => true
  | [r], [a] => came_from r a || (negb first && is_prefix (rstrip r) a)
  | r :: rep', a :: act' => came_from r a && err_lines_ok false rep' act'
  | _, _ => false
  end.

(** the source lines shown by an error report against the lines [fl] of the file it names *)
Definition err_src_ok (fl : list text) (src : lineseq) : bool :=
  match file_lines fl (ls_first src) (length (ls_lines src)), ls_lines src with
  | Some actual, _ :: _ => err_lines_ok true (ls_lines src) actual
  | _, _ => false
  end.

Section Located.
  Variable fs : N -> text -> fsres.
  Variable contents : N -> option (list text).

  (** follow a chain of inclusion directives from the file (id, dir, display); every link must be a real
      [including TOKEN] line of the file it claims to be in *)
  Fixpoint walk (fid dir : N) (display : text) (chain : list loc) : option (N * N * text) :=
    match chain with
    | [] => Some (fid, dir, display)
    | Loc p (LineSeq ln [t]) :: r =>
        match contents fid with
        | Some fl =>
            if text_eqb p display && option_eqb lines_eqb (file_lines fl ln 1) (Some [t]) then
              match split_ws t with
              | [kw; tok] =>
                  if text_eqb kw including_token then
                    match fs dir tok with
                    | FsEntry d' (Some (fid', dir')) => walk fid' dir' d' r
                    | _ => None
                    end
                  else None
              | _ => None
              end
            else None
        | None => None
        end
    | _ => None
    end.

  (** the last link of the chain of an access error: the directive whose file could not be included *)
  Definition walk_access (fid dir : N) (display : text) (chain : list loc) (path : text) (why : access_why)
    : bool :=
    match rev chain with
    | [] => false
    | Loc p (LineSeq ln lines) :: rinit =>
        match walk fid dir display (rev rinit) with
        | Some (fid', dir', d') =>
            match contents fid', lines with
            | Some fl, [t] =>
                text_eqb p d' && option_eqb lines_eqb (file_lines fl ln 1) (Some [t]) &&
                match split_ws t with
                | [kw; tok] =>
                    text_eqb kw including_token &&
                    match fs dir' tok with
                    | FsEntry d'' target =>
                        text_eqb d'' path &&
                        match why, target with
                        | Missing, None => true
                        | Cyclic, Some _ => true
                        | _, _ => false
                        end
                    | FsMiss => false
                    end
                | _ => false
                end
            | _, _ => false
            end
        | None => false
        end
    end.

  Definition located_element (root rdir : N) (rpath : text) (s : sec) (e : element) : bool :=
    match walk root rdir rpath (e_chain e) with
    | Some (fid, _, display) =>
        text_eqb display (e_path e) &&
        match contents fid with
        | Some fl => src_ok fl s (e_kind e) (e_src e)
        | None => false
        end
    | None => false
    end.

  Definition located_error (root rdir : N) (rpath : text) (e : error) : bool :=
    match e with
    | ESource _ src path chain =>
        match walk root rdir rpath chain with
        | Some (fid, _, display) =>
            text_eqb display path &&
            match contents fid with
            | Some fl => err_src_ok fl src
            | None => false
            end
        | None => false
        end
    | EAccess _ path chain why => walk_access root rdir rpath chain path why
    | _ => false     (* an escaping exception is not an error report *)
    end.
End Located.

(** * Document case *)
Record dcase := DCase {
  dc_files : list (N * list text);             (* resolved file id -> its lines ([split('\n')]) *)
  dc_fs : list (N * text * fsres);             (* (directory id, path token) -> pathlib/OS answer *)
  dc_oracle : otable;                          (* position -> extent of the instruction that starts there, per phase *)
  dc_root : N; dc_root_path : text; dc_root_dir : N;
  dc_obs : obs }.

Definition dc_lines (c : dcase) : list text :=
  match contents_of_table (dc_files c) (dc_root c) with Some ls => ls | None => [] end.

Definition model_obs (c : dcase) : obs :=
  obs_of_doc (parse_root (ires_of_table (dc_files c) (dc_oracle c)) (fs_of_table (dc_fs c)) (contents_of_table (dc_files c))
                         (S (length (dc_files c))) (dc_root c) (dc_root_path c) (dc_root_dir c) (dc_lines c)).
Definition spec_obs (c : dcase) : obs :=
  obs_of_flat (flat_root (ires_of_table (dc_files c) (dc_oracle c)) (fs_of_table (dc_fs c)) (contents_of_table (dc_files c))
                         (S (length (dc_files c))) (dc_root c) (dc_root_path c) (dc_root_dir c) (dc_lines c)).

Definition located_obs (c : dcase) (o : obs) : bool :=
  let fs := fs_of_table (dc_fs c) in
  let ct := contents_of_table (dc_files c) in
  match o with
  | OOk secs =>
      Nat.eqb (length secs) 6 &&
      forallb (fun p => forallb (located_element fs ct (dc_root c) (dc_root_dir c) (dc_root_path c) (fst p)) (snd p))
              (combine all_secs secs)
  | OErr e => located_error fs ct (dc_root c) (dc_root_dir c) (dc_root_path c) e
  end.

(** (correspondence: the model reproduces the observation;
     property on the OBSERVED behaviour: it is the declarative reading of the files, and every element /
     error report is located where it says) *)
Definition check_dcase (c : dcase) : bool * bool :=
  (obs_eqb (model_obs c) (dc_obs c),
   obs_eqb (spec_obs c) (dc_obs c) && located_obs c (dc_obs c)).

(** * Phase order: blocks and their permutations *)
Record block := Block { b_sec : sec; b_header : text; b_body : list text }.
Definition doc_of_blocks (bs : list block) : list text :=
  concat (map (fun b => b_header b :: b_body b) bs) ++ [[]].
Definition same_phase_order (bs bs' : list block) : bool :=
  forallb (fun s => list_eqb (fun a b => lines_eqb (b_header a :: b_body a) (b_header b :: b_body b))
                             (filter (fun b => sec_eqb (b_sec b) s) bs)
                             (filter (fun b => sec_eqb (b_sec b) s) bs')) all_secs.
Definition headers_ok (bs : list block) : bool :=
  forallb (fun b => is_header_line (b_header b) &&
                    match header_of (b_header b) with HSec s => sec_eqb s (b_sec b) | _ => false end) bs.

(** what an instruction element contributes to the outcome: its text and where the file came from, not line numbers *)
Definition content := (list text * text * list text)%type.
Definition content_of (e : element) : content := (ls_lines (e_src e), e_path e, map l_path (e_chain e)).
Definition content_eqb (a b : content) : bool :=
  lines_eqb (fst (fst a)) (fst (fst b)) && text_eqb (snd (fst a)) (snd (fst b)) && lines_eqb (snd a) (snd b).
Definition is_instr (e : element) : bool := match e_kind e with KInstr => true | _ => false end.
Definition instr_contents (es : list element) : list content := map content_of (filter is_instr es).

Definition obs_instr_eqb (a b : obs) : bool :=
  match a, b with
  | OOk x, OOk y => list_eqb (fun p q => list_eqb content_eqb (instr_contents p) (instr_contents q)) x y
  | _, _ => false
  end.

(** a document given as blocks, a permutation of the blocks, the two observations (as document cases whose
    root files are the two renderings), and the verdicts (exit code, stdout) of executing both *)
Record pcase := PCase {
  pc_blocks : list block; pc_blocks' : list block;
  pc_case : dcase; pc_case' : dcase;
  pc_verdict : N * text; pc_verdict' : N * text }.

Definition check_pcase (c : pcase) : bool * bool :=
  ( (* tie: the files of the two cases are the renderings of the block lists, the block lists are
       related as the theorem demands, and the model reproduces both observations *)
    lines_eqb (dc_lines (pc_case c)) (doc_of_blocks (pc_blocks c)) &&
    lines_eqb (dc_lines (pc_case' c)) (doc_of_blocks (pc_blocks' c)) &&
    same_phase_order (pc_blocks c) (pc_blocks' c) && headers_ok (pc_blocks c) &&
    (* included files declare no phases themselves *)
    forallb (fun f => (fst f =? dc_root (pc_case c)) || forallb (fun l => negb (is_header_line l)) (snd f)) (dc_files (pc_case c)) &&
    obs_eqb (model_obs (pc_case c)) (dc_obs (pc_case c)) &&
    obs_eqb (model_obs (pc_case' c)) (dc_obs (pc_case' c)),
    (* property: same instructions per phase, same outcome *)
    obs_instr_eqb (dc_obs (pc_case c)) (dc_obs (pc_case' c)) &&
    (fst (pc_verdict c) =? fst (pc_verdict' c)) && text_eqb (snd (pc_verdict c)) (snd (pc_verdict' c)) ).

(** * ParseSource case: a source string, a sequence of operations, and what the real ParseSource showed
      after each operation ([None] = it raised) *)
Record psobs := PsObs {
  po_line : option N; po_col : N; po_cur : text; po_remaining : text; po_eof : bool }.
Definition psobs_of (p : psrc) : psobs :=
  PsObs (ps_line p) (N.of_nat (ps_col p)) (ps_cur p) (ps_remaining_source p) (ps_is_at_eof p).
Definition psobs_eqb (a b : psobs) : bool :=
  option_eqb N.eqb (po_line a) (po_line b) && (po_col a =? po_col b) && text_eqb (po_cur a) (po_cur b) &&
  text_eqb (po_remaining a) (po_remaining b) && Bool.eqb (po_eof a) (po_eof b).

Record pscase := PsCase { psc_src : text; psc_ops : list psop; psc_obs : list (option psobs) }.

(** model trace: state after each operation, stopping at the first failure *)
Fixpoint ps_trace (ops : list psop) (p : psrc) : list (option psobs) :=
  match ops with
  | [] => []
  | o :: r => match ps_apply o p with
              | None => [None]
              | Some p' => Some (psobs_of p') :: ps_trace r p'
              end
  end.

(** the property on the observed states: line number = 1 + newlines consumed, remaining = the rest of the
    original, current line text = the line of the original that contains the position *)
Definition ps_state_ok (s : text) (o : psobs) : bool :=
  let consumed := (length s - length (po_remaining o))%nat in
  text_eqb (po_remaining o) (skipn consumed s) &&
  match po_line o with
  | Some n =>
      (n =? 1 + N.of_nat (count_nl (firstn consumed s))) &&
      text_eqb (po_cur o) (nth (count_nl (firstn consumed s)) (split_lines s) [])
  | None => Nat.eqb consumed (length s)
  end.

Definition check_pscase (c : pscase) : bool * bool :=
  ( list_eqb (option_eqb psobs_eqb) (ps_trace (psc_ops c) (ps_init (psc_src c))) (psc_obs c),
    forallb (fun o => match o with Some st => ps_state_ok (psc_src c) st | None => true end) (psc_obs c) ).

(** * Line classification case: what syntax.py, _un_escape and str.split say about one line.  Of the header
      only what the property talks about is compared: the phase it names, or "not a valid phase header"
      (malformed and unknown headers are both errors; which of the two is not observable in an error report). *)
Record hcase := HCase {
  hc_line : text;
  hc_empty : bool; hc_comment : bool; hc_header : bool;
  hc_phase : option text;       (* the section name extracted from a header line if it is the name of a phase *)
  hc_unescaped : text;          (* act_phase_source_parser._un_escape *)
  hc_split : list text }.       (* str.split() *)

Definition strip_sptab (l : text) : text := rev (drop_while is_sptab (rev (drop_while is_sptab l))).

Definition check_hcase (c : hcase) : bool * bool :=
  let l := hc_line c in
  ( Bool.eqb (is_empty_line l) (hc_empty c) && Bool.eqb (is_comment_line l) (hc_comment c) &&
    Bool.eqb (is_header_line l) (hc_header c) &&
    option_eqb text_eqb (if is_header_line l then match header_of l with HSec s => Some (sec_name s) | _ => None end else None)
               (hc_phase c) &&
    text_eqb (un_escape l) (hc_unescaped c) && lines_eqb (split_ws l) (hc_split c),
    (* property: a line is the header of phase NAME exactly when, apart from surrounding blanks and tabs, it is [NAME] *)
    match find (fun s => text_eqb (strip_sptab l) (c_lbr :: sec_name s ++ [c_rbr])) all_secs with
    | Some s => option_eqb text_eqb (hc_phase c) (Some (sec_name s))
    | None => match hc_phase c with None => true | Some _ => false end
    end ).

(** * Report case: the chain of "FILE, line N" entries (each with the source text printed below it) of the
      report that `exactly CASE` printed, for an error / failure located in a file at inclusion depth >= 1;
      CASE and the printed files are relative to the current directory of the run. *)
Fixpoint join_path (p : path) : text :=
  match p with [] => [] | [c] => c | c :: r => c ++ 47 :: join_path r end.

Record rcase := RCase {
  rc_files : list (path * list text);            (* normalised path relative to the cwd -> lines of the file *)
  rc_links : list (path * N);                    (* the inclusion chain as written: (path in the directive / CASE, line) *)
  rc_obs : list (path * N * list text) }.        (* printed entries: (path, line number, source lines printed) *)

Definition entry_true (files : list (path * list text)) (e : path * N * list text) : bool :=
  match e with
  | (p, n, src) =>
      match find (fun f => lines_eqb (fst f) (norm_path p)) files, src with
      | Some f, _ :: _ => option_eqb lines_eqb (file_lines (snd f) n (length src)) (Some src)
      | _, _ => false
      end
  end.

(** entry i (not the last) shows the directive `including P` where P is the path of link i+1 as written *)
Fixpoint directives_ok (obs : list (path * N * list text)) (links : list (path * N)) : bool :=
  match obs, links with
  | (_, _, src) :: ((_ :: _) as obs'), _ :: (((p, _) :: _) as links') =>
      match src with
      | [l] => match split_ws l with
               | [kw; tok] => text_eqb kw including_token && text_eqb tok (join_path p)
               | _ => false
               end
      | _ => false
      end && directives_ok obs' links'
  | _, _ => true
  end.

Definition check_rcase (c : rcase) : bool * bool :=
  ( (* the model of the printed chain gives the printed paths and line numbers *)
    list_eqb (fun a b => lines_eqb (fst a) (fst b) && (snd a =? snd b))
             (printed_chain (rc_links c)) (map fst (rc_obs c)),
    (* every printed entry is true: the file exists (relative to the cwd), the line has that number and text;
       one entry per file of the chain; the entries before the last are the inclusion directives *)
    Nat.eqb (length (rc_obs c)) (length (rc_links c)) && forallb (entry_true (rc_files c)) (rc_obs c) &&
    directives_ok (rc_obs c) (rc_links c) ).
