(** * Model of the phased executor (properties C01, C03, C04, C19).

    Mirrors (same blocks, same order of try-blocks, same cleanup policies):
      - execution/partial_execution/impl/executor.py  ([_PartialExecutor.execute],
        [_sequence_with_cleanup], [_continue_from_before_assert], [_finish_with_cleanup_phase])
      - execution/partial_execution/impl/symbol_validation.py ([SymbolsValidator.validate] order)
      - execution/impl/phase_step_execution.py ([execute_phase_prim]: stop at the first failing
        instruction; [execute_action_and_catch_internal_error_exception])
      - execution/impl/single_instruction_executor.py ([execute_element]: HardErrorException ->
        HARD_ERROR, other exceptions -> INTERNAL_ERROR)
      - execution/impl/phase_step_executors.py (the [_from_*] translators)
      - execution/partial_execution/impl/atc_execution.py, act_helper.py (act steps)
      - execution/full_execution/execution.py (conf phase first, SKIP, translate_status)
    Executable definitions only. *)
From Coq Require Import List Bool Arith.
From Exactly Require Import Model.Outcome.
Import ListNotations.

Inductive phase := Conf | Setup | Act | BeforeAssert | Assert | Cleanup.
Inductive stepk :=
  SActParse | SValSym | SValPre | SValPost | SValExeInput | SPrepare | SExecute | SMain.

(** How one instruction (or the actor / action to check) behaves at one step. *)
Inductive beh :=
| BOk
| BValErr       (* returns a validation error (svh), or references an undefined symbol *)
| BHardRet      (* returns a hard error (svh / sh / pfh / eh) *)
| BFail         (* assertion: returns FAIL (pfh) *)
| BHardRaise    (* raises HardErrorException *)
| BExn          (* raises any other exception *)
| BSyntax.      (* actor: raises ParseException *)

(** The [_from_*] translators + [execute_element] / [execute_action_and_catch_...]:
    [None] = the step succeeded. *)
Definition outcome (b : beh) : option fail_status :=
  match b with
  | BOk => None
  | BValErr => Some FValidation
  | BHardRet | BHardRaise => Some FHard
  | BFail => Some FFail
  | BExn => Some FInternal
  | BSyntax => Some FSyntax
  end.

(** Which behaviours the return type of a step admits (used by generators and non-vacuity
    examples; the executor itself treats all behaviours uniformly). *)
Definition admissible (p : phase) (k : stepk) (b : beh) : bool :=
  match b with
  | BOk | BHardRaise | BExn => true
  | BSyntax => match p, k with Act, SActParse => true | _, _ => false end
  | BValErr => match k with SValSym | SValPre | SValPost => true
                          | SMain => match p with Conf => true | _ => false end
                          | _ => false end
  | BHardRet => match k with
                | SValSym | SActParse => false
                | _ => true
                end
  | BFail => match p, k with Assert, SMain => true | _, _ => false end
  end.

Definition instr := stepk -> beh.

Inductive prev_phase := PSetup | PAct | PBeforeAssert | PAssert.

Record testcase := TC {
  tc_conf : list instr;
  tc_setup : list instr;
  tc_atc : instr;                 (* actor.parse + the ActionToCheck *)
  tc_before_assert : list instr;
  tc_assert : list instr;
  tc_cleanup : list instr;
  tc_status : tc_status;          (* the status in force after the conf phase *)
  tc_act_only : bool }.           (* exe_atc_and_skip_assertions (--act) *)

Definition instrs_of (tc : testcase) (p : phase) : list instr :=
  match p with
  | Conf => tc_conf tc
  | Setup => tc_setup tc
  | Act => [tc_atc tc]
  | BeforeAssert => tc_before_assert tc
  | Assert => tc_assert tc
  | Cleanup => tc_cleanup tc
  end.

Inductive event :=
| EInstr (p : phase) (k : stepk) (idx : nat) (prev : option prev_phase)
    (* step [k] of instruction number [idx] of phase [p] is invoked; cleanup main is told [prev] *)
| ESandbox                      (* sandbox constructed, cwd := act dir *)
| ECleanupBegin (prev : prev_phase). (* [_cleanup_main] entered (not observable when [cleanup] is empty) *)

Record failure := Failure { f_phase : phase; f_step : stepk; f_idx : nat; f_status : fail_status }.

(** [execute_phase_prim]: walk the instructions, stop at the first failure. *)
Fixpoint run_list (p : phase) (k : stepk) (prev : option prev_phase) (idx : nat) (is_ : list instr)
  : list event * option failure :=
  match is_ with
  | [] => ([], None)
  | i :: is' =>
      let e := EInstr p k idx prev in
      match outcome (i k) with
      | Some st => ([e], Some (Failure p k idx st))
      | None => let (t, r) := run_list p k prev (S idx) is' in (e :: t, r)
      end
  end.

Definition run_step (tc : testcase) (pk : phase * stepk) : list event * option failure :=
  run_list (fst pk) (snd pk) None 0 (instrs_of tc (fst pk)).

(** A sequence of steps, each raising [PhaseStepFailureException] on failure. *)
Fixpoint run_steps (tc : testcase) (ss : list (phase * stepk)) : list event * option failure :=
  match ss with
  | [] => ([], None)
  | s :: ss' =>
      let (t, r) := run_step tc s in
      match r with
      | Some f => (t, Some f)
      | None => let (t', r') := run_steps tc ss' in (t ++ t', r')
      end
  end.

(** [_cleanup_main previous_phase] *)
Definition run_cleanup (tc : testcase) (prev : prev_phase) : list event * option failure :=
  let (t, r) := run_list Cleanup SMain (Some prev) 0 (tc_cleanup tc) in (ECleanupBegin prev :: t, r).

(** The first try-block: parse of the act phase, symbol validation in execution order, then
    pre-sds validation. *)
Definition block_validate : list (phase * stepk) :=
  [(Act, SActParse);
   (Setup, SValSym); (Act, SValSym); (BeforeAssert, SValSym); (Assert, SValSym); (Cleanup, SValSym);
   (Setup, SValPre); (Act, SValPre); (BeforeAssert, SValPre); (Assert, SValPre); (Cleanup, SValPre)].
(** [_sequence_with_cleanup(PreviousPhase.SETUP, ...)] *)
Definition block_setup : list (phase * stepk) :=
  [(Setup, SMain);
   (Setup, SValPost); (Act, SValPost); (BeforeAssert, SValPost); (Assert, SValPost);
   (Act, SValExeInput); (Act, SPrepare)].
(** [_sequence_with_cleanup(PreviousPhase.ACT, ...)] *)
Definition block_act : list (phase * stepk) := [(Act, SExecute)].

Record presult := PResult {
  pr_failure : option failure;     (* None = pass *)
  pr_has_sds : bool;
  pr_has_atc_outcome : bool }.

(** [_sequence_with_cleanup]: on failure run cleanup; a failure of cleanup REPLACES the original. *)
Definition with_cleanup_replace (tc : testcase) (prev : prev_phase) (f : failure)
  : list event * failure :=
  let (t, r) := run_cleanup tc prev in
  (t, match r with Some f' => f' | None => f end).

(** [_finish_with_cleanup_phase]: a failure of cleanup wins over the previous failure. *)
Definition finish_with_cleanup (tc : testcase) (prev : prev_phase) (prev_failure : option failure)
  : list event * option failure :=
  let (t, r) := run_cleanup tc prev in
  (t, match r with Some f' => Some f' | None => prev_failure end).

(** [_PartialExecutor.execute] *)
Definition partial_execute (tc : testcase) : list event * presult :=
  let (t1, r1) := run_steps tc block_validate in
  match r1 with
  | Some f => (t1, PResult (Some f) false false)
  | None =>
      let (t2, r2) := run_steps tc block_setup in
      match r2 with
      | Some f =>
          let (tcl, f') := with_cleanup_replace tc PSetup f in
          (t1 ++ ESandbox :: t2 ++ tcl, PResult (Some f') true false)
      | None =>
          let (t3, r3) := run_steps tc block_act in
          match r3 with
          | Some f =>
              let (tcl, f') := with_cleanup_replace tc PAct f in
              (t1 ++ ESandbox :: t2 ++ t3 ++ tcl, PResult (Some f') true false)
          | None =>
              if tc_act_only tc then
                let (tcl, r) := finish_with_cleanup tc PAct None in
                (t1 ++ ESandbox :: t2 ++ t3 ++ tcl, PResult r true true)
              else
                (* _continue_from_before_assert *)
                let (t4, r4) := run_step tc (BeforeAssert, SMain) in
                match r4 with
                | Some f =>
                    (* cleanup runs; a failure of it is swallowed *)
                    let (tcl, _) := run_cleanup tc PBeforeAssert in
                    (t1 ++ ESandbox :: t2 ++ t3 ++ t4 ++ tcl, PResult (Some f) true true)
                | None =>
                    let (t5, r5) := run_step tc (Assert, SMain) in
                    let (tcl, r) := finish_with_cleanup tc PAssert r5 in
                    (t1 ++ ESandbox :: t2 ++ t3 ++ t4 ++ t5 ++ tcl, PResult r true true)
                end
          end
      end
  end.

(** full_execution.execute *)
Record fresult := FResult {
  fr_status : full_status;
  fr_failure : option failure;
  fr_has_sds : bool;
  fr_has_atc_outcome : bool }.

Definition full_execute (tc : testcase) : list event * fresult :=
  let (t0, r0) := run_step tc (Conf, SMain) in
  match r0 with
  | Some f => (t0, FResult (full_of_fail (f_status f)) (Some f) false false)
  | None =>
      match tc_status tc with
      | TSkip => (t0, FResult SKIPPED None false false)
      | mode =>
          let (t, pr) := partial_execute tc in
          (t0 ++ t,
           FResult (translate_status mode (option_map f_status (pr_failure pr)))
                   (pr_failure pr) (pr_has_sds pr) (pr_has_atc_outcome pr))
      end
  end.
