(** * Model of program values and of the processes started for them (property C10).

    EXECUTABLE DEFINITIONS ONLY (the proofs are in Proofs/Prog*.v).

    Mirrors, with the same branches in the same order:
      - type_val_deps/types/program/sdv/accumulated_components.py  ([acc], [acc_empty], [acc_app] = new_accumulated)
      - type_val_deps/types/program/sdv/arguments.py, command.py   ([c_args ++ ...]: new_with_additional_arguments)
      - impls/types/program/sdvs/command_program_sdv.py            ([PCmd], [new_accumulated], [resolve] first branch)
      - impls/types/program/sdvs/program_symbol_sdv.py             ([PRef]: lookup, new_accumulated, resolve again)
      - impls/types/program/parse/parse_program.py                 (a parsed program = command | reference, then
                                                                    accumulated with the optional -stdin and the
                                                                    optional -transformed-by, in this order)
      - type_val_deps/types/list_/list_sdv.py                      ([arg_values]: a string element is ONE value, a
                                                                    symbol-reference element is spliced if a list)
      - type_val_deps/types/string_/string_sdv_impls.py, strings_ddvs.py ([frag_text]: list rendered ' '.join)
      - type_val_prims/program/commands.py                         ([shell_command_line_with_args])
      - impls/program_execution/executable_factories.py            ([to_executable] = _CommandTranslator)
      - impls/actors/program/execution.py                          ([run_program]: _resolve_stdin = program stdin
                                                                    parts, then the act stdin; transformation of stdout)
      - impls/actors/file_interpreter.py, source_interpreter/executor.py, null.py   ([exec_act])
      - impls/types/string_source (program output as text source: non-zero exit code is a hard error unless
                                   -ignore-exit-code; the program's transformations are applied to the chosen channel)
      - impls/instructions/multi_phase/utils/instruction_from_parts_for_executing_program.py, run.py
                                                                   ([exit_code_verdict]: result_to_sh / result_to_pfh /
                                                                    MainStepResultTranslatorForUnconditionalSuccess)
      - execution/partial_execution/impl/atc_execution.py          ([act_res]: _register_outcome / _store_exit_code)
      - execution/partial_execution/impl/executor.py               ([run_case_with], [cleanup_and_finish]: which failure
                                                                    is reported when [cleanup] fails too)
      - impls/instructions/assert_/process_output                  (exit-code ==, stdout / stderr equals, on result/
                                                                    or -from PROGRAM)

    Outside the model (oracles given by the harness): what a started process does (its exit code and what it writes:
    the k-th element of the oracle list is the outcome of the k-th process started), the contents of files, the
    absolute paths denoted by PATH syntax (C12), the semantics of string transformers other than sequences of
    single-character replacements (C05), the phase protocol beyond "first failure goes to cleanup" (C01). *)
From Coq Require Import NArith List Bool.
Import ListNotations.
Local Open Scope N_scope.

Definition text := list N.
Definition name := N.

Fixpoint text_eqb (a b : text) : bool :=
  match a, b with
  | [], [] => true
  | x :: a', y :: b' => (x =? y) && text_eqb a' b'
  | _, _ => false
  end.

(** ** Errors of the model itself (never a verdict of the test case) *)
Inductive err :=
| EOutOfFuel                 (* model artefact; theorems exclude it / show it unreachable *)
| EUnknownSymbol (n : name)  (* KeyError of SymbolTable.lookup: excluded by exactly's symbol validation *)
| EWrongType (n : name)      (* a symbol of a type the reference does not accept: excluded by validation *)
| EOracle                    (* the oracle list has no outcome for this process: the tie is broken, loudly *)
| ENoActResult               (* an assertion on the act outcome although the act phase did not complete *)
| EShellInterpreter          (* parse_act_interpreter does not accept a shell command *)
| EInvalidDef (n : name).    (* a definition that exactly's symbol validation rejects before anything is executed
                                (the name is already defined / a program definition refers to an undefined symbol) *)

Inductive res (A : Type) := Ok (a : A) | Err (e : err).
Arguments Ok {A} a.
Arguments Err {A} e.

Definition rbind {A B} (r : res A) (f : A -> res B) : res B :=
  match r with Ok a => f a | Err e => Err e end.

(** ** Syntax (after parsing) *)

(** A data symbol's value with string rendering (constants only: chains of data symbols are C08). *)
Inductive dval := DStr (t : text) | DList (l : list text) | DPath (t : text).

Inductive frag := FConst (t : text) | FSym (n : name).

(** An element of an argument list: a string (ONE argument whatever it contains), or a token that is exactly one
    unquoted symbol reference (spliced if the symbol is a list). *)
Inductive arg := AStr (fs : list frag) | ASym (n : name).

(** A string transformer: a [|]-sequence of replacements of one character by another. *)
Definition transformer := list (N * N).

Inductive chan := COut | CErr.

Inductive driver :=
| DExe (path : text)        (* executable file: the absolute path that the PATH syntax denotes *)
| DSys (nm : list frag)     (* % NAME *)
| DShell (line : list frag). (* $ rest-of-line *)

Record command := Cmd { c_driver : driver; c_args : list arg }.

(** AccumulatedComponents *)
Record acc (S : Type) := Acc { a_stdin : list S; a_args : list arg; a_tr : list transformer }.
Arguments Acc {S} a_stdin a_args a_tr.
Arguments a_stdin {S} a.
Arguments a_args {S} a.
Arguments a_tr {S} a.

(** Text sources and programs *)
Inductive src :=
| SStr (fs : list frag)                         (* string / here-document *)
| SFile (contents : text)                       (* -contents-of FILE (the contents are an oracle) *)
| SProg (ch : chan) (ign : bool) (p : program)  (* -stdout-from / -stderr-from [-ignore-exit-code] PROGRAM *)
| STrans (s : src) (t : transformer)            (* SRC -transformed-by T *)
| SRunT (s : src) (ign : bool) (p : program)    (* SRC -transformed-by run [-ignore-exit-code] PROGRAM *)
with program :=
| PCmd (c : command) (a : acc src)              (* ProgramSdvForCommand *)
| PRef (n : name) (a : acc src).                (* ProgramSdvForSymbolReference *)

Definition acc_empty : acc src := Acc [] [] [].

(** AccumulatedComponents.new_accumulated *)
Definition acc_app (a additional : acc src) : acc src :=
  Acc (a_stdin a ++ a_stdin additional) (a_args a ++ a_args additional) (a_tr a ++ a_tr additional).

(** ProgramSdv.new_accumulated *)
Definition new_accumulated (p : program) (additional : acc src) : program :=
  match p with
  | PCmd c a => PCmd c (acc_app a additional)
  | PRef n a => PRef n (acc_app a additional)
  end.

(** ** The symbol table: newest definition first (names are unique: exactly rejects a redefinition) *)
Inductive sval := VData (d : dval) | VProg (p : program).
Definition table := list (name * sval).

Fixpoint lookup (t : table) (n : name) : option sval :=
  match t with
  | [] => None
  | (m, v) :: t' => if m =? n then Some v else lookup t' n
  end.

(** What exactly's symbol validation (execution/impl/symbol_validation.py, C08) guarantees for a definition that is
    executed: the name is new; a program defined as a reference refers to a symbol that is defined. *)
Definition def_ok (tbl : table) (n : name) (v : sval) : bool :=
  match lookup tbl n with Some _ => false | None => true end &&
  match v with
  | VProg (PRef n' _) => match lookup tbl n' with Some _ => true | None => false end
  | _ => true
  end.

(** ** Resolving a program: accumulation along the chain of references *)
Record rprog := RProg { r_driver : driver; r_args : list arg; r_stdin : list src; r_tr : list transformer }.

(** [ProgramSdvForCommand.resolve]: the command's own arguments, then the accumulated ones.
    [ProgramSdvForSymbolReference.resolve]: look the symbol up, accumulate THIS reference's components onto the
    referenced program, resolve that. *)
Fixpoint resolve (fuel : nat) (tbl : table) (p : program) : res rprog :=
  match fuel with
  | O => Err EOutOfFuel
  | S fuel' =>
      match p with
      | PCmd c a => Ok (RProg (c_driver c) (c_args c ++ a_args a) (a_stdin a) (a_tr a))
      | PRef n a =>
          match lookup tbl n with
          | Some (VProg q) => resolve fuel' tbl (new_accumulated q a)
          | Some (VData _) => Err (EWrongType n)
          | None => Err (EUnknownSymbol n)
          end
      end
  end.

(** The fuel that suffices for a table without cycles (Proofs/ProgResolve.v). *)
Definition resolve_tbl (tbl : table) (p : program) : res rprog := resolve (S (length tbl)) tbl p.

(** ** Values of strings and argument lists *)
Definition SP : N := 32.

(** [' '.join(l)] *)
Fixpoint join_sp (l : list text) : text :=
  match l with
  | [] => []
  | [x] => x
  | x :: l' => x ++ SP :: join_sp l'
  end.

Definition frag_text (tbl : table) (f : frag) : res text :=
  match f with
  | FConst t => Ok t
  | FSym n =>
      match lookup tbl n with
      | Some (VData (DStr t)) => Ok t
      | Some (VData (DPath t)) => Ok t
      | Some (VData (DList l)) => Ok (join_sp l)
      | Some (VProg _) => Err (EWrongType n)
      | None => Err (EUnknownSymbol n)
      end
  end.

Fixpoint frags_text (tbl : table) (fs : list frag) : res text :=
  match fs with
  | [] => Ok []
  | f :: fs' => rbind (frag_text tbl f) (fun t => rbind (frags_text tbl fs') (fun t' => Ok (t ++ t')))
  end.

(** [ElementSdv.resolve]: the list of values one element stands for *)
Definition arg_values (tbl : table) (a : arg) : res (list text) :=
  match a with
  | AStr fs => rbind (frags_text tbl fs) (fun t => Ok [t])
  | ASym n =>
      match lookup tbl n with
      | Some (VData (DStr t)) => Ok [t]
      | Some (VData (DPath t)) => Ok [t]
      | Some (VData (DList l)) => Ok l
      | Some (VProg _) => Err (EWrongType n)
      | None => Err (EUnknownSymbol n)
      end
  end.

(** [ListSdv.resolve]: [value_elements.extend(element.resolve(symbols))] for every element *)
Fixpoint args_values (tbl : table) (l : list arg) : res (list text) :=
  match l with
  | [] => Ok []
  | a :: l' => rbind (arg_values tbl a) (fun v => rbind (args_values tbl l') (fun v' => Ok (v ++ v')))
  end.

Inductive dvalue := DVExe (p : text) | DVSys (nm : text) | DVShell (line : text).

Definition driver_value (tbl : table) (d : driver) : res dvalue :=
  match d with
  | DExe p => Ok (DVExe p)
  | DSys nm => rbind (frags_text tbl nm) (fun t => Ok (DVSys t))
  | DShell line => rbind (frags_text tbl line) (fun t => Ok (DVShell t))
  end.

(** ** What is handed to the process executor *)
Inductive executable :=
| ExShell (s : text)          (* Executable(is_shell=True,  arg_list_or_str = ONE string) *)
| ExArgv (l : list text)      (* Executable(is_shell=False, arg_list_or_str = list) *)
| ExShellList (l : list text). (* Executable(is_shell=True, arg_list_or_str = list): NEVER produced by the model or
                                 the specification; only so that such an observation can be written down (with a
                                 list, sh -c takes the first element as the command and the rest as $0, $1, ...) *)

(** [_CommandTranslator]; the shell variant is [' '.join([command_line] + arguments)] *)
Definition to_executable (d : dvalue) (args : list text) : executable :=
  match d with
  | DVShell line => ExShell (join_sp (line :: args))
  | DVExe p => ExArgv (p :: args)
  | DVSys nm => ExArgv (nm :: args)
  end.

(** ** Transformers *)
Definition repl1 (ab : N * N) (c : N) : N := if c =? fst ab then snd ab else c.
Definition apply_tr (t : transformer) (x : text) : text := fold_left (fun x ab => map (repl1 ab) x) t x.
(** the sequence of a program's transformations, first accumulated first *)
Definition apply_trs (ts : list transformer) (x : text) : text := fold_left (fun x t => apply_tr t x) ts x.

(** ** Processes *)
Record outcome := Out { o_code : N; o_out : text; o_err : text }.
Record pstart := PS { ps_exe : executable; ps_stdin : option text; ps_cwd : text }.

(** The world: the outcomes of the processes still to be started (oracle), and the processes started so far,
    newest first. *)
Record world := W { w_oracle : list outcome; w_starts : list pstart }.

Inductive eres (A : Type) :=
| EOk (a : A) (w : world)
| EHard (w : world)         (* HardErrorException *)
| EErr (e : err).
Arguments EOk {A} a w.
Arguments EHard {A} w.
Arguments EErr {A} e.

Definition ebind {A B} (r : eres A) (f : A -> world -> eres B) : eres B :=
  match r with
  | EOk a w => f a w
  | EHard w => EHard w
  | EErr e => EErr e
  end.

Definition elift {A} (r : res A) (w : world) : eres A :=
  match r with Ok a => EOk a w | Err e => EErr e end.

Definition start_process (exe : executable) (stdin : option text) (cwd : text) (w : world) : eres outcome :=
  match w_oracle w with
  | o :: rest => EOk o (W rest (PS exe stdin cwd :: w_starts w))
  | [] => EErr EOracle
  end.

Definition select (ch : chan) (o : outcome) : text := match ch with COut => o_out o | CErr => o_err o end.

(** ** The stdin file of a process.
    A part is tagged [true] if it is written by handing the DESCRIPTOR of the stdin file being built to a child
    process (the output of a program without transformations: -stdout-from, or -stderr-from with
    -ignore-exit-code: exit_relevant.StdoutWriter / exit_ignored.*Writer given [opened_file(output)]), [false] if
    it is written through the Python text file object (constants, files, transformed texts, -stderr-from without
    -ignore-exit-code). *)
Definition part := (bool * text)%type.

(** [string_source_of_mb_empty_sequence] + [_ConcatStringSourceContents.write_to] (each writer flushes the file
    before it hands the descriptor to a process): no part = no stdin (DEVNULL); else the parts in order. *)
Definition assemble_in_order (parts : list part) : option text :=
  match parts with
  | [] => None
  | _ => Some (concat (map snd parts))
  end.

(** What the code did BEFORE the repair 527f9c3 ("flush the file before a process writes to it via the descriptor"),
    for texts smaller than the buffer: [_ConcatStringSourceContents.write_to] writes all parts into ONE buffered
    text file; a single part is used as it is; of several parts, those written through the descriptor reached the
    file at once, those written through the file object only when it was closed.  Kept for the refutation witness
    of Props/C10.v; the current code flushes first, which gives [assemble_in_order]. *)
Definition assemble_buffered (parts : list part) : option text :=
  match parts with
  | [] => None
  | [p] => Some (snd p)
  | _ => Some (concat (map snd (filter fst parts)) ++ concat (map snd (filter (fun p => negb (fst p)) parts)))
  end.

Section Eval.
  (** How a program is resolved against a symbol table: [resolve_tbl] in the model, the declarative
      [denote] in the specification (Spec/C10.v). *)
  Variable resolver : table -> program -> res rprog.
  (** How the stdin file is put together: [assemble_in_order] (model and specification);
      [assemble_buffered] for the code as it was before the repair. *)
  Variable assemble : list part -> option text.

  (** Is this part written through the descriptor of the file being built? *)
  Definition src_is_direct (tbl : table) (s : src) : bool :=
    match s with
    | SProg ch ign p =>
        match resolver tbl p with
        | Ok r => match r_tr r with [] => (match ch with COut => true | CErr => ign end) | _ => false end
        | Err _ => false
        end
    | _ => false
    end.

  (** [eval_src]: the text a text source denotes (starting the processes it needs);
      [eval_parts]: the parts of a stdin sequence are materialised in order, each tagged with the way it is written;
      [run_program]: resolve, evaluate driver and arguments, stdin = the program's parts followed by [extra]
      (the stdin set in [setup], for the action to check), start the process.
      One unit of fuel per nesting level and per element of a stdin sequence. *)
  Fixpoint eval_src (fuel : nat) (tbl : table) (cwd : text) (s : src) (w : world) : eres text :=
    match fuel with
    | O => EErr EOutOfFuel
    | S fuel' =>
        match s with
        | SStr fs => elift (frags_text tbl fs) w
        | SFile t => EOk t w
        | STrans s' t => ebind (eval_src fuel' tbl cwd s' w) (fun x w' => EOk (apply_tr t x) w')
        | SProg ch ign p =>
            ebind (run_program fuel' tbl cwd p [] w) (fun otr w' =>
              if (o_code (fst otr) =? 0) || ign
              then EOk (apply_trs (snd otr) (select ch (fst otr))) w'
              else EHard w')
        | SRunT s' ign p =>
            (* the transformer program reads its own stdin parts followed by the text to transform; the result
               is its stdout after its transformations *)
            ebind (run_program fuel' tbl cwd p [s'] w) (fun otr w' =>
              if (o_code (fst otr) =? 0) || ign
              then EOk (apply_trs (snd otr) (o_out (fst otr))) w'
              else EHard w')
        end
    end
  with eval_parts (fuel : nat) (tbl : table) (cwd : text) (l : list src) (w : world) : eres (list part) :=
    match fuel with
    | O => EErr EOutOfFuel
    | S fuel' =>
        match l with
        | [] => EOk [] w
        | s :: l' => ebind (eval_src fuel' tbl cwd s w) (fun t w' =>
                     ebind (eval_parts fuel' tbl cwd l' w') (fun ts w'' => EOk ((src_is_direct tbl s, t) :: ts) w''))
        end
    end
  with run_program (fuel : nat) (tbl : table) (cwd : text) (p : program) (extra : list src) (w : world)
       : eres (outcome * list transformer) :=
    match fuel with
    | O => EErr EOutOfFuel
    | S fuel' =>
        match resolver tbl p with
        | Err e => EErr e
        | Ok r =>
            match driver_value tbl (r_driver r), args_values tbl (r_args r) with
            | Err e, _ => EErr e
            | _, Err e => EErr e
            | Ok d, Ok args =>
                ebind (eval_parts fuel' tbl cwd (r_stdin r ++ extra) w) (fun parts w' =>
                ebind (start_process (to_executable d args) (assemble parts) cwd w') (fun o w'' =>
                EOk (o, r_tr r) w''))
            end
        end
    end.

  (** A command that is not a program (the interpreter actors): only the given stdin. *)
  Definition run_command (fuel : nat) (tbl : table) (cwd : text) (d : driver) (args : list text)
             (stdin : list src) (w : world) : eres outcome :=
    match driver_value tbl d with
    | Err e => EErr e
    | Ok dv =>
        ebind (eval_parts fuel tbl cwd stdin w) (fun parts w' =>
          start_process (to_executable dv args) (assemble parts) cwd w')
    end.

  (** ** Instructions *)
  Inductive phase := PhSetup | PhAct | PhBefore | PhAssert | PhCleanup.
  Inductive status := StPass | StFail | StHard.

  (** [result_to_sh] / [result_to_pfh] / [MainStepResultTranslatorForUnconditionalSuccess] *)
  Definition exit_code_verdict (ph : phase) (ign : bool) (code : N) : status :=
    if ign then StPass
    else if code =? 0 then StPass
    else match ph with PhAssert => StFail | _ => StHard end.

  Inductive instr :=
  | IDef (n : name) (v : sval)        (* def TYPE NAME = VALUE *)
  | ICd (d : text)                    (* cd DIR (an existing directory; sandbox-relative rendering) *)
  | IRun (ign : bool) (p : program)   (* run [-ignore-exit-code] PROGRAM  /  $ COMMAND  /  % PROGRAM *)
  | ICapture (k : N) (s : src)        (* file capK.txt = SRC : what a text source gives *)
  | IStdin (s : src)                  (* [setup] stdin = SRC *)
  | IExitCode (k : N)                 (* [assert] exit-code == k *)
  | IStdout (t : text)                (* [assert] stdout equals t *)
  | IStderr (t : text)                (* [assert] stderr equals t *)
  | IExitCodeFrom (p : program) (k : N)            (* [assert] exit-code -from PROGRAM == k *)
  | IOutFrom (ch : chan) (p : program) (t : text)  (* [assert] stdout / stderr -from PROGRAM equals t *)
  | IOutRun (ch : chan) (neg : bool) (p : program) (* [assert] stdout / stderr [!] run PROGRAM  (text matcher) *)
  | IFileRun (neg : bool) (path : text) (p : program). (* [assert] exists PATH : [!] run PROGRAM  (file matcher) *)

  Inductive act :=
  | ActCommand (p : program)                                    (* actor = command : [act] is a PROGRAM *)
  | ActFile (interp : command) (file : text) (args : list arg)  (* actor = file INTERPRETER : [act] is FILE ARGUMENTS *)
  | ActSource (interp : command) (source : list frag)           (* actor = source INTERPRETER : [act] is source code *)
  | ActNull.                                                    (* actor = null *)

  Record state := St {
    st_tbl : table;
    st_cwd : text;
    st_stdin : option src;           (* the stdin set in [setup] *)
    st_act : option outcome;         (* result/exit-code, result/stdout, result/stderr *)
    st_source : option text;         (* contents of the source file given to a source interpreter *)
    st_caps : list (N * text);       (* captured texts, newest first *)
    st_world : world }.

  Definition set_world (st : state) (w : world) : state :=
    St (st_tbl st) (st_cwd st) (st_stdin st) (st_act st) (st_source st) (st_caps st) w.

  Definition text_verdict (expected actual : text) : status := if text_eqb expected actual then StPass else StFail.

  Definition exec_instr (fuel : nat) (ph : phase) (i : instr) (st : state) : res (status * state) :=
    match i with
    | IDef n v =>
        (* the main step of `def`: symbols.put - in ANY phase; later instructions (in execution order) see it.
           Definitions that symbol validation would have rejected do not get here: loud model error.  (The one way
           to violate the guard on the real program - the referenced definition's main step was skipped after a
           failure while [cleanup] still runs - is known finding KF-C08-1, outside this model.) *)
        if def_ok (st_tbl st) n v
        then Ok (StPass, St ((n, v) :: st_tbl st) (st_cwd st) (st_stdin st) (st_act st) (st_source st) (st_caps st)
                            (st_world st))
        else Err (EInvalidDef n)
    | ICd d =>
        Ok (StPass, St (st_tbl st) d (st_stdin st) (st_act st) (st_source st) (st_caps st) (st_world st))
    | IStdin s =>
        Ok (StPass, St (st_tbl st) (st_cwd st) (Some s) (st_act st) (st_source st) (st_caps st) (st_world st))
    | IRun ign p =>
        match run_program fuel (st_tbl st) (st_cwd st) p [] (st_world st) with
        | EOk otr w => Ok (exit_code_verdict ph ign (o_code (fst otr)), set_world st w)
        | EHard w => Ok (StHard, set_world st w)
        | EErr e => Err e
        end
    | ICapture k s =>
        match eval_src fuel (st_tbl st) (st_cwd st) s (st_world st) with
        | EOk t w => Ok (StPass, St (st_tbl st) (st_cwd st) (st_stdin st) (st_act st) (st_source st) ((k, t) :: st_caps st) w)
        | EHard w => Ok (StHard, set_world st w)
        | EErr e => Err e
        end
    | IExitCode k =>
        match st_act st with
        | Some o => Ok (if o_code o =? k then StPass else StFail, st)
        | None => Err ENoActResult
        end
    | IStdout t =>
        match st_act st with
        | Some o => Ok (text_verdict t (o_out o), st)
        | None => Err ENoActResult
        end
    | IStderr t =>
        match st_act st with
        | Some o => Ok (text_verdict t (o_err o), st)
        | None => Err ENoActResult
        end
    | IExitCodeFrom p k =>
        (* getter_from_program: the program is run; its exit code is the model of the matcher *)
        match run_program fuel (st_tbl st) (st_cwd st) p [] (st_world st) with
        | EOk otr w => Ok (if o_code (fst otr) =? k then StPass else StFail, set_world st w)
        | EHard w => Ok (StHard, set_world st w)
        | EErr e => Err e
        end
    | IOutRun ch neg p =>
        (* string matcher `run`: the program reads its own stdin parts followed by the text; matches iff exit code 0 *)
        match st_act st with
        | None => Err ENoActResult
        | Some a =>
            match run_program fuel (st_tbl st) (st_cwd st) p [SFile (select ch a)] (st_world st) with
            | EOk otr w => Ok (if xorb (o_code (fst otr) =? 0) neg then StPass else StFail, set_world st w)
            | EHard w => Ok (StHard, set_world st w)
            | EErr e => Err e
            end
        end
    | IFileRun neg path p =>
        (* file matcher `run`: the path is the LAST argument; matches iff exit code 0 *)
        match run_program fuel (st_tbl st) (st_cwd st) (new_accumulated p (Acc [] [AStr [FConst path]] [])) []
                          (st_world st) with
        | EOk otr w => Ok (if xorb (o_code (fst otr) =? 0) neg then StPass else StFail, set_world st w)
        | EHard w => Ok (StHard, set_world st w)
        | EErr e => Err e
        end
    | IOutFrom ch p t =>
        (* the chosen channel after the program's transformations; the exit code is not looked at *)
        match run_program fuel (st_tbl st) (st_cwd st) p [] (st_world st) with
        | EOk otr w => Ok (text_verdict t (apply_trs (snd otr) (select ch (fst otr))), set_world st w)
        | EHard w => Ok (StHard, set_world st w)
        | EErr e => Err e
        end
    end.

  (** the instructions of one phase, until the first that does not pass *)
  Fixpoint exec_phase (fuel : nat) (ph : phase) (l : list instr) (st : state) : res (status * state) :=
    match l with
    | [] => Ok (StPass, st)
    | i :: l' =>
        match exec_instr fuel ph i st with
        | Err e => Err e
        | Ok (StPass, st') => exec_phase fuel ph l' st'
        | Ok (s, st') => Ok (s, st')
        end
    end.

  Definition opt_list {A} (o : option A) : list A := match o with Some a => [a] | None => [] end.

  Definition set_act (st : state) (o : option outcome) (source : option text) (w : world) : state :=
    St (st_tbl st) (st_cwd st) (st_stdin st) o source (st_caps st) w.

  (** The interpreter of the file / source actors is an executable file or a system program. *)
  Definition interpreter_ok (c : command) : bool := match c_driver c with DShell _ => false | _ => true end.

  Definition exec_act (fuel : nat) (a : act) (st : state) : res (status * state) :=
    let tbl := st_tbl st in
    match a with
    | ActCommand p =>
        (* Executor.execute: stdin = program parts, then the act stdin; the stdout stored is the transformed one *)
        match run_program fuel tbl (st_cwd st) p (opt_list (st_stdin st)) (st_world st) with
        | EOk otr w =>
            let o := fst otr in
            Ok (StPass, set_act st (Some (Out (o_code o) (apply_trs (snd otr) (o_out o)) (o_err o))) None w)
        | EHard w => Ok (StHard, set_world st w)
        | EErr e => Err e
        end
    | ActFile interp file args =>
        (* make_command: interpreter arguments, the source file, the arguments of the act phase *)
        if negb (interpreter_ok interp) then Err EShellInterpreter else
        match args_values tbl (c_args interp), args_values tbl args with
        | Err e, _ => Err e
        | _, Err e => Err e
        | Ok iargs, Ok fargs =>
            match run_command fuel tbl (st_cwd st) (c_driver interp) (iargs ++ [file] ++ fargs)
                              (opt_list (st_stdin st)) (st_world st) with
            | EOk o w => Ok (StPass, set_act st (Some o) None w)
            | EHard w => Ok (StHard, set_world st w)
            | EErr e => Err e
            end
        end
    | ActSource interp source =>
        (* the source is written to a file; the command is the interpreter with that file as last argument *)
        if negb (interpreter_ok interp) then Err EShellInterpreter else
        match frags_text tbl source, args_values tbl (c_args interp) with
        | Err e, _ => Err e
        | _, Err e => Err e
        | Ok code, Ok iargs =>
            match run_command fuel tbl (st_cwd st) (c_driver interp) (iargs ++ [[123; 83; 82; 67; 125]])
                              (opt_list (st_stdin st)) (st_world st) with
            | EOk o w => Ok (StPass, set_act st (Some o) (Some code) w)
            | EHard w => Ok (StHard, set_act st None (Some code) w)
            | EErr e => Err e
            end
        end
    | ActNull => Ok (StPass, set_act st (Some (Out 0 [] [])) None (st_world st))
    end.

  (** ** A test case *)
  Record tcase := TC {
    tc_setup : list instr;
    tc_act : act;
    tc_before : list instr;
    tc_assert : list instr;
    tc_cleanup : list instr }.

  (** The phase the reported failure is located in ("In [phase]" of the error report); 0: no failure. *)
  Definition phase_code (ph : phase) : N :=
    match ph with PhSetup => 1 | PhAct => 2 | PhBefore => 3 | PhAssert => 4 | PhCleanup => 5 end.

  Record result := Res {
    rs_verdict : status;
    rs_phase : N;                   (* [phase_code] of the phase of the failure that is reported, 0 if none *)
    rs_starts : list pstart;        (* in the order the processes were started *)
    rs_act : option outcome;
    rs_source : option text;
    rs_caps : list (N * text) }.    (* in the order of the capturing instructions *)

  Definition finish (s : status) (ph : N) (st : state) : result :=
    Res s ph (rev (w_starts (st_world st))) (st_act st) (st_source st) (rev (st_caps st)).

  (** execution/partial_execution/impl/executor.py: [cleanup] runs after the first failure of an earlier phase.
      [_sequence_with_cleanup] (failure in [setup] / [act]) and [_finish_with_cleanup_phase] (after [assert],
      failed or not): a failure of [cleanup] REPLACES what came before ([swallow = false]).
      [_continue_from_before_assert]: after a failure in [before-assert] a failure of [cleanup] is SWALLOWED, the
      before-assert failure is reported ([swallow = true]).  What [cleanup] did before failing happened. *)
  Definition cleanup_and_finish (fuel : nat) (swallow : bool) (earlier : status) (eph : N) (c : tcase) (st : state)
    : res result :=
    match exec_phase fuel PhCleanup (tc_cleanup c) st with
    | Err e => Err e
    | Ok (StPass, st') => Ok (finish earlier eph st')
    | Ok (s, st') => if swallow then Ok (finish earlier eph st') else Ok (finish s (phase_code PhCleanup) st')
    end.

  (** [tbl0]: the symbols defined before the case starts (the builtin symbols; or, for theorems, all the
      definitions of a case that makes them first) *)
  Definition initial_state (tbl0 : table) (cwd : text) (oracle : list outcome) : state :=
    St tbl0 cwd None None None [] (W oracle []).

  Definition run_case_with (fuel : nat) (cwd : text) (tbl0 : table) (c : tcase) (oracle : list outcome) : res result :=
    match exec_phase fuel PhSetup (tc_setup c) (initial_state tbl0 cwd oracle) with
    | Err e => Err e
    | Ok (StPass, st1) =>
        match exec_act fuel (tc_act c) st1 with
        | Err e => Err e
        | Ok (StPass, st2) =>
            match exec_phase fuel PhBefore (tc_before c) st2 with
            | Err e => Err e
            | Ok (StPass, st3) =>
                match exec_phase fuel PhAssert (tc_assert c) st3 with
                | Err e => Err e
                | Ok (StPass, st4) => cleanup_and_finish fuel false StPass 0 c st4
                | Ok (s, st4) => cleanup_and_finish fuel false s (phase_code PhAssert) c st4
                end
            | Ok (s, st3) => cleanup_and_finish fuel true s (phase_code PhBefore) c st3
            end
        | Ok (s, st2) => cleanup_and_finish fuel false s (phase_code PhAct) c st2
        end
    | Ok (s, st1) => cleanup_and_finish fuel false s (phase_code PhSetup) c st1
    end.
End Eval.

(** The model: programs are resolved as the code does it. *)
Definition run_case : nat -> text -> table -> tcase -> list outcome -> res result :=
  run_case_with resolve_tbl assemble_in_order.

(** The code as it was before the repair 527f9c3. *)
Definition run_case_prefix : nat -> text -> table -> tcase -> list outcome -> res result :=
  run_case_with resolve_tbl assemble_buffered.
