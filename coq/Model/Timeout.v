(** * Model of process timeouts (property C19), on top of the phased executor [Model/Exec.v].

    Mirrors:
      - util/process_execution/process_executor.py  ([ProcessExecutor.execute]: the single
        [subprocess.call(..., timeout=settings.timeout_in_seconds)]; TimeoutExpired ->
        ProcessExecutionException)
      - impls/program_execution/impl/cmd_exe_from_proc_exe.py ([_raise_hard_error]:
        ProcessExecutionException -> HardErrorException)
      - test_case/phases/instruction_settings.py ([InstructionSettings.set_timeout / timeout_in_seconds])
      - impls/instructions/multi_phase/timeout/impl.py ([main]: [settings.set_timeout(value)], never fails)
      - execution/partial_execution/impl/executor.py: [_instruction_settings] initialised from
        [exe_conf.timeout_in_seconds]; [_post_sds_main_environments] is a GENERATOR, so
        [_post_sds_environment] reads [InstructionSettings.timeout_in_seconds()] at the moment the
        main step of each instruction is about to run; [_construct_and_set_act_phase_executor] runs
        after setup/main and reads it once for the action to check (and for the program behind
        [stdin = -stdout-from PROGRAM], which the act executor starts in act/execute)
      - impls/actors/util/atc_proc_exe_settings.py ([for_atc]: timeout of the act environment)
      - execution/impl/single_instruction_executor.py (HardErrorException -> HARD_ERROR)
    The phase/cleanup structure is the one of [Exec.partial_execute] (same blocks, same cleanup
    policies); [Proofs/TimeoutSim.v] proves that this model, with processes erased, IS
    [partial_execute] of the test case whose instruction behaviours are the resolved ones.

    Oracle: the contract of [subprocess.call(timeout=t)] for a child that needs [d] seconds is the
    explicit function [expires]: TimeoutExpired iff [t = Some s] and [s < d].
    Executable definitions only. *)
From Coq Require Import List Bool Arith NArith.
From Exactly Require Import Model.Outcome Model.Exec Model.World.
Import ListNotations.

(** [Optional[int]]: [None] = no time limit. *)
Definition tmo := option N.

(** Contract of [subprocess.call(args, timeout=t)] when the child needs [d] seconds: the call
    raises TimeoutExpired (after killing the child) iff a limit is given and the child needs longer. *)
Definition expires (t : tmo) (d : N) : bool :=
  match t with
  | Some s => N.ltb s d
  | None => false
  end.
(** Seconds the call keeps Exactly waiting (model time). *)
Definition wait_of (t : tmo) (d : N) : N :=
  match t with
  | Some s => N.min s d
  | None => d
  end.

(** What the main step of an instruction does, as far as this property is concerned. *)
Inductive tinstr :=
| TSet (v : tmo)          (* [timeout = N] / [timeout = none] *)
| TSpawn (ds : list N)    (* starts |ds| OS processes one after the other ([run], [$], [%], a text source
                             [-stdout-from], a transformer / matcher [run] ...), the j-th needs ds[j] seconds *)
| TStdin (d : N)          (* [setup] [stdin = -stdout-from PROGRAM]: registers a program that the act executor starts *)
| TPlain (b : beh).       (* any other instruction: behaviour of its main step *)

Record tcase := TCase {
  t_default : tmo;               (* ExecutionConfiguration.timeout_in_seconds (main program: TIMEOUT__DEFAULT) *)
  t_setup : list tinstr;
  t_act : list N;                (* processes the action to check starts (null actor: none) *)
  t_act_uses_stdin : bool;       (* the actor hands stdin to the action to check (the null actor does not) *)
  t_before_assert : list tinstr;
  t_assert : list tinstr;
  t_cleanup : list tinstr;
  t_act_only : bool }.

Definition tinstrs_of (tc : tcase) (p : phase) : list tinstr :=
  match p with
  | Setup => t_setup tc
  | BeforeAssert => t_before_assert tc
  | Assert => t_assert tc
  | Cleanup => t_cleanup tc
  | Conf | Act => []
  end.

(** [InstructionSettings] (timeout component) + the stdin of [SetupSettingsBuilder]. *)
Record tstate := TS { s_timeout : tmo; s_stdin : option N }.

(** One call of [ProcessExecutor.execute]: where, the timeout handed over, the child's need. *)
Record call := Call { c_phase : phase; c_idx : nat; c_timeout : tmo; c_dur : N }.

Inductive tev :=
| TEv (e : event)    (* an executor event, as in [Exec] *)
| TCall (c : call).     (* a process is started and waited for *)

(** Processes started by one step, in sequence, all with the [ProcessExecutionSettings] of that
    step's environment; the first expiry raises HardErrorException. [true] = expired. *)
Fixpoint spawn_all (p : phase) (idx : nat) (t : tmo) (ds : list N) : list tev * bool :=
  match ds with
  | [] => ([], false)
  | d :: ds' =>
      let c := TCall (Call p idx t d) in
      if expires t d then ([c], true)
      else let (l, x) := spawn_all p idx t ds' in (c :: l, x)
  end.

(** The main step of one instruction, given the settings object as it is when the step starts. *)
Definition main_of (p : phase) (idx : nat) (st : tstate) (i : tinstr) : list tev * tstate * option fail_status :=
  let env_timeout := s_timeout st in   (* [_post_sds_environment], evaluated by [next()] for this instruction *)
  match i with
  | TSet v => ([], TS v (s_stdin st), None)
  | TStdin d => ([], TS (s_timeout st) (Some d), None)
  | TSpawn ds => let (l, x) := spawn_all p idx env_timeout ds in (l, st, if x then Some FHard else None)
  | TPlain b => ([], st, outcome b)
  end.

(** [execute_phase_prim] over main steps, threading the settings object. *)
Fixpoint trun_list (p : phase) (prev : option prev_phase) (idx : nat) (st : tstate) (is_ : list tinstr)
  : list tev * tstate * option failure :=
  match is_ with
  | [] => ([], st, None)
  | i :: is' =>
      let e := TEv (EInstr p SMain idx prev) in
      let '(l, st', r) := main_of p idx st i in
      match r with
      | Some s => (e :: l, st', Some (Failure p SMain idx s))
      | None => let '(t, st'', r') := trun_list p prev (S idx) st' is' in (e :: l ++ t, st'', r')
      end
  end.

(** Steps that start no process and (the test cases considered being valid) succeed. *)
Fixpoint ok_evs (p : phase) (k : stepk) (idx n : nat) : list tev :=
  match n with
  | 0 => []
  | S n' => TEv (EInstr p k idx None) :: ok_evs p k (S idx) n'
  end.
Definition n_of (tc : tcase) (p : phase) : nat :=
  match p with
  | Conf => 0
  | Act => 1
  | _ => length (tinstrs_of tc p)
  end.
Definition ok_steps (tc : tcase) (ss : list (phase * stepk)) : list tev :=
  flat_map (fun pk => ok_evs (fst pk) (snd pk) 0 (n_of tc (fst pk))) ss.

(** [_cleanup_main previous_phase] *)
Definition tcleanup (tc : tcase) (prev : prev_phase) (st : tstate) : list tev * option failure :=
  let '(t, _, r) := trun_list Cleanup (Some prev) 0 st (t_cleanup tc) in (TEv (ECleanupBegin prev) :: t, r).

Definition act_procs (tc : tcase) (st : tstate) : list N :=
  (if t_act_uses_stdin tc then match s_stdin st with Some d => [d] | None => [] end else []) ++ t_act tc.

(** [_PartialExecutor.execute], as [Exec.partial_execute], with the settings threaded through the
    main steps.  Third component: the settings with which cleanup is entered. *)
Definition texecute_st (tc : tcase) : list tev * presult * tstate :=
  let t1 := ok_steps tc block_validate in
  let st0 := TS (t_default tc) None in
  let '(ts, st1, rs) := trun_list Setup None 0 st0 (t_setup tc) in
  match rs with
  | Some f =>
      let (tcl, rc) := tcleanup tc PSetup st1 in
      (t1 ++ TEv ESandbox :: ts ++ tcl,
       PResult (Some (match rc with Some f' => f' | None => f end)) true false, st1)
  | None =>
      (* [_construct_and_set_act_phase_executor]: the environment of the act executor is built NOW *)
      let act_timeout := s_timeout st1 in
      let t2 := ts ++ ok_steps tc (tl block_setup) in
      let (ta, xa) := spawn_all Act 0 act_timeout (act_procs tc st1) in
      let t3 := TEv (EInstr Act SExecute 0 None) :: ta in
      if xa then
        let (tcl, rc) := tcleanup tc PAct st1 in
        (t1 ++ TEv ESandbox :: t2 ++ t3 ++ tcl,
         PResult (Some (match rc with Some f' => f' | None => Failure Act SExecute 0 FHard end)) true false, st1)
      else if t_act_only tc then
        let (tcl, rc) := tcleanup tc PAct st1 in
        (t1 ++ TEv ESandbox :: t2 ++ t3 ++ tcl, PResult rc true true, st1)
      else
        let '(t4, st2, r4) := trun_list BeforeAssert None 0 st1 (t_before_assert tc) in
        match r4 with
        | Some f =>
            let (tcl, _) := tcleanup tc PBeforeAssert st2 in
            (t1 ++ TEv ESandbox :: t2 ++ t3 ++ t4 ++ tcl, PResult (Some f) true true, st2)
        | None =>
            let '(t5, st3, r5) := trun_list Assert None 0 st2 (t_assert tc) in
            let (tcl, rc) := tcleanup tc PAssert st3 in
            (t1 ++ TEv ESandbox :: t2 ++ t3 ++ t4 ++ t5 ++ tcl,
             PResult (match rc with Some f' => Some f' | None => r5 end) true true, st3)
        end
  end.

Definition texecute (tc : tcase) : list tev * presult := fst (texecute_st tc).
Definition cleanup_entry (tc : tcase) : tstate := snd (texecute_st tc).

(** ** Projections *)
Definition erase (t : list tev) : list event :=
  flat_map (fun x => match x with TEv e => [e] | TCall _ => [] end) t.
Definition calls_of (t : list tev) : list call :=
  flat_map (fun x => match x with TEv _ => [] | TCall c => [c] end) t.
Definition total_wait (cs : list call) : N :=
  fold_right (fun c acc => N.add (wait_of (c_timeout c) (c_dur c)) acc) 0%N cs.

(** ** The same test case with every behaviour resolved, as a test case of [Exec]
    (used to transfer the theorems of C01 / C04; see Proofs/TimeoutSim.v). *)
Definition main_only (b : beh) : instr := fun k => match k with SMain => b | _ => BOk end.
Definition exec_only (b : beh) : instr := fun k => match k with SExecute => b | _ => BOk end.
Definition step_st (st : tstate) (i : tinstr) : tstate :=
  match i with
  | TSet v => TS v (s_stdin st)
  | TStdin d => TS (s_timeout st) (Some d)
  | _ => st
  end.
Definition spawn_beh (t : tmo) (ds : list N) : beh :=
  if existsb (expires t) ds then BHardRaise else BOk.
Definition beh_of (st : tstate) (i : tinstr) : beh :=
  match i with
  | TSpawn ds => spawn_beh (s_timeout st) ds
  | TPlain b => b
  | _ => BOk
  end.
Fixpoint lower_list (st : tstate) (is_ : list tinstr) : list instr :=
  match is_ with
  | [] => []
  | i :: is' => main_only (beh_of st i) :: lower_list (step_st st i) is'
  end.
Definition final_st (st : tstate) (is_ : list tinstr) : tstate := fold_left step_st is_ st.

Definition lower_with (stc : tstate) (tc : tcase) : testcase :=
  let st0 := TS (t_default tc) None in
  let st1 := final_st st0 (t_setup tc) in
  let st2 := final_st st1 (t_before_assert tc) in
  TC [] (lower_list st0 (t_setup tc))
     (exec_only (spawn_beh (s_timeout st1) (act_procs tc st1)))
     (lower_list st1 (t_before_assert tc))
     (lower_list st2 (t_assert tc))
     (lower_list stc (t_cleanup tc))
     TPass (t_act_only tc).
Definition lower (tc : tcase) : testcase := lower_with (cleanup_entry tc) tc.

(** The Exactly process around the execution ([World.execute_in_world]): is a sandbox directory
    left behind? *)
Definition world0 : world := W (DOther 0) [] [] 0.
Definition sandbox_left (keep : bool) (tc : tcase) : bool :=
  match w_roots (fst (fst (execute_in_world keep (lower tc) (fun _ => EffNone) world0))) with
  | [] => false
  | _ => true
  end.
