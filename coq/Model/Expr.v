(** * Model of the expression parser and of the evaluation of the standard combinators.

    Mirrors (function by function, branch by branch, same order of tests):
      - exactly_lib/impls/types/expression/parser.py      class [_Parser]:
          [parse], [parse_w_maybe_infix_ops], [parse_w_infix_ops], [parse_optional_infix_op_name],
          [infix_op_sequence_for_single_op], [parse_mandatory_primitive], [parse_primitive],
          [consume_optional_prefix_operator], [consume_optional_start_parentheses],
          [consume_mandatory_end_parentheses]; [_SimpleParserOnAnyLineParser], [_FullParserOnAnyLineParser],
          [parser_for_must_be_on_current_line]
      - exactly_lib/impls/types/expression/grammar.py     class [Grammar] (the operator tables)
      - exactly_lib/section_document/element_parsers/token_stream_parser.py
          [consume_optional_constant_string_that_must_be_unquoted_and_equal],
          [consume_mandatory_constant_string_that_must_be_unquoted_and_equal],
          [consume_mandatory_unquoted_string], [is_at_eol]
      - exactly_lib/impls/types/matcher/impls/combinator_matchers.py
          [Negation.matches_w_trace], [Conjunction.matches_w_trace], [Disjunction.matches_w_trace]
      - exactly_lib/impls/types/string_transformer/impl/sequence.py  [SequenceStringTransformer.transform]

    Token level: the input is the token sequence of [TokenStream] with the line ends that separate
    tokens made explicit ([TNL]); tokenisation itself is property C09.  A primitive together with its
    arguments is ONE word (the harness renders it on one line).

    Executable definitions ONLY (no proofs). *)
From Coq Require Import NArith List Bool.
Import ListNotations.
Local Open Scope N_scope.

(** ** Tokens *)
Inductive tok :=
| TW (quoted : bool) (w : N)   (* a token; [quoted]: its source starts with a quote character *)
| TNL.                         (* a line end between tokens *)

(** Words with a fixed meaning for the parser.  All other numbers: see [wclass]. *)
Definition W_LP : N := 0.   (* "(" *)
Definition W_RP : N := 1.   (* ")" *)
Definition W_NOT : N := 2.  (* "!" *)
Definition W_OR : N := 3.   (* "||" *)
Definition W_AND : N := 4.  (* "&&" *)
Definition W_PIPE : N := 5. (* "|" *)

(** How [_Parser.parse_primitive] treats a plain word that is read where a primitive is expected. *)
Inductive wclass :=
| WPrim       (* name of a primitive of the grammar (here: together with its arguments) *)
| WSym        (* a symbol name / symbol reference: [grammar.mk_reference] *)
| WReserved   (* a symbol name that is a custom reserved word of the grammar: error *)
| WJunk.      (* not a primitive and not a valid symbol name: error ("(", ")", operators, ...) *)

(** [Grammar]: [infix_ops_inc_precedence] (names per level, lowest precedence first),
    [prefix_operators] (names), and the classification of words. *)
Record grammar := Grammar {
  g_levels : list (list N);
  g_prefix : list N;
  g_class : N -> wclass }.

(** The classification used throughout (the harness chooses its words accordingly and checks the
    real grammar agrees): < 100 operators and parentheses, 100.. primitives, 200.. symbol names,
    300.. junk, 400.. reserved words. *)
Definition std_class (w : N) : wclass :=
  if w <? 100 then WJunk else if w <? 200 then WPrim else if w <? 300 then WSym
  else if w <? 400 then WJunk else WReserved.

(** standard_expression_grammar.new_grammar: prefix "!", levels ("||"), ("&&") *)
Definition matcher_grammar : grammar := Grammar [[W_OR]; [W_AND]] [W_NOT] std_class.
(** parse_string_transformer.GRAMMAR: no prefix operator, one level ("|") *)
Definition transformer_grammar : grammar := Grammar [[W_PIPE]] [] std_class.

(** ** Expressions: what [mk_expression] / [mk_reference] / [parse_arguments] build.
    An infix node carries the operand list exactly as the parser built it. *)
Inductive expr :=
| ELeaf (w : N)                    (* what parse_arguments / mk_reference returned for word [w] *)
| EPre (op : N) (e : expr)
| EInf (op : N) (es : list expr).

Inductive perr :=
| EMissingElement     (* require_is_not_at_eol *)
| ENoToken            (* token_stream.is_null where a token is mandatory *)
| EQuoted             (* a quoted token where an unquoted word is mandatory *)
| ENotClose           (* consume_mandatory_end_parentheses: head is not an accepted constant *)
| EUnknownPrimitive
| EReservedWord.

Inductive res (A : Type) :=
| Ok (a : A) (rest : list tok)
| Err (e : perr)
| OutOfFuel.
Arguments Ok {A} a rest.
Arguments Err {A} e.
Arguments OutOfFuel {A}.

(** ** TokenParser primitives *)
Fixpoint skip_nl (ts : list tok) : list tok :=
  match ts with TNL :: r => skip_nl r | _ => ts end.

(** [is_at_eol]: nothing but space remains on the current line *)
Definition at_eol (ts : list tok) : bool :=
  match ts with [] => true | TNL :: _ => true | TW _ _ :: _ => false end.

Definition mem (w : N) (l : list N) : bool := existsb (N.eqb w) l.

(** consume_optional_constant_string_that_must_be_unquoted_and_equal *)
Definition consume_opt (constants : list N) (must_be_on_current_line : bool) (ts : list tok)
  : option (N * list tok) :=
  match skip_nl ts with
  | [] => None                                                  (* token_stream.is_null *)
  | TNL :: _ => None                                            (* (not reachable) *)
  | TW q w :: r =>
      if must_be_on_current_line && at_eol ts then None
      else if q then None
      else if mem w constants then Some (w, r)
      else None
  end.

(** consume_mandatory_constant_string_that_must_be_unquoted_and_equal *)
Definition consume_mandatory_constant (constants : list N) (ts : list tok) : res N :=
  match skip_nl ts with
  | [] => Err ENoToken
  | TNL :: _ => Err ENoToken
  | TW q w :: r =>
      if q then Err EQuoted
      else if negb (mem w constants) then Err ENotClose
      else Ok w r
  end.

(** consume_mandatory_unquoted_string *)
Definition consume_mandatory_unquoted (must_be_on_current_line : bool) (ts : list tok) : res N :=
  match skip_nl ts with
  | [] => Err ENoToken
  | TNL :: _ => Err ENoToken
  | TW q w :: r =>
      if at_eol ts && must_be_on_current_line then Err ENoToken
      else if q then Err EQuoted
      else Ok w r
  end.

(** ** [new_line_ignore].  The Python parameter is declared [Optional[int]] but also receives the
    [bool] [new_line_ignore is None] for the next precedence level; a [bool] is identical ([is]) to
    none of [None], [_IS_INSIDE_PARENTHESES] (1), [_NEXT_EXPR_ON_ANY_LINE] (2). *)
Inductive nli := NNone | NInside | NNextAny | NBool (b : bool).
Definition is_none (m : nli) : bool := match m with NNone => true | _ => false end.
Definition is_inside (m : nli) : bool := match m with NInside => true | _ => false end.
Definition is_next_any (m : nli) : bool := match m with NNextAny => true | _ => false end.

Section Parser.
  Variable g : grammar.
  (** [strict_close = true]: the code as it is (since the repair, commit 24bf1ff) —
      [consume_mandatory_end_parentheses] accepts [[')']] only.
      [strict_close = false]: the code before the repair, which passed
      [[')'] + self._infix_op_names()] as the ACCEPTED constants; kept to document the regression
      (Props/C06.v, [C06_prefix_parse_sound_refuted]). *)
  Variable strict_close : bool.

  Definition closers : list N :=
    if strict_close then [W_RP] else W_RP :: concat (g_levels g).

  (** parse_primitive (arguments of a primitive are part of the word) *)
  Definition parse_primitive (w : N) (ts : list tok) : res expr :=
    match g_class g w with
    | WPrim => Ok (ELeaf w) ts       (* self.grammar.primitives[name].parse_arguments(self.parser) *)
    | WSym => Ok (ELeaf w) ts        (* self.grammar.mk_reference(name) *)
    | WJunk => Err EUnknownPrimitive
    | WReserved => Err EReservedWord
    end.

  Section Levels.
    (** [parse_mandatory_primitive] with the fuel that remains *)
    Variable prim : bool -> list tok -> res expr.
    (** fuel of the while-loops (every iteration consumes a token) *)
    Variable loop_fuel : nat.

    (** the [while] of infix_op_sequence_for_single_op *)
    Fixpoint seq_loop (n : nat) (operand : list tok -> res expr) (op : N) (is_inside_parens : bool)
             (operands : list expr) (ts : list tok) : res (list expr) :=
      match n with
      | O => OutOfFuel
      | S n' =>
          match consume_opt [op] (negb is_inside_parens) ts with
          | Some (_, ts1) =>
              match operand ts1 with
              | Ok e ts2 => seq_loop n' operand op is_inside_parens (operands ++ [e]) ts2
              | Err x => Err x
              | OutOfFuel => OutOfFuel
              end
          | None => Ok operands ts
          end
      end.

    (** infix_op_sequence_for_single_op; [operand] = parse_w_maybe_infix_ops(_NEXT_EXPR_ON_ANY_LINE, next levels) *)
    Definition infix_op_sequence (operand : list tok -> res expr) (op : N) (first_operand : expr)
               (is_inside_parens : bool) (ts : list tok) : res expr :=
      match operand ts with
      | Ok e ts1 =>
          match seq_loop loop_fuel operand op is_inside_parens [first_operand; e] ts1 with
          | Ok es ts2 => Ok (EInf op es) ts2
          | Err x => Err x
          | OutOfFuel => OutOfFuel
          end
      | Err x => Err x
      | OutOfFuel => OutOfFuel
      end.

    (** the [while infix_operator_name] of parse_w_infix_ops *)
    Fixpoint op_loop (n : nat) (operand : list tok -> res expr) (curr_level : list N) (m : nli)
             (expression : expr) (ts : list tok) : res expr :=
      match n with
      | O => OutOfFuel
      | S n' =>
          match consume_opt curr_level (is_none m) ts with
          | Some (op, ts1) =>
              match infix_op_sequence operand op expression (is_inside m) ts1 with
              | Ok e ts2 => op_loop n' operand curr_level m e ts2
              | Err x => Err x
              | OutOfFuel => OutOfFuel
              end
          | None => Ok expression ts
          end
      end.

    (** parse_w_maybe_infix_ops / parse_w_infix_ops *)
    Fixpoint parse_w_maybe_infix_ops (m : nli) (levels : list (list N)) (ts : list tok) : res expr :=
      match levels with
      | [] => prim (is_none m) ts
      | curr_level :: next_levels =>
          match parse_w_maybe_infix_ops (NBool (is_none m)) next_levels ts with
          | Ok expression ts1 =>
              let m' := if is_next_any m then NNone else m in
              op_loop loop_fuel (parse_w_maybe_infix_ops NNextAny next_levels) curr_level m' expression ts1
          | Err x => Err x
          | OutOfFuel => OutOfFuel
          end
      end.
  End Levels.

  (** parse_mandatory_primitive *)
  Fixpoint parse_mandatory_primitive (fuel : nat) (must_be_on_current_line : bool) (ts : list tok)
    : res expr :=
    match fuel with
    | O => OutOfFuel
    | S f =>
        if must_be_on_current_line && at_eol ts then Err EMissingElement
        else
          match consume_opt [W_LP] false ts with
          | Some (_, ts1) =>
              (* self.parse(_IS_INSIDE_PARENTHESES) *)
              match parse_w_maybe_infix_ops (parse_mandatory_primitive f) f NInside (g_levels g) ts1 with
              | Ok e ts2 =>
                  match consume_mandatory_constant closers ts2 with
                  | Ok _ ts3 => Ok e ts3
                  | Err x => Err x
                  | OutOfFuel => OutOfFuel
                  end
              | Err x => Err x
              | OutOfFuel => OutOfFuel
              end
          | None =>
              match consume_opt (g_prefix g) false ts with
              | Some (op, ts1) =>
                  match parse_mandatory_primitive f false ts1 with
                  | Ok e ts2 => Ok (EPre op e) ts2
                  | Err x => Err x
                  | OutOfFuel => OutOfFuel
                  end
              | None =>
                  match consume_mandatory_unquoted false ts with
                  | Ok w ts1 => parse_primitive w ts1
                  | Err x => Err x
                  | OutOfFuel => OutOfFuel
                  end
              end
          end
    end.

  (** [_Parser.parse(new_line_ignore)] with fuel *)
  Definition parse_levels (fuel : nat) (m : nli) (levels : list (list N)) (ts : list tok) : res expr :=
    parse_w_maybe_infix_ops (parse_mandatory_primitive fuel) fuel m levels ts.

  Definition fuel_for (ts : list tok) : nat := S (length ts).

  (** GrammarParsers.full / .simple, wrapped by parser_for_must_be_on_current_line *)
  Definition parse_full (must_be_on_current_line : bool) (ts : list tok) : res expr :=
    if must_be_on_current_line && at_eol ts then Err EMissingElement
    else parse_levels (fuel_for ts) NNextAny (g_levels g) ts.

  Definition parse_simple (must_be_on_current_line : bool) (ts : list tok) : res expr :=
    if must_be_on_current_line && at_eol ts then Err EMissingElement
    else parse_mandatory_primitive (fuel_for ts) false ts.
End Parser.

(** ** Evaluation of the standard matcher combinators, with the matching trace.
    A trace node: label (the operator word, or the leaf word), the value, the traces of the
    operands that were evaluated. *)
Inductive trace := TR (label : N) (value : bool) (children : list trace).
Definition tr_value (t : trace) : bool := match t with TR _ v _ => v end.

Section Eval.
  Variable leaf_value : N -> bool.

  (** the [for operand in self._operands] loop of Conjunction ([stop_on = false]) and
      Disjunction ([stop_on = true]): append the child trace, return as soon as the operand's value
      is [stop_on] *)
  Section Loop.
    Variable ev : expr -> trace.
    Fixpoint eval_loop (stop_on : bool) (es : list expr) (children : list trace) : bool * list trace :=
      match es with
      | [] => (negb stop_on, children)
      | e :: es' =>
          let t := ev e in
          let children' := children ++ [t] in
          if Bool.eqb (tr_value t) stop_on then (stop_on, children') else eval_loop stop_on es' children'
      end.
  End Loop.

  Fixpoint eval (e : expr) : trace :=
    match e with
    | ELeaf w => TR w (leaf_value w) []
    | EPre op e1 => let t := eval e1 in TR op (negb (tr_value t)) [t]
    | EInf op es =>
        let r := eval_loop eval (negb (op =? W_AND)) es [] in
        TR op (fst r) (snd r)
    end.
End Eval.

(** ** SequenceStringTransformer.  A leaf transformer is given by its function on texts and its
    [is_identity_transformer] flag; a sequence applies the non-identity operands in order. *)
Section Transform.
  Variable text : Type.
  Variable leaf_fun : N -> text -> text.
  Variable leaf_is_identity : N -> bool.

  Fixpoint t_is_identity (e : expr) : bool :=
    match e with
    | ELeaf w => leaf_is_identity w
    | EPre _ _ => false
    | EInf _ es => forallb t_is_identity es
    end.

  Fixpoint transform (e : expr) (x : text) : text :=
    match e with
    | ELeaf w => leaf_fun w x
    | EPre _ e1 => transform e1 x
    | EInf _ es =>
        fold_left (fun model t => if t_is_identity t then model else transform t model) es x
    end.
End Transform.
