(** * Model of symbol handling (property C08).

    Mirrors (same branches, same order):
      - execution/impl/symbol_validation.py          ([validate_symbol_usages], [_validate_symbol_definition],
                                                      [_validate_symbol_reference])
      - execution/partial_execution/impl/symbol_validation.py ([SymbolsValidator.validate]: ONE growing table
                                                      walked setup, act, before-assert, assert, cleanup)
      - execution/partial_execution/impl/executor.py (validation first; main steps see
                                                      [__post_sds_symbol_table] = builtins + the definitions
                                                      whose main step has run; the four cleanup policies)
      - util/symbol_table.py                         ([contains], [lookup] raising KeyError, [add]/[put])
      - type_val_deps/sym_ref/restrictions.py        ([ValueTypeRestriction])
      - type_val_deps/sym_ref/w_str_rend_restrictions/reference_restrictions.py
                                                     ([ReferenceRestrictionsOnDirectAndIndirect] with
                                                      [_check_indirect], [OrReferenceRestrictions])
      - type_val_deps/sym_ref/w_str_rend_restrictions/value_restrictions.py
                                                     ([ArbitraryValueWStrRenderingRestriction],
                                                      [PathAndRelativityRestriction])
      - impls/instructions/multi_phase/define_symbol/parser.py ([TheInstructionEmbryo]: usages = the
                                                      definition, main = [symbols.put])
      - type_val_deps/types/string_/string_sdv_impls.py, strings_ddvs.py (fragments; list joined by ' ')
      - type_val_deps/types/list_/list_sdv.py        (elements; a list-typed reference is spliced in)
      - type_val_deps/types/path/path_sdv_impls/*.py, path_ddvs.py, impls/types/path/parse_path.py
                                                     (the four kinds of path values)
    Python's [pathlib.PurePosixPath] (external library) is modelled by [pparse]/[pjoin]/[pstr].
    Executable definitions only. *)
From Coq Require Import List Bool Arith NArith.
From Exactly Require Import Model.Exec.
Import ListNotations.

Definition name := N.
Definition text := list N.

(** ** Types and restrictions *)
Inductive vtype :=
  TString | TPath | TList | TLineMatcher | TFileMatcher | TFilesMatcher | TStringMatcher | TIntegerMatcher
| TStringTransformer | TProgram | TFilesCondition | TStringSource | TFilesSource.
Inductive wstr := WString | WPath | WList.
Inductive rel := RCwd | RHdsCase | RHdsAct | RAct | RTmp | RResult.

Definition vtype_code (t : vtype) : nat :=
  match t with
  | TString => 0 | TPath => 1 | TList => 2 | TLineMatcher => 3 | TFileMatcher => 4 | TFilesMatcher => 5
  | TStringMatcher => 6 | TIntegerMatcher => 7 | TStringTransformer => 8 | TProgram => 9
  | TFilesCondition => 10 | TStringSource => 11 | TFilesSource => 12
  end.
Definition vtype_eqb (a b : vtype) : bool := Nat.eqb (vtype_code a) (vtype_code b).
Definition wstr_eqb (a b : wstr) : bool :=
  match a, b with WString, WString | WPath, WPath | WList, WList => true | _, _ => false end.
Definition rel_code (r : rel) : nat :=
  match r with RCwd => 0 | RHdsCase => 1 | RHdsAct => 2 | RAct => 3 | RTmp => 4 | RResult => 5 end.
Definition rel_eqb (a b : rel) : bool := Nat.eqb (rel_code a) (rel_code b).

(** [W_STR_RENDERING_TYPE_2_VALUE_TYPE] / [VALUE_TYPE_2_W_STR_RENDERING_TYPE] *)
Definition vtype_of_wstr (w : wstr) : vtype := match w with WString => TString | WPath => TPath | WList => TList end.
Definition wstr_of_vtype (t : vtype) : option wstr :=
  match t with TString => Some WString | TPath => Some WPath | TList => Some WList | _ => None end.

Inductive vrestr :=
| VArb (accepted : list wstr)                       (* ArbitraryValueWStrRenderingRestriction *)
| VPathRel (rels : list rel) (absolute : bool).     (* PathAndRelativityRestriction *)
Inductive restr :=
| RVT (expected : list vtype)                       (* ValueTypeRestriction *)
| RDI (direct : vrestr) (indirect : option vrestr)  (* ReferenceRestrictionsOnDirectAndIndirect *)
| ROr (parts : list (wstr * (vrestr * option vrestr))). (* OrReferenceRestrictions *)
Record ref := Ref { r_name : name; r_restr : restr }.

(** ** Values that depend on symbols *)
Inductive frag := FConst (t : text) | FSym (r : ref).
Inductive elem := EStr (fs : list frag) | ESym (r : ref).
Inductive psdv :=
| PConst (rl : option rel) (suffix : text)       (* PathConstantSdv: of_rel_option / absolute_file_name ([None]) *)
| PRelOpt (rl : rel) (suffix : list frag)        (* _PathSdvOfRelativityOptionAndSuffixSdv *)
| PRelSym (base : ref) (suffix : list frag)      (* PathSdvRelSymbol  (-rel SYMBOL) *)
| PRef (r : ref) (suffix : list frag) (default : rel).
                                                 (* SdvThatIsIdenticalToReferencedPathOrWithStringValueAsSuffix *)
Inductive sdv :=
| SStr (fs : list frag)
| SLst (es : list elem)
| SPth (p : psdv)
| SOther (refs : list ref).   (* matchers, transformers, programs, ...: only their references matter here *)
Record container := Cont { c_type : vtype; c_sdv : sdv }.

Definition frag_refs (f : frag) : list ref := match f with FConst _ => [] | FSym r => [r] end.
Definition frags_refs (fs : list frag) : list ref := flat_map frag_refs fs.
Definition elem_refs (e : elem) : list ref := match e with EStr fs => frags_refs fs | ESym r => [r] end.
Definition psdv_refs (p : psdv) : list ref :=
  match p with
  | PConst _ _ => []
  | PRelOpt _ s => frags_refs s
  | PRelSym b s => b :: frags_refs s
  | PRef r s _ => r :: frags_refs s
  end.
(** [sdv.references] *)
Definition sdv_refs (s : sdv) : list ref :=
  match s with
  | SStr fs => frags_refs fs
  | SLst es => flat_map elem_refs es
  | SPth p => psdv_refs p
  | SOther rs => rs
  end.

(** ** The symbol table (util/symbol_table.py): newest binding first *)
Definition table := list (name * container).
Fixpoint lookup (t : table) (n : name) : option container :=
  match t with
  | [] => None
  | (m, c) :: t' => if N.eqb m n then Some c else lookup t' n
  end.
Definition contains (t : table) (n : name) : bool := match lookup t n with Some _ => true | None => false end.
Definition put (t : table) (n : name) (c : container) : table := (n, c) :: t.

(** ** pathlib.PurePosixPath *)
Definition SLASH : N := 47%N.
Definition DOT : N := 46%N.
Definition SPACE : N := 32%N.
Fixpoint text_eqb (a b : text) : bool :=
  match a, b with
  | [], [] => true
  | x :: a', y :: b' => N.eqb x y && text_eqb a' b'
  | _, _ => false
  end.
(** split at every '/' *)
Fixpoint split_slash (cur : text) (t : text) : list text :=
  match t with
  | [] => [rev cur]
  | c :: t' => if N.eqb c SLASH then rev cur :: split_slash [] t' else split_slash (c :: cur) t'
  end.
Fixpoint leading_slashes (t : text) : nat :=
  match t with c :: t' => if N.eqb c SLASH then S (leading_slashes t') else 0 | [] => 0 end.
Fixpoint lstrip_slash (t : text) : text :=
  match t with c :: t' => if N.eqb c SLASH then lstrip_slash t' else t | [] => [] end.
Definition is_component (c : text) : bool := negb (text_eqb c []) && negb (text_eqb c [DOT]).
(** (root, components): root is 0, 1 or 2 slashes (exactly two leading slashes are kept by POSIX paths) *)
Definition ppath := (nat * list text)%type.
Definition pparse (t : text) : ppath :=
  (match leading_slashes t with 0 => 0 | 2 => 2 | _ => 1 end, filter is_component (split_slash [] t)).
Definition pjoin (a b : ppath) : ppath :=
  match fst b with 0 => (fst a, snd a ++ snd b) | _ => b end.
Fixpoint join_with (sep : text) (l : list text) : text :=
  match l with
  | [] => []
  | [x] => x
  | x :: l' => x ++ sep ++ join_with sep l'
  end.
Definition pstr (p : ppath) : text :=
  match fst p, snd p with
  | 0, [] => [DOT]
  | r, cs => repeat SLASH r ++ join_with [SLASH] cs
  end.
Definition starts_with_slash (t : text) : bool := match t with c :: _ => N.eqb c SLASH | [] => false end.

(** ** Resolution: [sdv.resolve(symbols)] followed by [value_of_any_dependency(tcds)] *)
Inductive xerr :=
| XKeyError (n : name)     (* SymbolTable.lookup: KeyError *)
| XFuel                    (* recursion bound of the model exhausted (theorems prove it unreachable) *)
| XNotData (n : name)      (* TypeError / AssertionError: the symbol is not a string, list or path *)
| XNotPath (n : name)      (* AssertionError in lookup_path *)
| XListAsPath (n : name)   (* ValueError: 'Impossible to convert a list to a path' *)
| XDirDep.                 (* DirDependencyError: value_when_no_dir_dependencies of a relative path *)
Inductive res (A : Type) := Ok (a : A) | Exn (e : xerr).
Arguments Ok {A} a.
Arguments Exn {A} e.
Definition bind {A B} (r : res A) (f : A -> res B) : res B := match r with Ok a => f a | Exn e => Exn e end.

(** resolved values; a path keeps its relativity and the suffixes stacked onto the root *)
Inductive value :=
| VStr (t : text)
| VLst (l : list text)
| VPth (rl : option rel) (suffixes : list text)
| VOpaque.

Section Resolve.
  Variable roots : rel -> text.   (* the directories of the test case (tcds); cwd = act directory *)

  (** [str(path.value_of_any_dependency(tcds))] *)
  Definition path_text (rl : option rel) (ss : list text) : text :=
    match rl with
    | Some r => pstr (fold_left pjoin (map pparse ss) (pparse (roots r)))
    | None => match ss with
              | [] => [DOT]
              | s :: ss' => pstr (fold_left pjoin (map pparse ss') (pparse s))
              end
    end.

  (** A fragment that is a symbol: StringDdvFragmentDdv / PathFragmentDdv / ListFragmentDdv.
      [nodep] = value_when_no_dir_dependencies. *)
  Definition value_as_text (nodep : bool) (n : name) (v : value) : res text :=
    match v with
    | VStr t => Ok t
    | VLst l => Ok (join_with [SPACE] l)
    | VPth rl ss => match rl with
                    | Some _ => if nodep then Exn XDirDep else Ok (path_text rl ss)
                    | None => Ok (path_text rl ss)
                    end
    | VOpaque => Exn (XNotData n)
    end.
  (** SymbolReferenceElementSdv.resolve *)
  Definition value_as_elements (nodep : bool) (n : name) (v : value) : res (list text) :=
    match v with
    | VStr t => Ok [t]
    | VLst l => Ok l
    | VPth rl ss => bind (value_as_text nodep n v) (fun t => Ok [t])
    | VOpaque => Exn (XNotData n)
    end.

  Section WithSym.
    Variable sym : name -> res value.   (* lookup + resolve of a referenced symbol *)
    Variable nodep : bool.

    Fixpoint str_of_frags (fs : list frag) : res text :=
      match fs with
      | [] => Ok []
      | FConst t :: fs' => bind (str_of_frags fs') (fun rest => Ok (t ++ rest))
      | FSym r :: fs' =>
          bind (sym (r_name r)) (fun v =>
          bind (value_as_text nodep (r_name r) v) (fun t =>
          bind (str_of_frags fs') (fun rest => Ok (t ++ rest))))
      end.

    Fixpoint elems_of (es : list elem) : res (list text) :=
      match es with
      | [] => Ok []
      | EStr fs :: es' => bind (str_of_frags fs) (fun t => bind (elems_of es') (fun rest => Ok (t :: rest)))
      | ESym r :: es' =>
          bind (sym (r_name r)) (fun v =>
          bind (value_as_elements nodep (r_name r) v) (fun l =>
          bind (elems_of es') (fun rest => Ok (l ++ rest))))
      end.

    Fixpoint touch_refs (rs : list ref) : res unit :=
      match rs with
      | [] => Ok tt
      | r :: rs' => bind (sym (r_name r)) (fun _ => touch_refs rs')
      end.
  End WithSym.

  (** [sym_str]: resolution of a referenced STRING symbol with value_when_no_dir_dependencies *)
  Definition path_of (sym : name -> res value) (sym_nodep : name -> res value) (nodep : bool) (p : psdv) : res value :=
    match p with
    | PConst rl s => Ok (VPth rl [s])
    | PRelOpt rl sfx => bind (str_of_frags sym nodep sfx) (fun s => Ok (VPth (Some rl) [s]))
    | PRelSym b sfx =>
        bind (sym (r_name b)) (fun v =>
        match v with
        | VPth rl ss =>
            bind (str_of_frags sym nodep sfx) (fun s =>
            Ok (match s with [] => VPth rl ss | _ => VPth rl (ss ++ [s]) end))
        | _ => Exn (XNotPath (r_name b))
        end)
    | PRef r sfx dflt =>
        bind (sym (r_name r)) (fun v =>
        match v with
        | VPth rl ss =>
            bind (str_of_frags sym nodep sfx) (fun s =>
            Ok (match s with [] => VPth rl ss | _ => VPth rl (ss ++ [lstrip_slash s]) end))
        | VStr _ =>
            bind (sym_nodep (r_name r)) (fun v' =>
            bind (value_as_text true (r_name r) v') (fun first =>
            bind (str_of_frags sym nodep sfx) (fun s =>
            let path_str := first ++ s in
            Ok (if starts_with_slash path_str then VPth None [path_str] else VPth (Some dflt) [path_str]))))
        | VLst _ => Exn (XListAsPath (r_name r))
        | VOpaque => Exn (XNotData (r_name r))
        end)
    end.

  (** [sdv.resolve]: [sym m n] = look up [n] and resolve it (m = value_when_no_dir_dependencies) *)
  Definition resolve_step (sym : bool -> name -> res value) (nodep : bool) (s : sdv) : res value :=
    match s with
    | SStr fs => bind (str_of_frags (sym nodep) nodep fs) (fun x => Ok (VStr x))
    | SLst es => bind (elems_of (sym nodep) nodep es) (fun l => Ok (VLst l))
    | SPth p => path_of (sym nodep) (sym true) nodep p
    | SOther rs => bind (touch_refs (sym nodep) rs) (fun _ => Ok VOpaque)
    end.

  (** One step of recursion through the table costs one unit of fuel. *)
  Fixpoint resolve (fuel : nat) (t : table) (nodep : bool) (s : sdv) {struct fuel} : res value :=
    match fuel with
    | O => Exn XFuel
    | S f =>
        resolve_step (fun (m : bool) (n : name) =>
                        match lookup t n with
                        | None => Exn (XKeyError n)
                        | Some c => resolve f t m (c_sdv c)
                        end) nodep s
    end.
End Resolve.

Definition fuel_of (t : table) : nat := S (S (length t)).

(** ** Restrictions *)
Inductive sat := Sat | Unsat | SatExn (e : xerr).

Section Restrictions.
  (** The relativity of a path is found by resolving it ([sdv.resolve(symbol_table).relativity()]); in the
      model resolution also renders directories, so the directories are a parameter here too (they do not
      influence the result for the references the parsers produce). *)
  Variable roots : rel -> text.

  (** value_restrictions.py *)
  Definition vrestr_sat (t : table) (v : vrestr) (c : container) : sat :=
    match v with
    | VArb acc => if existsb (fun w => vtype_eqb (c_type c) (vtype_of_wstr w)) acc then Sat else Unsat
    | VPathRel rels abs_ok =>
        match c_sdv c with
        | SPth p =>
            (* path = sdv.resolve(symbol_table); path.relativity() *)
            match resolve roots (fuel_of t) t false (SPth p) with
            | Ok (VPth (Some r) _) => if existsb (rel_eqb r) rels then Sat else Unsat
            | Ok (VPth None _) => if abs_ok then Sat else Unsat
            | Ok _ => SatExn XFuel
            | Exn e => SatExn e
            end
        | _ => Unsat
        end
    end.

  (** [_check_indirect]: depth first through [container.sdv.references] *)
  Fixpoint check_refs (t : table) (direct : container -> sat) (rec : list ref -> sat) (rs : list ref) : sat :=
    match rs with
    | [] => Sat
    | r :: rs' =>
        match lookup t (r_name r) with
        | None => SatExn (XKeyError (r_name r))
        | Some c =>
            match direct c with
            | Sat => match rec (sdv_refs (c_sdv c)) with
                     | Sat => check_refs t direct rec rs'
                     | other => other
                     end
            | other => other
            end
        end
    end.
  Fixpoint check_indirect (fuel : nat) (t : table) (v : vrestr) (rs : list ref) {struct fuel} : sat :=
    match fuel with
    | O => SatExn XFuel
    | S f => check_refs t (vrestr_sat t v) (check_indirect f t v) rs
    end.

  (** ReferenceRestrictionsOnDirectAndIndirect.is_satisfied_by *)
  Definition di_sat (t : table) (d : vrestr) (i : option vrestr) (c : container) : sat :=
    match vrestr_sat t d c with
    | Sat => match i with
             | None => Sat
             | Some iv => check_indirect (fuel_of t) t iv (sdv_refs (c_sdv c))
             end
    | other => other
    end.

  Fixpoint find_part (w : wstr) (parts : list (wstr * (vrestr * option vrestr))) : option (vrestr * option vrestr) :=
    match parts with
    | [] => None
    | (w', p) :: ps => if wstr_eqb w' w then Some p else find_part w ps
    end.

  Definition restr_sat (t : table) (r : restr) (c : container) : sat :=
    match r with
    | RVT expected => if existsb (vtype_eqb (c_type c)) expected then Sat else Unsat
    | RDI d i => di_sat t d i c
    | ROr parts =>
        match wstr_of_vtype (c_type c) with
        | None => Unsat
        | Some w => match find_part w parts with
                    | Some (d, i) => di_sat t d i c
                    | None => Unsat
                    end
        end
    end.

(** ** Validation of usages (execution/impl/symbol_validation.py) *)
Inductive verr :=
| VDuplicate (n : name)
| VUndefined (n : name)
| VRestriction (n : name)
| VExn (e : xerr).         (* an exception escapes: the executor reports INTERNAL_ERROR *)

Inductive usage := UDef (n : name) (c : container) | URef (r : ref).

Definition validate_ref (t : table) (r : ref) : option verr :=
  match lookup t (r_name r) with
  | None => Some (VUndefined (r_name r))
  | Some c => match restr_sat t (r_restr r) c with
              | Sat => None
              | Unsat => Some (VRestriction (r_name r))
              | SatExn e => Some (VExn e)
              end
  end.
Fixpoint validate_refs (t : table) (rs : list ref) : option verr :=
  match rs with
  | [] => None
  | r :: rs' => match validate_ref t r with Some e => Some e | None => validate_refs t rs' end
  end.
(** returns the (possibly grown) table, or the error *)
Definition validate_usage (t : table) (u : usage) : table + verr :=
  match u with
  | URef r => match validate_ref t r with Some e => inr e | None => inl t end
  | UDef n c =>
      if contains t n then inr (VDuplicate n)
      else match validate_refs t (sdv_refs (c_sdv c)) with
           | Some e => inr e
           | None => inl (put t n c)
           end
  end.
Fixpoint validate_usages (t : table) (us : list usage) : table + verr :=
  match us with
  | [] => inl t
  | u :: us' => match validate_usage t u with inr e => inr e | inl t' => validate_usages t' us' end
  end.

(** ** Instructions and test cases *)
Inductive instr :=
| IDef (n : name) (c : container)             (* def: usages = [the definition]; main = symbols.put *)
| IUse (refs : list ref) (vals : list sdv)    (* an instruction (or the act phase) with references; its main
                                                 step resolves every reference and the values [vals] (observed) *)
| IStop (hard : bool).                        (* an instruction without symbols whose main step fails:
                                                 HARD_ERROR, or FAIL (assertion) *)
Definition usages_of (i : instr) : list usage :=
  match i with
  | IDef n c => [UDef n c]
  | IUse refs _ => map URef refs
  | IStop _ => []
  end.

Record tcase := TCase {
  t_setup : list instr;
  t_act : list instr;
  t_before_assert : list instr;
  t_assert : list instr;
  t_cleanup : list instr }.

Definition t_instrs (tc : tcase) (p : phase) : list instr :=
  match p with
  | Conf => []
  | Setup => t_setup tc
  | Act => t_act tc
  | BeforeAssert => t_before_assert tc
  | Assert => t_assert tc
  | Cleanup => t_cleanup tc
  end.

(** run_instructions_phase_step with ValidateSymbolsExecutor: stop at the first instruction that fails *)
Fixpoint validate_phase (t : table) (idx : nat) (is_ : list instr) : table + (nat * verr) :=
  match is_ with
  | [] => inl t
  | i :: is' => match validate_usages t (usages_of i) with
                | inr e => inr (idx, e)
                | inl t' => validate_phase t' (S idx) is'
                end
  end.
(** SymbolsValidator.validate: the order of the phases *)
Definition validation_order : list phase := [Setup; Act; BeforeAssert; Assert; Cleanup].
Fixpoint validate_phases (tc : tcase) (t : table) (ps : list phase) : table + (phase * nat * verr) :=
  match ps with
  | [] => inl t
  | p :: ps' => match validate_phase t 0 (t_instrs tc p) with
                | inr (i, e) => inr (p, i, e)
                | inl t' => validate_phases tc t' ps'
                end
  end.
Definition validate_all (builtins : table) (tc : tcase) : table + (phase * nat * verr) :=
  validate_phases tc builtins validation_order.
End Restrictions.

(** ** Execution of the main steps *)
Inductive mfail := MFail | MHard | MInternal (e : xerr).
Definition observation := (phase * nat * list text)%type.   (* the values an instruction resolved *)

Fixpoint resolve_vals (roots : rel -> text) (rt : table) (n : name) (vs : list sdv) : res (list text) :=
  match vs with
  | [] => Ok []
  | v :: vs' =>
      bind (resolve roots (fuel_of rt) rt false v) (fun x =>
      bind (match x with VOpaque => Ok [] | _ => value_as_elements roots false n x end) (fun ts =>
      bind (resolve_vals roots rt n vs') (fun rest => Ok (ts ++ rest))))
  end.

(** One phase's main step over the execution-time table [rt]; stops at the first failure. *)
Fixpoint run_main (roots : rel -> text) (p : phase) (rt : table) (idx : nat) (is_ : list instr)
  : table * option (nat * mfail) * list observation :=
  match is_ with
  | [] => (rt, None, [])
  | i :: is' =>
      match i with
      | IDef n c =>
          let '(rt', f, o) := run_main roots p (put rt n c) (S idx) is' in (rt', f, o)
      | IUse refs vals =>
          match resolve roots (fuel_of rt) rt false (SOther refs) with
          | Exn e => (rt, Some (idx, MInternal e), [])
          | Ok _ =>
              match resolve_vals roots rt 0%N vals with
              | Exn e => (rt, Some (idx, MInternal e), [])
              | Ok ts =>
                  let '(rt', f, o) := run_main roots p rt (S idx) is' in
                  (rt', f, match vals with [] => o | _ => (p, idx, ts) :: o end)
              end
          end
      | IStop hard => (rt, Some (idx, if hard then MHard else MFail), [])
      end
  end.

Inductive verdict := VdValidation | VdPass | VdFail | VdHard | VdInternal.
Definition verdict_of_mfail (f : mfail) : verdict :=
  match f with MFail => VdFail | MHard => VdHard | MInternal _ => VdInternal end.

Record outcome := Outcome {
  o_verdict : verdict;
  o_failing : option (phase * nat);      (* the instruction the failure is attributed to *)
  o_sandbox : bool;                      (* was the sandbox created, i.e. did execution begin *)
  o_values : list observation }.

(** the table after the main steps of the definitions among [is_] *)
Fixpoint puts (t : table) (is_ : list instr) : table :=
  match is_ with
  | [] => t
  | IDef n c :: is' => puts (put t n c) is'
  | _ :: is' => puts t is'
  end.

(** _PartialExecutor.execute restricted to symbol validation and the main steps.
    [repaired = false] is the executor as it is: [cleanup] sees the execution-time table as the earlier
    phases left it.  [repaired = true] describes the behaviour the property demands where the two
    differ (known finding KF-C08-1): [cleanup] sees every definition of the earlier phases. *)
Definition sym_execute_gen (repaired : bool) (roots : rel -> text) (builtins : table) (tc : tcase) : outcome :=
  match validate_all roots builtins tc with
  | inr (p, i, e) =>
      Outcome (match e with VExn _ => VdInternal | _ => VdValidation end) (Some (p, i)) false []
  | inl _ =>
      let cleanup rt :=
        run_main roots Cleanup
                 (if repaired
                  then puts builtins (t_setup tc ++ t_act tc ++ t_before_assert tc ++ t_assert tc)
                  else rt) 0 (t_cleanup tc) in
      let '(rt1, f1, o1) := run_main roots Setup builtins 0 (t_setup tc) in
      match f1 with
      | Some (i, f) =>
          (* _sequence_with_cleanup: a failure of cleanup replaces the failure *)
          let '(_, fc, oc) := cleanup rt1 in
          match fc with
          | Some (j, f') => Outcome (verdict_of_mfail f') (Some (Cleanup, j)) true (o1 ++ oc)
          | None => Outcome (verdict_of_mfail f) (Some (Setup, i)) true (o1 ++ oc)
          end
      | None =>
          let '(rt2, f2, o2) := run_main roots Act rt1 0 (t_act tc) in
          match f2 with
          | Some (i, f) =>
              let '(_, fc, oc) := cleanup rt2 in
              match fc with
              | Some (j, f') => Outcome (verdict_of_mfail f') (Some (Cleanup, j)) true (o1 ++ o2 ++ oc)
              | None => Outcome (verdict_of_mfail f) (Some (Act, i)) true (o1 ++ o2 ++ oc)
              end
          | None =>
              let '(rt3, f3, o3) := run_main roots BeforeAssert rt2 0 (t_before_assert tc) in
              match f3 with
              | Some (i, f) =>
                  (* _continue_from_before_assert: a failure of cleanup is swallowed *)
                  let '(_, _, oc) := cleanup rt3 in
                  Outcome (verdict_of_mfail f) (Some (BeforeAssert, i)) true (o1 ++ o2 ++ o3 ++ oc)
              | None =>
                  let '(rt4, f4, o4) := run_main roots Assert rt3 0 (t_assert tc) in
                  (* _finish_with_cleanup_phase: a failure of cleanup wins *)
                  let '(_, fc, oc) := cleanup rt4 in
                  let vals := o1 ++ o2 ++ o3 ++ o4 ++ oc in
                  match fc with
                  | Some (j, f') => Outcome (verdict_of_mfail f') (Some (Cleanup, j)) true vals
                  | None =>
                      match f4 with
                      | Some (i, f) => Outcome (verdict_of_mfail f) (Some (Assert, i)) true vals
                      | None => Outcome VdPass None true vals
                      end
                  end
              end
          end
      end
  end.

Definition sym_execute : (rel -> text) -> table -> tcase -> outcome := sym_execute_gen false.

(** ** File layout: sections in any order, a phase may be split over several sections
    (section_document: the contents of the sections of one phase are concatenated in file order) *)
Definition layout := list (phase * list instr).
Definition phase_eqb' (a b : phase) : bool :=
  match a, b with
  | Conf, Conf | Setup, Setup | Act, Act | BeforeAssert, BeforeAssert | Assert, Assert | Cleanup, Cleanup => true
  | _, _ => false
  end.
Definition section_contents (l : layout) (p : phase) : list instr :=
  flat_map (fun s => if phase_eqb' (fst s) p then snd s else []) l.
Definition assemble (l : layout) : tcase :=
  TCase (section_contents l Setup) (section_contents l Act) (section_contents l BeforeAssert)
        (section_contents l Assert) (section_contents l Cleanup).
